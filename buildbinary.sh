#!/bin/bash
# Builds the real ps3netsrv-go binary from /repo's current working tree (for the black-box streams).
set -e
export GOFLAGS=-mod=mod GOPROXY=off GOSUMDB=off GOTOOLCHAIN=local CGO_ENABLED=0
mkdir -p /verif/.build; rm -f /verif/.build/ps3netsrv-go
cd /repo && go build -o /verif/.build/ps3netsrv-go ./cmd/ps3netsrv-go
