#!/bin/bash
# Builds the real ps3netsrv-go binary from /repo's current working tree (for the black-box streams).
set -e
export GOFLAGS=-mod=mod GOPROXY=off GOSUMDB=off GOTOOLCHAIN=local CGO_ENABLED=0
V=$(cd "$(dirname "$0")" && pwd); REPO=${VERIF_REPO:-/repo}
mkdir -p $V/.build
cd $REPO && go build -o $V/.build/ps3netsrv-go.new.$$ ./cmd/ps3netsrv-go
mv -f $V/.build/ps3netsrv-go.new.$$ $V/.build/ps3netsrv-go
