#!/bin/bash
# Builds the Go harness as a package of /repo's own module from /repo's current working tree,
# hook-free, via `go build -overlay` (nothing is written under /repo).
set -e
export GOFLAGS=-mod=mod GOPROXY=off GOSUMDB=off GOTOOLCHAIN=local CGO_ENABLED=${CGO_ENABLED:-0}
V=$(cd "$(dirname "$0")" && pwd); B=$V/.build; mkdir -p $B
REPO=${VERIF_REPO:-/repo}
cp $REPO/go.mod $B/go.mod; cp $REPO/go.sum $B/go.sum
python3 - <<PY
import json,glob,os
rep={"$REPO/go.mod":"$B/go.mod","$REPO/go.sum":"$B/go.sum"}
for f in glob.glob("$V/harness/*.go"):
    rep["$REPO/cmd/verifharness/"+os.path.basename(f)]=f
json.dump({"Replace":rep},open("$B/overlay.json","w"),indent=1)
PY
rm -f $B/verifharness
cd $REPO && go build -tags verif -overlay $B/overlay.json "$@" -o $B/verifharness ./cmd/verifharness
