#!/bin/bash
# Builds the Go harness as a package of /repo's own module from /repo's current working tree,
# hook-free, via `go build -overlay` (nothing is written under /repo).
set -e
export GOFLAGS=-mod=mod GOPROXY=off GOSUMDB=off GOTOOLCHAIN=local CGO_ENABLED=${CGO_ENABLED:-0}
V=$(cd "$(dirname "$0")" && pwd); B=$V/.build; mkdir -p $B
REPO=${VERIF_REPO:-/repo}
cp $REPO/go.mod $B/go.mod; cp $REPO/go.sum $B/go.sum
python3 - <<PY
import json,glob,os
rep={"$REPO/go.mod":"$B/go.mod","$REPO/go.sum":"$B/go.sum"}
for f in glob.glob("$V/harness/*.go"):
    rep["$REPO/cmd/verifharness/"+os.path.basename(f)]=f
json.dump({"Replace":rep},open("$B/overlay.json","w"),indent=1)
PY
# the race-enabled build gets its own name; both are moved into place atomically, so that a check
# running in parallel never finds the binary missing or half-written
OUT=$B/verifharness
case " $* " in *" -race "*) OUT=$B/verifharness-race;; esac
cd $REPO && go build -tags verif -overlay $B/overlay.json "$@" -o $OUT.new.$$ ./cmd/verifharness
mv -f $OUT.new.$$ $OUT
