"""Per-property configuration of ./check: Lean modules holding the property theorems, the
correspondence streams (harness stream name = vmodel tag), evidence texts."""

BAD_OBS = r"leak=[1-9]|leak=-1|out=[1-9]|OUTSIDE-CHANGED|!STRAY|!BADLEN|!BADCOUNT|!WRITEHANG|=T:"

_CONN_ASSUME = ["OS filesystem: lexical resolution of '..'-free absolute paths; getdents order stable for an unchanged directory",
                "Go runtime/stdlib (encoding/binary, io.CopyBuffer/LimitReader, bytes.Buffer, path/filepath) and afero BasePathFs/Walk modelled from their source",
                "harness: in-memory duplex connection (two io.Pipes) instead of TCP; atime/ctime and 'now' timestamps are masked, READ_DIR compared as a multiset"]

PROPS = {
 "C01": {
  "props_modules": ["Ps3.Props.C01"],
  "streams": [{"name": "c01", "bad_obs": BAD_OBS}, {"name": "c01p"}, {"name": "c05", "bad_obs": BAD_OBS}],
  "rule": "c01: every one of the 8 path-carrying opcodes x hostile path strings (fixed escapes + random walks over {.., ., '', sibling-with-root-prefix, NUL, 255-byte, names of the tree}) x writing on/off x with/without prior history; "
          "each session is run twice with different worlds OUTSIDE the root (oracle = twin run) and the recorder under BasePathFs counts OS paths outside the root; non-trivial = path contains '..', NUL or is over-long. "
          "c01p: filepath.Clean('/'+p) and BasePathFs.RealPath vs the Lean PathStr model on random component strings x 8 root spellings; fixed escapes include a NUL glued to a dot-dot element (a name to Clean, never a way up)",
  "assumptions": _CONN_ASSUME + ["symlinks inside the root are followed by design (outside the claim)", "Windows path semantics not modelled"],
 },
 "C02": {
  "props_modules": ["Ps3.Props.C02"],
  "race_always": True,
  "streams": [{"name": "c02", "bad_obs": BAD_OBS}, {"name": "c10", "bad_obs": BAD_OBS}, {"name": "c13"}, {"name": "c12", "bad_obs": BAD_OBS}],
  "rule": "files of boundary sizes (0,1,2047..2049,65535..65537,…, sparse files past 4 GiB with marker bytes) x OPEN_FILE then 1-6 READ_FILE / READ_FILE_CRITICAL with (offset,limit) from structural boundaries incl. offset>=size, limit 0, crossing EOF, interleaved with other requests; "
          "oracle = the harness's own copy of the content; distinct = (size, request list); the third kind of served object, the decrypting view, is covered by running the c10 stream here as well (aligned and unaligned reads of encrypted images against the crypto/aes reference); "
          "'a read that cannot be satisfied ends the connection after at most a correct prefix' is exercised under I/O faults by running the c13 stream here too (a fault at every filesystem operation of sessions over plain files, generated and encrypted images: never altered or unannounced bytes); and under concurrency by the c12 stream with the race detector (several connections transferring at the same moment: each receives its own bytes)",
  "assumptions": _CONN_ASSUME + ["Content.read (pattern + overlays spliced) is the model's notion of 'the stored bytes'; tied to the real files byte-for-byte by the differential"],
 },
 "C03": {
  "props_modules": ["Ps3.Props.C03"],
  "streams": [{"name": "c03", "bad_obs": BAD_OBS}, {"name": "conn", "bad_obs": BAD_OBS}],
  "rule": "c03: raw byte streams = valid request sequences cut at/around every request boundary and inside commands/paths/payloads, unknown opcodes spliced in, short WRITE payloads, garbage, lying path lengths; observable = all bytes sent by the server + exact number of request bytes consumed + final tree; every second stream is delivered in random small pieces (one Write each: commands, paths and payloads arrive fragmented as over a real network). "
          "conn: random lockstep sessions over all 15 opcodes in all state combinations (dir open/exhausted, ro file, wo file, writing on/off), every response compared; distinct = (tree, request list)",
  "assumptions": _CONN_ASSUME,
 },
 "C05": {
  "props_modules": ["Ps3.Props.C05"],
  "race_always": True,
  "streams": [{"name": "c05", "bad_obs": BAD_OBS}, {"name": "c12", "bad_obs": BAD_OBS}],
  "rule": "read-only servers bombarded with mutating requests (full before/after snapshot of the root: names, kinds, sizes, content hashes, mtimes) and write-enabled upload sessions (CREATE new/existing/nested/virtual/impossible targets, 0-4 WRITE chunks of 0..140000 bytes, read back through the server, MKDIR/RMDIR/DELETE incl. wrong-kind targets); distinct = session; the concurrent c12 stream runs here as well, under the race detector (uploads of several connections at the same moment into private subtrees: exactly the uploaded bytes)",
  "assumptions": _CONN_ASSUME + ["the switch itself (flag/env/ini) is C19's"],
 },
 "C06": {
  "props_modules": ["Ps3.Props.C06"],
  "streams": [{"name": "c06", "bad_obs": BAD_OBS}],
  "rule": "generated trees (nested, 255-byte and non-ASCII names, symlinks to files/dirs/nothing, a directory with hundreds/thousands of entries) x {bulk listing twice, entry-by-entry v1/v2 until past the end with interleaved STATs, STAT + GET_DIR_SIZE of every kind of path}, enumerations interleaved with file opens, the reserved path /CLOSEFILE and failing opens; dedicated cases: directories with the setgid/sticky bit, links that do not resolve (to themselves, through a regular file, in pairs), link cycles through directories, a directory just short of PATH_MAX holding entries beyond it (one of them the witness of the open finding C06-path-max); oracle = the harness's own stat walk of the tree it built (for objects beyond PATH_MAX: the tree itself)",
  "assumptions": _CONN_ASSUME,
 },
 "C07": {
  "props_modules": ["Ps3.Props.C07", "Ps3.Props.C07b"],
  "streams": [{"name": "viso", "bad_obs": r"valid=(?!ok)|tree=(?!ok)|PANIC|wf=0|NEGATIVE-SIZE"}],
  "rule": "generated trees (nested dirs, boundary file sizes, empty files, dirs with 30-90 entries, 255-byte/non-ASCII/colliding names, symlinks; sparse files of 4 GiB-2 KiB .. 9 GiB; trees around the 2^31-1-sector limit of the format: one sparse file of 4 TiB minus 100..200 sectors on either side of the limit, 4/5/8 TiB files, two 2.5 TiB files whose sum wraps int32, which must be refused at open or be a correct image up to the last sector) x both modes; "
          "the image is read through the library view and (a) compared byte-exactly (masked) with the Lean model's image, (b) decoded by an independent ISO 9660/Joliet reader and compared with the generated tree in both hierarchies incl. file bytes at structural offsets",
  "assumptions": ["file content 'Content' (pattern + overlays) tied to the real files by the differential", "TZ=UTC for recording timestamps",
                  "the theorems hold for every image `build` returns (build_wf: every built image is well-formed); WF is additionally evaluated (wfB, proved sound) on the model's image of every explored tree"],
 },
 "C08": {
  "props_modules": ["Ps3.Props.C08", "Ps3.Props.C08b", "Ps3.Props.C08c", "Ps3.Props.C08d"],
  "streams": [{"name": "viso", "bad_obs": r"valid=(?!ok)|tree=(?!ok)|PANIC|wf=0|NEGATIVE-SIZE"}],
  "rule": "same runs as C07; the implementation's image is checked by a strict validator written from ECMA-119/Joliet (sizes, descriptors, both-endian fields, record lengths, no straddling, ./.. and child links, L/M path tables, extents inside and disjoint, zero padding); well-formed PARAM.SFO files with any key order/entry count for PS3 mode",
  "assumptions": ["validator anchored on the third-party image internal/testutil/testdata/testimg.iso", "duplicate identifiers after mapping are not flagged (not demanded by the property)"],
 },
 "C09": {
  "props_modules": ["Ps3.Props.C09"],
  "streams": [{"name": "viso", "bad_obs": r"PANIC|wf=0"}],
  "rule": "per generated image 25 (quick) / 60 (thorough) operations over {ReadAt(n,off), Read(n), Seek(off,whence)} with n in {0,1,2,100,2047..2049,4096,65536,70000,100000} and offsets at structural boundaries (file starts/ends/padded ends, directory extents, descriptor area, pad area, end) +-{1,2047,2048,2049} and beyond the end; plus one full sequential read; every (n, error class, bytes) compared with the model",
  "assumptions": ["WF hypothesis as for C07"],
 },
 "C18": {
  "props_modules": ["Ps3.Props.C18"],
  "streams": [{"name": "viso", "bad_obs": r"again=(?!same)"}],
  "rule": "every image of the viso runs is built again after a delay and concurrently from two goroutines and compared masked (volume timestamps, PS3 filler) with the first; the model is built with clock 0 and empty filler, so any other time/randomness dependence shows as a model mismatch",
  "assumptions": ["directory enumeration order of an unchanged directory is stable (OS)"],
 },
 "C10": {
  "props_modules": ["Ps3.Props.C10"],
  "streams": [{"name": "c10", "bad_obs": BAD_OBS}],
  "rule": "encrypted images (8..1100 sectors, also not a whole number of sectors) with random disc keys and region tables: 2..6 or 255 regions, adjacent regions, gap from sector 1, gap up to the last sector, regions/gaps beyond the file, borders at and above 2^31 and up to 2^32-1, and invalid tables (one region, first not at 0, overlapping, empty); served from PS3ISO with a .dkey (4 spellings); 12 READ_FILE/READ_FILE_CRITICAL per image at region/sector/table borders +-{1,15,16,17,1000,2047,2048} with lengths 0..70000; oracle = reference decryptor on crypto/aes written from the format description",
  "assumptions": ["AES-128 itself is not verified: theorems are parametric in the sector cipher D; the executable AES of Base/Aes.lean (FIPS-197/SP800-38A vectors checked at build) is tied to crypto/aes by the differential",
                  "partial trailing sector of a truncated image is left as stored (cannot be decrypted)"] + _CONN_ASSUME,
 },
 "C11": {
  "props_modules": ["Ps3.Props.C11"],
  "streams": [{"name": "c11", "bad_obs": BAD_OBS}, {"name": "c10", "bad_obs": BAD_OBS}],
  "rule": "the product {PS3ISO,ps3iso,Ps3IsO,GAMES,PS3ISO2} x {.iso,.ISO,.IsO,.bin,.iso.bak,none} x {no key, adjacent, REDKEY, both (different keys), malformed adjacent (+valid REDKEY), malformed REDKEY, short adjacent, directory as key file, REDKEY being a regular file, 255-byte image name whose key name cannot exist} x {no, encrypted, decrypted watermark} x lengths {0xF7F,0xF80,0xF8F,0xF90,0x1000,0x106f,0x1070,0x1071,0x3000,0x8800} with as much of the watermark and key as fits (9000 layouts, nested or not) x 11 reads overlapping 0xF70..0x1070; quick samples 12%, thorough enumerates all; oracle = the harness's own decision table + reference transformation; "
          "the c10 stream runs here as well: library access patterns through the decrypting and masking views, and every such image opened read-write (O_RDWR) through FS.OpenFile must read as stored ('every file opened for writing is passed through byte-identically')",
  "assumptions": ["'any case' = Go strings.ToLower equality"] + _CONN_ASSUME,
 },
 "C20": {
  "props_modules": ["Ps3.Props.C20"],
  "needs_binary": True,
  "streams": [{"name": "c20", "bad_obs": BAD_OBS + r"|CLOBBERED|CRASH|STDOUT-NOT-EMPTY|partial-output|exit=timeout"}],
  "rule": "the REAL binary: make-iso on generated trees (both modes, incl. unusable TITLE_ID) and decrypt redump/3k3y on generated encrypted images (valid and invalid tables, already-decrypted 3k3y) x output to a new path, to '-', to an existing file, to an existing directory; output bytes compared with the Lean model's image / plaintext and the crypto/aes reference; pre/post state of pre-existing targets; the decrypted output is then served from /PS3ISO and from /other and read back",
  "assumptions": ["TOCTOU window between the existence test and the open of the output file is outside the model", "kong's argument handling (existingdir, *os.File) is trusted"] + _CONN_ASSUME,
 },
 "C04": {
  "props_modules": ["Ps3.Props.C04"],
  "needs_binary": True,
  "streams": [{"name": "c04", "bad_obs": BAD_OBS + r"|proc=0|alive=0|by=bad|exit=(?!clean)|mem=(?!ok)|fifo=(?!refused)|open=(?!refused)|tool=(?!error-exit)|served=false|served=short|served=open-failed|PANIC|CRASH", "timeout_quick": 400, "timeout_thorough": 3000},
              {"name": "c03", "bad_obs": BAD_OBS}, {"name": "viso"}],
  "rule": "c04: (A) hostile worlds served in-process and predicted response by response by the Lean model: PARAM.SFO wrong in 12 specific ways (truncated, bad magic, counts/offsets/lengths of 0, 2^31, 2^32-1, keys without terminator, bit flips) x TITLE_IDs of 0..40 bytes, region tables wrong in 9 ways (counts 0/1/256/2^32-1, truncated, overlapping, beyond the file, 255 regions) x 6 key-file situations, truncated 3k3y areas, names of 255 bytes / invalid UTF-8 / control characters, read geometries around every boundary incl. offsets >= 2^63 and lengths 2^32-1; "
          "(B) the REAL binary on such a root under hostile byte streams (random, mutated valid sessions, extreme fields, structure-aware opens of every hostile object through every view, floods of 30 concurrent clients): after each the process must run, a fresh connection must be served, a bystander connection must still receive its exact bytes; "
          "(C) the REAL binary's make-iso / decrypt on every hostile input: a normal exit, never a crash; (D) descriptor exhaustion (ulimit -n 40/100, 3x as many clients) and READ_FILE lengths of 512 MiB..2 GiB x 3..6 clients with the peak RSS of the process bounded; a game whose PARAM.SFO is a 1..3 GiB sparse file declaring a 4 GiB TITLE_ID opened as /***PS3***/ image, peak RSS bounded; the real binary started with --buffer-size=0, 1, 4097 and 3M transfers a file (bytes, process, accept loop). "
          "c03: raw byte sessions with cuts at every boundary against the model; viso: read geometries of generated images, the model's checked read (readC) must not fault and must equal Image.read",
  "assumptions": ["process survival, accepting, memory and descriptor behaviour are runtime behaviour: observed on the real binary, not proved",
                  "the checked transcriptions in Model/Checked.lean are hand-written from the Go source; they are tied by the differential (a panic of the real code where the model has no fault is reported with the input)",
                  "panics inside dependencies (afero, kong, x/text, stdlib) and stack or memory exhaustion are outside the model"] + _CONN_ASSUME,
 },
 "C19": {
  "props_modules": ["Ps3.Props.C19"],
  "needs_binary": True,
  "streams": [{"name": "c19", "bad_obs": r"not-listening|dial-failed|starterr", "timeout_quick": 300, "timeout_thorough": 1500}],
  "rule": "the REAL binary started in a fresh world (own HOME/XDG_CONFIG_HOME, own cwd, free ports; every second run that needs no user configuration directory is started without HOME and XDG_CONFIG_HOME at all): each of the 9 settings given through each of the 6 channels (flag, PS3NETSRV_* variable, --config file, PS3NETSRV_CONFIG_FILE file, ./config.ini, user config dir) alone, every ordered pair of channels with different values, malformed values in every channel (also overridden by a flag), random multi-setting mixes; the effective value is OBSERVED from behaviour (which port answers, which root is served, whether a write lands, whether a non-whitelisted client is dropped, the second-client limit, the idle cut, debug lines, JSON log shape, the debug server port) and compared with the Lean model `effective`",
  "assumptions": ["KongSem: kong v1.8.1's Parse pipeline (Reset decodes env, command-line flags win, resolvers asked in order with the last one winning) is transcribed from its source, tied by this differential only",
                  "values are abstracted to two valid tags and one malformed one per setting"],
 },
 "C12": {
  "props_modules": ["Ps3.Props.C12"],
  "race_thorough": True,
  "race_always": True,
  "streams": [{"name": "c12", "bad_obs": BAD_OBS}],
  "rule": "rounds of 2/4/8 (thorough: up to 64) clients running random sessions CONCURRENTLY against one server (shared plain files, the same generated image, an encrypted image, private writable subtrees), GOMAXPROCS cycled through 1,2,4,16; every client's full response stream is compared with the sequential model's prediction for that client alone; handle ledger after all clients finished. thorough: the harness and the server code are built with -race and any race report is a violation; every round starts with clients that abort a 2 MiB download in the middle (the copier's error path); a last round is an open storm: four clients re-opening an encrypted 3k3y image (key read out of the image at every open) and reading inside an encrypted region against four clients opening other files, on one scheduler thread over a file system that yields at every call, without the recorder and with a silent log handler (their mutexes would order the connections and hide sharing from the race detector)",
  "assumptions": ["data-race freedom in Go's memory model and the scheduler are runtime behaviour: observed (race detector in the thorough tier), not proved",
                  "sessions avoid enumerating directories they mutate (OS enumeration order after a change is not modelled)"] + _CONN_ASSUME,
 },
 "C13": {
  "props_modules": ["Ps3.Props.C13"],
  "streams": [{"name": "c13"}, {"name": "conn", "bad_obs": BAD_OBS}],
  "rule": "9 scenarios (plain file, generated image with lazily opened member files, encrypted image with the key under REDKEY / beside the image / in both places (different keys), 3k3y image, CD image whose sector size is probed at open + READ_CD, enumeration + dir-size, upload) x ONE fault (error / short read / bytes-with-error) at every filesystem operation index of the session (recorder under BasePathFs), and random PAIRS of faults up to 5 operations apart (10 per scenario, thorough 150), each judged by the Lean predicate Spec.C13.judge against the fault-free run: handles all released, server still serving, every response equal to the fault-free one, or the failure code, or a correct prefix then close, or still-correct listing data (a directory size has no such form: exact or -1); after an OPEN_FILE answered with the failure code nothing may be served; short reads must change nothing. "
          "Plus every scenario cut at every request index by an abrupt close in the middle of a command (ledger must drain). conn: random sessions, ledger must be empty after each",
  "assumptions": ["the recorder is the ledger of the real code (open/close of every afero.File under the handler)", "goroutine termination is observed through the ledger draining and a fresh-connection probe, not proved",
                  "timeouts and resets of a real TCP connection reach the same exit path (deferred Context.Close) as the in-memory close used here"] + _CONN_ASSUME,
 },
 "C14": {
  "props_modules": ["Ps3.Props.C14"],
  "streams": [{"name": "c14"}],
  "rule": "specs generated from the documented grammar and its near misses x 12 probe addresses (block borders +-2, "
          "random interior/exterior, 4- and 16-byte forms); non-trivial = accepted by the oracle; distinct = distinct spec string",
  "assumptions": ["net/netip address parsing and strconv.Atoi are modelled from their Go 1.23 source (glue, tied by the differential only)",
                  "oracle: net/netip + math/big implementation of the documented set"],
 },
 "C15": {
  "props_modules": ["Ps3.Props.C15"],
  "needs_binary": True,
  "streams": [{"name": "c15", "timeout_quick": 300, "timeout_thorough": 1200}],
  "rule": "real iprange.FilterListener over real netutil.LimitListener (wrapped in the order of cmd/ps3netsrv-go/server.go) on loopback TCP. Whitelist: 20 (150) specifications over 127.0.0.0/8 (single, CIDR, mask, range, IPv4-mapped, foreign) x 12-14 client source addresses bound to 127.x.y.z at and around the block borders: served vs closed without a byte. "
          "Limit: N in 1..3 (1..8) with up to 4N clients in random arrival/departure orders mixed with rejected (non-whitelisted) arrivals; after every event the set of answered connections is compared with the model's; the whitelists include genuine IPv6 sets whose low 32 bits bracket the IPv4 clients (nobody of them is inside); every second limit order runs over a file system whose handles report an error from Close() while each client holds a directory open (the slot must come back all the same)",
  "assumptions": ["'wait without being served' is kernel backlog behaviour: observed with 40 ms settle time per event, not proved", "fair accept loop", "membership is C14's"],
 },
 "C16": {
  "props_modules": ["Ps3.Props.C16"],
  "streams": [{"name": "c16", "timeout_quick": 300, "timeout_thorough": 1200}],
  "rule": "the real server on loopback TCP with ReadTimeout T = 300 ms (thorough: 200, 400, 1000 ms) x 9 timing scripts: silent after connect, silent after 3 requests, stalled in the middle of a command, stalled in the middle of a path, a request every T/2 for 6T, one command dribbled in over 1.5T, a request in two halves, path after command, long-lived mixed requests; plus T = 0; plus the write side: a client that asks for 512 MiB and reads nothing for 3T (must be cut and the served file's descriptor closed by then) and one that drains 256 MiB over about 3T (must receive all of it). Observed: number of responses and the time of the cut in buckets of T/2, compared with the timed model",
  "assumptions": ["real timers, TCP and the scheduler are runtime behaviour: cut times compared in buckets of T/2 (tolerance about +-T/4)", "scripts avoid arrivals exactly at a deadline"],
 },
 "C17": {
  "props_modules": ["Ps3.Props.C17"],
  "streams": [{"name": "c17", "bad_obs": BAD_OBS}, {"name": "c13"}],
  "rule": "sparse raw CD images for all 7 sector sizes x both signatures, sizes at/around the 2 MiB and 848 MiB window edges, no signature; several images re-opened on one connection; (start,count) incl. start != count, count 0, and a final range crossing EOF; oracle = user-data slices of the synthesised image; the c13 fault stream runs here as well (scenario cd: an I/O error at every operation of the sector-size probe and of READ_CD - the open fails or the sectors are right)",
  "assumptions": _CONN_ASSUME,
 },
}

LEVEL_TEXT = {
 "C01": "Theorem: for every byte string, filepath.Clean('/'+p) (Lean model of Go's Clean, itself tied to the real function) yields only normal components, so the OS path is the root extended by normal components - for all 8 opcodes, which all depend on the cleaned path only; derived paths (dir entries, REDKEY, PARAM.SFO) preserve this. "
        "Tie: sessions with hostile paths on the real server with a recorder under BasePathFs, twin runs with different outside worlds.",
 "C02": "Theorems on the connection model: READ_FILE announces min(limit,size-off) and sends exactly those bytes, the critical read sends them raw and closes iff short (after a correct prefix), any chunk schedule accumulates to one slice, no other request changes the open object; OPEN announces size/mtime. "
        "Tie: differential on boundary sizes/offsets incl. sparse >4 GiB files, with an independent content oracle.",
 "C03": "Theorems: for each of the 15 opcodes, decode(spec-encoding(r) ++ rest) = (r, rest) with the decoder generic over the regenerated struct layouts (exact consumption); one response per request in order, nothing after a close; unknown/truncated requests close with no byte; all response lengths/layouts. "
        "Tie: raw streams with every kind of truncation/garbage (bytes sent + bytes consumed compared exactly) and random lockstep sessions.",
 "C05": "Theorems: with writing off, no request and no byte stream changes the world (induction over the serve loop) and every mutating request is refused with ff ff ff ff without ending the connection; with writing on, WRITE appends exactly the payload and any chunk sequence after CREATE leaves exactly the concatenation; virtual paths are never written. "
        "Tie: snapshot-compared sessions on the real server.",
 "C06": "Theorems: OPEN_DIR true iff directory; each entry-by-entry step reports exactly the next not-yet-reported entry (symlinks resolved, dangling skipped) or the end marker, which is then stable; the bulk listing is exactly the remaining entries; reported kind/size/mtime are the resolved object's; STAT and dir-size equations. "
        "Tie: differential against the harness's own stat walk.",
 "C15": "Logic proved, runtime observed. Theorems on the listener state machine: at most N connections hold a slot in every reachable state (any arrival/departure order, mixed with rejected arrivals); a peer outside the whitelist at the head of the queue is closed without ever being served and its slot is free again; an insider arriving with a free slot is served at once; a departing connection frees its slot and a waiting insider takes it immediately. "
        "Tie: the real listener wrappers on loopback TCP with clients bound to chosen 127.x.y.z addresses.",
 "C16": "Logic proved, runtime observed. Theorems on the timed model of the serve loop: a connection whose complete requests arrive less than T apart is never cut and every request is answered, for any number of requests; an idle one (after connect, after k requests, with an incomplete request pending) is cut exactly T after the last loop top; late bytes are never served; T = 0 never cuts; with the deadline armed outside the loop an active client would be cut (witness); write side: a response write blocked for T ends the connection (stalled_reader_cut), a client that keeps draining is never cut however long the whole response takes (draining_reader_never_cut). "
        "Tie: timing scripts against the real server over TCP.",
 "C17": "Theorems: (start,count) are decoded in wire order; the answer is exactly the concatenation of the 2048-byte user-data slices at 24+(start+k)*S, closing iff a sector is cut short (after the correct prefix), nothing for count 0; detection returns the first candidate whose sector 16 carries either signature, for each of the 7 sizes. "
        "Tie: synthesised images with an independent slice oracle.",
 "C07": "Theorems: every image the model's build produces is well-formed (build_wf, for every tree) and in every well-formed image each file's extent holds exactly the file's bytes followed by zeros to the sector end (any size), reading the extent returns them, files up to 4 GiB-1 get one record with the exact size, larger files get contiguous 0xFFFFF800-byte extents flagged multi-extent plus an unflagged remainder whose lengths sum to the size, portable names are preserved (upper-cased in the primary hierarchy); every extent length fits the 32-bit record field; the scan is complete (scan_complete / layout_tree_complete): every directory reachable from the root is a directory of the image, every directory of the image records exactly its file entries in enumeration order and has all its sub-directories in the image - nothing left out, nothing invented; file_reachable_through_image: every non-empty single-extent file has, in its directory's records, a record with its mapped identifier and exact size whose location, read through the image, yields exactly the file's bytes. "
        "End to end (Props/C07b, against a reader written from ECMA-119 in Spec/IsoTree.lean - root record of the volume descriptor, directory extents, file flags, multi-extent files): reader_finds_root (the descriptor of either hierarchy leads to the root directory), reader_reaches_every_directory (completeness: every directory reachable in the source tree is reached by following records, along exactly its mapped identifiers), reader_reaches_only_source_directories (soundness: whatever the reader reaches is a source directory reachable from the root), reader_reads_every_file (in every directory the assembled files are exactly the recorded ones, each with exactly its bytes - empty, unaligned and >4 GiB multi-extent files included) and files_are_the_source_files (those records are the directory's regular-file entries, each stat'ed to the very inode whose bytes are stored); summed up in image_is_the_tree whose only hypothesis is DirLensFit = no single directory extent reaches 4 GiB (fits_of_dirLens: sector numbers and file extent lengths always fit their 32-bit fields); non-vacuity by kernel evaluation on a concrete tree. "
        "Tie: byte-exact differential against the Lean image + independent ISO reader comparing both hierarchies with the source tree.",
 "C08": "Theorems: size = volume space size x 2048, pad rule (granule 0x20), both-endian agreement for every value, record length byte = encoded size <= 255 because identifiers are cut to fit, no record straddles a sector (gap rule), directory extents are whole sectors, L/M path table entries agree, descriptor headers (1/2/255, CD001, version 1), PS3 sector 0/1 contents; links: every '.' record names its own directory's extent, '..' the parent's, a parent's record for a child carries exactly the location and length of that child's own '.' record, path table entries point at the directories' extents, directories lie back to back; for every built image all file extents lie behind the metadata and before the pad area and are pairwise disjoint; ROUND TRIP (records_roundtrip): an ISO 9660 reader's walk over a directory extent (Spec/IsoDir: length byte, zero byte = skip to the next sector) returns exactly the list of records the generator wrote, for every list of records whose fields fit (decode . encode = id, by induction with the sector-gap rule), hence every directory extent of a generated image below 8 TiB reads back as the records the layout computed; the same round trip for L and M path tables (path_table_roundtrip); directory_reads_back: for every tree, mode and hierarchy, cutting the extent that the records name for directory k out of the generated image and walking it as a reader does yields exactly the records the layout computed for it (position of every directory inside the metadata area + round trip); descriptors_point_to_root: bytes 156..189 of the primary and the supplementary descriptor are the root directory's own . record, naming the sector where that directory is; "
        "path tables end to end (C08d): path_table_at_its_location (each of the four tables occupies exactly its sectors of the image), path_table_reads_back (read with the announced size each decodes to the hierarchy's entries, one per directory, each pointing at that directory's extent), descriptors_announce_path_tables (bytes 132..151 of both descriptors carry the table size and the L/M locations the tables were laid out with). "
        "Tie: byte-exact model image + strict independent validator on the implementation's bytes.",
 "C09": "Theorems (no bound on sizes): build_wf - for every world, root and mode the built image is well-formed (metadata exactly as long as the layout arithmetic assumed, files in consecutive runs, pad area); for every well-formed image, every offset and every length, read = slice of the one canonical byte string (metadata ++ padded files ++ pad area); corollaries: progress min(n, size-off), EOF after the end, any Read/Seek/ReadAt sequence observes the same as on the canonical string, sequential chunked reads concatenate, Seek arithmetic. "
        "Tie: op sequences at structural boundaries against the library view; the executable WF check is still evaluated per explored image as a cross-check.",
 "C18": "Theorems: layout (files, sizes, pad area, total) is a function of tree and mode only; a descriptor depends on the clock only through its two 17-byte timestamp fields; the system area depends on the random filler only through its 0x1C0-byte field (not at all without PS3 mode); everything else in the metadata is a function of the layout. "
        "Tie: every image is built again later and concurrently and compared masked.",
 "C10": "Theorems, parametric in the sector cipher: for every table, content, offset and length the view's read equals the slice of the one reference plaintext (sector rule: stored outside gaps, D(stored) for complete sectors in gaps), so any Read/Seek/ReadAt/chunking observes the same bytes; tables are accepted iff 2..255 regions, first at 0, each non-empty, starts not before previous ends; short/huge tables rejected; header clearing zeroes exactly the table. table_roundtrip: a table of up to 255 regions with 32-bit borders written in the disc format and followed by any content is read back exactly (decode . encode = id); clamp_unobservable: the server's clamping of borders to 2^31-1 (int32 sector numbers) changes the gap membership of no sector below 2^31-1. "
        "Tie: differential incl. unaligned reads against a crypto/aes reference decryptor; the Lean AES instance is validated by it.",
 "C11": "Theorems on the FS.OpenFile decision chain: no key lookup unless .iso (any case) below ps3iso (any case); adjacent key wins, REDKEY only as fallback, a malformed/unreadable key fails the open (no fallback); watermark test incl. short files; the 3k3y mask zeroes exactly [0xF70,0x1070) for any read range (pointwise); everything else, directories and write opens get no wrapper. "
        "Tie: the full product of layouts (exhaustive in thorough) against an independent decision table.",
 "C20": "Theorems: a copy loop with any chunk sizes over a source whose reads are slices writes exactly that slice, hence, for every tree (build_wf), make-iso output = the canonical image of C09 (the bytes the server announces and serves); decrypt output = h zero bytes ++ reference plaintext from h on (C10); a blanked watermark area is never recognised as 3k3y again (served back unchanged); the output-file decision never selects 'create' for an existing path and '-' is stdout. "
        "Tie: the real binary's files and stdout against the model and the crypto/aes reference, pre/post state of existing targets, served-back comparison.",
 "C04": "Logic proved, runtime observed. Theorems on `Model/Checked.lean` (the Go index/slice arithmetic transcribed over Int with the runtime's bounds checks explicit): VirtualISO.read never faults for ANY image, member contents, offset >= 0 and buffer length (no well-formedness needed); clearRegionsData, every sector visited by decryptData for any read position/length/region, and clear3k3yData stay in bounds; the region-table allocation is at most 255 entries whatever count the file declares and index 0 is only touched on a non-empty table; directory-record and path-table size computations agree for every identifier the generator can make (no 'size mismatch' panic), the volume identifier and product id fit their fields, gameCode[:4] is guarded for every PARAM.SFO content; the value and the keys the PARAM.SFO parser builds in memory are bounded (64 KiB, 512 bytes) whatever the file declares; READ_CD offsets cannot overflow int64. "
        "Tie: hostile worlds predicted by the model in-process; process survival, liveness, bystander integrity, tool exits, descriptor and memory limits observed on the real binary.",
 "C19": "Theorems over the Lean model of the configuration wiring (`effective`): a command-line flag wins over every file and variable; a value given in exactly one channel is the effective one; among files --config / PS3NETSRV_CONFIG_FILE > ./config.ini > user directory; a malformed value in the winning channel, or in the environment at all, stops start-up (never a silent fallback); one failing setting stops start-up. "
        "Tie: the real binary's observable behaviour for all 9 settings x 6 channels against the model.",
 "C12": "Logic proved, runtime observed. Theorems on the multi-connection model: with writing off, for any number of connections and ANY interleaving of their requests, each connection's response stream equals its stream when served alone (induction over the schedule; a step of one connection never touches another's state and leaves the world fixed), hence independence of what others send; the same on a server with writing ENABLED for every schedule of non-mutating requests (open/stat/list/read/dir-size), from the general frame theorem noninterference_of_frame; every connection starts from the empty state; the shared buffer pool never hands one buffer to two connections under any get/put interleaving. "
        "Tie: parallel sessions against the sequential prediction, race detector in thorough.",
 "C13": "Logic proved, runtime observed. Theorems: State.Close releases all three slots whatever they hold; every request keeps at most one handle per slot and a replaced handle is released (slot bookkeeping of OPEN_DIR/OPEN_FILE/CREATE/CLOSEFILE); the judgement predicate accepts the fault-free run, rejects altered bytes and hangs, and a closed connection admits nothing after it; enumeration always terminates (structural recursion over the remaining names); key lookup under faults: an I/O error on the key beside the image fails the open (never a fallback to the REDKEY key, never a keyless view), the key used is the first one truly present, and without faults the decision coincides with the modelled lookup (redumpKey_is_decision). "
        "Tie: single-fault enumeration over every filesystem operation of 9 scenarios (plain, generated image, encrypted with REDKEY key / adjacent key / both keys, 3k3y, CD image with sector-size probe, enumeration, upload) judged by that predicate; ledger after every session and after abrupt closes.",
 "C14": "Kernel-checked theorems over the Lean model of ParseIPRange/Contains: byte-wise comparison is numeric comparison, membership is exactly "
        "'between the bounds' for every 16-byte address; block_denotes: for every 4- or 16-byte address and every prefix length the computed bounds are exactly the documented block "
        "(aligned 2^h addresses, host bits of the base ignored, network and broadcast address removed iff h >= 2) - proved from the byte-level mask arithmetic (AND with the prefix mask floors, OR with its complement fills, last-bit tweaks), "
        "the four single-byte facts by kernel evaluation over all 256 values; a contiguous netmask is the prefix mask of its length, so 'a/m.m.m.m' and 'a/ones' give the same block; what the parser returns for v4 CIDR, v4 mask and v6 CIDR; "
        "IPv4 and IPv4-mapped forms are treated alike; reversed / mixed-family / malformed bounds, out-of-range prefixes, non-contiguous masks and other tails are rejected. "
        "The model (incl. Go's address and integer parsing) is tied to the code by a differential run over generated specifications and probe addresses, "
        "cross-checked against an independent net/netip+math/big oracle.",
}

_PENDING = "not yet covered by the framework at this commit (model and check under construction; see DESIGN.md §12)"
NOT_APPLICABLE = {("C%02d" % i): _PENDING for i in range(1, 21)}
