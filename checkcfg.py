"""Per-property configuration of ./check: Lean modules holding the property theorems, the
correspondence streams (harness stream name = vmodel tag), evidence texts."""

PROPS = {
 "C14": {
  "props_modules": ["Ps3.Props.C14"],
  "streams": [{"name": "c14"}],
  "rule": "specs generated from the documented grammar and its near misses x 12 probe addresses (block borders +-2, "
          "random interior/exterior, 4- and 16-byte forms); non-trivial = accepted by the oracle; distinct = distinct spec string",
  "assumptions": ["net/netip address parsing and strconv.Atoi are modelled from their Go 1.23 source (glue, tied by the differential only)",
                  "oracle: net/netip + math/big implementation of the documented set"],
 },
}

LEVEL_TEXT = {
 "C14": "Kernel-checked theorems over the Lean model of ParseIPRange/Contains: byte-wise comparison is numeric comparison, membership is exactly "
        "'between the bounds' for every 16-byte address, IPv4 and IPv4-mapped forms are treated alike, reversed / mixed-family / malformed bounds are rejected. "
        "The model (incl. Go's address and integer parsing) is tied to the code by a differential run over generated specifications and probe addresses, "
        "cross-checked against an independent net/netip+math/big oracle.",
}

_PENDING = "not yet covered by the framework at this commit (model and check under construction; see DESIGN.md §12)"
NOT_APPLICABLE = {("C%02d" % i): _PENDING for i in range(1, 21)}
