#!/usr/bin/env python3
"""dev helper: run a stream, run vmodel, show mismatches.  ./difftool.py <stream> [tier] [seed] [n]"""
import sys, subprocess, os, tempfile, shutil
stream=sys.argv[1]; tier=sys.argv[2] if len(sys.argv)>2 else "quick"; seed=sys.argv[3] if len(sys.argv)>3 else "1"; nshow=int(sys.argv[4]) if len(sys.argv)>4 else 5
d="/tmp/vh"; os.makedirs(d,exist_ok=True)
subprocess.check_call(["/verif/buildharness.sh"]); subprocess.check_call(["/verif/buildbinary.sh"])
subprocess.check_call(["/verif/.build/verifharness",stream,tier,seed,d])
with open(f"{d}/{stream}.cases","rb") as f:
    m=subprocess.run(["/verif/lean/.lake/build/bin/vmodel"],stdin=f,stdout=subprocess.PIPE).stdout.decode().split("\n")[:-1]
c=open(f"{d}/{stream}.cases").read().split("\n")[:-1]
i=open(f"{d}/{stream}.impl").read().split("\n")[:-1]
o=open(f"{d}/{stream}.oracle").read().split("\n")[:-1]
bad=[k for k in range(len(c)) if k>=len(m) or i[k]!=m[k]]
badO=[k for k in range(len(c)) if o[k] and i[k]!=o[k]]
print(len(c),"cases; model lines",len(m),"; impl!=model:",len(bad),"; impl!=oracle:",len(badO))
def show(k):
    print("CASE ",c[k][:300])
    a=i[k].split(" "); b=(m[k] if k<len(m) else "").split(" ")
    for j in range(max(len(a),len(b))):
        x=a[j] if j<len(a) else "<none>"; y=b[j] if j<len(b) else "<none>"
        if x!=y: print("  first diff at token",j,"\n   IMPL ",x[:300],"\n   MODEL",y[:300]); break
    if o[k]: print("  ORACLE",o[k][:700])
    print()
for k in (bad+badO)[:nshow]: show(k)
