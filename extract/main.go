// Command extract derives the regenerated "facts" layer of the Lean model from /repo's current
// source (syntax only: go/parser + a small constant evaluator; no network, no type checker).
//
//	extract <repo> <out.lean> <out.json>
//
// Four kinds of facts (DESIGN.md §2.3): F-const (constants, tables, byte arrays), F-layout (wire
// struct layouts), F-shape (structural patterns with a hand-written expectation), F-arith (tiny
// straight-line integer expressions). A pattern that is absent is reported as "degraded" and the
// committed default is emitted; a pattern that is present with a different value changes the model.
package main

import (
	"encoding/json"
	"fmt"
	"go/ast"
	"go/parser"
	"go/token"
	"math/big"
	"os"
	"path/filepath"
	"sort"
	"strconv"
	"strings"
)

type val struct {
	isStr bool
	s     string
	n     *big.Int
}

type pkgInfo struct {
	alias  string
	dir    string
	files  map[string]*ast.File
	fset   *token.FileSet
	consts map[string]*val // package-level and function-local (func.name)
	arrays map[string][]*val
	layout map[string][][2]string // struct -> [(field, size)]
	order  []string
}

var stringTypes = map[string]bool{"string": true, "stringA": true, "stringD": true, "stringD1": true}

func loadPkg(repo, rel, alias string) *pkgInfo {
	p := &pkgInfo{alias: alias, dir: filepath.Join(repo, rel), files: map[string]*ast.File{}, fset: token.NewFileSet(),
		consts: map[string]*val{}, arrays: map[string][]*val{}, layout: map[string][][2]string{}}
	ents, _ := os.ReadDir(p.dir)
	for _, e := range ents {
		n := e.Name()
		if !strings.HasSuffix(n, ".go") || strings.HasSuffix(n, "_test.go") || strings.HasSuffix(n, "_windows.go") || strings.HasSuffix(n, "_darwin.go") {
			continue
		}
		f, err := parser.ParseFile(p.fset, filepath.Join(p.dir, n), nil, parser.SkipObjectResolution)
		if err != nil {
			continue
		}
		p.files[n] = f
	}
	// several passes so that forward references resolve
	for pass := 0; pass < 4; pass++ {
		for _, name := range sortedKeys(p.files) {
			f := p.files[name]
			for _, d := range f.Decls {
				switch d := d.(type) {
				case *ast.GenDecl:
					p.genDecl(d, "")
				case *ast.FuncDecl:
					if d.Body == nil {
						continue
					}
					fn := d.Name.Name
					ast.Inspect(d.Body, func(n ast.Node) bool {
						switch n := n.(type) {
						case *ast.DeclStmt:
							if g, ok := n.Decl.(*ast.GenDecl); ok {
								p.genDecl(g, fn+"_")
							}
						case *ast.AssignStmt:
							if n.Tok == token.DEFINE && len(n.Lhs) == 1 && len(n.Rhs) == 1 {
								if id, ok := n.Lhs[0].(*ast.Ident); ok {
									if cl, ok := n.Rhs[0].(*ast.CompositeLit); ok {
										p.arrayLit(fn+"_"+id.Name, cl, fn+"_")
									}
								}
							}
						}
						return true
					})
				}
			}
		}
	}
	return p
}

func sortedKeys[V any](m map[string]V) []string {
	ks := make([]string, 0, len(m))
	for k := range m {
		ks = append(ks, k)
	}
	sort.Strings(ks)
	return ks
}

func (p *pkgInfo) remember(name string) {
	for _, o := range p.order {
		if o == name {
			return
		}
	}
	p.order = append(p.order, name)
}

func (p *pkgInfo) genDecl(d *ast.GenDecl, prefix string) {
	switch d.Tok {
	case token.CONST:
		var lastExprs []ast.Expr
		for iota, spec := range d.Specs {
			vs := spec.(*ast.ValueSpec)
			exprs := vs.Values
			if len(exprs) == 0 {
				exprs = lastExprs
			} else {
				lastExprs = exprs
			}
			for i, nm := range vs.Names {
				if nm.Name == "_" || i >= len(exprs) {
					continue
				}
				conv := ""
				if id, ok := vs.Type.(*ast.Ident); ok {
					conv = id.Name
				}
				v := p.eval(exprs[i], int64(iota), prefix)
				if v != nil && conv != "" && stringTypes[conv] && !v.isStr {
					v = &val{isStr: true, s: string(rune(v.n.Int64()))}
				}
				if v != nil {
					p.consts[prefix+nm.Name] = v
					p.remember(prefix + nm.Name)
				}
			}
		}
	case token.VAR:
		for _, spec := range d.Specs {
			vs := spec.(*ast.ValueSpec)
			for i, nm := range vs.Names {
				if i >= len(vs.Values) {
					continue
				}
				switch e := vs.Values[i].(type) {
				case *ast.CompositeLit:
					p.arrayLit(prefix+nm.Name, e, prefix)
				default:
					if v := p.eval(e, 0, prefix); v != nil {
						p.consts[prefix+nm.Name] = v
						p.remember(prefix + nm.Name)
					}
				}
			}
		}
	case token.TYPE:
		for _, spec := range d.Specs {
			ts := spec.(*ast.TypeSpec)
			st, ok := ts.Type.(*ast.StructType)
			if !ok {
				continue
			}
			var fields [][2]string
			okAll := true
			for _, f := range st.Fields.List {
				sz := p.typeSize(f.Type, prefix)
				if sz < 0 {
					okAll = false
					break
				}
				if len(f.Names) == 0 {
					okAll = false
					break
				}
				for _, nm := range f.Names {
					fields = append(fields, [2]string{nm.Name, strconv.Itoa(sz)})
				}
			}
			if okAll {
				p.layout[ts.Name.Name] = fields
			}
		}
	}
}

func (p *pkgInfo) typeSize(t ast.Expr, prefix string) int {
	switch t := t.(type) {
	case *ast.Ident:
		switch t.Name {
		case "uint8", "int8", "byte", "bool":
			return 1
		case "uint16", "int16", "OpCode":
			return 2
		case "uint32", "int32":
			return 4
		case "uint64", "int64":
			return 8
		}
	case *ast.ArrayType:
		if t.Len == nil {
			return -1
		}
		n := p.eval(t.Len, 0, prefix)
		e := p.typeSize(t.Elt, prefix)
		if n == nil || n.isStr || e < 0 {
			return -1
		}
		return int(n.n.Int64()) * e
	}
	return -1
}

func (p *pkgInfo) arrayLit(name string, cl *ast.CompositeLit, prefix string) {
	if _, ok := cl.Type.(*ast.ArrayType); !ok {
		return
	}
	var vals []*val
	for _, e := range cl.Elts {
		if _, isKV := e.(*ast.KeyValueExpr); isKV {
			return
		}
		v := p.eval(e, 0, prefix)
		if v == nil {
			return
		}
		vals = append(vals, v)
	}
	p.arrays[name] = vals
	p.remember(name)
}

var selectorConsts = map[string]*val{
	"filepath.Separator": {n: big.NewInt('/')},
	"os.PathSeparator":   {n: big.NewInt('/')},
	"net.IPv4len":        {n: big.NewInt(4)},
	"net.IPv6len":        {n: big.NewInt(16)},
	"io.SeekStart":       {n: big.NewInt(0)},
	"io.SeekCurrent":     {n: big.NewInt(1)},
	"io.SeekEnd":         {n: big.NewInt(2)},
}

func (p *pkgInfo) eval(e ast.Expr, iota int64, prefix string) *val {
	switch e := e.(type) {
	case *ast.BasicLit:
		switch e.Kind {
		case token.INT:
			n, ok := new(big.Int).SetString(strings.ReplaceAll(e.Value, "_", ""), 0)
			if !ok {
				return nil
			}
			return &val{n: n}
		case token.CHAR:
			s, err := strconv.Unquote(e.Value)
			if err != nil {
				return nil
			}
			r := []rune(s)
			return &val{n: big.NewInt(int64(r[0]))}
		case token.STRING:
			s, err := strconv.Unquote(e.Value)
			if err != nil {
				return nil
			}
			return &val{isStr: true, s: s}
		}
	case *ast.Ident:
		if e.Name == "iota" {
			return &val{n: big.NewInt(iota)}
		}
		if v, ok := p.consts[prefix+e.Name]; ok {
			return v
		}
		if v, ok := p.consts[e.Name]; ok {
			return v
		}
	case *ast.ParenExpr:
		return p.eval(e.X, iota, prefix)
	case *ast.SelectorExpr:
		if x, ok := e.X.(*ast.Ident); ok {
			if v, ok := selectorConsts[x.Name+"."+e.Sel.Name]; ok {
				return v
			}
		}
	case *ast.CallExpr:
		if len(e.Args) != 1 {
			return nil
		}
		fn := ""
		if id, ok := e.Fun.(*ast.Ident); ok {
			fn = id.Name
		} else {
			return nil // calls through a selector (fmt.Errorf, …) are not constants
		}
		if fn == "len" {
			if id, ok := e.Args[0].(*ast.Ident); ok {
				if arr, ok := p.arrays[prefix+id.Name]; ok {
					return &val{n: big.NewInt(int64(len(arr)))}
				}
				if arr, ok := p.arrays[id.Name]; ok {
					return &val{n: big.NewInt(int64(len(arr)))}
				}
			}
			v := p.eval(e.Args[0], iota, prefix)
			if v != nil && v.isStr {
				return &val{n: big.NewInt(int64(len(v.s)))}
			}
			return nil
		}
		v := p.eval(e.Args[0], iota, prefix)
		if v == nil {
			return nil
		}
		if stringTypes[fn] && !v.isStr {
			return &val{isStr: true, s: string(rune(v.n.Int64()))}
		}
		return v // numeric conversions are value-preserving for the constants in this repository
	case *ast.UnaryExpr:
		v := p.eval(e.X, iota, prefix)
		if v == nil || v.isStr {
			return nil
		}
		switch e.Op {
		case token.SUB:
			return &val{n: new(big.Int).Neg(v.n)}
		case token.ADD:
			return v
		}
	case *ast.BinaryExpr:
		a, b := p.eval(e.X, iota, prefix), p.eval(e.Y, iota, prefix)
		if a == nil || b == nil {
			return nil
		}
		if a.isStr && b.isStr && e.Op == token.ADD {
			return &val{isStr: true, s: a.s + b.s}
		}
		if a.isStr || b.isStr {
			return nil
		}
		r := new(big.Int)
		switch e.Op {
		case token.ADD:
			r.Add(a.n, b.n)
		case token.SUB:
			r.Sub(a.n, b.n)
		case token.MUL:
			r.Mul(a.n, b.n)
		case token.QUO:
			if b.n.Sign() == 0 {
				return nil
			}
			r.Quo(a.n, b.n)
		case token.REM:
			if b.n.Sign() == 0 {
				return nil
			}
			r.Rem(a.n, b.n)
		case token.SHL:
			r.Lsh(a.n, uint(b.n.Uint64()))
		case token.SHR:
			r.Rsh(a.n, uint(b.n.Uint64()))
		case token.OR:
			r.Or(a.n, b.n)
		case token.AND:
			r.And(a.n, b.n)
		case token.XOR:
			r.Xor(a.n, b.n)
		default:
			return nil
		}
		return &val{n: r}
	}
	return nil
}

func leanIdent(s string) string {
	var sb strings.Builder
	for i, c := range s {
		if c == '_' || (c >= 'a' && c <= 'z') || (c >= 'A' && c <= 'Z') || (i > 0 && c >= '0' && c <= '9') {
			sb.WriteRune(c)
		} else if c >= '0' && c <= '9' {
			sb.WriteString("n" + string(c))
		} else {
			sb.WriteRune('_')
		}
	}
	return sb.String()
}

func leanBytes(b []byte) string {
	parts := make([]string, len(b))
	for i, c := range b {
		parts[i] = strconv.Itoa(int(c))
	}
	return "[" + strings.Join(parts, ", ") + "]"
}

type emitter struct {
	sb       strings.Builder
	js       map[string]any
	degraded []string
}

func (e *emitter) nat(name string, n *big.Int) {
	if n.Sign() < 0 {
		fmt.Fprintf(&e.sb, "def %s : Int := %s\n", name, n.String())
	} else {
		fmt.Fprintf(&e.sb, "def %s : Nat := %s\n", name, n.String())
	}
	e.js[name] = n.String()
}
func (e *emitter) str(name, s string) {
	fmt.Fprintf(&e.sb, "def %s : List UInt8 := %s\n", name, leanBytes([]byte(s)))
	e.js[name] = s
}
func (e *emitter) boolean(name string, b bool) {
	fmt.Fprintf(&e.sb, "def %s : Bool := %v\n", name, b)
	e.js[name] = b
}

func main() {
	if len(os.Args) < 4 {
		fmt.Fprintln(os.Stderr, "usage: extract <repo> <out.lean> <out.json>")
		os.Exit(2)
	}
	repo := os.Args[1]
	em := &emitter{js: map[string]any{}}
	em.sb.WriteString("/- GENERATED by /verif/extract from /repo's current source on every run. DO NOT EDIT. -/\nnamespace Gen\n\n")

	pkgs := []*pkgInfo{
		loadPkg(repo, "pkg/proto", "proto"),
		loadPkg(repo, "pkg/fs", "fs"),
		loadPkg(repo, "internal/handler", "handler"),
		loadPkg(repo, "pkg/server", "server"),
		loadPkg(repo, "internal/copier", "copier"),
		loadPkg(repo, "pkg/iprange", "iprange"),
		loadPkg(repo, "cmd/ps3netsrv-go", "cmd"),
		loadPkg(repo, "internal/kongutil", "kongutil"),
		loadPkg(repo, "pkg/kongini", "kongini"),
	}
	for _, p := range pkgs {
		fmt.Fprintf(&em.sb, "/-! ### %s (F-const) -/\n", p.alias)
		for _, name := range p.order {
			if strings.HasPrefix(name, "_OpCode") {
				continue // stringer tables
			}
			full := p.alias + "_" + leanIdent(name)
			if v, ok := p.consts[name]; ok {
				if v.isStr {
					em.str(full, v.s)
				} else {
					em.nat(full, v.n)
				}
			} else if arr, ok := p.arrays[name]; ok {
				allNum := true
				for _, a := range arr {
					if a.isStr {
						allNum = false
					}
				}
				if !allNum {
					continue
				}
				parts := make([]string, len(arr))
				for i, a := range arr {
					parts[i] = a.n.String()
				}
				fmt.Fprintf(&em.sb, "def %s : List Nat := [%s]\n", full, strings.Join(parts, ", "))
				em.js[full] = parts
			}
		}
		if len(p.layout) > 0 {
			fmt.Fprintf(&em.sb, "/-! ### %s (F-layout) -/\n", p.alias)
			for _, sname := range sortedKeys(p.layout) {
				fields := p.layout[sname]
				parts := make([]string, len(fields))
				for i, f := range fields {
					parts[i] = fmt.Sprintf("(%q, %s)", f[0], f[1])
				}
				full := p.alias + "_layout_" + leanIdent(sname)
				fmt.Fprintf(&em.sb, "def %s : List (String × Nat) := [%s]\n", full, strings.Join(parts, ", "))
				em.js[full] = fields
			}
		}
		em.sb.WriteString("\n")
	}
	shapes(repo, pkgs, em)
	em.sb.WriteString("\nend Gen\n")
	if err := os.WriteFile(os.Args[2], []byte(em.sb.String()), 0o644); err != nil {
		fmt.Fprintln(os.Stderr, err)
		os.Exit(1)
	}
	em.js["degraded"] = em.degraded
	b, _ := json.MarshalIndent(em.js, "", " ")
	os.WriteFile(os.Args[3], b, 0o644)
}
