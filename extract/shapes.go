package main

// F-shape facts: structural AST patterns, each with a committed default used when the pattern is
// absent (reported as degraded, never an alarm by itself).

func shapes(repo string, pkgs []*pkgInfo, em *emitter) {
	em.sb.WriteString("/-! ### F-shape -/\n")
}
