package main

import (
	"go/ast"
	"strings"
)

// F-shape facts: structural AST patterns. A fact is emitted only when its anchor (the function) is
// found; otherwise the committed default of facts.baseline.lean is used and the fact is reported as
// degraded (never an alarm by itself). A fact found with a different value changes the regenerated
// model, and the theorems are re-checked against it.

func findFunc(p *pkgInfo, recv, name string) *ast.FuncDecl {
	for _, fn := range sortedKeys(p.files) {
		for _, d := range p.files[fn].Decls {
			fd, ok := d.(*ast.FuncDecl)
			if !ok || fd.Name.Name != name || fd.Body == nil {
				continue
			}
			if recv == "" && fd.Recv == nil {
				return fd
			}
			if recv != "" && fd.Recv != nil && len(fd.Recv.List) == 1 && strings.Contains(exprString(fd.Recv.List[0].Type), recv) {
				return fd
			}
		}
	}
	return nil
}

func exprString(e ast.Expr) string {
	switch t := e.(type) {
	case *ast.Ident:
		return t.Name
	case *ast.StarExpr:
		return "*" + exprString(t.X)
	case *ast.SelectorExpr:
		return exprString(t.X) + "." + t.Sel.Name
	case *ast.IndexExpr:
		return exprString(t.X) + "[" + exprString(t.Index) + "]"
	case *ast.CallExpr:
		return exprString(t.Fun) + "()"
	case *ast.UnaryExpr:
		return t.Op.String() + exprString(t.X)
	case *ast.ParenExpr:
		return "(" + exprString(t.X) + ")"
	case *ast.BinaryExpr:
		return exprString(t.X) + t.Op.String() + exprString(t.Y)
	}
	return "?"
}

// mentions reports whether the node contains a selector or identifier with the given name.
func mentions(n ast.Node, name string) bool {
	found := false
	ast.Inspect(n, func(x ast.Node) bool {
		switch t := x.(type) {
		case *ast.SelectorExpr:
			if t.Sel.Name == name {
				found = true
			}
		case *ast.Ident:
			if t.Name == name {
				found = true
			}
		}
		return !found
	})
	return found
}

// testsAllowWrite: the condition mentions AllowWrite itself, or calls a function/method of the package
// whose body mentions it (a guard moved into a helper is still the guard).
func testsAllowWrite(p *pkgInfo, cond ast.Expr) bool {
	if mentions(cond, "AllowWrite") {
		return true
	}
	hit := false
	ast.Inspect(cond, func(x ast.Node) bool {
		if c, ok := x.(*ast.CallExpr); ok {
			name := ""
			switch f := c.Fun.(type) {
			case *ast.Ident:
				name = f.Name
			case *ast.SelectorExpr:
				name = f.Sel.Name
			}
			for _, fn := range sortedKeys(p.files) {
				for _, d := range p.files[fn].Decls {
					if fd, ok := d.(*ast.FuncDecl); ok && fd.Name.Name == name && fd.Body != nil && mentions(fd.Body, "AllowWrite") {
						hit = true
					}
				}
			}
		}
		return !hit
	})
	return hit
}

func endsWithReturn(b *ast.BlockStmt) bool {
	if len(b.List) == 0 {
		return false
	}
	_, ok := b.List[len(b.List)-1].(*ast.ReturnStmt)
	return ok
}

// writeGuardFirst: among the top-level statements of the handler, an `if <tests AllowWrite> { ...; return }`
// comes before any statement that touches the file system (h.Fs) or the connection's write file.
func writeGuardFirst(p *pkgInfo, fd *ast.FuncDecl) bool {
	for _, st := range fd.Body.List {
		if ifs, ok := st.(*ast.IfStmt); ok && ifs.Init == nil && testsAllowWrite(p, ifs.Cond) && endsWithReturn(ifs.Body) {
			return true
		}
		if mentions(st, "Fs") || mentions(st, "WOFile") {
			return false
		}
	}
	return false
}

func shapes(repo string, pkgs []*pkgInfo, em *emitter) {
	em.sb.WriteString("/-! ### F-shape -/\n")
	byAlias := map[string]*pkgInfo{}
	for _, p := range pkgs {
		byAlias[p.alias] = p
	}
	// 1. every mutating handler refuses before it touches anything unless writing was enabled
	if h := byAlias["handler"]; h != nil {
		for _, name := range []string{"HandleCreateFile", "HandleWriteFile", "HandleDeleteFile", "HandleMkdir", "HandleRmdir"} {
			if fd := findFunc(h, "Handler", name); fd != nil {
				em.boolean("handler_guardFirst_"+name, writeGuardFirst(h, fd))
			} else {
				em.degraded = append(em.degraded, "handler_guardFirst_"+name)
			}
		}
	}
	// 2. the read deadline is armed inside the request loop of serveConn (once per request), not once per connection
	if s := byAlias["server"]; s != nil {
		if fd := findFunc(s, "Server", "serveConn"); fd != nil {
			inLoop, anywhere := false, false
			var walk func(n ast.Node, loop bool)
			walk = func(n ast.Node, loop bool) {
				ast.Inspect(n, func(x ast.Node) bool {
					switch t := x.(type) {
					case *ast.ForStmt:
						walk(t.Body, true)
						return false
					case *ast.RangeStmt:
						walk(t.Body, true)
						return false
					case *ast.CallExpr:
						if strings.Contains(exprString(t.Fun), "ReadDeadline") {
							anywhere = true
							if loop {
								inLoop = true
							}
						}
					}
					return true
				})
			}
			walk(fd.Body, false)
			if anywhere {
				em.boolean("server_armInLoop", inLoop)
			} else {
				em.degraded = append(em.degraded, "server_armInLoop")
			}
			// 3. the connection itself is closed by an unconditional deferred call (whatever closing the state reports)
			uncond := false
			for _, st := range fd.Body.List {
				if d, ok := st.(*ast.DeferStmt); ok {
					if sel, ok := d.Call.Fun.(*ast.SelectorExpr); ok && sel.Sel.Name == "Close" && exprString(sel.X) == "conn" {
						uncond = true
					}
				}
			}
			em.boolean("server_connCloseDeferred", uncond)
		} else {
			em.degraded = append(em.degraded, "server_armInLoop", "server_connCloseDeferred")
		}
	}
}
