#!/usr/bin/env python3
"""Regenerates MANIFEST.json from checkcfg.py (so the two never drift)."""
import json, os, sys
V = os.path.dirname(os.path.abspath(__file__))
sys.path.insert(0, V)
from checkcfg import PROPS, LEVEL_TEXT, NOT_APPLICABLE

ids = [json.loads(l)["id"] for l in open(os.path.join(V, "properties.jsonl"))]
checks = []
for pid in ids:
    if pid not in PROPS:
        continue
    c = PROPS[pid]
    checks.append({
        "property_id": pid,
        "quick_cmd": "./check %s --tier quick" % pid,
        "thorough_cmd": "./check %s --tier thorough" % pid,
        "evidence_file": "evidence/%s.json" % pid,
        "replay_cmd_template": "./check %s --replay {path}" % pid,
        "engine": "lean4-model+differential",
        "level_claimed": {"category": "proof", "text": LEVEL_TEXT[pid], "design_ref": "DESIGN.md §5 " + pid},
        "level_note": c.get("level_note", "Trusted: Lean 4.33 kernel (axioms propext, Classical.choice, Quot.sound only), the hand-written Lean model tied to the code by "
                            "the regenerated facts file and the differential harness; Go runtime/stdlib/OS behaviour listed in DESIGN.md §8."),
        "technique": c.get("technique", "Lean 4 theorems over an executable model + differential correspondence check against the real code"),
    })
na = [{"property_id": p, "reason": NOT_APPLICABLE[p]} for p in ids if p not in PROPS]
m = {
    "version": 1,
    "setup_cmd": "./setup.sh",
    "hooks": {
        "guard": "verif",
        "enable": "cd /repo && go build -tags verif -overlay /verif/.build/overlay.json ./cmd/verifharness  (the harness is overlaid into the module; no file in /repo carries a hook)",
        "baseline_off_cmd": "cd /repo && go test -mod=mod -json -vet=off -count=1 -timeout 25m ./...",
        "source_commits": [],
        "add_only": True,
    },
    "engines": [{"name": "lean4-model+differential", "path": "lean/ harness/ extract/ check",
                 "serves_properties": [c["property_id"] for c in checks],
                 "kind_free_text": "Lean 4 (core only) executable model + kernel-checked theorems; Go differential harness compiled into /repo's module via -overlay; go/ast fact extractor regenerating Gen/Facts.lean"}],
    "checks": checks,
    "not_applicable": na,
    "notes": "See DESIGN.md. known_findings.txt lists recorded findings and fixed defects.",
}
json.dump(m, open(os.path.join(V, "MANIFEST.json"), "w"), indent=1)
print("MANIFEST.json: %d checks, %d not_applicable" % (len(checks), len(na)))
