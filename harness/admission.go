//go:build verif

package main

import (
	"fmt"
	"io"
	"log/slog"
	"net"
	"os"
	"strings"
	"time"

	"github.com/spf13/afero"
	"golang.org/x/net/netutil"

	"github.com/xakep666/ps3netsrv-go/internal/copier"
	"github.com/xakep666/ps3netsrv-go/internal/handler"
	"github.com/xakep666/ps3netsrv-go/pkg/fs"
	"github.com/xakep666/ps3netsrv-go/pkg/iprange"
	"github.com/xakep666/ps3netsrv-go/pkg/server"
)

// tcpEnv: the real server on a loopback TCP listener wrapped exactly as cmd/ps3netsrv-go/server.go
// wraps it: LimitListener first (if maxClients > 0), FilterListener outermost (if a whitelist is given).
type tcpEnv struct {
	ln   net.Listener
	addr string
	root string
}

// tcpCloseErr: the next library servers run over a filesystem whose handles report an error from Close()
var tcpCloseErr bool

func newTCPEnv(root string, whitelist string, maxClients int, readTimeout time.Duration) (*tcpEnv, error) {
	socket, err := net.Listen("tcp4", "127.0.0.1:0")
	if err != nil {
		return nil, err
	}
	addr := socket.Addr().String()
	var osfs afero.Fs = afero.NewOsFs()
	if tcpCloseErr {
		osfs = closeErrFs{osfs}
	}
	s := &server.Server[handler.State]{
		Handler: &handler.Handler{
			Fs:     &fs.FS{Fs: afero.NewBasePathFs(osfs, root)},
			Copier: copier.NewPooledCopier(65536),
		},
		ReadTimeout: readTimeout,
		Logger:      slog.New(slog.NewTextHandler(io.Discard, nil)),
	}
	if maxClients > 0 {
		socket = netutil.LimitListener(socket, maxClients)
	}
	if whitelist != "" {
		rg, err := iprange.ParseIPRange(whitelist)
		if err != nil {
			socket.Close()
			return nil, err
		}
		socket = iprange.FilterListener(socket, rg, false)
	}
	go s.Serve(socket)
	return &tcpEnv{ln: socket, addr: addr, root: root}, nil
}

func (e *tcpEnv) close() { e.ln.Close() }

// dialFrom connects from a chosen 127.x.y.z source address.
func (e *tcpEnv) dialFrom(src net.IP) (net.Conn, error) {
	d := net.Dialer{Timeout: 2 * time.Second, LocalAddr: &net.TCPAddr{IP: src}}
	return d.Dial("tcp4", e.addr)
}

var statRootReq = creq{op: opStatFile, path: "/"}.bytes()
var openDirRootReq = creq{op: opOpenDir, path: "/"}.bytes()

// probe sends one STAT "/" and classifies: 's' answered (33 bytes), 'c' closed/reset without a byte,
// 'w' nothing within the wait (still waiting), '?' anything else.
func probeConn(c net.Conn, wait time.Duration) byte {
	c.SetDeadline(time.Now().Add(wait))
	if _, err := c.Write(statRootReq); err != nil {
		return 'c'
	}
	buf := make([]byte, 33)
	n, err := io.ReadFull(c, buf)
	switch {
	case n == 33:
		return 's'
	case n == 0 && err != nil:
		if ne, ok := err.(net.Error); ok && ne.Timeout() {
			return 'w'
		}
		return 'c'
	default:
		return '?'
	}
}

func c15Stream(o *out, r *rng, thorough bool) {
	root, err := os.MkdirTemp("", "vroot15-")
	if err != nil {
		return
	}
	defer os.RemoveAll(root)
	// ---- whitelist: every address outside is closed without a byte, every address inside is served ----
	nSpecs := 24
	if thorough {
		nSpecs = 150
	}
	specs := []string{"127.0.0.1", "127.0.0.0/8", "127.0.0.0/30", "127.0.0.0/31", "127.0.0.5/32", "127.0.1.0/24", "127.0.0.2-127.0.0.9",
		"127.0.0.0/255.255.255.0", "127.1.2.3", "::ffff:127.0.0.0/120", "10.0.0.0/8", "::1", "127.0.0.1-127.255.255.254", "127.0.0.16/28",
		"127.0.0.200-127.0.1.10", "127.0.1.250-127.1.0.3", // ranges whose low octets decrease while the address grows
		"::/96", "::127.0.0.0/104", "::1-::ffff:ffff", "::7f00:1"} // genuine IPv6 sets whose LOW 32 bits bracket the IPv4 clients: nobody of them is inside
	for len(specs) < nSpecs {
		switch r.intn(3) {
		case 0:
			specs = append(specs, fmt.Sprintf("127.%d.%d.%d/%d", r.intn(3), r.intn(3), r.intn(256), 8+r.intn(25)))
		case 1:
			a := r.intn(250)
			if r.chance(50) {
				specs = append(specs, fmt.Sprintf("127.0.0.%d-127.0.%d.%d", a, r.intn(2), a+r.intn(5)))
			} else {
				specs = append(specs, fmt.Sprintf("127.0.%d.%d-127.%d.%d.%d", r.intn(2), a, r.intn(2), r.intn(3), r.intn(256)))
			}
		default:
			specs = append(specs, fmt.Sprintf("127.%d.%d.%d", r.intn(2), r.intn(2), 1+r.intn(20)))
		}
	}
	for _, spec := range specs[:nSpecs] {
		env, err := newTCPEnv(root, spec, 0, 0)
		if err != nil {
			o.emit("c15w "+hx([]byte(spec)), "rej", "", "")
			continue
		}
		var srcs []net.IP
		set, ok := c14oracle(spec)
		if ok {
			for _, p := range c14probes(r, set, 14) {
				if p4 := p.To4(); p4 != nil && p4[0] == 127 && !(p4[1] == 0 && p4[2] == 0 && p4[3] == 0) && !(p4[1] == 255 && p4[2] == 255 && p4[3] == 255) {
					srcs = append(srcs, p4)
				}
			}
		}
		for len(srcs) < 12 {
			srcs = append(srcs, net.IPv4(127, byte(r.intn(3)), byte(r.intn(3)), byte(1+r.intn(30))).To4())
		}
		var sb, line strings.Builder
		line.WriteString("c15w " + hx([]byte(spec)))
		for _, src := range srcs {
			c, err := env.dialFrom(src)
			if err != nil {
				sb.WriteByte('c') // refused/reset during connect counts as closed without a byte
			} else {
				sb.WriteByte(probeConn(c, 1500*time.Millisecond))
				c.Close()
			}
			line.WriteString(" " + hx(src))
		}
		env.close()
		o.count("whitelist")
		o.emit(line.String(), "acc "+sb.String(), "", spec)
	}
	// ---- client limit: at most N served, the others wait, every ended or rejected connection frees its slot ----
	nOrders := 6
	maxN := 3
	if thorough {
		nOrders, maxN = 60, 8
	}
	nReal := 2 // orders run against the REAL binary: its own listener wiring (limit inside, whitelist outside) is the object
	if thorough {
		nReal = 12
	}
	for oi := 0; oi < nOrders+nReal; oi++ {
		N := 1 + r.intn(maxN)
		wl := ""
		if r.chance(50) || oi >= nOrders {
			wl = "127.0.0.0/24" // sources 127.0.1.x are rejected arrivals
		}
		var env *tcpEnv
		var srv *srvProc
		holdDir := false
		if oi >= nOrders {
			var err error
			srv, err = startServer(root, "", fmt.Sprintf("--max-clients=%d", N), "--client-whitelist="+wl)
			if err != nil {
				o.notes = append(o.notes, "real binary for c15: "+err.Error())
				continue
			}
			env = &tcpEnv{addr: srv.addr(), root: root}
			o.count("limit:real-binary")
		} else {
			// every second order: each client holds a directory open, and closing it reports an error when the
			// connection ends - the slot must come back all the same ("every ended connection frees its slot")
			holdDir = oi%2 == 1
			tcpCloseErr = holdDir
			var err error
			env, err = newTCPEnv(root, wl, N, 0)
			tcpCloseErr = false
			if err != nil {
				continue
			}
			if holdDir {
				o.count("limit:close-reports-error")
			}
		}
		hello := statRootReq
		helloLen := 33
		if holdDir {
			hello = append(append([]byte{}, openDirRootReq...), statRootReq...)
			helloLen = 37
		}
		nClients := N + 1 + r.intn(2*N+1)
		if nClients > 4*N {
			nClients = 4 * N
		}
		type cl struct {
			c      net.Conn
			inside bool
			state  byte // 'n' not arrived, 'w' waiting/unknown, 's' served, 'c' closed by server, 'd' departed
			got    int  // bytes of the answer received so far
		}
		cls := make([]*cl, nClients)
		var events []string
		var obsSeq []string
		arrived := 0
		observe := func() string {
			// give the accept loop time, then see who has been answered
			time.Sleep(40 * time.Millisecond)
			var parts []string
			for i, c := range cls {
				if c == nil || c.state == 'd' || c.state == 'c' {
					continue
				}
				if c.state != 's' {
					c.c.SetReadDeadline(time.Now().Add(15 * time.Millisecond))
					buf := make([]byte, helloLen-c.got)
					n, err := io.ReadFull(c.c, buf)
					c.got += n
					if c.got == helloLen {
						c.state = 's'
					} else if n == 0 && err != nil {
						if ne, ok := err.(net.Error); !(ok && ne.Timeout()) {
							c.state = 'c'
							continue
						}
					}
				}
				if c.state == 's' {
					parts = append(parts, fmt.Sprint(i))
				}
			}
			return strings.Join(parts, ".")
		}
		steps := nClients + r.intn(nClients+1) + 2
		for st := 0; st < steps; st++ {
			var live []int
			for i, c := range cls {
				if c != nil && (c.state == 's' || c.state == 'w') {
					live = append(live, i)
				}
			}
			arriveP := 60
			if srv != nil {
				arriveP = 92 // against the real binary: fill the server beyond its limit before anybody leaves
			}
			if arrived < nClients && (len(live) == 0 || r.chance(arriveP)) {
				i := arrived
				arrived++
				inside := wl == "" || !r.chance(25)
				src := net.IPv4(127, 0, 0, byte(2+i)).To4()
				if !inside {
					src = net.IPv4(127, 0, 1, byte(2+i)).To4()
				}
				c, err := env.dialFrom(src)
				if err != nil {
					cls[i] = &cl{state: 'c', inside: inside}
				} else {
					c.Write(hello)
					cls[i] = &cl{c: c, inside: inside, state: 'w'}
				}
				in := 1
				if !inside {
					in = 0
				}
				events = append(events, fmt.Sprintf("a%d:%d", i, in))
			} else if len(live) > 0 {
				i := live[r.intn(len(live))]
				cls[i].c.Close()
				cls[i].state = 'd'
				events = append(events, fmt.Sprintf("d%d", i))
			} else {
				continue
			}
			obsSeq = append(obsSeq, observe())
		}
		for _, c := range cls {
			if c != nil && c.c != nil {
				c.c.Close()
			}
		}
		if srv != nil {
			srv.stop()
		} else {
			env.close()
		}
		o.count(fmt.Sprintf("limit:N=%d", N))
		o.emit(fmt.Sprintf("c15l %d %s", N, strings.Join(events, ",")), strings.Join(obsSeq, "|"), "", fmt.Sprintf("order%d", oi))
	}
}

func init() {
	streams["c15"] = c15Stream
}
