//go:build verif

package main

import (
	"fmt"
	"os"
	"path/filepath"
	"strings"

	"github.com/spf13/afero"
)

var pathOps = []uint16{opOpenFile, opStatFile, opOpenDir, opCreateFile, opDeleteFile, opMkdir, opRmdir, opGetDirSize}

// hostile path strings: fixed escapes first, then random walks over the component alphabet
func c01Paths(r *rng, t *tree, n int) []string {
	ps := []string{
		"/../games-other/secret", "../games-other/secret", "/../secret", "..", "/..", "../", "/../", "../..", "/../../../../../../etc/passwd",
		"/a/../../games-other/secret", "/./../games-other", "//..//games-other//secret", "/..\x00/secret", "/\x00", "\x00",
		"/..\x00/games-other/secret", "/\x00../games-other/secret", "/.\x00./games-other/secret", "/***DVD***/..\x00/games-other", "/..\x00/games-other", "/a/..\x00/..\x00/games-other/secret", // a NUL glued to a dot-dot element: a name to Clean, never a way up
		"/../games", "/../games/", "/../games/../games-other/secret", "games-other/secret", "/games-other/secret", "",
		"/", ".", "/.", "./", "//", "/./.", "/../games-other", "../games-other", "/../games-other/", "/../games-other/new",
		"/../newfile", "/../games-other/newdir",
		"/***DVD***/../games-other", "/***DVD***../games-other", "/***PS3***/../games-other", "/***PS3***../games-other", "/***DVD***/..",
		"/***DVD***/../../games-other/secret", "***DVD***/../games-other", "/***DVD***/", "/***DVD***", "/***DVD***//../games-other/",
		"/***DVD***/a/../../../games-other", "/***PS3***/", "/***DVD***/.", "/x/../***DVD***/../games-other", "/" + strings.Repeat("../", 40) + "tmp", "/" + strings.Repeat("a/", 300),
		"/" + strings.Repeat("x", 255), "/" + strings.Repeat("x", 256), "/" + strings.Repeat("y", 65000),
	}
	comps := []string{"..", ".", "", "games-other", "secret", "games", "\x00", strings.Repeat("n", 255), "new", "a", "b", "***DVD***", "***PS3***", "***DVD***..", "..***DVD***"}
	for _, nd := range t.nodes {
		if nd.path != "/" {
			comps = append(comps, filepath.Base(nd.path))
		}
	}
	for len(ps) < n {
		k := 1 + r.intn(6)
		var cs []string
		for i := 0; i < k; i++ {
			cs = append(cs, comps[r.intn(len(comps))])
		}
		p := strings.Join(cs, "/")
		if r.chance(70) {
			p = "/" + p
		}
		ps = append(ps, p)
	}
	return ps
}

// withTempRootVariant is withTempRoot with a different world *outside* the root.
func withTempRootVariant(fn func(root string)) {
	base, err := os.MkdirTemp("", "vroot-")
	if err != nil {
		panic(err)
	}
	defer os.RemoveAll(base)
	root := filepath.Join(base, "games")
	os.Mkdir(root, 0o755)
	// no sibling directory, a different secret, an extra directory: responses must not notice
	os.WriteFile(filepath.Join(base, "secret"), []byte("a-very-different-and-longer-secret"), 0o600)
	os.Mkdir(filepath.Join(base, "newdir"), 0o755)
	os.Mkdir(filepath.Join(base, "secret2"), 0o755)
	fn(root)
}

func outsideSnapshot(root string) string {
	base := filepath.Dir(root)
	var parts []string
	filepath.Walk(base, func(p string, info os.FileInfo, err error) error {
		if err != nil {
			return nil
		}
		if p == root {
			return filepath.SkipDir
		}
		parts = append(parts, fmt.Sprintf("%s:%d:%v", strings.TrimPrefix(p, base), info.Size(), info.IsDir()))
		return nil
	})
	return strings.Join(parts, ",")
}

func c01Stream(o *out, r *rng, thorough bool) {
	nTrees, nPaths := 2, 70
	if thorough {
		nTrees, nPaths = 6, 400
	}
	for ti := 0; ti < nTrees; ti++ {
		t := genTree(r, 3, 3, false)
		// make sure there is something to find at the names the escapes use
		t.add(tnode{path: "/secret", kind: 'f', size: 5, seed: 9, mtime: genMtime(r)})
		paths := c01Paths(r, t, nPaths)
		for _, aw := range []bool{false, true} {
			for _, p := range paths {
				for _, op := range pathOps {
					if !thorough && r.chance(45) {
						continue
					}
					// a prior history: something open, a directory being enumerated
					var reqs []creq
					if r.chance(40) {
						reqs = append(reqs, creq{op: opOpenDir, path: "/"}, creq{op: opReadDirEntry})
					}
					reqs = append(reqs, creq{op: op, path: p})
					switch op {
					case opOpenFile:
						reqs = append(reqs, creq{op: opReadFile, a: 64, b: 0})
					case opOpenDir:
						reqs = append(reqs, creq{op: opReadDir})
					case opCreateFile:
						reqs = append(reqs, creq{op: opWriteFile, payload: []byte("pwned"), announced: 5})
					}
					var line, twin, nodesEnc string
					var outsideChanged bool
					withTempRoot(func(root string) {
						if err := t.materialize(root); err != nil {
							return
						}
						nodes, _ := t.ordered(root)
						nodesEnc = encodeTree(nodes)
						before := outsideSnapshot(root)
						env := newConnEnv(root, aw, 65536)
						line = env.runSession(reqs, true)
						env.close()
						outsideChanged = before != outsideSnapshot(root)
					})
					withTempRootVariant(func(root string) {
						if err := t.materialize(root); err != nil {
							return
						}
						env := newConnEnv(root, aw, 65536)
						twin = env.runSession(reqs, true)
						env.close()
					})
					if outsideChanged {
						line += " OUTSIDE-CHANGED"
					}
					a := 0
					if aw {
						a = 1
					}
					o.count("op:" + opName(op))
					key := ""
					if strings.Contains(p, "..") || strings.Contains(p, "\x00") || len(p) > 255 {
						key = fmt.Sprintf("%s:%x:%v", opName(op), fnv1a([]byte(p)), aw)
						o.count("hostile")
					}
					o.emit(fmt.Sprintf("conn %d %s %s", a, nodesEnc, encodeReqs(reqs)), line, twin, key)
				}
			}
		}
	}
}

// c01pStream ties the Lean model of Go's filepath.Clean and of afero's BasePathFs.RealPath to the
// real library functions (these are dependencies, not repository code: this validates the model's
// trusted base).
func c01pStream(o *out, r *rng, thorough bool) {
	n := 1500
	if thorough {
		n = 20000
	}
	comps := []string{"..", ".", "", "a", "b", "games", "games-other", "...", "..a", "a..", "x y", "\x00", "***DVD***", strings.Repeat("n", 255)}
	roots := []string{"/srv/games", "/srv/games/", "/srv/./games", "/srv/x/../games", "/", "//srv//games//", "/a", "/srv/games/.."}
	for i := 0; i < n; i++ {
		k := r.intn(8)
		var cs []string
		for j := 0; j < k; j++ {
			cs = append(cs, comps[r.intn(len(comps))])
		}
		p := strings.Join(cs, "/")
		if r.chance(60) {
			p = "/" + p
		}
		if r.chance(10) {
			p += "/"
		}
		cleaned := filepath.Clean("/" + p)
		o.emit("clean "+hx([]byte(p)), hx([]byte(cleaned)), "", p)
		root := roots[r.intn(len(roots))]
		bp := afero.NewBasePathFs(afero.NewOsFs(), root).(*afero.BasePathFs)
		rp, err := bp.RealPath(cleaned)
		res := hx([]byte(rp))
		if err != nil {
			res = "err"
		}
		o.emit("real "+hx([]byte(root))+" "+hx([]byte(p)), res, "", root+"|"+p)
		o.count(fmt.Sprintf("ncomps:%d", k))
	}
}

func init() {
	streams["c01"] = c01Stream
	streams["c01p"] = c01pStream
}
