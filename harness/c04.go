//go:build verif

package main

// C04: no client input and no on-disk content can crash the server.
//
// part A (tag conn, model-predicted): hostile worlds — malformed PARAM.SFO, crafted region tables,
//        key files, truncated 3k3y areas, over-long and non-UTF-8 names — served in-process; every
//        response is predicted by the Lean model; a panic kills the harness and is reported.
// part B (tag c04 bb): the REAL binary on a hostile root, hostile byte streams (random, mutated
//        valid sessions, extreme fields, floods); after each: process alive, a fresh connection is
//        served, a bystander connection still gets its bytes.
// part C (tag c04 tool): the REAL binary's make-iso / decrypt on the same hostile inputs: a normal
//        exit, never a crash.
// part D (tag c04 fd / mem): descriptor exhaustion and huge READ_FILE lengths against the real binary.

import (
	"bufio"
	"bytes"
	"encoding/binary"
	"fmt"
	"io"
	"net"
	"os"
	"os/exec"
	"path/filepath"
	"strconv"
	"strings"
	"sync"
	"syscall"
	"time"
)

// seekMaxAsModelled: does lseek on the scratch filesystem accept exactly the offsets the model assumes?
var seekMaxOnce sync.Once
var seekMaxOK bool

func seekMaxAsModelled() bool {
	seekMaxOnce.Do(func() {
		f, err := os.CreateTemp("", "vseek-")
		if err != nil {
			return
		}
		defer os.Remove(f.Name())
		defer f.Close()
		_, e1 := f.Seek(1<<44-4096, io.SeekStart)
		_, e2 := f.Seek(1<<44-4095, io.SeekStart)
		seekMaxOK = e1 == nil && e2 != nil
	})
	return seekMaxOK
}

// ---------- hostile content ----------

func le32b(v uint32) []byte { b := make([]byte, 4); binary.LittleEndian.PutUint32(b, v); return b }

// sfoVariant cycles through the special values of each kind so that every one of them is produced
// after a few worlds, whatever the seed (a randomly picked DataLen of 0 once went untested)
var sfoVariant = map[int]int{}

func pickVariant(kind, n int) int {
	v := sfoVariant[kind] % n
	sfoVariant[kind]++
	return v
}

// mutSFO: a PARAM.SFO that is wrong in one specific way (kind 0 = well-formed)
func mutSFO(r *rng, titleID string, kind int) []byte {
	ents := [][2]string{{"CATEGORY", "DG"}, {"TITLE_ID", titleID}, {"VERSION", "01.00"}}
	if r.chance(50) {
		ents[0], ents[1] = ents[1], ents[0]
	}
	b := sfoBytes(ents)
	tidx := -1 // index-table entry of TITLE_ID
	for i, e := range ents {
		if e[0] == "TITLE_ID" {
			tidx = 20 + 16*i
		}
	}
	put := func(off int, v uint32) {
		if off+4 <= len(b) {
			copy(b[off:], le32b(v))
		}
	}
	huge := []uint32{0, 1, uint32(len(b)), uint32(len(b)) + 100, 0x7fffffff, 0x80000000, 0xffffffff}
	switch kind {
	case 1:
		b = b[:r.intn(len(b))]
	case 2:
		b[r.intn(4)] ^= 0x40
	case 3:
		put(16, []uint32{0, 1, 2, 1000, 0x7fffffff, 0xffffffff}[pickVariant(3, 6)])
	case 4:
		put(8, huge[pickVariant(4, len(huge))])
	case 5:
		put(12, huge[pickVariant(5, len(huge))])
	case 6:
		put(tidx+4, []uint32{0, 1, 2, 3, 4, 5, 31, 32, 33, 40, 0x7fffffff, 0xffffffff}[pickVariant(6, 12)])
	case 7:
		put(tidx+12, huge[pickVariant(7, len(huge))])
	case 8:
		b[tidx], b[tidx+1] = 0xff, 0xff
	case 9:
		for i := 0; i < 1+r.intn(4); i++ {
			b[r.intn(len(b))] ^= byte(1 << r.intn(8))
		}
	case 10:
		// no NUL anywhere after the key table start: keys run to the end of the file
		ks := int(binary.LittleEndian.Uint32(b[8:]))
		for i := ks; i < len(b); i++ {
			if b[i] == 0 {
				b[i] = 'K'
			}
		}
	case 11:
		b = []byte{}
	case 12:
		b = b[:20]
	case 13:
		// declared value length around the parser's 64 KiB bound, with the bytes really there
		put(tidx+4, []uint32{65535, 65536, 65537, 70000}[pickVariant(13, 4)])
		b = append(b, bytes.Repeat([]byte{'V'}, 70100)...)
	case 14:
		// a key of 510..513 bytes before TITLE_ID: keys are read through a 512-byte window
		klen := []int{510, 511, 512, 513}[pickVariant(14, 4)]
		b = sfoBytes([][2]string{{strings.Repeat("K", klen), "x"}, {"TITLE_ID", titleID}})
	}
	return b
}

var hostileTitleIDs = []string{"BLES12345", "", "A", "ABC", "ABCD", "ABCDE", strings.Repeat("T", 31), strings.Repeat("T", 32), strings.Repeat("T", 40), "BL\xffS1", "ÜÜÜÜ",
	// few characters, many bytes: the product-code field is 32 BYTES wide (valid multi-byte UTF-8, so that
	// a guard counting characters instead of bytes lets them through)
	"BLES" + strings.Repeat("é", 14), strings.Repeat("é", 16), "BLES" + strings.Repeat("\U0001F600", 7), strings.Repeat("é", 15) + "Z", strings.Repeat("é", 15)}

var hostileNames = []string{
	strings.Repeat("L", 255), strings.Repeat("é", 127), "bad\xff\xfeutf8", "tab\there", "new\nline", "semi;colon.v;1", ".", "trailing.", " lead", "x\x01\x02ctl",
	strings.Repeat("d", 222) + ".ext", strings.Repeat("J", 111), "\xf0\x9f\x98\x80emoji", "UPPER", "lower", "Mixed.Case.TXT", "..dots..", "***PS3***", "$RECYCLE.BIN",
}

func addFileBytes(t *tree, r *rng, path string, b []byte) {
	t.add(tnode{path: path, kind: 'f', size: int64(len(b)), seed: 0, mtime: genMtime(r), overlays: []overlay{{0, b}}})
}

// hostileGame: /GAMES/<name> with a (possibly broken) PS3_GAME/PARAM.SFO and oddly named content
func hostileGame(t *tree, r *rng, name string, sfoKind int, titleID string, o *out) string {
	dir := "/GAMES/" + name
	t.add(tnode{path: dir, kind: 'd', mtime: genMtime(r)})
	if sfoKind >= 0 {
		t.add(tnode{path: dir + "/PS3_GAME", kind: 'd', mtime: genMtime(r)})
		addFileBytes(t, r, dir+"/PS3_GAME/PARAM.SFO", mutSFO(r, titleID, sfoKind))
		o.count(fmt.Sprintf("sfo-kind:%d", sfoKind))
	}
	used := map[string]bool{"PS3_GAME": true}
	for i := 0; i < 1+r.intn(4); i++ {
		nm := hostileNames[r.intn(len(hostileNames))]
		if nm == "." || used[nm] {
			continue
		}
		used[nm] = true
		if r.chance(30) {
			t.add(tnode{path: dir + "/" + nm, kind: 'd', mtime: genMtime(r)})
			t.add(tnode{path: dir + "/" + nm + "/inner", kind: 'f', size: genSize(r) % 5000, seed: int64(r.intn(200)), mtime: genMtime(r)})
		} else {
			t.add(tnode{path: dir + "/" + nm, kind: 'f', size: genSize(r) % 70000, seed: int64(r.intn(200)), mtime: genMtime(r)})
		}
	}
	return dir
}

// hostileTable: the first bytes of an image whose region table is wrong in one way
func hostileTable(r *rng, kind int, sectors uint32) []byte {
	be := func(v uint32) []byte { return be32(v) }
	var b []byte
	switch kind {
	case 0: // valid
		return tableBytes([]refRegion{{0, 1}, {2, sectors}})
	case 1: // count only, nothing else
		return be([]uint32{0, 1, 2, 255, 256, 0x7fffffff, 0xffffffff}[r.intn(7)])
	case 2: // huge count followed by data
		b = append(be([]uint32{256, 1000, 0x10000000, 0xffffffff}[r.intn(4)]), be(0)...)
		for i := 0; i < 64; i++ {
			b = append(b, be(uint32(i))...)
		}
	case 3: // count 0 / 1
		b = append(be(uint32(r.intn(2))), be(0)...)
		b = append(b, be(0)...)
		b = append(b, be(sectors)...)
	case 4: // first region not at 0
		b = tableBytes([]refRegion{{1, 2}, {3, sectors}})
	case 5: // overlapping / decreasing / empty regions
		b = tableBytes([][]refRegion{{{0, 3}, {2, sectors}}, {{0, 1}, {5, 4}}, {{0, 1}, {3, 3}}, {{0, 0}, {1, 2}}, {{0, 0xffffffff}, {0xffffffff, 0xffffffff}}}[r.intn(5)])
	case 6: // table longer than the file announces entries for (truncated)
		full := tableBytes([]refRegion{{0, 1}, {2, 3}, {4, 5}, {6, sectors}})
		b = full[:8+r.intn(len(full)-8)]
	case 7: // 255 regions exactly (the maximum), valid
		var regs []refRegion
		for i := uint32(0); i < 255; i++ {
			regs = append(regs, refRegion{2 * i, 2*i + 1})
		}
		b = tableBytes(regs)
	case 8: // regions far beyond the end of the file
		b = tableBytes([]refRegion{{0, 1}, {0x7ffffff0, 0x7fffffff}, {0xfffffff0, 0xffffffff}})
	case 10: // valid, and the sectors the sector-size probe looks at are encrypted
		return tableBytes([]refRegion{{0, uint32(1 + r.intn(3))}, {sectors - 2, sectors}})
	case 9: // random bytes
		b = make([]byte, 8+r.intn(64))
		for i := range b {
			b[i] = byte(r.next())
		}
		b[0], b[1], b[2] = 0, 0, 0
	}
	return b
}

func hostileImage(t *tree, r *rng, name string, kind int, keySit int, o *out) string {
	sectors := uint32(3 + r.intn(6))
	if kind == 10 {
		sectors = uint32(24 + r.intn(20))
	}
	size := int64(sectors)*2048 + int64(r.pick(0, 0, 1, 100, 2047))
	tb := hostileTable(r, kind, sectors)
	if kind == 1 || kind == 6 || (kind != 10 && r.chance(10)) {
		size = int64(len(tb)) // the file ends with (or inside) the table
	}
	if kind == 7 && size < int64(len(tb)) {
		size = int64(len(tb)) + 100
	}
	if int64(len(tb)) > size {
		tb = tb[:size]
	}
	p := "/PS3ISO/" + name + ".iso"
	n := tnode{path: p, kind: 'f', size: size, seed: int64(r.intn(200)), mtime: genMtime(r)}
	if len(tb) > 0 {
		n.overlays = []overlay{{0, tb}}
	}
	// sometimes a 3k3y watermark, possibly cut by the end of the file
	if r.chance(25) && size > 0xF70 {
		wm := append(append([]byte{}, wmEnc...), randKey(r)...)
		if r.chance(40) {
			wm = append([]byte{}, wmDec...)
		}
		if int64(0xF70+len(wm)) > size {
			wm = wm[:size-0xF70]
		}
		n.overlays = append(n.overlays, overlay{0xF70, wm})
		o.count("img-3k3y")
	}
	t.add(n)
	o.count(fmt.Sprintf("table-kind:%d", kind))
	switch keySit {
	case 1:
		t.add(keyFileNode("/PS3ISO/"+name+".dkey", randKey(r), r, r.intn(3)))
	case 2:
		addFileBytes(t, r, "/PS3ISO/"+name+".dkey", []byte("not hex at all, but long enough.........."))
	case 3:
		addFileBytes(t, r, "/PS3ISO/"+name+".dkey", []byte("0123"))
	case 4:
		addFileBytes(t, r, "/PS3ISO/"+name+".dkey", []byte{})
	case 5:
		t.add(tnode{path: "/PS3ISO/" + name + ".dkey", kind: 'd', mtime: genMtime(r)})
	}
	o.count(fmt.Sprintf("key-sit:%d", keySit))
	return p
}

func hostileReads(r *rng, size int64, n int) []creq {
	var reqs []creq
	offs := []int64{0, 1, 7, 8, 15, 16, 17, 2047, 2048, 2049, 0xF6F, 0xF70, 0xF71, 0x106F, 0x1070, 4095, 4096, size - 2049, size - 2048, size - 1, size, size + 1, size + 5000}
	lims := []uint64{0, 1, 15, 16, 17, 255, 2047, 2048, 2049, 4096, 6000, 65536, 0x7fffffff, 0xffffffff}
	for i := 0; i < n; i++ {
		off := offs[r.intn(len(offs))]
		if off < 0 {
			off = 0
		}
		uo := uint64(off)
		if r.chance(6) {
			// 2^44-4096 is the largest offset lseek accepts on ext4 (the model's osSeekMax)
			uo = []uint64{1<<44 - 4096, 1<<44 - 4095, 1 << 62, 1<<63 - 1, 1 << 63, 1<<64 - 1}[r.intn(6)]
			if !seekMaxAsModelled() && uo < 1<<63 {
				uo = 1 << 63
			}
		}
		op := uint16(opReadFile)
		lim := lims[r.intn(len(lims))]
		if r.chance(30) {
			op = opReadFileCritical
			if lim > 100000 {
				lim = 70000
			}
		}
		reqs = append(reqs, creq{op: op, a: lim, b: uo})
	}
	if r.chance(50) {
		reqs = append(reqs, creq{op: opReadCD2048, a: uint64(r.pick(0, 1, 2, 0x7fffffff, 0xffffffff)), b: uint64(r.pick(0, 1, 3, 0xffffffff))})
	}
	return reqs
}

func c04Worlds(o *out, r *rng, thorough bool) {
	n := 40
	if thorough {
		n = 400
	}
	for i := 0; i < n; i++ {
		t := &tree{}
		t.add(tnode{path: "/", kind: 'd', mtime: genMtime(r)})
		var reqs []creq
		if r.chance(50) {
			t.add(tnode{path: "/GAMES", kind: 'd', mtime: genMtime(r)})
			sk := (i/2)%16 - 1 // -1 = no PS3_GAME at all; kinds and their special values are cycled, not drawn
			tid := hostileTitleIDs[0]
			if sk <= 0 || r.chance(30) {
				tid = hostileTitleIDs[r.intn(len(hostileTitleIDs))]
			}
			nm := r.picks("game", "A Game [BLES12345]", strings.Repeat("G", 40), "gäme", "g\xffme")
			dir := hostileGame(t, r, nm, sk, tid, o)
			mode := r.picks("/***PS3***", "/***DVD***")
			if sk >= 1 && r.chance(80) {
				mode = "/***PS3***" // only this mode reads PARAM.SFO
			}
			o.count("game-open:" + mode)
			reqs = append(reqs, creq{op: opStatFile, path: mode + dir}, creq{op: opOpenFile, path: mode + dir})
			reqs = append(reqs, hostileReads(r, 40*2048+int64(r.intn(400000)), 4+r.intn(5))...)
			reqs = append(reqs, creq{op: opOpenDir, path: dir}, creq{op: opReadDir}, creq{op: opGetDirSize, path: dir})
		} else {
			t.add(tnode{path: "/PS3ISO", kind: 'd', mtime: genMtime(r)})
			kind, ks := r.intn(11), r.intn(6)
			if kind == 10 || r.chance(25) {
				ks = 1 // a usable key: the decrypting path is live
			}
			p := hostileImage(t, r, r.picks("img", "Some Image", "ï"), kind, ks, o)
			reqs = append(reqs, creq{op: opStatFile, path: p}, creq{op: opOpenFile, path: p})
			reqs = append(reqs, hostileReads(r, t.sizeOf(p), 4+r.intn(6))...)
			// reads starting and ending inside the 3k3y area and inside single sectors
			reqs = append(reqs, creq{op: opReadFile, a: 100, b: 0xF71}, creq{op: opReadFile, a: 10, b: 0x1000}, creq{op: opReadFile, a: 3000, b: uint64(r.pick(0x800, 0x801, 0xFFF))})
			reqs = append(reqs, creq{op: opOpenDir, path: "/PS3ISO"}, creq{op: opReadDirEntry}, creq{op: opReadDirEntryV2}, creq{op: opReadDirEntry}, creq{op: opReadDirEntry})
		}
		runWithOracle(o, t, false, reqs, fmt.Sprintf("w%d", i), nil)
	}
	// every hostile TITLE_ID, always in PS3 mode (the product code is built from it)
	for ti, tid := range hostileTitleIDs {
		t := &tree{}
		t.add(tnode{path: "/", kind: 'd', mtime: genMtime(r)})
		t.add(tnode{path: "/GAMES", kind: 'd', mtime: genMtime(r)})
		dir := hostileGame(t, r, "tid", 0, tid, o)
		reqs := []creq{{op: opOpenFile, path: "/***PS3***" + dir}, {op: opReadFile, a: 4096, b: 2048}}
		runWithOracle(o, t, false, reqs, fmt.Sprintf("titleid%d", ti), nil)
	}
	// the parser's own limits (declared value length, key length), every variant, always in PS3 mode
	for _, kind := range []int{13, 14} {
		for v := 0; v < 4; v++ {
			t := &tree{}
			t.add(tnode{path: "/", kind: 'd', mtime: genMtime(r)})
			t.add(tnode{path: "/GAMES", kind: 'd', mtime: genMtime(r)})
			sfoVariant[kind] = v
			dir := hostileGame(t, r, "lim", kind, hostileTitleIDs[0], o)
			reqs := []creq{{op: opOpenFile, path: "/***PS3***" + dir}, {op: opReadFile, a: 4096, b: 32768}, {op: opReadFile, a: 300, b: 16*2048 + 30}}
			runWithOracle(o, t, false, reqs, fmt.Sprintf("sfolim%d_%d", kind, v), nil)
		}
	}
}

// ---------- the real binary as a server ----------

type srvProc struct {
	cmd    *exec.Cmd
	port   int
	mu     sync.Mutex
	log    bytes.Buffer
	exited chan struct{}
}

func startServer(root string, prelude string, extra ...string) (*srvProc, error) {
	port := freePort()
	args := append([]string{"server", "--root=" + root, fmt.Sprintf("--listen-addr=127.0.0.1:%d", port)}, extra...)
	var cmd *exec.Cmd
	if prelude != "" {
		q := []string{}
		for _, a := range append([]string{binPath()}, args...) {
			q = append(q, "'"+strings.ReplaceAll(a, "'", `'\''`)+"'")
		}
		cmd = exec.Command("/bin/sh", "-c", prelude+"; exec "+strings.Join(q, " "))
	} else {
		cmd = exec.Command(binPath(), args...)
	}
	cmd.Dir = root
	cmd.Env = []string{"TZ=UTC", "HOME=" + root, "XDG_CONFIG_HOME=" + filepath.Join(root, ".nonexistent-config"), "PATH=/usr/bin:/bin"}
	s := &srvProc{cmd: cmd, port: port, exited: make(chan struct{})}
	pr, pw := io.Pipe()
	cmd.Stdout, cmd.Stderr = pw, pw
	go func() {
		buf := make([]byte, 8192)
		for {
			n, err := pr.Read(buf)
			s.mu.Lock()
			if s.log.Len() > 1<<20 { // keep the tail only
				s.log.Next(s.log.Len() - 1<<19)
			}
			s.log.Write(buf[:n])
			s.mu.Unlock()
			if err != nil {
				return
			}
		}
	}()
	if err := cmd.Start(); err != nil {
		return nil, err
	}
	go func() { cmd.Wait(); pw.Close(); close(s.exited) }()
	for i := 0; i < 200; i++ {
		if c, err := net.DialTimeout("tcp4", s.addr(), 200*time.Millisecond); err == nil {
			c.Close()
			return s, nil
		}
		if !s.alive() {
			break
		}
		time.Sleep(20 * time.Millisecond)
	}
	s.stop()
	return nil, fmt.Errorf("server did not come up: %s", s.tail())
}

func (s *srvProc) addr() string { return fmt.Sprintf("127.0.0.1:%d", s.port) }
func (s *srvProc) alive() bool {
	select {
	case <-s.exited:
		return false
	default:
		return true
	}
}
func (s *srvProc) stop() {
	if s.alive() {
		s.cmd.Process.Kill()
	}
	<-s.exited
}
func (s *srvProc) tail() string {
	s.mu.Lock()
	defer s.mu.Unlock()
	b := s.log.Bytes()
	// the interesting part of a Go crash is its first lines
	for _, k := range []string{"panic:", "fatal error:"} {
		if i := bytes.Index(b, []byte(k)); i >= 0 {
			e := i + 300
			if e > len(b) {
				e = len(b)
			}
			return strings.ReplaceAll(string(b[i:e]), "\n", " | ")
		}
	}
	if len(b) > 300 {
		b = b[len(b)-300:]
	}
	return strings.ReplaceAll(string(b), "\n", " | ")
}
func (s *srvProc) peakRSSkB() int64 {
	b, err := os.ReadFile(fmt.Sprintf("/proc/%d/status", s.cmd.Process.Pid))
	if err != nil {
		return -1
	}
	for _, ln := range strings.Split(string(b), "\n") {
		if strings.HasPrefix(ln, "VmHWM:") {
			f := strings.Fields(ln)
			v, _ := strconv.ParseInt(f[1], 10, 64)
			return v
		}
	}
	return -1
}

// statRootProbe: a fresh connection must be accepted and answer STAT "/" with a directory record
func statRootProbe(addr string, wait time.Duration) bool {
	deadline := time.Now().Add(wait)
	for {
		ok := func() bool {
			c, err := net.DialTimeout("tcp4", addr, time.Second)
			if err != nil {
				return false
			}
			defer c.Close()
			c.SetDeadline(time.Now().Add(2 * time.Second))
			if _, err := c.Write(creq{op: opStatFile, path: "/"}.bytes()); err != nil {
				return false
			}
			resp := make([]byte, 33)
			if _, err := io.ReadFull(c, resp); err != nil {
				return false
			}
			return resp[32] == 1 // is a directory
		}()
		if ok {
			return true
		}
		if time.Now().After(deadline) {
			return false
		}
		time.Sleep(50 * time.Millisecond)
	}
}

// bystander: a long-lived, well-behaved connection with a file open
type bystander struct {
	c    net.Conn
	node *tnode
	k    int64
}

func newBystander(addr string, node *tnode) *bystander {
	c, err := net.DialTimeout("tcp4", addr, time.Second)
	if err != nil {
		return nil
	}
	c.SetDeadline(time.Now().Add(3 * time.Second))
	c.Write(creq{op: opOpenFile, path: node.path}.bytes())
	resp := make([]byte, 16)
	if _, err := io.ReadFull(c, resp); err != nil || int64(binary.BigEndian.Uint64(resp)) != node.size {
		c.Close()
		return nil
	}
	return &bystander{c: c, node: node}
}

func (b *bystander) check() bool {
	if b == nil {
		return false
	}
	b.k++
	off := (b.k * 977) % (b.node.size - 64)
	b.c.SetDeadline(time.Now().Add(3 * time.Second))
	if _, err := b.c.Write(creq{op: opReadFile, a: 64, b: uint64(off)}.bytes()); err != nil {
		return false
	}
	resp := make([]byte, 4+64)
	if _, err := io.ReadFull(b.c, resp); err != nil {
		return false
	}
	return binary.BigEndian.Uint32(resp) == 64 && bytes.Equal(resp[4:], b.node.slice(off, 64))
}

// hostile byte streams
func hostileStream(r *rng, t *tree, kind string) []byte {
	switch kind {
	case "rand":
		b := make([]byte, r.pick(1, 15, 16, 17, 64, 300, 4096))
		for i := range b {
			b[i] = byte(r.next())
		}
		if len(b) >= 2 && r.chance(60) { // a plausible opcode in front gets it past the dispatcher
			b[0], b[1] = 0x12, byte(0x24+r.intn(15))
		}
		return b
	case "mut":
		var full []byte
		for _, q := range genRawSession(r, t, 3+r.intn(8)) {
			full = append(full, q.bytes()...)
		}
		for i := 0; i < 1+r.intn(6); i++ {
			switch r.intn(4) {
			case 0:
				full[r.intn(len(full))] ^= byte(1 << r.intn(8))
			case 1:
				full[r.intn(len(full))] = byte(r.pick(0, 0xff, 0x7f, 0x80))
			case 2:
				full = full[:1+r.intn(len(full))]
			case 3:
				j := r.intn(len(full))
				full = append(append(append([]byte{}, full[:j]...), full[j:]...), full[j:]...)
			}
		}
		return full
	case "extreme":
		files := t.pathsOf('f')
		var full []byte
		full = append(full, creq{op: opOpenFile, path: files[r.intn(len(files))]}.bytes()...)
		for i := 0; i < 1+r.intn(6); i++ {
			big := []uint64{0, 1, 0x7fffffff, 0x80000000, 0xffffffff, 1 << 62, 1<<63 - 1, 1 << 63, 1<<64 - 1}
			switch r.intn(5) {
			case 0:
				full = append(full, creq{op: opReadFile, a: big[r.intn(5)], b: big[r.intn(len(big))]}.bytes()...)
			case 1:
				full = append(full, creq{op: opReadFileCritical, a: big[r.intn(5)], b: big[r.intn(len(big))]}.bytes()...)
			case 2:
				full = append(full, creq{op: opReadCD2048, a: big[r.intn(5)], b: big[r.intn(5)]}.bytes()...)
			case 3:
				full = append(full, creq{op: uint16(r.pick(opOpenDir, opStatFile, opOpenFile, opGetDirSize, opCreateFile, opMkdir, opDeleteFile, opRmdir)), path: "/" + strings.Repeat(r.picks("a", "../", "x/", "\x00", "é", "\xff"), r.pick(1, 255, 256, 4096, 21845))}.bytes()...)
			case 4:
				q := creq{op: opWriteFile, payload: make([]byte, r.pick(0, 10, 1000)), announced: uint32(big[r.intn(5)])}
				full = append(full, creq{op: opCreateFile, path: "/hostile-new"}.bytes()...)
				full = append(full, q.bytes()...)
			}
		}
		return full
	}
	return nil
}

func sendHostile(addr string, stream []byte, linger time.Duration) {
	c, err := net.DialTimeout("tcp4", addr, time.Second)
	if err != nil {
		return
	}
	defer c.Close()
	done := make(chan struct{})
	go func() { // drain whatever comes back, bounded
		io.Copy(io.Discard, io.LimitReader(c, 64<<20))
		close(done)
	}()
	c.SetWriteDeadline(time.Now().Add(2 * time.Second))
	c.Write(stream)
	select {
	case <-done:
	case <-time.After(linger):
	}
}

func hostileRootTree(r *rng, o *out) (*tree, *tnode) {
	t := &tree{}
	t.add(tnode{path: "/", kind: 'd', mtime: genMtime(r)})
	t.add(tnode{path: "/GAMES", kind: 'd', mtime: genMtime(r)})
	t.add(tnode{path: "/PS3ISO", kind: 'd', mtime: genMtime(r)})
	for k := -1; k <= 14; k++ {
		hostileGame(t, r, fmt.Sprintf("g%02d", k+1), k, hostileTitleIDs[r.intn(len(hostileTitleIDs))], o)
	}
	for i, tid := range hostileTitleIDs {
		hostileGame(t, r, fmt.Sprintf("t%02d", i), 0, tid, o)
	}
	for _, kv := range [][2]int{{3, 6}, {4, 7}, {5, 7}, {6, 12}, {7, 7}, {13, 4}, {14, 4}} { // every special value of every numeric field
		for v := 0; v < kv[1]; v++ {
			hostileGame(t, r, fmt.Sprintf("k%dv%02d", kv[0], v), kv[0], hostileTitleIDs[0], o)
		}
	}
	for k := 0; k <= 10; k++ {
		for ks := 0; ks < 2; ks++ {
			hostileImage(t, r, fmt.Sprintf("i%d_%d", k, ks), k, ks, o)
		}
	}
	hostileImage(t, r, "badkey", 0, 2, o)
	hostileImage(t, r, "shortkey", 0, 3, o)
	hostileImage(t, r, "dirkey", 0, 5, o)
	t.add(tnode{path: "/plain.bin", kind: 'f', size: 300000, seed: 77, mtime: genMtime(r)})
	t.add(tnode{path: "/big.iso", kind: 'f', size: 3 << 30, seed: 4294967295, mtime: genMtime(r)}) // sparse
	by := t.nodes[len(t.nodes)-2]
	return t, &by
}

func c04BlackBox(o *out, r *rng, thorough bool) {
	t, byNode := hostileRootTree(r, o)
	withTempRoot(func(root string) {
		if err := t.materialize(root); err != nil {
			o.notes = append(o.notes, "materialize: "+err.Error())
			return
		}
		var srv *srvProc
		var by *bystander
		restart := func() bool {
			if srv != nil {
				srv.stop()
			}
			var err error
			srv, err = startServer(root, "", "--allow-write", "--read-timeout=3s")
			if err != nil {
				o.notes = append(o.notes, err.Error())
				return false
			}
			by = newBystander(srv.addr(), byNode)
			return true
		}
		if !restart() {
			o.emit("c04 bb start -", "proc=0 alive=0 by=bad note=server-did-not-start", "", "start")
			return
		}
		defer func() { srv.stop() }()
		n := 120
		if thorough {
			n = 1500
		}
		var paths []string
		for _, nd := range t.nodes {
			paths = append(paths, nd.path)
		}
		// first a sweep that does not depend on the draw: every game directory as a PS3 image and as a DVD
		// image, every file of /PS3ISO as it is - each opened once and read a little
		{
			var streams [][]byte
			for _, nd := range t.nodes {
				var views []string
				switch {
				case nd.kind == 'd' && strings.HasPrefix(nd.path, "/GAMES/") && strings.Count(nd.path, "/") == 2:
					views = []string{"/***PS3***", "/***DVD***"}
				case nd.kind == 'f' && strings.HasPrefix(nd.path, "/PS3ISO/"):
					views = []string{""}
				}
				for _, v := range views {
					var s []byte
					s = append(s, creq{op: opOpenFile, path: v + nd.path}.bytes()...)
					s = append(s, creq{op: opReadFile, a: 4096, b: 2048}.bytes()...)
					s = append(s, creq{op: opReadFileCritical, a: 100, b: 0}.bytes()...)
					streams = append(streams, s)
				}
			}
			byAll := true
			for lo := 0; lo < len(streams); lo += 16 {
				var wg sync.WaitGroup
				for _, s := range streams[lo:min(lo+16, len(streams))] {
					wg.Add(1)
					go func(s []byte) { defer wg.Done(); sendHostile(srv.addr(), s, 400*time.Millisecond) }(s)
				}
				wg.Wait()
				// the bystander is an ordinary client under the server's 3 s read timeout: it keeps
				// asking while the sweep runs, and every answer must be right
				if !by.check() {
					byAll = false
				}
			}
			proc, alive, byOK := 0, 0, "bad"
			if srv.alive() {
				proc = 1
			}
			if statRootProbe(srv.addr(), 3*time.Second) {
				alive = 1
			}
			if byAll && by.check() {
				byOK = "ok"
			}
			line := fmt.Sprintf("proc=%d alive=%d by=%s", proc, alive, byOK)
			o.count("bb:sweep")
			if proc == 0 || alive == 0 || byOK == "bad" {
				line += " note=" + strings.ReplaceAll(srv.tail(), " ", "_")
				o.emit(fmt.Sprintf("c04 bb sweep %d", len(streams)), line, "", "bbsweep")
				if !restart() {
					return
				}
			} else {
				o.emit(fmt.Sprintf("c04 bb sweep %d", len(streams)), line, "", "bbsweep")
			}
		}
		for i := 0; i < n; i++ {
			kind := r.picks("rand", "mut", "extreme", "extreme", "target", "flood")
			var streams [][]byte
			switch kind {
			case "target": // structure-aware: open every kind of hostile object through every view and read around
				p := paths[r.intn(len(paths))]
				view := r.picks("", "", "/***PS3***", "/***DVD***")
				var s []byte
				s = append(s, creq{op: opOpenFile, path: view + p}.bytes()...)
				for _, q := range hostileReads(r, 20000, 3+r.intn(5)) {
					if q.a > 1<<20 {
						q.a = 1 << 20
					}
					s = append(s, q.bytes()...)
				}
				s = append(s, creq{op: opOpenDir, path: view + p}.bytes()...)
				s = append(s, creq{op: opReadDirEntry}.bytes()...)
				s = append(s, creq{op: opReadDir}.bytes()...)
				s = append(s, creq{op: opGetDirSize, path: view + p}.bytes()...)
				streams = [][]byte{s}
			case "flood":
				for k := 0; k < 30; k++ {
					streams = append(streams, hostileStream(r, t, r.picks("rand", "mut", "extreme")))
				}
			default:
				streams = [][]byte{hostileStream(r, t, kind)}
			}
			o.count("bb:" + kind)
			var wg sync.WaitGroup
			for _, s := range streams {
				wg.Add(1)
				go func(s []byte) { defer wg.Done(); sendHostile(srv.addr(), s, 400*time.Millisecond) }(s)
			}
			wg.Wait()
			proc, alive, byOK := 0, 0, "bad"
			if srv.alive() {
				proc = 1
			}
			if statRootProbe(srv.addr(), 3*time.Second) {
				alive = 1
			}
			if by.check() {
				byOK = "ok"
			}
			var hs []string
			for _, s := range streams {
				if len(s) > 3000 {
					s = s[:3000] // replay keeps the head; the distribution key below keeps the digest of the whole
				}
				hs = append(hs, hx(s))
			}
			line := fmt.Sprintf("proc=%d alive=%d by=%s", proc, alive, byOK)
			if proc == 0 || alive == 0 || byOK == "bad" {
				line += " note=" + strings.ReplaceAll(srv.tail(), " ", "_")
				if !restart() {
					o.emit(fmt.Sprintf("c04 bb %s %s", kind, strings.Join(hs, ",")), line, "", fmt.Sprintf("bb%d", i))
					return
				}
			}
			o.emit(fmt.Sprintf("c04 bb %s %s", kind, strings.Join(hs, ",")), line, "", fmt.Sprintf("bb%d", i))
		}
		// at the end the log must not contain a crash either
		if tl := srv.tail(); strings.Contains(tl, "panic:") || strings.Contains(tl, "fatal error:") {
			o.emit("c04 bb log -", "proc=0 alive=0 by=bad note="+strings.ReplaceAll(tl, " ", "_"), "", "log")
		}
	})
}

// ---------- the real binary's tools on hostile inputs ----------

func c04Tools(o *out, r *rng, thorough bool) {
	t, _ := hostileRootTree(r, o)
	// drop the multi-GiB sparse file: the tools would copy it
	var nodes []tnode
	for _, n := range t.nodes {
		if n.path != "/big.iso" {
			nodes = append(nodes, n)
		}
	}
	t.nodes = nodes
	withTempRoot(func(root string) {
		if err := t.materialize(root); err != nil {
			o.notes = append(o.notes, "materialize: "+err.Error())
			return
		}
		outDir, _ := os.MkdirTemp("", "vc04out-")
		defer os.RemoveAll(outDir)
		k := 0
		for _, n := range t.nodes {
			var argsList [][]string
			switch {
			case n.kind == 'd' && strings.HasPrefix(n.path, "/GAMES/") && strings.Count(n.path, "/") == 2:
				argsList = append(argsList, []string{"make-iso", filepath.Join(root, n.path), filepath.Join(outDir, "o.iso")})
				argsList = append(argsList, []string{"make-iso", "--ps3-mode", filepath.Join(root, n.path), filepath.Join(outDir, "o.iso")})
			case n.kind == 'f' && strings.HasSuffix(n.path, ".iso"):
				img := filepath.Join(root, n.path)
				argsList = append(argsList, []string{"decrypt", "3k3y", img, filepath.Join(outDir, "o.bin")})
				for _, k := range []string{"/PS3ISO/i0_1.dkey", "/PS3ISO/badkey.dkey", "/PS3ISO/shortkey.dkey", "/PS3ISO/dirkey.dkey", "/PS3ISO/missing.dkey"} {
					argsList = append(argsList, []string{"decrypt", "redump", img, filepath.Join(root, k), filepath.Join(outDir, "o.bin")})
				}
			}
			for _, args := range argsList {
				if !thorough && r.chance(65) && !strings.Contains(n.path, "/GAMES/k") {
					continue
				}
				os.Remove(filepath.Join(outDir, "o.iso"))
				os.Remove(filepath.Join(outDir, "o.bin"))
				res := runTool(outDir, nil, args...)
				cls := exitClass(res)
				obs := "exit=clean"
				if cls != "ok" && cls != "error" {
					obs = "exit=" + cls + " note=" + strings.ReplaceAll(strings.ReplaceAll(string(res.stderr[:min(len(res.stderr), 300)]), "\n", "|"), " ", "_")
				}
				sub := ""
				if !strings.Contains(args[1], "/") {
					sub = ":" + strings.TrimPrefix(args[1], "--")
				}
				o.count("tool:" + args[0] + sub + ":" + cls)
				rel := strings.TrimPrefix(strings.Join(args, " "), "")
				rel = strings.ReplaceAll(rel, root, "$ROOT")
				rel = strings.ReplaceAll(rel, outDir, "$OUT")
				k++
				o.emit(fmt.Sprintf("c04 tool %s %s", hx([]byte(rel)), encodeTree(subtreeOf(t, n.path))), obs, "", fmt.Sprintf("tool%d", k))
			}
		}
	})
}

// subtreeOf: the nodes a tool invocation on `p` can see (for the replay file)
func subtreeOf(t *tree, p string) []tnode {
	var out []tnode
	stem := strings.TrimSuffix(p, ".iso")
	for _, n := range t.nodes {
		if n.path == p || strings.HasPrefix(n.path, p+"/") || n.path == stem+".dkey" {
			out = append(out, n)
		}
	}
	return out
}

// ---------- limits: descriptors and memory ----------

func c04Limits(o *out, r *rng, thorough bool) {
	t := &tree{}
	t.add(tnode{path: "/", kind: 'd', mtime: genMtime(r)})
	t.add(tnode{path: "/big.iso", kind: 'f', size: 3 << 30, seed: 4294967295, mtime: genMtime(r)})
	t.add(tnode{path: "/plain.bin", kind: 'f', size: 300000, seed: 5, mtime: genMtime(r)})
	t.add(tnode{path: "/many", kind: 'd', mtime: genMtime(r)})
	for i := 0; i < 200; i++ {
		t.add(tnode{path: fmt.Sprintf("/many/f%03d.bin", i), kind: 'f', size: 1 + int64(i%3)*2048, seed: int64(i), mtime: genMtime(r)})
	}
	// a game whose PARAM.SFO is a huge sparse file and declares a 4 GiB TITLE_ID
	sfoSize := int64(1 << 30)
	if thorough {
		sfoSize = 3 << 30
	}
	hugeSfo := sfoBytes([][2]string{{"TITLE_ID", "BLES00001"}})
	copy(hugeSfo[24:28], []byte{0xff, 0xff, 0xff, 0xff})
	for _, d := range []string{"/GAMES", "/GAMES/HUGE", "/GAMES/HUGE/PS3_GAME", "/GAMES/HUGE/PS3_GAME/USRDIR"} {
		t.add(tnode{path: d, kind: 'd', mtime: genMtime(r)})
	}
	t.add(tnode{path: "/GAMES/HUGE/PS3_GAME/PARAM.SFO", kind: 'f', size: sfoSize, seed: sparseSeed, mtime: genMtime(r), overlays: []overlay{{0, hugeSfo}}})
	t.add(tnode{path: "/GAMES/HUGE/PS3_GAME/USRDIR/EBOOT.BIN", kind: 'f', size: 5000, seed: 6, mtime: genMtime(r)})
	withTempRoot(func(root string) {
		if err := t.materialize(root); err != nil {
			o.notes = append(o.notes, "materialize: "+err.Error())
			return
		}
		// memory: the value length a PARAM.SFO declares must not drive the server's memory use
		if srv, err := startServer(root, ""); err != nil {
			o.emit(fmt.Sprintf("c04 memsfo %d", sfoSize), "proc=0 mem=unknown note=server-did-not-start", "", "memsfo")
		} else {
			base := srv.peakRSSkB()
			for i := 0; i < 2; i++ {
				func() {
					c, err := net.DialTimeout("tcp4", srv.addr(), time.Second)
					if err != nil {
						return
					}
					defer c.Close()
					c.SetDeadline(time.Now().Add(120 * time.Second))
					c.Write(creq{op: opOpenFile, path: "/***PS3***/GAMES/HUGE"}.bytes())
					io.ReadFull(c, make([]byte, 16))
				}()
			}
			peak := srv.peakRSSkB()
			mem := "ok"
			if peak-base > 200*1024 {
				mem = fmt.Sprintf("high(%dMiB)", (peak-base)/1024)
			}
			proc, alive := 0, 0
			if statRootProbe(srv.addr(), 5*time.Second) {
				alive = 1
			}
			if srv.alive() {
				proc = 1
			}
			o.count("memsfo")
			o.notes = append(o.notes, fmt.Sprintf("PARAM.SFO probe: %d-byte sparse file declaring a 4 GiB value, peak RSS %d kB over base %d kB", sfoSize, peak, base))
			o.emit(fmt.Sprintf("c04 memsfo %d", sfoSize), fmt.Sprintf("proc=%d mem=%s alive=%d", proc, mem, alive), "", "memsfo")
			// a named pipe below the root: opening it would block for ever (no writer will come); every
			// command that opens things must refuse it at once and the connection must stay usable
			fifo := "refused"
			if err := syscall.Mkfifo(filepath.Join(root, "pipe"), 0o644); err != nil {
				fifo = "skipped"
			} else {
				os.MkdirAll(filepath.Join(root, "PS3ISO"), 0o755)
				os.WriteFile(filepath.Join(root, "PS3ISO", "k.iso"), make([]byte, 8192), 0o644)
				syscall.Mkfifo(filepath.Join(root, "PS3ISO", "k.dkey"), 0o644)
				for _, q := range []creq{{op: opOpenFile, path: "/pipe"}, {op: opOpenDir, path: "/pipe"}, {op: opOpenFile, path: "/PS3ISO/k.iso"}} {
					func() {
						c, err := net.DialTimeout("tcp4", srv.addr(), time.Second)
						if err != nil {
							fifo = "dial-failed"
							return
						}
						defer c.Close()
						c.SetDeadline(time.Now().Add(3 * time.Second))
						c.Write(q.bytes())
						want := 16
						if q.op == opOpenDir {
							want = 4
						}
						resp := make([]byte, want)
						if _, err := io.ReadFull(c, resp); err != nil {
							fifo = fmt.Sprintf("hang(%04x)", q.op)
							return
						}
						if resp[0] != 0xff {
							fifo = fmt.Sprintf("opened(%04x)", q.op)
						}
						// the connection is still in step
						c.Write(statRootReq)
						if _, err := io.ReadFull(c, make([]byte, 33)); err != nil {
							fifo = fmt.Sprintf("lost(%04x)", q.op)
						}
					}()
				}
			}
			proc = 0
			if srv.alive() {
				proc = 1
			}
			o.count("fifo")
			o.emit("c04 fifo", fmt.Sprintf("proc=%d fifo=%s", proc, fifo), "", "fifo")
			srv.stop()
		}
		// descriptor exhaustion: more clients than the process may have descriptors
		for _, lim := range []int{40, 100} {
			srv, err := startServer(root, fmt.Sprintf("ulimit -n %d", lim))
			if err != nil {
				o.emit(fmt.Sprintf("c04 fd %d", lim), "proc=0 alive=0 note=server-did-not-start", "", "fd")
				continue
			}
			var conns []net.Conn
			for i := 0; i < lim*3; i++ {
				c, err := net.DialTimeout("tcp4", srv.addr(), 300*time.Millisecond)
				if err != nil {
					continue
				}
				conns = append(conns, c)
			}
			time.Sleep(300 * time.Millisecond)
			for _, c := range conns {
				c.Close()
			}
			proc, alive := 0, 0
			if statRootProbe(srv.addr(), 5*time.Second) {
				alive = 1
			}
			if srv.alive() {
				proc = 1
			}
			line := fmt.Sprintf("proc=%d alive=%d", proc, alive)
			if proc == 0 || alive == 0 {
				line += " note=" + strings.ReplaceAll(srv.tail(), " ", "_")
			}
			o.count("fd")
			o.emit(fmt.Sprintf("c04 fd %d", lim), line, "", fmt.Sprintf("fd%d", lim))
			srv.stop()
		}
		// an image of a tree with more files than the process may have descriptors must still be readable to its end
		{
			srv, err := startServer(root, "ulimit -n 64")
			if err != nil {
				o.emit("c04 fdviso 64", "proc=0 served=unknown note=server-did-not-start", "", "fdviso")
			} else {
				res := "served=short"
				func() {
					c, err := net.DialTimeout("tcp4", srv.addr(), time.Second)
					if err != nil {
						return
					}
					defer c.Close()
					c.SetDeadline(time.Now().Add(30 * time.Second))
					c.Write(creq{op: opOpenFile, path: "/***DVD***/many"}.bytes())
					hdr := make([]byte, 16)
					if _, err := io.ReadFull(c, hdr); err != nil {
						return
					}
					size := int64(binary.BigEndian.Uint64(hdr))
					if size <= 0 {
						res = "served=open-failed"
						return
					}
					c.Write(creq{op: opReadFile, a: uint64(size), b: 0}.bytes())
					h := make([]byte, 4)
					if _, err := io.ReadFull(c, h); err != nil {
						return
					}
					n, _ := io.Copy(io.Discard, io.LimitReader(c, int64(binary.BigEndian.Uint32(h))))
					if int64(binary.BigEndian.Uint32(h)) == size && n == size {
						res = "served=full"
					}
				}()
				proc := 0
				if srv.alive() {
					proc = 1
				}
				o.count("fdviso")
				o.emit("c04 fdviso 64", fmt.Sprintf("proc=%d %s", proc, res), "", "fdviso")
				srv.stop()
			}
		}
		// the transfer buffer size option, at its edges: 0 (documented way to switch the pooled buffers off), 1, odd,
		// large - whatever the size, a transfer delivers the file's bytes and the process lives
		for _, bs := range []string{"0", "1", "4097", "3M"} {
			srvb, err := startServer(root, "", "--buffer-size="+bs)
			if err != nil {
				o.emit("c04 bufsize "+bs, "proc=0 alive=0 served=open-failed note=server-did-not-start", "", "bufsize"+bs)
				continue
			}
			served := "open-failed"
			func() {
				c, err := net.DialTimeout("tcp4", srvb.addr(), time.Second)
				if err != nil {
					return
				}
				defer c.Close()
				c.SetDeadline(time.Now().Add(20 * time.Second))
				c.Write(creq{op: opOpenFile, path: "/plain.bin"}.bytes())
				hdr := make([]byte, 16)
				if _, err := io.ReadFull(c, hdr); err != nil || binary.BigEndian.Uint64(hdr[:8]) != 300000 {
					return
				}
				served = "short"
				c.Write(creq{op: opReadFile, a: 70000, b: 1000}.bytes())
				buf := make([]byte, 4+70000)
				if _, err := io.ReadFull(c, buf); err != nil {
					return
				}
				c.Write(creq{op: opReadFileCritical, a: 5000, b: 299000 - 5000}.bytes())
				buf2 := make([]byte, 5000)
				if _, err := io.ReadFull(c, buf2); err != nil {
					return
				}
				served = "ok"
				for i := 0; i < 70000; i++ {
					if buf[4+i] != patByte(5, int64(1000+i)) {
						served = "WRONG-BYTES"
						break
					}
				}
				for i := range buf2 {
					if buf2[i] != patByte(5, int64(294000+i)) {
						served = "WRONG-BYTES"
					}
				}
			}()
			proc, alive := 0, 0
			if statRootProbe(srvb.addr(), 5*time.Second) {
				alive = 1
			}
			if srvb.alive() {
				proc = 1
			}
			srvb.stop()
			o.count("buffer-size:" + bs)
			o.emit("c04 bufsize "+bs, fmt.Sprintf("proc=%d alive=%d served=%s", proc, alive, served), "", "bufsize"+bs)
		}
		// memory: the length field of READ_FILE must not drive the server's memory use
		srv, err := startServer(root, "")
		if err != nil {
			o.emit("c04 mem 0 0", "proc=0 mem=unknown note=server-did-not-start", "", "mem")
			return
		}
		defer srv.stop()
		base := srv.peakRSSkB()
		clients, length := 3, uint64(512<<20)
		if thorough {
			clients, length = 6, uint64(1<<31-1)
		}
		// the last two clients ask for more than the 32-bit length field can announce (2^31 and 2^32-1):
		// they must be served what it can announce, 2^31-1 bytes, not a negative count
		lengths := make([]uint64, clients)
		want := make([]int64, clients)
		for i := range lengths {
			lengths[i], want[i] = length, int64(length)
		}
		lengths[clients-2], want[clients-2] = 1<<31, 1<<31-1
		lengths[clients-1], want[clients-1] = 1<<32-1, 1<<31-1
		var wg sync.WaitGroup
		got := make([]int64, clients)
		for i := 0; i < clients; i++ {
			wg.Add(1)
			go func(i int) {
				defer wg.Done()
				length := lengths[i]
				c, err := net.DialTimeout("tcp4", srv.addr(), time.Second)
				if err != nil {
					return
				}
				defer c.Close()
				c.SetDeadline(time.Now().Add(120 * time.Second))
				c.Write(creq{op: opOpenFile, path: "/big.iso"}.bytes())
				hdr := make([]byte, 16)
				if _, err := io.ReadFull(c, hdr); err != nil {
					return
				}
				c.Write(creq{op: opReadFile, a: length, b: uint64(i) * 4096}.bytes())
				br := bufio.NewReaderSize(c, 1<<20)
				h := make([]byte, 4)
				if _, err := io.ReadFull(br, h); err != nil {
					return
				}
				n, _ := io.Copy(io.Discard, io.LimitReader(br, int64(binary.BigEndian.Uint32(h))))
				got[i] = n
			}(i)
		}
		wg.Wait()
		peak := srv.peakRSSkB()
		okAll := true
		for i, g := range got {
			if g != want[i] {
				okAll = false
			}
		}
		mem := "ok"
		if peak-base > 200*1024 { // more than 200 MiB over the idle process
			mem = fmt.Sprintf("high(%dMiB)", (peak-base)/1024)
		}
		proc := 0
		if srv.alive() {
			proc = 1
		}
		o.count("mem")
		o.notes = append(o.notes, fmt.Sprintf("mem probe: %d clients x %d bytes, peak RSS %d kB over base %d kB", clients, length, peak, base))
		o.emit(fmt.Sprintf("c04 mem %d %d", clients, length), fmt.Sprintf("proc=%d mem=%s served=%v", proc, mem, okAll), "", "mem")
	})
}

// c04MaxFile: a game directory holding a sparse file of 2^63-1 bytes (tmpfs allows that, ext4 does not).
// The image generator must refuse the tree - server and make-iso alike - instead of trying to build
// some two thousand million extent records (size arithmetic near MaxInt64). The real binary runs with a
// 4 GiB address-space limit so that a wrong answer shows as a dead process, not as a dead sandbox.
func c04MaxFile(o *out) {
	base, err := os.MkdirTemp("/dev/shm", "vmax-")
	if err != nil {
		o.notes = append(o.notes, "maxfile: no tmpfs, skipped")
		return
	}
	defer os.RemoveAll(base)
	os.MkdirAll(filepath.Join(base, "g"), 0o755)
	os.WriteFile(filepath.Join(base, "g", "small.bin"), []byte("x"), 0o644)
	big := filepath.Join(base, "g", "max.bin")
	f, err := os.Create(big)
	if err == nil {
		err = f.Truncate(1<<63 - 1)
		f.Close()
	}
	if err != nil {
		o.notes = append(o.notes, "maxfile: this tmpfs refuses a 2^63-1 byte file, skipped")
		return
	}
	res := "refused"
	srv, err := startServer(base, "ulimit -v 4194304")
	if err != nil {
		o.emit("c04 maxfile", "proc=0 note=server-did-not-start", "", "maxfile")
		return
	}
	func() {
		c, err := net.DialTimeout("tcp4", srv.addr(), time.Second)
		if err != nil {
			res = "dial-failed"
			return
		}
		defer c.Close()
		c.SetDeadline(time.Now().Add(60 * time.Second))
		c.Write(creq{op: opOpenFile, path: "/***DVD***/g"}.bytes())
		resp := make([]byte, 16)
		if _, err := io.ReadFull(c, resp); err != nil {
			res = "no-answer"
		} else if resp[0] != 0xff {
			res = "opened"
		}
	}()
	proc, alive := 0, 0
	if statRootProbe(srv.addr(), 5*time.Second) {
		alive = 1
	}
	if srv.alive() {
		proc = 1
	}
	srv.stop()
	// the tool on the same tree
	outp := filepath.Join(base, "out.iso")
	cmd := exec.Command("/bin/sh", "-c", "ulimit -v 4194304; exec '"+binPath()+"' make-iso '"+filepath.Join(base, "g")+"' '"+outp+"'")
	cmd.Env = []string{"TZ=UTC", "HOME=" + base, "PATH=/usr/bin:/bin"}
	out, _ := cmd.CombinedOutput()
	tool := "error-exit"
	if cmd.ProcessState == nil || cmd.ProcessState.ExitCode() == 0 {
		tool = "exit-0"
	} else if bytes.Contains(out, []byte("fatal error")) || bytes.Contains(out, []byte("panic:")) || cmd.ProcessState.ExitCode() == 2 {
		tool = "crash"
	}
	o.count("maxfile")
	o.emit("c04 maxfile", fmt.Sprintf("proc=%d alive=%d open=%s tool=%s", proc, alive, res, tool), "", "maxfile")
}

func c04Stream(o *out, r *rng, thorough bool) {
	c04Worlds(o, r, thorough)
	c04BlackBox(o, r, thorough)
	c04Tools(o, r, thorough)
	c04Limits(o, r, thorough)
	c04MaxFile(o)
}

func init() {
	streams["c04"] = c04Stream
}
