//go:build verif

package main

import (
	"fmt"
	"io"
	"runtime"
	"strings"
	"sync"
	"time"
)

// c12Tree: shared read-only data (plain files, a directory served as a generated image, an
// encrypted image) plus one private writable subtree per client.
func c12Tree(r *rng, nClients int) *tree {
	t := &tree{}
	t.add(tnode{path: "/", kind: 'd', mtime: genMtime(r)})
	t.add(tnode{path: "/shared", kind: 'd', mtime: genMtime(r)})
	for i := 0; i < 4; i++ {
		t.add(tnode{path: fmt.Sprintf("/shared/f%d.bin", i), kind: 'f', size: genSize(r) + 1, seed: int64(r.intn(250)), mtime: genMtime(r)})
	}
	t.add(tnode{path: "/shared/game", kind: 'd', mtime: genMtime(r)})
	for i := 0; i < 3; i++ {
		t.add(tnode{path: fmt.Sprintf("/shared/game/d%d.dat", i), kind: 'f', size: genSize(r), seed: int64(r.intn(250)), mtime: genMtime(r)})
	}
	// CD images large enough for the sector-size probe (2 MiB..848 MiB), one per sector size, plus one without signature
	for _, S := range []int64{2048, 2336, 2352, 2448} {
		n := tnode{path: fmt.Sprintf("/shared/cd%d.bin", S), kind: 'f', size: 0x200000 + 0x10000 + int64(r.intn(5000)), seed: 4294967295, mtime: genMtime(r)}
		n.overlays = []overlay{{24 + 16*S, []byte("\x01CD001")}, {24 + 17*S, []byte{byte(S >> 8), byte(S), 0xAA, 0x55}}}
		t.add(n)
	}
	t.add(tnode{path: "/shared/raw.bin", kind: 'f', size: 0x200000 + 0x10000, seed: 7, mtime: genMtime(r)})
	t.add(tnode{path: "/PS3ISO", kind: 'd', mtime: genMtime(r)})
	im := genEncImage(r, "/PS3ISO/enc.iso", 16, 0)
	im.regs = []refRegion{{0, 2}, {6, 16}}
	im.node.overlays = []overlay{{0, tableBytes(im.regs)}}
	t.add(im.node)
	t.add(keyFileNode("/PS3ISO/enc.dkey", randKey(r), r, 0))
	// an encrypted 3k3y image: its key is read out of the image itself at every open, while other connections
	// open (and probe) other files
	k3 := genEncImage(r, "/GAMES3K3Y.iso", 16, 0)
	k3.regs = []refRegion{{0, 2}, {6, 16}}
	k3.node.overlays = []overlay{{0, tableBytes(k3.regs)}, {0xF70, wmEnc}, {0xF80, randKey(r)}}
	t.add(k3.node)
	t.add(tnode{path: "/priv", kind: 'd', mtime: genMtime(r)})
	for i := 0; i < nClients; i++ {
		t.add(tnode{path: fmt.Sprintf("/priv/c%d", i), kind: 'd', mtime: genMtime(r)})
		t.add(tnode{path: fmt.Sprintf("/priv/c%d/old.bin", i), kind: 'f', size: 100, seed: int64(i), mtime: genMtime(r)})
	}
	return t
}

func c12Session(r *rng, t *tree, me int, n int) []creq {
	priv := fmt.Sprintf("/priv/c%d", me)
	shared := []string{"/GAMES3K3Y.iso", "/shared/f0.bin", "/shared/f1.bin", "/shared/f2.bin", "/shared/f3.bin", "/***DVD***/shared/game", "/PS3ISO/enc.iso", "/shared/missing",
		"/shared/cd2048.bin", "/shared/cd2336.bin", "/shared/cd2352.bin", "/shared/cd2448.bin", "/shared/raw.bin"}
	var reqs []creq
	opened := false
	created := false
	// half of the clients start with a burst on the SAME encrypted image (reads inside its encrypted
	// regions, aligned and not): per-image scratch state (IV, cipher mode) must not be shared
	if me%4 == 1 {
		// open churn on the 3k3y image against the other clients' opens: open, read inside an encrypted region, again
		for k := 0; k < 4; k++ {
			reqs = append(reqs, creq{op: opOpenFile, path: "/GAMES3K3Y.iso"}, creq{op: opReadFile, a: uint64(r.pick(2048, 4096, 5000)), b: uint64(7*2048 + r.pick(0, 1, 100, 2048))})
		}
		opened = true
	} else if me%4 == 3 {
		for k := 0; k < 6; k++ {
			reqs = append(reqs, creq{op: opOpenFile, path: r.picks("/shared/raw.bin", "/shared/cd2352.bin", "/shared/f0.bin", "/shared/cd2048.bin")})
		}
		opened = true
	}
	if me%2 == 0 {
		reqs = append(reqs, creq{op: opOpenFile, path: "/PS3ISO/enc.iso"})
		for k := 0; k < 6; k++ {
			reqs = append(reqs, creq{op: opReadFile, a: uint64(r.pick(2048, 4096, 5000, 16384)), b: uint64(2*2048 + r.pick(0, 1, 100, 2048, 3000, 4096))})
		}
		opened = true
	}
	for len(reqs) < n {
		switch k := r.intn(100); {
		case k < 18:
			reqs = append(reqs, creq{op: opOpenFile, path: shared[r.intn(len(shared))]})
			opened = true
		case k < 45:
			if !opened {
				continue
			}
			op := uint16(opReadFile)
			lim := uint64(r.pick(1, 100, 2048, 5000, 65536, 70000))
			if r.chance(30) {
				op = opReadFileCritical
				lim = uint64(r.pick(0, 1, 100))
			}
			reqs = append(reqs, creq{op: op, a: lim, b: uint64(r.pick(0, 1, 2047, 2048, 4096, 12288, 40000))})
		case k < 49:
			// what READ_CD returns depends on the sector size detected when THIS connection opened its file
			if !opened {
				continue
			}
			reqs = append(reqs, creq{op: opReadCD2048, a: uint64(r.pick(16, 17, 0)), b: uint64(r.pick(1, 2))})
		case k < 52:
			reqs = append(reqs, creq{op: opStatFile, path: shared[r.intn(len(shared))]})
		case k < 58:
			reqs = append(reqs, creq{op: opOpenDir, path: r.picks("/shared", "/shared/game")}) // never a directory this session mutates: its enumeration order may change
		case k < 68:
			reqs = append(reqs, creq{op: uint16(r.pick(opReadDirEntry, opReadDirEntryV2, opReadDir))})
		case k < 76:
			reqs = append(reqs, creq{op: opCreateFile, path: priv + "/" + r.picks("up.bin", "old.bin", "up2.bin")})
			created = true
		case k < 88:
			if !created {
				continue
			}
			pl := make([]byte, r.pick(0, 1, 100, 4096, 70000))
			for i := range pl {
				pl[i] = byte(r.next())
			}
			reqs = append(reqs, creq{op: opWriteFile, payload: pl, announced: uint32(len(pl))})
		case k < 92:
			reqs = append(reqs, creq{op: opStatFile, path: priv + "/" + r.picks("up.bin", "old.bin", "nope")})
		case k < 95:
			reqs = append(reqs, creq{op: opMkdir, path: priv + "/d"}, creq{op: opRmdir, path: priv + "/d"})
		case k < 97:
			reqs = append(reqs, creq{op: opGetDirSize, path: r.picks("/shared", priv)})
		default:
			reqs = append(reqs, creq{op: opOpenFile, path: priv + "/" + r.picks("up.bin", "old.bin")})
			opened = true
		}
	}
	return reqs
}

// c12Stream: N clients run their sessions concurrently against ONE server; each client's
// observation must be what the sequential model predicts for that client alone.
func c12Stream(o *out, r *rng, thorough bool) {
	rounds := 4
	clientCounts := []int{2, 4, 8}
	if thorough {
		rounds = 12
		clientCounts = []int{2, 8, 16, 64}
	}
	oldProcs := runtime.GOMAXPROCS(0)
	defer runtime.GOMAXPROCS(oldProcs)
	for round := 0; round <= rounds; round++ {
		nc := clientCounts[round%len(clientCounts)]
		runtime.GOMAXPROCS([]int{1, 2, 4, 16}[round%4])
		storm := round == rounds // the last round: an open storm
		if storm {
			nc = 8
			runtime.GOMAXPROCS(1) // one scheduler thread + a file system that yields at every call: see yieldFs
		}
		t := c12Tree(r, nc)
		sessions := make([][]creq, nc)
		for i := range sessions {
			sessions[i] = c12Session(r, t, i, 12+r.intn(25))
			if storm {
				// half of the clients open the encrypted 3k3y image again and again (its key is read out of the image at
				// every open) and read inside an encrypted region; the other half open other files (each open probes them)
				sessions[i] = nil
				for k := 0; k < 40; k++ {
					if i%2 == 0 {
						sessions[i] = append(sessions[i], creq{op: opOpenFile, path: "/GAMES3K3Y.iso"},
							creq{op: opReadFile, a: 2048, b: uint64(7*2048 + (k%3)*700)})
					} else {
						sessions[i] = append(sessions[i], creq{op: opOpenFile, path: []string{"/shared/raw.bin", "/shared/cd2352.bin", "/shared/f0.bin", "/PS3ISO/enc.iso"}[k%4]})
					}
				}
				o.count("open-storm")
			}
		}
		withTempRoot(func(root string) {
			if err := t.materialize(root); err != nil {
				o.notes = append(o.notes, "materialize: "+err.Error())
				return
			}
			nodes, err := t.ordered(root)
			if err != nil {
				return
			}
			plainFs, plainBetween = storm, "/shared/raw.bin"
			env := newConnEnv(root, true, 65536)
			plainFs, plainBetween = false, ""
			defer env.close()
			results := make([]string, nc)
			var wg sync.WaitGroup
			startGate := make(chan struct{})
			for i := 0; i < nc; i++ {
				wg.Add(1)
				go func(i int) {
					defer wg.Done()
					<-startGate
					// connection churn: some clients reconnect in the middle (state must not leak between connections)
					lc := &lockClient{c: env.ln.dial(), sessionStart: time.Now().Unix(), timeout: 8 * time.Second}
					var sb strings.Builder
					aborted := false
					for k, q := range sessions[i] {
						ob := lc.do(q, false)
						fmt.Fprintf(&sb, "r%d=%s ", k, ob.String())
						if ob.closed || ob.timeout {
							aborted = true
							break
						}
					}
					if !aborted {
						fmt.Fprintf(&sb, "end=%s", lc.finish())
					} else {
						lc.c.Close()
					}
					results[i] = strings.TrimSpace(sb.String())
				}(i)
			}
			// before the concurrent phase: a few clients that abort a download in the middle (the transfer
			// fails inside the copier: its error path must leave the shared buffer pool as it found it)
			for a := 0; a < 2+nc/2; a++ {
				c := env.ln.dial()
				big := "/shared/raw.bin"
				go c.Write(append(creq{op: opOpenFile, path: big}.bytes(), creq{op: opReadFileCritical, a: 0x200000, b: 0}.bytes()...))
				buf := make([]byte, 16+1000+a*777)
				io.ReadFull(c, buf)
				c.Close()
				o.count("aborted-download")
			}
			for j := 0; j < 200 && len(env.rec.leaked()) > 0; j++ {
				time.Sleep(2 * time.Millisecond)
			}
			close(startGate)
			wg.Wait()
			if storm {
				o.count(fmt.Sprintf("interleaved-opens:%d", betweenCalls.Load()/100*100))
			}
			for i := 0; i < nc; i++ {
				o.count(fmt.Sprintf("clients:%d", nc))
				o.emit(fmt.Sprintf("connq 1 %s %s", encodeTree(nodes), encodeReqs(sessions[i])), results[i], "", fmt.Sprintf("r%dc%d", round, i))
			}
			leak := -1
			for j := 0; j < 400; j++ {
				if len(env.rec.leaked()) == 0 {
					leak = 0
					break
				}
				time.Sleep(5 * time.Millisecond)
			}
			if leak != 0 {
				leak = len(env.rec.leaked())
			}
			o.emit(fmt.Sprintf("c13end concurrent %d leak=%d", nc, leak), "ok", "", "")
		})
	}
}

func init() {
	streams["c12"] = c12Stream
}
