//go:build verif

package main

import (
	"fmt"
	"strings"
	"time"
)

type faultScenario struct {
	name  string
	t     *tree
	aw    bool
	reqs  []creq
	fresh bool // needs a fresh tree per run (mutating)
}

func c13Scenarios(r *rng) []faultScenario {
	var out []faultScenario
	mk := func() *tree {
		t := &tree{}
		t.add(tnode{path: "/", kind: 'd', mtime: genMtime(r)})
		t.add(tnode{path: "/dir", kind: 'd', mtime: genMtime(r)})
		t.add(tnode{path: "/dir/a.bin", kind: 'f', size: 9000, seed: 3, mtime: genMtime(r)})
		t.add(tnode{path: "/dir/b.txt", kind: 'f', size: 100, seed: 4, mtime: genMtime(r)})
		t.add(tnode{path: "/dir/sub", kind: 'd', mtime: genMtime(r)})
		t.add(tnode{path: "/dir/sub/c.dat", kind: 'f', size: 4097, seed: 5, mtime: genMtime(r)})
		t.add(tnode{path: "/dir/lnk", kind: 'l', target: "/dir/b.txt"})
		return t
	}
	// (a) plain file
	out = append(out, faultScenario{name: "plain", t: mk(), reqs: []creq{
		{op: opStatFile, path: "/dir/a.bin"}, {op: opOpenFile, path: "/dir/a.bin"}, {op: opReadFile, a: 3000, b: 10},
		{op: opReadFileCritical, a: 8500, b: 0}, {op: opOpenFile, path: "/dir/b.txt"}, {op: opReadFile, a: 200, b: 0},
		{op: opOpenFile, path: "/x/CLOSEFILE"}, {op: opStatFile, path: "/dir"}}})
	// (b) generated image with lazily opened member files
	out = append(out, faultScenario{name: "viso", t: mk(), reqs: []creq{
		{op: opOpenFile, path: "/***DVD***/dir"}, {op: opReadFile, a: 4096, b: 32768},
		// the member files lie in sectors 24..40 of this small image: every one is touched by several reads
		{op: opReadFile, a: 40000, b: 24 * 2048}, {op: opReadFile, a: 30000, b: 26 * 2048}, {op: opReadFile, a: 14000, b: 40 * 2048},
		{op: opReadFileCritical, a: 2048, b: 0}, {op: opReadFileCritical, a: 6000, b: 29 * 2048}, {op: opOpenFile, path: "/dir/b.txt"}, {op: opReadFile, a: 50, b: 0}}})
	// (c) encrypted image with key lookup
	{
		t := &tree{}
		t.add(tnode{path: "/", kind: 'd', mtime: genMtime(r)})
		t.add(tnode{path: "/PS3ISO", kind: 'd', mtime: genMtime(r)})
		im := genEncImage(r, "/PS3ISO/g.iso", 20, 0)
		im.regs = []refRegion{{0, 2}, {5, 20}}
		im.node.overlays = []overlay{{0, tableBytes(im.regs)}}
		t.add(im.node)
		t.add(tnode{path: "/REDKEY", kind: 'd', mtime: genMtime(r)})
		t.add(keyFileNode("/REDKEY/g.dkey", randKey(r), r, 0))
		out = append(out, faultScenario{name: "encrypted", t: t, reqs: []creq{
			{op: opOpenFile, path: "/PS3ISO/g.iso"}, {op: opReadFile, a: 5000, b: 2 * 2048}, {op: opReadFile, a: 3000, b: 5000},
			{op: opReadFileCritical, a: 4096, b: 4096}, {op: opStatFile, path: "/PS3ISO/g.iso"}}})
	}
	// (c1) keys in both places / only beside the image: a fault while looking for the first key must not
	// make the server decrypt with the other one or hand out the ciphertext
	for _, both := range []bool{true, false} {
		t := &tree{}
		t.add(tnode{path: "/", kind: 'd', mtime: genMtime(r)})
		t.add(tnode{path: "/PS3ISO", kind: 'd', mtime: genMtime(r)})
		im := genEncImage(r, "/PS3ISO/g.iso", 20, 0)
		im.regs = []refRegion{{0, 2}, {5, 20}}
		im.node.overlays = []overlay{{0, tableBytes(im.regs)}}
		t.add(im.node)
		t.add(keyFileNode("/PS3ISO/g.dkey", randKey(r), r, 0))
		name := "encrypted-adjacent"
		if both {
			name = "encrypted-both"
			t.add(tnode{path: "/REDKEY", kind: 'd', mtime: genMtime(r)})
			t.add(keyFileNode("/REDKEY/g.dkey", randKey(r), r, 0))
		}
		out = append(out, faultScenario{name: name, t: t, reqs: []creq{
			{op: opOpenFile, path: "/PS3ISO/g.iso"}, {op: opReadFile, a: 5000, b: 2 * 2048}, {op: opReadFileCritical, a: 4096, b: 4096}}})
	}
	// (c3) CD image with 2336-byte sectors: a fault while probing the sector size must not make READ_CD
	// serve bytes from offsets computed with the default size
	{
		t := &tree{}
		t.add(tnode{path: "/", kind: 'd', mtime: genMtime(r)})
		n := tnode{path: "/cd.bin", kind: 'f', size: 0x200000 + 4096, seed: sparseSeed, mtime: genMtime(r)}
		n.overlays = append(n.overlays, overlay{24 + 16*2336, []byte("\x01CD001")})
		for _, sct := range []int64{0, 1, 5, 6, 17} {
			d := make([]byte, 64)
			for i := range d {
				d[i] = byte(r.next())
			}
			n.overlays = append(n.overlays, overlay{24 + sct*2336 + int64(r.intn(1900)), d})
		}
		t.add(n)
		out = append(out, faultScenario{name: "cd", t: t, reqs: []creq{
			{op: opOpenFile, path: "/cd.bin"}, {op: opReadCD2048, a: 0, b: 2}, {op: opReadCD2048, a: 5, b: 2}, {op: opReadCD2048, a: 17, b: 1}}})
	}
	// (c2) 3k3y image: masked and decrypted bytes must stay so when they arrive together with an error
	{
		t := &tree{}
		t.add(tnode{path: "/", kind: 'd', mtime: genMtime(r)})
		im := genEncImage(r, "/k3y.iso", 12, 0)
		im.regs = []refRegion{{0, 3}, {6, 12}}
		im.node.overlays = []overlay{{0, tableBytes(im.regs)}, {0xF70, wmEnc}, {0xF80, randKey(r)}}
		t.add(im.node)
		out = append(out, faultScenario{name: "3k3y", t: t, reqs: []creq{
			{op: opOpenFile, path: "/k3y.iso"}, {op: opReadFileCritical, a: 3000, b: 0xF00}, {op: opReadFileCritical, a: 6000, b: 5000},
			{op: opReadFile, a: 600, b: 0xF60}, {op: opReadFileCritical, a: 4096, b: 3 * 2048}}})
	}
	// (d) enumeration
	out = append(out, faultScenario{name: "enumerate", t: mk(), reqs: []creq{
		{op: opOpenDir, path: "/dir"}, {op: opReadDirEntry}, {op: opReadDirEntryV2}, {op: opReadDirEntry}, {op: opReadDirEntry}, {op: opReadDirEntry},
		{op: opOpenDir, path: "/dir"}, {op: opReadDir}, {op: opOpenDir, path: "/dir/sub"}, {op: opReadDir}, {op: opGetDirSize, path: "/dir"}}})
	// (e) upload
	out = append(out, faultScenario{name: "upload", t: mk(), aw: true, fresh: true, reqs: []creq{
		{op: opCreateFile, path: "/dir/up.bin"}, {op: opWriteFile, payload: make([]byte, 9000), announced: 9000},
		{op: opWriteFile, payload: []byte("tail"), announced: 4}, {op: opCreateFile, path: "/dir"}, {op: opStatFile, path: "/dir/up.bin"},
		{op: opMkdir, path: "/dir/newd"}, {op: opRmdir, path: "/dir/newd"}, {op: opDeleteFile, path: "/dir/b.txt"}}})
	return out
}

func opTypes(reqs []creq) string {
	s := make([]string, len(reqs))
	for i, q := range reqs {
		s[i] = fmt.Sprintf("%04x", q.op)
	}
	return strings.Join(s, ",")
}

// runFaulted plays a session with one fault scheduled at filesystem operation index k.
func runFaulted(sc faultScenario, k int, kind string) (obs string, nops int, hit string) {
	fl := map[int]string{}
	if k >= 0 {
		fl[k] = kind
	}
	obs, nops, hits, _ := runFaultedSet(sc, fl)
	if len(hits) > 0 {
		hit = hits[0]
	}
	return
}

// c13CloseErr: the next runs report an error from every Close()
var c13CloseErr bool

// runFaultedSet plays a session with faults scheduled at several filesystem operation indexes.
func runFaultedSet(sc faultScenario, fl map[int]string) (obs string, nops int, hits []string, hitIdx []int) {
	withTempRoot(func(root string) {
		if err := sc.t.materialize(root); err != nil {
			obs = "materialize-failed"
			return
		}
		env := newConnEnv(root, sc.aw, 4096)
		defer env.close()
		env.rec.closeErr = c13CloseErr
		for k, kind := range fl {
			env.rec.faults[k] = kind
		}
		line := env.runSession(sc.reqs, false)
		nops = env.rec.ops
		hits = append(hits, env.rec.hit...)
		hitIdx = append(hitIdx, env.rec.hitIdx...)
		// the server keeps serving: a fresh connection still gets an answer
		for k := range fl {
			delete(env.rec.faults, k)
		}
		probe := env.runSession([]creq{{op: opStatFile, path: "/"}}, false)
		alive := "alive=1"
		if !strings.HasPrefix(probe, "r0=0000") {
			alive = "alive=0"
		}
		// raw observation tokens without masking differences: keep r*, leak
		obs = line + " " + alive
	})
	return
}

// effectiveKind: only sequential reads (and writes) can be "short"; a positional read cut short
// carries an error by contract; every other operation can only fail.
func effectiveKind(kind, hit string) string {
	switch hit {
	case "read":
		return kind
	case "write":
		if kind == "short" {
			return "nerr"
		}
		return kind
	case "readat":
		if kind == "short" {
			return "nerr"
		}
		return kind
	default:
		return "err"
	}
}

func c13Stream(o *out, r *rng, thorough bool) {
	rawObs = true
	defer func() { rawObs = false }()
	for _, sc := range c13Scenarios(r) {
		base, nops, _ := runFaulted(sc, -1, "")
		limit := 45
		if thorough {
			limit = 1 << 30
		}
		step := 1
		if nops > limit {
			step = (nops + limit - 1) / limit
		}
		for k := r.intn(step); k < nops; k += step {
			for _, kind := range []string{"err", "short", "nerr"} {
				obs, _, hit := runFaulted(sc, k, kind)
				if hit == "" {
					continue
				}
				o.count("scenario:" + sc.name)
				o.count("fault:" + kind + "@" + hit)
				// one case: scenario op types, fault kind, the baseline observation and the faulted one
				caseLine := fmt.Sprintf("c13 %s %s %s|%s", opTypes(sc.reqs), effectiveKind(kind, hit), strings.ReplaceAll(base, " ", ";"), strings.ReplaceAll(obs, " ", ";"))
				o.emit(caseLine, "ok", "", fmt.Sprintf("%s:%d:%s", sc.name, k, kind))
			}
		}
		// every Close() reporting an error (after closing): judged like any other I/O error (a generated
		// image treats a failing Close of a member file as a failed read: correct prefix, then disconnection);
		// in particular the connection must still be ended by the server and every handle released
		{
			c13CloseErr = true
			obs, _, _, _ := runFaultedSet(sc, map[int]string{})
			c13CloseErr = false
			o.count("scenario:" + sc.name)
			o.count("fault:close-reports-error")
			caseLine := fmt.Sprintf("c13 %s %s %s|%s", opTypes(sc.reqs), "err", strings.ReplaceAll(base, " ", ";"), strings.ReplaceAll(obs, " ", ";"))
			o.emit(caseLine, "ok", "", fmt.Sprintf("%s:closeerr", sc.name))
		}
		// random pairs of faults: what the first one leaves behind (a retried read, a half-filled buffer,
		// a fallback path) is where the second one strikes
		pairs := 10
		if thorough {
			pairs = 150
		}
		kinds := []string{"err", "short", "nerr"}
		for p := 0; p < pairs && nops >= 2; p++ {
			k1 := r.intn(nops - 1)
			k2 := k1 + 1 + r.intn(min(5, nops-1-k1))
			kd1, kd2 := kinds[r.intn(3)], kinds[r.intn(3)]
			fl := map[int]string{k1: kd1, k2: kd2}
			obs, _, hits, hitIdx := runFaultedSet(sc, fl)
			if len(hits) == 0 {
				continue
			}
			// "a short read changes nothing" can only be demanded when every fault that struck was one
			eff := "short"
			for i, h := range hits {
				if effectiveKind(fl[hitIdx[i]], h) != "short" {
					eff = "err"
				}
			}
			o.count("scenario:" + sc.name)
			o.count(fmt.Sprintf("fault-pair:%d", len(hits)))
			caseLine := fmt.Sprintf("c13 %s %s %s|%s", opTypes(sc.reqs), eff, strings.ReplaceAll(base, " ", ";"), strings.ReplaceAll(obs, " ", ";"))
			o.emit(caseLine, "ok", "", fmt.Sprintf("%s:pair:%d:%s:%d:%s", sc.name, k1, kd1, k2, kd2))
		}
		// ways of ending the connection at every point of the history: abrupt close after i requests
		for i := 0; i <= len(sc.reqs); i++ {
			withTempRoot(func(root string) {
				if err := sc.t.materialize(root); err != nil {
					return
				}
				env := newConnEnv(root, sc.aw, 65536)
				defer env.close()
				start := time.Now().Unix()
				lc := &lockClient{c: env.ln.dial(), sessionStart: start, timeout: 5 * time.Second}
				for _, q := range sc.reqs[:i] {
					if ob := lc.do(q, false); ob.closed || ob.timeout {
						break
					}
				}
				// half of a command, then a reset
				if i < len(sc.reqs) {
					b := sc.reqs[i].bytes()
					go lc.c.Write(b[:len(b)/2])
					time.Sleep(2 * time.Millisecond)
				}
				lc.c.Close()
				leak := -1
				for j := 0; j < 200; j++ {
					if len(env.rec.leaked()) == 0 {
						leak = 0
						break
					}
					time.Sleep(5 * time.Millisecond)
				}
				if leak != 0 {
					leak = len(env.rec.leaked())
				}
				o.count("abrupt-close")
				o.emit(fmt.Sprintf("c13end %s %d leak=%d", sc.name, i, leak), "ok", "", fmt.Sprintf("%s:end%d", sc.name, i))
			})
		}
	}
}

func init() {
	streams["c13"] = c13Stream
}
