//go:build verif

package main

import (
	"fmt"
	"math/big"
	"net"
	"net/netip"
	"strconv"
	"strings"

	"github.com/xakep666/ps3netsrv-go/pkg/iprange"
)

// ---- independent oracle: the documented set on net/netip + math/big ----

type c14set struct {
	lo, hi *big.Int // inclusive, in the 128-bit space (IPv4 embedded at ::ffff:a.b.c.d)
}

func addrBig(a netip.Addr) *big.Int {
	b := a.As16()
	return new(big.Int).SetBytes(b[:])
}

func c14parseAddr(s string) (netip.Addr, bool) {
	a, err := netip.ParseAddr(s)
	if err != nil || a.Zone() != "" {
		return netip.Addr{}, false
	}
	return a, true
}

func c14oracle(spec string) (*c14set, bool) {
	if i := strings.IndexAny(spec, "/-"); i >= 0 {
		if spec[i] == '-' {
			a, ok1 := c14parseAddr(spec[:i])
			b, ok2 := c14parseAddr(spec[i+1:])
			if ok1 && ok2 && a.Unmap().Is4() == b.Unmap().Is4() && addrBig(a).Cmp(addrBig(b)) <= 0 {
				return &c14set{addrBig(a), addrBig(b)}, true
			}
		} else {
			a, ok := c14parseAddr(spec[:i])
			if ok {
				bits := 128
				if a.Unmap().Is4() {
					bits = 32
				}
				prefix := -1
				if m, ok := c14parseAddr(spec[i+1:]); ok {
					if bits == 32 && m.Unmap().Is4() {
						mb := m.Unmap().As4()
						v := uint32(mb[0])<<24 | uint32(mb[1])<<16 | uint32(mb[2])<<8 | uint32(mb[3])
						ones := 0
						for ones < 32 && v&(1<<(31-uint(ones))) != 0 {
							ones++
						}
						if ones == 32 || v<<uint(ones) == 0 {
							prefix = ones
						}
					}
				} else if n, err := strconv.Atoi(spec[i+1:]); err == nil && n >= 0 && n <= bits && spec[i+1] >= '0' && spec[i+1] <= '9' {
					// a prefix length is a plain decimal number: "/+8" and "/-0" are not CIDR notation (net.ParseCIDR rejects them too)
					prefix = n
				}
				if prefix >= 0 {
					host := uint(bits - prefix)
					base := addrBig(a)
					size := new(big.Int).Lsh(big.NewInt(1), host)
					lo := new(big.Int).Div(base, size)
					lo.Mul(lo, size)
					hi := new(big.Int).Add(lo, size)
					hi.Sub(hi, big.NewInt(1))
					if host >= 2 {
						lo.Add(lo, big.NewInt(1))
						hi.Sub(hi, big.NewInt(1))
					}
					return &c14set{lo, hi}, true
				}
			}
		}
		// the implementation falls back to "single address" on the whole string; such a string
		// contains '/' or '-' and can never be an address
		return nil, false
	}
	if a, ok := c14parseAddr(spec); ok {
		return &c14set{addrBig(a), addrBig(a)}, true
	}
	return nil, false
}

func (s *c14set) has(ip net.IP) bool {
	ip16 := ip.To16()
	if ip16 == nil {
		return false
	}
	v := new(big.Int).SetBytes(ip16)
	return v.Cmp(s.lo) >= 0 && v.Cmp(s.hi) <= 0
}

func bigTo16(v *big.Int) []byte {
	out := make([]byte, 16)
	max := new(big.Int).Lsh(big.NewInt(1), 128)
	if v.Sign() < 0 {
		v = new(big.Int).Add(v, max)
	}
	v = new(big.Int).Mod(v, max)
	b := v.Bytes()
	copy(out[16-len(b):], b)
	return out
}

// ---- generators ----

func c14v4(r *rng) string {
	switch r.intn(8) {
	case 0:
		return "192.0.2.0"
	case 1:
		return "127.0.0.1"
	case 2:
		return "0.0.0.0"
	case 3:
		return "255.255.255.255"
	case 4:
		return fmt.Sprintf("10.%d.%d.%d", r.intn(256), r.intn(256), r.pick(0, 1, 127, 128, 254, 255))
	default:
		return fmt.Sprintf("%d.%d.%d.%d", r.intn(256), r.intn(256), r.intn(256), r.intn(256))
	}
}

func c14v6(r *rng) string {
	switch r.intn(9) {
	case 0:
		return "2001:db8::"
	case 1:
		return "::1"
	case 2:
		return "::"
	case 3:
		return "ffff:ffff:ffff:ffff:ffff:ffff:ffff:ffff"
	case 4:
		return "::ffff:" + c14v4(r)
	case 5:
		return fmt.Sprintf("2001:db8::%x", r.intn(65536))
	case 6:
		return fmt.Sprintf("fe80::%x:%x", r.intn(65536), r.intn(65536))
	case 7:
		return fmt.Sprintf("%x:%x:%x:%x:%x:%x:%s", r.intn(65536), r.intn(65536), r.intn(65536), r.intn(65536), r.intn(65536), r.intn(65536), c14v4(r))
	default:
		g := make([]string, 8)
		for i := range g {
			g[i] = fmt.Sprintf("%x", r.intn(65536))
		}
		return strings.Join(g, ":")
	}
}

func c14badAddr(r *rng) string {
	return r.picks("192.0.2.", "192.0.2", "1.2.3.4.5", "256.1.1.1", "01.2.3.4", "1..2.3", ".1.2.3", "2001:db8", "2001:db8:::1",
		"1:2:3:4:5:6:7:8:9", "12345::", "g::1", "fe80::1%eth0", "::1%", "", " 1.2.3.4", "1.2.3.4 ", "1.2.3.4%x", "::ffff:1.2.3", "1:2:3:4:5:6:7:1.2.3.4", "1::2::3", ":1", "1:")
}

func c14mask(r *rng) string {
	if r.chance(70) {
		ones := r.intn(33)
		var v uint32
		if ones > 0 {
			v = ^uint32(0) << (32 - uint(ones))
		}
		s := fmt.Sprintf("%d.%d.%d.%d", v>>24, (v>>16)&255, (v>>8)&255, v&255)
		if r.chance(10) {
			return "::ffff:" + s
		}
		return s
	}
	return r.picks("255.255.0.254", "255.0.255.0", "0.255.0.0", "255.255.255.253", "254.255.255.255", "0.0.0.1", "128.0.0.1", "255.254.255.0", "ffff::", "::ffff:255.0.255.0")
}

func c14spec(r *rng) (string, string) {
	switch k := r.intn(20); {
	case k < 2:
		return c14v4(r), "single4"
	case k < 3:
		return c14v6(r), "single6"
	case k < 4:
		return c14badAddr(r), "badsingle"
	case k < 8:
		p := r.intn(33)
		if r.chance(25) {
			p = r.pick(0, 1, 8, 24, 30, 31, 32)
		}
		return fmt.Sprintf("%s/%d", c14v4(r), p), "cidr4"
	case k < 11:
		p := r.intn(129)
		if r.chance(30) {
			p = r.pick(0, 1, 64, 120, 126, 127, 128)
		}
		return fmt.Sprintf("%s/%d", c14v6(r), p), "cidr6"
	case k < 13:
		return c14v4(r) + "/" + c14mask(r), "mask4"
	case k < 14:
		// near-miss prefixes
		a := c14v4(r)
		if r.chance(40) {
			a = c14v6(r)
		}
		return a + "/" + r.picks("", "33", "129", "99", "999", "-1", "+24", "-0", "024", " 24", "24 ", "2 4", "0x18", "1e1", "24/", "/24",
			"99999999999999999999", "9223372036854775808", "000000000000000000008", "２４", "24.0", "mask"), "badprefix"
	case k < 15:
		return c14v6(r) + "/" + c14mask(r), "mask6"
	case k < 17:
		a, b := c14v4(r), c14v4(r)
		if r.chance(50) {
			b = a
			if r.chance(60) {
				ip := net.ParseIP(a).To4()
				v := new(big.Int).SetBytes(ip)
				v.Add(v, big.NewInt(int64(r.intn(70000))))
				bb := bigTo16(v)
				b = net.IP(bb[12:]).String()
			}
		}
		return a + "-" + b, "range4"
	case k < 18:
		a, b := c14v6(r), c14v6(r)
		if r.chance(50) {
			b = a
		}
		return a + "-" + b, "range6"
	case k < 19:
		return r.picks(c14v4(r)+"-"+c14v6(r), c14v6(r)+"-"+c14v4(r), c14v4(r)+"-", "-"+c14v4(r), c14badAddr(r)+"-"+c14v4(r), c14v4(r)+"-"+c14badAddr(r),
			c14v4(r)+"-"+c14v4(r)+"-"+c14v4(r), "::ffff:1.2.3.4-1.2.3.9", "1.2.3.4-::ffff:1.2.3.9"), "badrange"
	default:
		return c14badAddr(r) + "/" + r.picks("24", "64", "255.255.255.0"), "badbase"
	}
}

func c14probes(r *rng, s *c14set, n int) []net.IP {
	var ps []net.IP
	add := func(v *big.Int) {
		b := bigTo16(v)
		ip := net.IP(b)
		if ip4 := ip.To4(); ip4 != nil && r.chance(50) {
			ps = append(ps, ip4)
		} else {
			ps = append(ps, ip)
		}
	}
	one := big.NewInt(1)
	if s != nil {
		for _, d := range []int64{-2, -1, 0, 1} {
			add(new(big.Int).Add(s.lo, big.NewInt(d)))
			add(new(big.Int).Add(s.hi, big.NewInt(-d)))
		}
		// interior
		span := new(big.Int).Sub(s.hi, s.lo)
		if span.Sign() > 0 {
			off := new(big.Int).SetUint64(r.next())
			off.Mod(off, new(big.Int).Add(span, one))
			add(new(big.Int).Add(s.lo, off))
		}
	}
	for len(ps) < n {
		var b [16]byte
		if r.chance(50) {
			copy(b[:], []byte{0, 0, 0, 0, 0, 0, 0, 0, 0, 0, 0xff, 0xff})
			for i := 12; i < 16; i++ {
				b[i] = byte(r.next())
			}
			ps = append(ps, net.IP(b[12:]))
		} else {
			for i := range b {
				b[i] = byte(r.next())
			}
			ps = append(ps, net.IP(b[:]))
		}
	}
	return ps
}

func c14run(spec string, probes []net.IP) (impl, oracle string) {
	rg, err := iprange.ParseIPRange(spec)
	if err != nil || rg == nil {
		impl = "rej"
	} else {
		var sb strings.Builder
		sb.WriteString("acc ")
		for _, p := range probes {
			if rg.Contains(p) {
				sb.WriteByte('1')
			} else {
				sb.WriteByte('0')
			}
		}
		impl = sb.String()
	}
	set, ok := c14oracle(spec)
	if !ok {
		oracle = "rej"
	} else {
		var sb strings.Builder
		sb.WriteString("acc ")
		for _, p := range probes {
			if set.has(p) {
				sb.WriteByte('1')
			} else {
				sb.WriteByte('0')
			}
		}
		oracle = sb.String()
	}
	return
}

func c14line(spec string, probes []net.IP) string {
	var sb strings.Builder
	sb.WriteString("c14 ")
	sb.WriteString(hx([]byte(spec)))
	for _, p := range probes {
		sb.WriteByte(' ')
		sb.WriteString(hx(p))
	}
	return sb.String()
}

func init() {
	streams["c14"] = func(o *out, r *rng, thorough bool) {
		n := 3000
		if thorough {
			n = 60000
		}
		// the suite's own literals first (corpus)
		for _, s := range []string{"192.0.2.0", "192.0.2.0-192.0.2.10", "192.0.2.0/0", "192.0.2.0/24", "192.0.2.0/30", "192.0.2.0/31", "192.0.2.0/32",
			"192.0.2.10/24", "192.0.2.0/255.255.255.0", "192.0.2.0/255.255.0.254", "2001:db8::/64", "2001:db8::/126", "2001:db8::/127", "2001:db8::/128",
			"2001:db8::10/64", "2001:db8::-2001:db8::10", "192.0.2.0/+24", "::ffff:192.0.2.0/24", "::ffff:192.0.2.0/120"} {
			set, _ := c14oracle(s)
			ps := c14probes(r, set, 12)
			impl, orc := c14run(s, ps)
			o.emit(c14line(s, ps), impl, orc, "corpus:"+s)
		}
		for i := 0; i < n; i++ {
			spec, kind := c14spec(r)
			set, ok := c14oracle(spec)
			ps := c14probes(r, set, 12)
			impl, orc := c14run(spec, ps)
			o.count("kind:" + kind)
			if ok {
				o.count("oracle:accept")
			} else {
				o.count("oracle:reject")
			}
			key := ""
			if ok {
				key = spec
			}
			o.emit(c14line(spec, ps), impl, orc, key)
		}
		if thorough {
			// exhaustive membership over all addresses of small blocks (/20 and smaller)
			for _, p := range []int{20, 23, 24, 27, 30, 31, 32} {
				base := netip.AddrFrom4([4]byte{10, byte(r.intn(256)), byte(r.intn(256)), byte(r.intn(256))})
				spec := fmt.Sprintf("%s/%d", base, p)
				set, _ := c14oracle(spec)
				lo := new(big.Int).Sub(set.lo, big.NewInt(3))
				cnt := (1 << uint(32-p)) + 6
				for off := 0; off < cnt; off += 64 {
					var ps []net.IP
					for j := off; j < off+64 && j < cnt; j++ {
						b := bigTo16(new(big.Int).Add(lo, big.NewInt(int64(j))))
						ps = append(ps, net.IP(b).To4())
					}
					impl, orc := c14run(spec, ps)
					o.count("kind:exhaustive-block")
					o.emit(c14line(spec, ps), impl, orc, fmt.Sprintf("%s@%d", spec, off))
				}
			}
		}
	}
	replayFns["c14"] = func(line string) (string, string) {
		f := strings.Fields(line)
		spec := string(unhx(f[1]))
		var ps []net.IP
		for _, h := range f[2:] {
			ps = append(ps, net.IP(unhx(h)))
		}
		return c14run(spec, ps)
	}
}
