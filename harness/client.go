//go:build verif

package main

import (
	"bytes"
	"encoding/binary"
	"fmt"
	"sort"
	"strings"
	"sync"
	"time"
)

// Independent client-side knowledge of the ps3netsrv wire protocol (opcodes and layouts are
// written down here from the protocol description, not imported from the code under test).
const (
	opOpenFile         = 0x1224
	opReadFileCritical = 0x1225
	opReadCD2048       = 0x1226
	opReadFile         = 0x1227
	opCreateFile       = 0x1228
	opWriteFile        = 0x1229
	opOpenDir          = 0x122a
	opReadDirEntry     = 0x122b
	opDeleteFile       = 0x122c
	opMkdir            = 0x122d
	opRmdir            = 0x122e
	opReadDirEntryV2   = 0x122f
	opStatFile         = 0x1230
	opGetDirSize       = 0x1231
	opReadDir          = 0x1232
)

type creq struct {
	op        uint16
	path      string
	a, b      uint64 // readfile: limit, offset; readcd: start, count
	payload   []byte
	announced uint32 // writefile: announced payload length (may differ from len(payload) in raw mode)
}

func (q creq) bytes() []byte {
	cmd := make([]byte, 16)
	binary.BigEndian.PutUint16(cmd[0:], q.op)
	switch q.op {
	case opOpenDir, opStatFile, opOpenFile, opCreateFile, opDeleteFile, opMkdir, opRmdir, opGetDirSize:
		binary.BigEndian.PutUint16(cmd[2:], uint16(len(q.path)))
		return append(cmd, q.path...)
	case opReadFile, opReadFileCritical:
		binary.BigEndian.PutUint32(cmd[4:], uint32(q.a))
		binary.BigEndian.PutUint64(cmd[8:], q.b)
	case opReadCD2048:
		binary.BigEndian.PutUint32(cmd[4:], uint32(q.a))
		binary.BigEndian.PutUint32(cmd[8:], uint32(q.b))
	case opWriteFile:
		binary.BigEndian.PutUint32(cmd[4:], q.announced)
		return append(cmd, q.payload...)
	}
	return cmd
}

type obs struct {
	data    []byte
	closed  bool // server closed before the full expected response arrived
	timeout bool
	note    string
}

// rawObs switches observation rendering to full hex (fault-injection streams need the bytes)
var rawObs = false

func (o obs) String() string {
	if rawObs {
		switch {
		case o.timeout:
			return "T:" + hx(o.data)
		case o.closed:
			return "X:" + hx(o.data)
		default:
			return hx(o.data) + o.note
		}
	}
	switch {
	case o.timeout:
		return "T:" + digest(o.data)
	case o.closed:
		return "X:" + digest(o.data)
	default:
		return digest(o.data) + o.note
	}
}

type lockClient struct {
	c            *memConn
	sessionStart int64
	timeout      time.Duration

	// the currently open read-only object is a generated image (its volume timestamps and PS3
	// filler are masked in everything read from it)
	roVirtual, roPS3 bool

	once sync.Once
	mu   sync.Mutex
	cond *sync.Cond
	buf  []byte
	eof  bool
}

// pump moves everything the server sends into lc.buf, so that the (synchronous) server never
// blocks on a write and the client can tell "closed" from "nothing to send".
func (lc *lockClient) pump() {
	lc.once.Do(func() {
		lc.cond = sync.NewCond(&lc.mu)
		go func() {
			tmp := make([]byte, 65536)
			for {
				n, err := lc.c.Read(tmp)
				lc.mu.Lock()
				lc.buf = append(lc.buf, tmp[:n]...)
				if err != nil {
					lc.eof = true
				}
				lc.cond.Broadcast()
				lc.mu.Unlock()
				if err != nil {
					return
				}
			}
		}()
	})
}

// waitFor blocks until pred holds or the deadline passes.
func (lc *lockClient) waitFor(d time.Duration, pred func() bool) bool {
	lc.pump()
	deadline := time.Now().Add(d)
	timer := time.AfterFunc(d, func() { lc.mu.Lock(); lc.cond.Broadcast(); lc.mu.Unlock() })
	defer timer.Stop()
	lc.mu.Lock()
	defer lc.mu.Unlock()
	for !pred() {
		if time.Now().After(deadline) {
			return false
		}
		lc.cond.Wait()
	}
	return true
}

// readN reads exactly n bytes unless the server closes or the watchdog fires.
// For n == 0 it reports whether the server closed the connection shortly after the request.
func (lc *lockClient) readN(n int) ([]byte, bool, bool) {
	if n == 0 {
		closed := lc.waitFor(100*time.Millisecond, func() bool { return lc.eof || len(lc.buf) > 0 })
		lc.mu.Lock()
		defer lc.mu.Unlock()
		return nil, closed && lc.eof && len(lc.buf) == 0, false
	}
	ok := lc.waitFor(lc.timeout, func() bool { return len(lc.buf) >= n || lc.eof })
	lc.mu.Lock()
	defer lc.mu.Unlock()
	if len(lc.buf) >= n {
		b := append([]byte{}, lc.buf[:n]...)
		lc.buf = lc.buf[n:]
		return b, false, false
	}
	b := append([]byte{}, lc.buf...)
	lc.buf = nil
	if !ok && !lc.eof {
		return b, false, true
	}
	return b, true, false
}

func (lc *lockClient) maskTime(b []byte, off int) {
	v := binary.BigEndian.Uint64(b[off:])
	binary.BigEndian.PutUint64(b[off:], maskRecent(v, lc.sessionStart))
}

// maskTimes canonicalises (mtime, ctime, atime) at b[off:off+24]: mtime as maskTime; ctime is
// always "recent" for objects the harness just created (rendered 0); atime is either the value the
// harness set (mtime + atimeShift) or "recent" when an access updated it (both rendered 0).
// Anything else is left as is, so swapped or wrong fields stay visible.
func (lc *lockClient) maskTimes(b []byte, off int) {
	mt := binary.BigEndian.Uint64(b[off:])
	ct := binary.BigEndian.Uint64(b[off+8:])
	at := binary.BigEndian.Uint64(b[off+16:])
	if maskRecent(ct, lc.sessionStart) == recentMarker {
		binary.BigEndian.PutUint64(b[off+8:], 0)
	}
	// (an object modified during the session keeps its old atime, which is not compared either)
	if at == mt+atimeShift || maskRecent(at, lc.sessionStart) == recentMarker || maskRecent(mt, lc.sessionStart) == recentMarker {
		binary.BigEndian.PutUint64(b[off+16:], 0)
	}
	binary.BigEndian.PutUint64(b[off:], maskRecent(mt, lc.sessionStart))
}

// do sends one request and reads its response according to the protocol's framing.
func (lc *lockClient) do(q creq, isDirTarget bool) obs {
	wch := make(chan error, 1)
	go func() { _, err := lc.c.Write(q.bytes()); wch <- err }()
	var o obs
	fixed := func(n int) bool {
		if n == 0 && len(o.data) > 0 {
			return true // an empty tail of a response that already started
		}
		b, closed, to := lc.readN(n)
		o.data = append(o.data, b...)
		o.closed, o.timeout = closed, to
		return !closed && !to
	}
	switch q.op {
	case opOpenDir, opCreateFile, opWriteFile, opDeleteFile, opMkdir, opRmdir:
		fixed(4)
	case opGetDirSize:
		fixed(8)
	case opOpenFile:
		if fixed(16) {
			cp := "/" + strings.TrimLeft(q.path, "/")
			ok := int64(binary.BigEndian.Uint64(o.data[0:])) >= 0
			lc.roVirtual = ok && (strings.HasPrefix(cp, "/***DVD***/") || strings.HasPrefix(cp, "/***PS3***/"))
			lc.roPS3 = ok && strings.HasPrefix(cp, "/***PS3***/")
			lc.maskTime(o.data, 8)
			if isDirTarget && int64(binary.BigEndian.Uint64(o.data[0:])) >= 0 {
				binary.BigEndian.PutUint64(o.data[0:], 0) // st_size of a directory is not compared
			}
		}
	case opStatFile:
		if fixed(33) && int64(binary.BigEndian.Uint64(o.data[0:])) != -1 {
			lc.maskTimes(o.data, 8)
		}
	case opReadFile:
		if fixed(4) {
			n := int32(binary.BigEndian.Uint32(o.data))
			if n == -1 {
				// the failure code: nothing follows
			} else if n < 0 || uint64(n) > q.a {
				o.note = "!BADLEN"
			} else {
				fixed(int(n))
				if lc.roVirtual && len(o.data) > 4 {
					maskImage(o.data[4:], int64(q.b), lc.roPS3)
				}
			}
		}
	case opReadFileCritical:
		fixed(int(uint32(q.a)))
		if lc.roVirtual {
			maskImage(o.data, int64(q.b), lc.roPS3)
		}
	case opReadCD2048:
		fixed(int(uint32(q.b)) * 2048)
		if lc.roVirtual {
			// a generated image never carries the probed signatures: sectors are taken at the default stride
			for k := 0; k*2048 < len(o.data); k++ {
				maskImage(o.data[k*2048:min(len(o.data), (k+1)*2048)], 24+(int64(q.a)+int64(k))*2352, lc.roPS3)
			}
		}
	case opReadDirEntry:
		if fixed(11) {
			fixed(int(binary.BigEndian.Uint16(o.data[8:])))
		}
	case opReadDirEntryV2:
		if fixed(35) {
			if int64(binary.BigEndian.Uint64(o.data[0:])) != -1 {
				lc.maskTimes(o.data, 8)
			}
			fixed(int(binary.BigEndian.Uint16(o.data[32:])))
		}
	case opReadDir:
		if fixed(8) {
			n := int64(binary.BigEndian.Uint64(o.data))
			if n < 0 || n > 1<<20 {
				o.note = "!BADCOUNT"
			} else if fixed(int(n) * 529) {
				// compared as a multiset: sort the records by name
				recs := make([][]byte, n)
				for i := range recs {
					recs[i] = o.data[8+i*529 : 8+(i+1)*529]
					lc.maskTime(recs[i], 8)
				}
				sort.Slice(recs, func(a, b int) bool { return bytes.Compare(recs[a][17:], recs[b][17:]) < 0 })
				out := append([]byte{}, o.data[:8]...)
				for _, r := range recs {
					out = append(out, r...)
				}
				o.data = out
			}
		}
	default:
		// unknown opcode: the server must close without a byte
		b, closed, to := lc.readN(1)
		o.data, o.closed, o.timeout = b, closed, to
		if !closed && !to {
			o.note = "!STRAY"
		}
	}
	select {
	case <-wch:
	case <-time.After(lc.timeout):
		o.note += "!WRITEHANG"
	}
	return o
}

// finish half-closes and collects whatever the server still sends (must be nothing).
func (lc *lockClient) finish() string {
	lc.c.CloseWrite()
	ok := lc.waitFor(lc.timeout, func() bool { return lc.eof })
	lc.mu.Lock()
	b := append([]byte{}, lc.buf...)
	lc.mu.Unlock()
	lc.c.Close()
	if !ok {
		return "T:" + fmt.Sprint(len(b))
	}
	return digest(b)
}
