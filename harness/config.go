//go:build verif

package main

import (
	"bytes"
	"fmt"
	"io"
	"net"
	"net/http"
	"os"
	"os/exec"
	"path/filepath"
	"strings"
	"sync"
	"time"
)

// the 9 observable server settings; value tags: A, B (two valid values), X (malformed)
var cfgSettings = []string{"root", "listen-addr", "allow-write", "client-whitelist", "max-clients", "read-timeout", "debug", "json-log", "debug-server-listen-addr"}

var cfgEnv = map[string]string{"root": "PS3NETSRV_ROOT", "listen-addr": "PS3NETSRV_LISTEN_ADDR", "allow-write": "PS3NETSRV_ALLOW_WRITE",
	"client-whitelist": "PS3NETSRV_CLIENT_WHITELIST", "max-clients": "PS3NETSRV_MAX_CLIENTS", "read-timeout": "PS3NETSRV_READ_TIMEOUT",
	"debug": "PS3NETSRV_DEBUG", "json-log": "PS3NETSRV_JSON_LOG", "debug-server-listen-addr": "PS3NETSRV_DEBUG_SERVER_LISTEN_ADDR"}

type cfgAssign struct {
	setting, channel, tag string // channel: flag env cfgflag cfgenv cwdini userini
}

type cfgWorld struct {
	base, dirA, dirB, dirC string
	portA, portB, portD    int
	noHome                 bool // start the binary without HOME / XDG_CONFIG_HOME (when the run needs no user directory)
}

var (
	portMu     sync.Mutex
	portsGiven = map[int]bool{}
)

// freePort: a port nobody listens on right now and that this process has not handed out before
// (worlds run in parallel; two of them must never be told the same number).
func freePort() int {
	portMu.Lock()
	defer portMu.Unlock()
	for i := 0; i < 50; i++ {
		l, err := net.Listen("tcp4", "127.0.0.1:0")
		if err != nil {
			return 0
		}
		p := l.Addr().(*net.TCPAddr).Port
		l.Close()
		if !portsGiven[p] {
			portsGiven[p] = true
			return p
		}
	}
	return 0
}

func newCfgWorld() *cfgWorld {
	base, _ := os.MkdirTemp("", "vcfg-")
	w := &cfgWorld{base: base, dirA: filepath.Join(base, "rootA"), dirB: filepath.Join(base, "rootB"), dirC: filepath.Join(base, "cwd")}
	for d, m := range map[string]string{w.dirA: "markerA", w.dirB: "markerB", w.dirC: "markerC"} {
		os.MkdirAll(d, 0o755)
		os.WriteFile(filepath.Join(d, m), []byte(m), 0o644)
	}
	// directories named like the commands in the working directory: they must never be taken for a
	// dropped root directory ("ps3netsrv-go <dir>" shortcut)
	for _, cmdName := range []string{"server", "decrypt", "make-iso"} {
		os.MkdirAll(filepath.Join(w.dirC, cmdName), 0o755)
		os.WriteFile(filepath.Join(w.dirC, cmdName, "markerS"), []byte("markerS"), 0o644)
	}
	os.MkdirAll(filepath.Join(base, "xdg", "ps3netsrv-go"), 0o755)
	w.portA, w.portB, w.portD = freePort(), freePort(), freePort()
	return w
}

func (w *cfgWorld) value(setting, tag string) string {
	if tag == "E" {
		return ""
	}
	if tag == "N" { // well-formed but negative: must not silently mean "no timeout"
		return "-1s"
	}
	switch setting {
	case "root":
		return map[string]string{"A": w.dirA, "B": w.dirB, "X": filepath.Join(w.base, "does-not-exist")}[tag]
	case "listen-addr":
		return map[string]string{"A": fmt.Sprintf("127.0.0.1:%d", w.portA), "B": fmt.Sprintf("127.0.0.1:%d", w.portB), "X": "256.1.1.1:99999"}[tag]
	case "allow-write", "debug", "json-log":
		return map[string]string{"A": "true", "B": "false", "X": "maybe"}[tag]
	case "client-whitelist":
		return map[string]string{"A": "127.0.0.1", "B": "127.0.0.9", "X": "not-an-address/99"}[tag]
	case "max-clients":
		return map[string]string{"A": "1", "B": "5", "X": "many"}[tag]
	case "read-timeout":
		return map[string]string{"A": "300ms", "B": "10m", "X": "soon"}[tag]
	case "debug-server-listen-addr":
		return map[string]string{"A": fmt.Sprintf("127.0.0.1:%d", w.portD), "B": "", "X": "256.1.1.1:99999"}[tag]
	}
	return ""
}

// runCfg starts the real binary with the given channel assignments and observes its behaviour.
func (w *cfgWorld) runCfg(assigns []cfgAssign) string {
	args := []string{"server"}
	env := []string{}
	inis := map[string][]string{}
	for _, a := range assigns {
		v := w.value(a.setting, a.tag)
		switch a.channel {
		case "flag":
			args = append(args, "--"+a.setting+"="+v)
		case "env":
			env = append(env, cfgEnv[a.setting]+"="+v)
		default:
			inis[a.channel] = append(inis[a.channel], a.setting+" = "+v)
		}
	}
	os.Remove(filepath.Join(w.dirC, "config.ini"))
	os.Remove(filepath.Join(w.base, "xdg", "ps3netsrv-go", "config.ini"))
	for ch, lines := range inis {
		content := "[server]\n" + strings.Join(lines, "\n") + "\n"
		switch ch {
		case "cfgflag":
			p := filepath.Join(w.base, "flag.ini")
			os.WriteFile(p, []byte(content), 0o644)
			args = append([]string{"--config=" + p}, args...)
		case "cfgenv":
			p := filepath.Join(w.base, "env.ini")
			os.WriteFile(p, []byte(content), 0o644)
			env = append(env, "PS3NETSRV_CONFIG_FILE="+p)
		case "cwdini":
			os.WriteFile(filepath.Join(w.dirC, "config.ini"), []byte(content), 0o644)
		case "userini":
			os.WriteFile(filepath.Join(w.base, "xdg", "ps3netsrv-go", "config.ini"), []byte(content), 0o644)
		}
	}
	cmd := exec.Command(binPath(), args...)
	cmd.Dir = w.dirC
	cmd.Env = append([]string{"TZ=UTC", "HOME=" + w.base, "XDG_CONFIG_HOME=" + filepath.Join(w.base, "xdg"), "PATH=/usr/bin:/bin"}, env...)
	if _, usesUserDir := inis["userini"]; !usesUserDir {
		// every second run that does not need it has no user configuration directory at all (as under
		// `env -i`, a service unit, a minimal container): the other channels must work unchanged
		if w.noHome {
			cmd.Env = append([]string{"TZ=UTC", "PATH=/usr/bin:/bin"}, env...)
		}
	}
	var so bytes.Buffer
	var mu sync.Mutex
	pr, pw := io.Pipe()
	cmd.Stdout, cmd.Stderr = pw, pw
	go func() {
		buf := make([]byte, 4096)
		for {
			n, err := pr.Read(buf)
			mu.Lock()
			so.Write(buf[:n])
			mu.Unlock()
			if err != nil {
				return
			}
		}
	}()
	if err := cmd.Start(); err != nil {
		return "starterr"
	}
	exited := make(chan struct{})
	go func() { cmd.Wait(); pw.Close(); close(exited) }()
	defer func() {
		cmd.Process.Kill()
		<-exited
	}()
	// which port does it listen on?
	port := 0
	deadline := time.Now().Add(4 * time.Second)
	for time.Now().Before(deadline) && port == 0 {
		select {
		case <-exited:
			return "exit"
		default:
		}
		// the server says itself where it listens (text or JSON log); only a port it named is probed, so a
		// foreign listener that happens to sit on the other candidate port (parallel runs) is never mistaken for it
		mu.Lock()
		logNow := so.String()
		mu.Unlock()
		for _, p := range []int{w.portA, w.portB} {
			named := false
			for _, ln := range strings.Split(logNow, "\n") {
				if strings.Contains(ln, "Listening...") && !strings.Contains(ln, "Debug") && strings.Contains(ln, fmt.Sprintf("127.0.0.1:%d", p)) {
					named = true
				}
			}
			if !named {
				continue
			}
			c, err := net.DialTimeout("tcp4", fmt.Sprintf("127.0.0.1:%d", p), 100*time.Millisecond)
			if err == nil {
				c.Close()
				port = p
			}
		}
		time.Sleep(30 * time.Millisecond)
	}
	if port == 0 {
		select {
		case <-exited:
			return "exit"
		default:
			return "not-listening"
		}
	}
	addr := fmt.Sprintf("127.0.0.1:%d", port)
	obs := map[string]string{"port": "A"}
	if port == w.portB {
		obs["port"] = "B"
	}
	dial := func() net.Conn {
		c, err := net.DialTimeout("tcp4", addr, time.Second)
		if err != nil {
			return nil
		}
		return c
	}
	// whitelist: is a client from 127.0.0.1 served?
	c := dial()
	if c == nil {
		return "dial-failed"
	}
	served := probeConn(c, 1500*time.Millisecond) == 's'
	obs["wl"] = map[bool]string{true: "served", false: "closed"}[served]
	if served {
		// root: which marker exists
		statOf := func(p string) bool {
			c.SetDeadline(time.Now().Add(time.Second))
			c.Write(creq{op: opStatFile, path: p}.bytes())
			b := make([]byte, 33)
			if _, err := io.ReadFull(c, b); err != nil {
				return false
			}
			return b[0] != 0xff
		}
		obs["root"] = "?"
		for _, m := range []string{"A", "B", "C", "S"} {
			if statOf("/marker" + m) {
				obs["root"] = m
			}
		}
		// allow-write
		c.SetDeadline(time.Now().Add(time.Second))
		c.Write(creq{op: opMkdir, path: "/made-by-c19"}.bytes())
		b := make([]byte, 4)
		io.ReadFull(c, b)
		obs["aw"] = map[bool]string{true: "1", false: "0"}[b[0] == 0]
		// max-clients: with this connection open, is a second one served?
		c2 := dial()
		if c2 != nil {
			second := probeConn(c2, 500*time.Millisecond)
			obs["max"] = map[bool]string{true: "open", false: "limited"}[second == 's']
			c2.Close()
		}
		// read-timeout: idle for 0.9 s
		c.SetReadDeadline(time.Now().Add(900 * time.Millisecond))
		one := make([]byte, 1)
		_, err := c.Read(one)
		if ne, ok := err.(net.Error); ok && ne.Timeout() {
			obs["rt"] = "alive"
		} else {
			obs["rt"] = "cut"
		}
	}
	c.Close()
	// pprof debug server
	hc := http.Client{Timeout: 500 * time.Millisecond}
	if resp, err := hc.Get(fmt.Sprintf("http://127.0.0.1:%d/debug/pprof/", w.portD)); err == nil {
		resp.Body.Close()
		obs["pprof"] = map[bool]string{true: "1", false: "0"}[resp.StatusCode == 200]
	} else {
		obs["pprof"] = "0"
	}
	time.Sleep(50 * time.Millisecond)
	mu.Lock()
	logs := so.String()
	mu.Unlock()
	obs["json"] = map[bool]string{true: "1", false: "0"}[strings.Contains(logs, `{"time"`)]
	obs["debug"] = map[bool]string{true: "1", false: "0"}[strings.Contains(logs, "Received opcode") || strings.Contains(logs, "Checking dir for entries limit")]
	var parts []string
	for _, k := range []string{"port", "wl", "root", "aw", "max", "rt", "debug", "json", "pprof"} {
		if v, ok := obs[k]; ok {
			parts = append(parts, k+"="+v)
		}
	}
	os.Remove(filepath.Join(w.dirA, "made-by-c19"))
	os.Remove(filepath.Join(w.dirB, "made-by-c19"))
	os.Remove(filepath.Join(w.dirC, "made-by-c19"))
	return strings.Join(parts, " ")
}

func encodeAssigns(as []cfgAssign) string {
	parts := make([]string, len(as))
	for i, a := range as {
		parts[i] = a.setting + ":" + a.channel + ":" + a.tag
	}
	return strings.Join(parts, ",")
}

func c19Stream(o *out, r *rng, thorough bool) {
	channels := []string{"flag", "env", "cfgflag"}
	if thorough {
		channels = []string{"flag", "env", "cfgflag", "cfgenv", "cwdini", "userini"}
	}
	var runs [][]cfgAssign
	base := func(testing string) []cfgAssign {
		// everything needed to observe, given by flag unless it is the setting under test
		var as []cfgAssign
		if testing != "listen-addr" {
			as = append(as, cfgAssign{"listen-addr", "flag", "A"})
		}
		if testing != "root" {
			as = append(as, cfgAssign{"root", "flag", "A"})
		}
		return as
	}
	for _, s := range cfgSettings {
		// each channel alone has the effect
		for _, ch := range channels {
			runs = append(runs, append(base(s), cfgAssign{s, ch, "A"}))
		}
		// a flag wins over every other channel
		for _, ch := range channels[1:] {
			runs = append(runs, append(base(s), cfgAssign{s, "flag", "B"}, cfgAssign{s, ch, "A"}))
			if !thorough {
				break
			}
		}
		// malformed values of the security-relevant settings stop start-up, through every channel
		if s == "client-whitelist" || s == "max-clients" || s == "root" || s == "read-timeout" {
			for _, ch := range channels {
				runs = append(runs, append(base(s), cfgAssign{s, ch, "X"}))
			}
		}
		if s == "read-timeout" {
			for _, ch := range channels {
				runs = append(runs, append(base(s), cfgAssign{s, ch, "N"}))
			}
		}
		// a blank value is malformed too (tag E): it must not be taken for "not given"
		if s == "client-whitelist" || s == "max-clients" || s == "read-timeout" {
			for _, ch := range channels {
				runs = append(runs, append(base(s), cfgAssign{s, ch, "E"}))
			}
		}
	}
	if !thorough {
		// the other three channels, alone, for the settings that matter most (thorough: everything above)
		for _, ch := range []string{"cfgenv", "cwdini", "userini"} {
			for _, s := range []string{"root", "allow-write", "client-whitelist", "read-timeout", "max-clients"} {
				runs = append(runs, append(base(s), cfgAssign{s, ch, "A"}))
			}
		}
		runs = append(runs, append(base("root"), cfgAssign{"root", "cwdini", "A"}, cfgAssign{"root", "userini", "B"}),
			append(base("max-clients"), cfgAssign{"max-clients", "cfgenv", "A"}, cfgAssign{"max-clients", "cwdini", "B"}))
	}
	if thorough {
		// all pairs of non-flag channels giving conflicting values
		for _, s := range []string{"allow-write", "client-whitelist", "max-clients", "read-timeout", "root"} {
			for i, c1 := range channels[1:] {
				for _, c2 := range channels[1:][i+1:] {
					runs = append(runs, append(base(s), cfgAssign{s, c1, "A"}, cfgAssign{s, c2, "B"}))
				}
			}
		}
	}
	// the default configuration
	runs = append(runs, []cfgAssign{{"listen-addr", "flag", "A"}})
	// runs that need no user configuration directory: every second of them - counted separately for
	// those that use ./config.ini - is started without HOME / XDG_CONFIG_HOME
	noHome := make([]bool, len(runs))
	nCwd, nOther := 0, 0
	for i, as := range runs {
		usesUser, usesCwd := false, false
		for _, a := range as {
			usesUser = usesUser || a.channel == "userini"
			usesCwd = usesCwd || a.channel == "cwdini"
		}
		switch {
		case usesUser:
		case usesCwd:
			noHome[i] = nCwd%2 == 0
			nCwd++
		default:
			noHome[i] = nOther%2 == 1
			nOther++
		}
	}
	results := make([]string, len(runs))
	sem := make(chan struct{}, 6)
	var wg sync.WaitGroup
	for i := range runs {
		wg.Add(1)
		sem <- struct{}{}
		go func(i int) {
			defer wg.Done()
			defer func() { <-sem }()
			w := newCfgWorld()
			defer os.RemoveAll(w.base)
			w.noHome = noHome[i]
			results[i] = w.runCfg(runs[i])
		}(i)
	}
	wg.Wait()
	for i, as := range runs {
		o.count("tested:" + as[len(as)-1].setting)
		if noHome[i] {
			o.count("no-user-config-dir")
		}
		o.emit("c19 "+encodeAssigns(as), results[i], "", encodeAssigns(as))
	}
}

func init() {
	streams["c19"] = c19Stream
}
