//go:build verif

package main

import (
	"fmt"
	"io"
	"log/slog"
	"os"
	"path/filepath"
	"strings"
	"time"

	"github.com/spf13/afero"

	"github.com/xakep666/ps3netsrv-go/internal/copier"
	"github.com/xakep666/ps3netsrv-go/internal/handler"
	"github.com/xakep666/ps3netsrv-go/pkg/fs"
	"github.com/xakep666/ps3netsrv-go/pkg/server"
)

func init() {
	// no record is ever handled (level above every level in use): a handler's mutex would order the requests of
	// all connections and hide unsynchronised sharing between them from the race detector
	slog.SetDefault(slog.New(slog.NewTextHandler(io.Discard, &slog.HandlerOptions{Level: slog.Level(100)})))
}

// connEnv is the real server wired exactly as cmd/ps3netsrv-go/server.go wires it, except that the
// OS filesystem under BasePathFs is wrapped by the transparent recorder and the listener is in memory.
type connEnv struct {
	root string
	rec  *recFs
	ln   *memListener
}

// plainFs: the next server is wired without the recorder (whose mutex orders every file-system call of every
// connection and thereby hides unsynchronised sharing between connections from the race detector)
var plainFs bool

// plainBetween: with plainFs, the path another connection keeps opening in between (see yieldFs.between)
var plainBetween string

func newConnEnv(root string, allowWrite bool, bufSize int64) *connEnv {
	rec := newRecFs(afero.NewOsFs())
	var under afero.Fs = rec
	var between func()
	if plainFs {
		under = yieldFs{afero.NewOsFs(), &between}
	}
	var cop *copier.Copier
	if bufSize > 0 {
		cop = copier.NewPooledCopier(bufSize)
	} else {
		cop = copier.NewCopier()
	}
	top := &fs.FS{Fs: afero.NewBasePathFs(under, root)}
	if plainFs && plainBetween != "" {
		// "another connection" opens (and so probes) a file between any two file-system calls of every connection
		other := plainBetween
		between = func() {
			if g, err := top.Open(other); err == nil {
				g.Close()
			}
		}
	}
	s := &server.Server[handler.State]{
		Handler: &handler.Handler{
			Fs:         top,
			AllowWrite: allowWrite,
			Copier:     cop,
		},
		Logger: slog.New(slog.NewTextHandler(io.Discard, &slog.HandlerOptions{Level: slog.Level(100)})),
	}
	ln := newMemListener()
	go s.Serve(ln)
	return &connEnv{root: root, rec: rec, ln: ln}
}

func (e *connEnv) close() { e.ln.Close() }

// runSession plays the requests in lockstep and renders the observation line.
func (e *connEnv) runSession(reqs []creq, snapshotFS bool) string {
	start := time.Now().Unix()
	lc := &lockClient{c: e.ln.dial(), sessionStart: start, timeout: 5 * time.Second}
	var sb strings.Builder
	aborted := false
	for i, q := range reqs {
		isDir := false
		if q.op == opOpenFile {
			if st, err := os.Stat(filepath.Join(e.root, filepath.Clean("/"+q.path))); err == nil && st.IsDir() {
				isDir = true
			}
		}
		t0 := time.Now()
		o := lc.do(q, isDir)
		if d := time.Since(t0); d > 50*time.Millisecond && os.Getenv("VERIF_DEBUG") != "" {
			fmt.Fprintf(os.Stderr, "slow %v op=%s a=%d b=%d\n", d, opName(q.op), q.a, q.b)
		}
		fmt.Fprintf(&sb, "r%d=%s ", i, o.String())
		if o.closed || o.timeout {
			aborted = true
			break
		}
	}
	if !aborted {
		fmt.Fprintf(&sb, "end=%s ", lc.finish())
	} else {
		lc.c.Close()
	}
	// the connection is over: every handle opened on its behalf must get closed
	leak := -1
	for i := 0; i < 200; i++ {
		if l := e.rec.leaked(); len(l) == 0 {
			leak = 0
			break
		}
		time.Sleep(5 * time.Millisecond)
	}
	if leak != 0 {
		leak = len(e.rec.leaked())
	}
	if snapshotFS {
		snap, err := snapshot(e.root, start)
		if err != nil {
			snap = "ERR:" + err.Error()
		}
		fmt.Fprintf(&sb, "fs=%016x ", fnv1a([]byte(snap)))
	}
	fmt.Fprintf(&sb, "leak=%d out=%d", leak, len(e.rec.outside(e.root)))
	return sb.String()
}

// ---- generators ----

var nameAlphabet = []string{"with_space", "WITH SPACE", "a", "b", "GAMES", "PS3ISO", "file.bin", "x.iso", "readme.txt", "Ünï", "with space", "UPPER.ISO", "dir1", "dir2", "sub", "z", "..x", "x..", ".hidden", "***DVD***x"}

func genName(r *rng) string {
	if r.chance(6) {
		return strings.Repeat("n", 200+r.intn(56)) // up to 255 bytes
	}
	if r.chance(10) {
		return fmt.Sprintf("f%03d", r.intn(1000))
	}
	return nameAlphabet[r.intn(len(nameAlphabet))]
}

var sizeAlphabet = []int64{0, 1, 2047, 2048, 2049, 65535, 65536, 65537, 100, 4096, 30000}

func genSize(r *rng) int64 {
	if r.chance(20) {
		return int64(r.intn(200000))
	}
	return sizeAlphabet[r.intn(len(sizeAlphabet))]
}

func genMtime(r *rng) int64 { return 1000000000 + int64(r.intn(600000000)) }

// genTree builds a random tree description: nested dirs, files of boundary sizes, symlinks.
func genTree(r *rng, maxDirs, maxPerDir int, links bool) *tree {
	t := &tree{}
	t.add(tnode{path: "/", kind: 'd', mtime: genMtime(r)})
	dirs := []string{"/"}
	used := map[string]bool{"/": true}
	var files []string
	join := func(d, n string) string {
		if d == "/" {
			return "/" + n
		}
		return d + "/" + n
	}
	nd := r.intn(maxDirs + 1)
	for i := 0; i < nd; i++ {
		p := join(dirs[r.intn(len(dirs))], genName(r))
		if used[p] || len(p) > 900 {
			continue
		}
		used[p] = true
		dirs = append(dirs, p)
		t.add(tnode{path: p, kind: 'd', mtime: genMtime(r)})
	}
	for _, d := range dirs {
		nf := r.intn(maxPerDir + 1)
		for i := 0; i < nf; i++ {
			p := join(d, genName(r))
			if used[p] || len(p) > 900 {
				continue
			}
			used[p] = true
			files = append(files, p)
			t.add(tnode{path: p, kind: 'f', size: genSize(r), seed: int64(r.intn(250)), mtime: genMtime(r)})
		}
	}
	if links {
		nl := r.intn(4)
		for i := 0; i < nl; i++ {
			p := join(dirs[r.intn(len(dirs))], fmt.Sprintf("lnk%d", i))
			if used[p] {
				continue
			}
			used[p] = true
			switch k := r.intn(3); {
			case k == 0 && len(files) > 0:
				t.add(tnode{path: p, kind: 'l', target: files[r.intn(len(files))]})
			case k == 1 && len(dirs) > 1:
				// link to a directory that is not an ancestor and holds no link itself: no cycles, neither through
				// one link nor through several (A/l0 -> B, B/l1 -> A); cyclic trees are a dedicated case of the c06 stream
				tg := dirs[1+r.intn(len(dirs)-1)]
				holdsLink := false
				for _, n := range t.nodes {
					if (n.kind == 'l' || n.kind == 'x') && strings.HasPrefix(n.path, tg+"/") {
						holdsLink = true
					}
				}
				if strings.HasPrefix(p, tg+"/") || holdsLink {
					t.add(tnode{path: p, kind: 'x'})
				} else {
					t.add(tnode{path: p, kind: 'l', target: tg})
				}
			default:
				t.add(tnode{path: p, kind: 'x'})
			}
		}
	}
	return t
}

func (t *tree) pathsOf(kind byte) []string {
	var out []string
	for _, n := range t.nodes {
		if n.kind == kind {
			out = append(out, n.path)
		}
	}
	return out
}

// genPath draws a request path: mostly existing objects, spelled in hostile ways now and then.
func genPath(r *rng, t *tree, want byte) string {
	var base string
	cands := t.pathsOf(want)
	switch {
	case r.chance(70) && len(cands) > 0:
		base = cands[r.intn(len(cands))]
	case r.chance(50) && len(t.nodes) > 0:
		base = t.nodes[r.intn(len(t.nodes))].path
	default:
		base = "/" + genName(r)
		if r.chance(40) {
			base = "/" + genName(r) + "/" + genName(r)
		}
	}
	if r.chance(7) {
		// generated-image views of directories (and of things that are not directories)
		return r.picks("/***DVD***", "/***PS3***", "/***DVD***", "***DVD***") + base
	}
	switch r.intn(14) {
	case 0:
		return base + "/"
	case 1:
		return strings.ReplaceAll(base, "/", "//")
	case 2:
		return "/." + base
	case 3:
		return "/xx/.." + base
	case 4:
		return "/.." + base
	case 5:
		return "/../.." + base
	case 6:
		return strings.TrimPrefix(base, "/")
	case 7:
		return ".." + base
	case 8:
		return base + "/."
	case 9:
		return base + "/.."
	case 10:
		return ""
	default:
		return base
	}
}

func genReadArgs(r *rng, size int64) (limit, off uint64) {
	offs := []int64{0, 1, size - 1, size, size + 1, size / 2, 2047, 2048, 2049, 65536, size - 2048}
	o := offs[r.intn(len(offs))]
	if o < 0 || r.chance(15) {
		o = int64(r.intn(int(size + 10)))
	}
	lims := []int64{0, 1, 2, 2048, 4096, 65535, 65536, 65537, size, size - o, size - o + 1, 100}
	l := lims[r.intn(len(lims))]
	if l < 0 {
		l = 0
	}
	if l > 300000 {
		l = 300000
	}
	if r.chance(3) {
		return uint64(l), 1<<63 + uint64(r.intn(100)) // negative as int64
	}
	return uint64(l), uint64(o)
}

func (t *tree) sizeOf(p string) int64 {
	for _, n := range t.nodes {
		if n.path == p {
			return n.size
		}
	}
	return 1000
}

// genSession draws a request sequence. With writes enabled, entry-by-entry enumeration is only
// used before the first mutating request (afterwards the OS may enumerate in a new order).
func genSession(r *rng, t *tree, n int, allowWrite bool, mutatingPct int) []creq {
	var reqs []creq
	mutated := false
	lastOpened := "/"
	roOpen := false
	for len(reqs) < n {
		k := r.intn(100)
		if k >= 49 && k < 73 && !roOpen && !r.chance(8) {
			k = 40 // reads mostly come after an open, so that sessions live long enough
		}
		switch {
		case k < 10:
			reqs = append(reqs, creq{op: opOpenDir, path: genPath(r, t, 'd')})
		case k < 20:
			if mutated {
				reqs = append(reqs, creq{op: opReadDir})
			} else if r.chance(50) {
				reqs = append(reqs, creq{op: opReadDirEntry})
			} else {
				reqs = append(reqs, creq{op: opReadDirEntryV2})
			}
		case k < 25:
			reqs = append(reqs, creq{op: opReadDir})
		case k < 37:
			reqs = append(reqs, creq{op: opStatFile, path: genPath(r, t, 'f')})
		case k < 49:
			p := genPath(r, t, 'f')
			if r.chance(5) {
				p = "/some/CLOSEFILE"
			} else if r.chance(7) {
				p = "/CLOSEFILE" // the reserved path: closes the connection's file and nothing else
			}
			lastOpened = p
			roOpen = t.sizeOf(filepath.Clean("/"+p)) != 1000 || roOpen
			reqs = append(reqs, creq{op: opOpenFile, path: p})
		case k < 61:
			l, o := genReadArgs(r, t.sizeOf(filepath.Clean("/"+lastOpened)))
			reqs = append(reqs, creq{op: opReadFile, a: l, b: o})
		case k < 70:
			l, o := genReadArgs(r, t.sizeOf(filepath.Clean("/"+lastOpened)))
			if r.chance(70) {
				// mostly satisfiable, so that the session goes on
				sz := uint64(t.sizeOf(filepath.Clean("/" + lastOpened)))
				if o > sz {
					o = 0
				}
				if o+l > sz {
					l = sz - o
				}
			}
			reqs = append(reqs, creq{op: opReadFileCritical, a: l, b: o})
		case k < 73:
			reqs = append(reqs, creq{op: opReadCD2048, a: uint64(r.intn(3)), b: uint64(r.intn(3))})
		case k < 77:
			reqs = append(reqs, creq{op: opGetDirSize, path: genPath(r, t, 'd')})
		default:
			if !r.chance(mutatingPct) {
				continue
			}
			mutated = mutated || allowWrite
			switch r.intn(6) {
			case 0, 1:
				p := genPath(r, t, 'f')
				if r.chance(50) {
					ds := t.pathsOf('d')
					p = strings.TrimSuffix(ds[r.intn(len(ds))], "/") + "/new" + fmt.Sprint(r.intn(3))
				}
				reqs = append(reqs, creq{op: opCreateFile, path: p})
				if r.chance(35) {
					// a whole upload in the protocol's own idiom: write, end it with CREATE_FILE on a
					// directory, and one more WRITE_FILE that must find no write file any more
					pl := []byte(fmt.Sprintf("chunk-%d", r.intn(1000)))
					ds := t.pathsOf('d')
					reqs = append(reqs, creq{op: opWriteFile, payload: pl, announced: uint32(len(pl))},
						creq{op: opCreateFile, path: ds[r.intn(len(ds))]},
						creq{op: opWriteFile, payload: pl, announced: uint32(len(pl))})
				}
			case 2, 3:
				sz := r.pick(0, 1, 100, 2048, 65535, 65536, 65537, 140000)
				pl := make([]byte, sz)
				for i := range pl {
					pl[i] = byte(r.next())
				}
				reqs = append(reqs, creq{op: opWriteFile, payload: pl, announced: uint32(sz)})
			case 4:
				reqs = append(reqs, creq{op: uint16(r.pick(opDeleteFile, opRmdir)), path: genPath(r, t, byte(r.pick('f', 'd')))})
			default:
				ds := t.pathsOf('d')
				p := strings.TrimSuffix(ds[r.intn(len(ds))], "/") + "/mk" + fmt.Sprint(r.intn(3))
				if r.chance(30) {
					p = genPath(r, t, 'd')
				}
				reqs = append(reqs, creq{op: opMkdir, path: p})
			}
		}
	}
	return reqs
}

func encodeReqs(reqs []creq) string {
	if len(reqs) == 0 {
		return "-"
	}
	parts := make([]string, len(reqs))
	for i, q := range reqs {
		parts[i] = hx(q.bytes())
	}
	return strings.Join(parts, ",")
}

// decodeReqs is only needed for replay: it recovers enough of each request to drive the client.
func decodeReqs(s string) []creq {
	var out []creq
	if s == "-" {
		return out
	}
	for _, h := range strings.Split(s, ",") {
		b := unhx(h)
		q := creq{op: uint16(b[0])<<8 | uint16(b[1])}
		switch q.op {
		case opOpenDir, opStatFile, opOpenFile, opCreateFile, opDeleteFile, opMkdir, opRmdir, opGetDirSize:
			q.path = string(b[16:])
		case opReadFile, opReadFileCritical:
			q.a = uint64(b[4])<<24 | uint64(b[5])<<16 | uint64(b[6])<<8 | uint64(b[7])
			for i := 8; i < 16; i++ {
				q.b = q.b<<8 | uint64(b[i])
			}
		case opReadCD2048:
			q.a = uint64(b[4])<<24 | uint64(b[5])<<16 | uint64(b[6])<<8 | uint64(b[7])
			q.b = uint64(b[8])<<24 | uint64(b[9])<<16 | uint64(b[10])<<8 | uint64(b[11])
		case opWriteFile:
			q.announced = uint32(b[4])<<24 | uint32(b[5])<<16 | uint32(b[6])<<8 | uint32(b[7])
			q.payload = b[16:]
		}
		out = append(out, q)
	}
	return out
}

func withTempRoot(fn func(root string)) {
	base, err := os.MkdirTemp("", "vroot-")
	if err != nil {
		panic(err)
	}
	defer os.RemoveAll(base)
	// a sibling whose name has the root's name as a prefix, and a secret outside: C01's sentinels
	root := filepath.Join(base, "games")
	os.Mkdir(root, 0o755)
	os.Mkdir(filepath.Join(base, "games-other"), 0o755)
	os.WriteFile(filepath.Join(base, "games-other", "secret"), []byte("outside-secret"), 0o644)
	os.WriteFile(filepath.Join(base, "secret"), []byte("outside-secret"), 0o644)
	fn(root)
}

func connCase(aw bool, nodes []tnode, reqs []creq) string {
	a := 0
	if aw {
		a = 1
	}
	return fmt.Sprintf("conn %d %s %s", a, encodeTree(nodes), encodeReqs(reqs))
}

func opName(op uint16) string {
	names := map[uint16]string{opOpenFile: "OPEN_FILE", opReadFileCritical: "READ_FILE_CRITICAL", opReadCD2048: "READ_CD", opReadFile: "READ_FILE",
		opCreateFile: "CREATE", opWriteFile: "WRITE", opOpenDir: "OPEN_DIR", opReadDirEntry: "READ_DIR_ENTRY", opDeleteFile: "DELETE", opMkdir: "MKDIR",
		opRmdir: "RMDIR", opReadDirEntryV2: "READ_DIR_ENTRY_V2", opStatFile: "STAT", opGetDirSize: "GET_DIR_SIZE", opReadDir: "READ_DIR"}
	if n, ok := names[op]; ok {
		return n
	}
	return fmt.Sprintf("op%04x", op)
}

// connStream: random sessions over random trees, read-only and writing.
func connStream(o *out, r *rng, trees, sessionsPerTree, reqsPerSession int, write bool, links bool) {
	for ti := 0; ti < trees; ti++ {
		t := genTree(r, 5, 5, links)
		if write {
			t = genTree(r, 3, 3, false)
		}
		withTempRoot(func(root string) {
			if err := t.materialize(root); err != nil {
				o.notes = append(o.notes, "materialize: "+err.Error())
				return
			}
			nodes, err := t.ordered(root)
			if err != nil {
				o.notes = append(o.notes, "ordered: "+err.Error())
				return
			}
			ns := sessionsPerTree
			if write {
				ns = 1
			}
			env := newConnEnv(root, write, 65536)
			defer env.close()
			for si := 0; si < ns; si++ {
				mp := 20
				if write {
					mp = 100
				}
				reqs := genSession(r, t, 1+r.intn(reqsPerSession), write, mp)
				if si == 0 && !write {
					// fixed scenario: a generated-image path is not a directory; enumerating after
					// the refused OPEN_DIR must give the end marker at once
					ds := t.pathsOf('d')
					d := ds[r.intn(len(ds))]
					reqs = []creq{{op: opOpenDir, path: d}, {op: opOpenDir, path: "/***DVD***" + d}, {op: opReadDirEntry},
						{op: opReadDir}, {op: opReadDirEntryV2}, {op: opOpenFile, path: "/***DVD***" + d}, {op: opReadFile, a: 4096, b: 32768},
						{op: opReadFileCritical, a: 100, b: 2048 * 16}, {op: opStatFile, path: "/***DVD***" + d}}
				}
				line := env.runSession(reqs, true)
				key := ""
				if len(reqs) >= 2 {
					key = fmt.Sprintf("%x", fnv1a([]byte(encodeReqs(reqs)+encodeTree(nodes))))
				}
				for _, q := range reqs {
					o.count("op:" + opName(q.op))
				}
				if strings.Contains(line, "X:") {
					o.count("session:closed-by-server")
				} else {
					o.count("session:complete")
				}
				o.emit(connCase(write, nodes, reqs), line, "", key)
			}
		})
	}
}

func init() {
	streams["conn"] = func(o *out, r *rng, thorough bool) {
		if thorough {
			connStream(o, r, 150, 6, 30, false, true)
			connStream(o, r, 400, 1, 30, true, false)
		} else {
			connStream(o, r, 30, 5, 12, false, true)
			connStream(o, r, 80, 1, 14, true, false)
		}
	}
	replayFns["conn"] = func(line string) (string, string) {
		f := strings.Fields(line)
		aw := f[1] == "1"
		t := decodeTree(f[2])
		reqs := decodeReqs(f[3])
		res := ""
		withTempRoot(func(root string) {
			if err := t.materialize(root); err != nil {
				res = "materialize: " + err.Error()
				return
			}
			env := newConnEnv(root, aw, 65536)
			defer env.close()
			res = env.runSession(reqs, true)
		})
		return res, ""
	}
}
