//go:build verif

package main

import (
	"crypto/aes"
	"crypto/cipher"
	"encoding/binary"
	"encoding/hex"
	"fmt"
	"strings"
)

// ---- independent reference (written from the disc format description, crypto/aes used directly) ----

var refKeyData1 = []byte{0x38, 0x0b, 0xcf, 0x0b, 0x53, 0x45, 0x5b, 0x3c, 0x78, 0x17, 0xab, 0x4f, 0xa3, 0xba, 0x90, 0xed}
var refIvData1 = []byte{0x69, 0x47, 0x47, 0x72, 0xaf, 0x6f, 0xda, 0xb3, 0x42, 0x74, 0x3a, 0xef, 0xaa, 0x18, 0x62, 0x87}
var wmEnc = []byte("Dncrypted 3K BLD")
var wmDec = []byte("Encrypted 3K BLD")

type refRegion struct{ start, end uint32 }

func refDeriveKey(disc []byte) []byte {
	c, _ := aes.NewCipher(refKeyData1)
	out := make([]byte, 16)
	cipher.NewCBCEncrypter(c, refIvData1).CryptBlocks(out, disc)
	return out
}

// refTableValid is the validity rule for a region table. A plain region is (first sector, LAST sector),
// both inclusive - the disc format, the original ps3netsrv (last_addr = end*2048+2047), PS3 Disc Dumper and
// the table this very server writes into generated PS3 images ({0, volume-1}) all agree on that.
func refTableValid(regs []refRegion) bool {
	if len(regs) < 2 || len(regs) > 255 || regs[0].start != 0 {
		return false
	}
	for i, r := range regs {
		if r.end < r.start || (i > 0 && r.start <= regs[i-1].end) {
			return false
		}
	}
	return true
}

// refPlain returns the reference plaintext of bytes [off, off+n) of an image: stored bytes in plain
// regions, each complete 2048-byte sector of a gap AES-128-CBC-decrypted with IV = sector number.
func refPlain(n *tnode, regs []refRegion, disc []byte, off, cnt int64) []byte {
	if off >= n.size {
		return nil
	}
	if off+cnt > n.size {
		cnt = n.size - off
	}
	key := refDeriveKey(disc)
	blk, _ := aes.NewCipher(key)
	out := make([]byte, 0, cnt)
	for pos := off; pos < off+cnt; {
		sec := pos / 2048
		secStart := sec * 2048
		stored := n.slice(secStart, 2048)
		enc := false
		for i := 1; i < len(regs); i++ {
			if sec > int64(regs[i-1].end) && sec < int64(regs[i].start) { // strictly between two plain regions
				enc = true
			}
		}
		if enc && len(stored) == 2048 {
			iv := make([]byte, 16)
			binary.BigEndian.PutUint32(iv[12:], uint32(sec))
			cipher.NewCBCDecrypter(blk, iv).CryptBlocks(stored, stored)
		}
		from := pos - secStart
		to := int64(len(stored))
		if secStart+to > off+cnt {
			to = off + cnt - secStart
		}
		out = append(out, stored[from:to]...)
		pos = secStart + to
	}
	return out
}

func refMask3k3y(data []byte, off int64) []byte {
	for i := range data {
		p := off + int64(i)
		if p >= 0xF70 && p < 0x1070 {
			data[i] = 0
		}
	}
	return data
}

func tableBytes(regs []refRegion) []byte {
	b := make([]byte, 8+8*len(regs))
	binary.BigEndian.PutUint32(b[0:], uint32(len(regs)))
	for i, r := range regs {
		binary.BigEndian.PutUint32(b[8+8*i:], r.start)
		binary.BigEndian.PutUint32(b[12+8*i:], r.end)
	}
	return b
}

// genRegions draws a region table; valid ones mostly, with the documented edge shapes.
func genRegions(r *rng, sectors uint32) ([]refRegion, bool) {
	switch r.intn(14) {
	case 8, 9:
		// borders at and above 2^31 (sector numbers are int32 inside the server): still ordinary valid tables
		switch r.intn(4) {
		case 0:
			return []refRegion{{0, 2}, {0x80000005, 0x80000006}}, true // the gap covers the rest of the file
		case 1:
			return []refRegion{{0, 2}, {5, 0xffffffff}}, true
		case 2:
			return []refRegion{{0, 2}, {5, 7}, {0x7fffffff, 0x80000000}}, true
		default:
			return []refRegion{{0, 1}, {0xfffffffe, 0xffffffff}, {0xffffffff, 0xffffffff}}, false // last region starts at the previous one's last sector
		}
	case 0:
		return []refRegion{{0, sectors - 1}}, false // a single region: invalid (count < 2)
	case 1:
		return []refRegion{{1, 3}, {5, sectors - 1}}, false // first region not at 0
	case 2:
		if r.chance(50) {
			return []refRegion{{0, 4}, {4, sectors - 1}}, false // second starts AT the last sector of the first
		}
		return []refRegion{{0, 4}, {3, sectors - 1}}, false // overlapping
	case 3:
		return []refRegion{{0, 4}, {7, 6}}, false // region ending before it starts
	case 4:
		return []refRegion{{0, 1}, {2, sectors - 1}}, true // adjacent regions: empty gap
	case 5:
		return []refRegion{{0, 0}, {sectors - 1, sectors - 1}}, true // one-sector regions: everything but first and last sector encrypted
	case 6:
		return []refRegion{{0, 2}, {5, sectors + 10}}, true // last region beyond the file
	case 7:
		return []refRegion{{0, 2}, {sectors + 3, sectors + 10}}, true // gap runs past the end of the file
	}
	k := 2 + r.intn(5)
	if r.chance(5) {
		k = 255
	}
	var regs []refRegion
	pos := uint32(0)
	for i := 0; i < k; i++ {
		ln := uint32(r.intn(4)) // last sector = first + 0..3
		regs = append(regs, refRegion{pos, pos + ln})
		pos += ln + uint32(r.intn(4)) // the next one starts at the same sector (invalid), right after it, or later
	}
	return regs, refTableValid(regs)
}

type encImage struct {
	node  tnode
	regs  []refRegion
	valid bool
}

func genEncImage(r *rng, path string, sectors uint32, tail int64) encImage {
	regs, valid := genRegions(r, sectors)
	n := tnode{path: path, kind: 'f', size: int64(sectors)*2048 + tail, seed: int64(r.intn(250)), mtime: genMtime(r)}
	tb := tableBytes(regs)
	if int64(len(tb)) > n.size {
		tb = tb[:n.size]
	}
	n.overlays = []overlay{{0, tb}}
	return encImage{n, regs, valid}
}

func randKey(r *rng) []byte {
	k := make([]byte, 16)
	for i := range k {
		k[i] = byte(r.next())
	}
	return k
}

func keyFileNode(path string, key []byte, r *rng, style int) tnode {
	s := hex.EncodeToString(key)
	switch style {
	case 1:
		s = strings.ToUpper(s)
	case 2:
		s += "\n"
	case 3:
		s += "  trailing junk zz"
	}
	return tnode{path: path, kind: 'f', size: int64(len(s)), seed: 0, mtime: genMtime(r), overlays: []overlay{{0, []byte(s)}}}
}

func encReadReqs(r *rng, size int64, regs []refRegion, n int) []creq {
	var bounds []int64
	bounds = append(bounds, 0, 8, 16, 24, 2048, size, size-1, size-2048, 0xF70, 0x1070, 0xF80)
	for _, g := range regs {
		bounds = append(bounds, int64(g.start)*2048, int64(g.end)*2048)
	}
	var reqs []creq
	for i := 0; i < n; i++ {
		off := bounds[r.intn(len(bounds))] + int64(r.pick(-2049, -2048, -17, -16, -1, 0, 1, 15, 16, 17, 1000, 2047, 2048))
		if off < 0 {
			off = 0
		}
		lim := int64(r.pick(0, 1, 15, 16, 17, 100, 2047, 2048, 2049, 4096, 5000, 70000))
		op := uint16(opReadFile)
		if r.chance(35) && off+lim <= size {
			op = opReadFileCritical
		}
		reqs = append(reqs, creq{op: op, a: uint64(lim), b: uint64(off)})
	}
	return reqs
}

// expectReads renders the oracle line for [OPEN_FILE, reads…] given the reference view.
func expectReads(reqs []creq, size, mtime int64, openOK bool, view func(off, cnt int64) []byte) string {
	var sb strings.Builder
	for i, q := range reqs {
		switch q.op {
		case opOpenFile:
			if !openOK {
				fmt.Fprintf(&sb, "r%d=%s ", i, digest(append(be64(^uint64(0)), be64(0)...)))
			} else {
				fmt.Fprintf(&sb, "r%d=%s ", i, digest(append(be64(uint64(size)), be64(uint64(mtime))...)))
			}
		case opReadFile:
			if !openOK {
				// nothing is open: the failure code, and the connection goes on
				fmt.Fprintf(&sb, "r%d=%s ", i, digest(be32(0xffffffff)))
				continue
			}
			d := view(int64(q.b), int64(q.a))
			fmt.Fprintf(&sb, "r%d=%s ", i, digest(append(be32(uint32(len(d))), d...)))
		case opReadFileCritical:
			if !openOK {
				fmt.Fprintf(&sb, "r%d=X:-", i)
				return sb.String()
			}
			d := view(int64(q.b), int64(q.a))
			if uint64(len(d)) < q.a {
				fmt.Fprintf(&sb, "r%d=X:%s", i, digest(d))
				return sb.String()
			}
			fmt.Fprintf(&sb, "r%d=%s ", i, digest(d))
		}
	}
	sb.WriteString("end=-")
	return sb.String()
}

// ---------- C10: decryption equals the reference plaintext ----------

func c10Stream(o *out, r *rng, thorough bool) {
	n := 30
	if thorough {
		n = 400
	}
	for i := 0; i < n; i++ {
		sectors := uint32(r.pick(8, 12, 20, 33, 64))
		if i%10 == 3 {
			sectors = 1100 // inside the CD sector-size detection window: the open itself does positional reads
		}
		tail := int64(r.pick(0, 0, 0, 1, 100, 2047)) // a file that is not a whole number of sectors
		im := genEncImage(r, "/PS3ISO/game.iso", sectors, tail)
		if sectors == 1100 && im.valid {
			// make sure sector 16 (probed by the detection) is encrypted
			im.regs = []refRegion{{0, 2}, {40, sectors}}
			im.node.overlays = []overlay{{0, tableBytes(im.regs)}}
		}
		key := randKey(r)
		t := &tree{}
		t.add(tnode{path: "/", kind: 'd', mtime: genMtime(r)})
		t.add(tnode{path: "/PS3ISO", kind: 'd', mtime: genMtime(r)})
		t.add(im.node)
		t.add(keyFileNode("/PS3ISO/game.dkey", key, r, r.intn(4)))
		reqs := append([]creq{{op: opOpenFile, path: im.node.path}}, encReadReqs(r, im.node.size, im.regs, 12)...)
		node := im.node
		o.count(fmt.Sprintf("table-valid:%v", im.valid))
		o.count(fmt.Sprintf("regions:%d", len(im.regs)))
		runWithOracle(o, t, false, reqs, fmt.Sprintf("enc%d", i), func(root string, nodes []tnode) string {
			return expectReads(reqs, node.size, node.mtime, im.valid, func(off, cnt int64) []byte {
				return refPlain(&node, im.regs, key, off, cnt)
			})
		})
	}
	// images at the limit of the server's sector arithmetic (int32 sector numbers): 2^31-1 sectors is the
	// largest image it can address; anything larger must be refused at open, never decrypted with wrapped
	// sector numbers (a read beyond 8 TiB used to crash the process)
	const maxSectors = 1<<31 - 1
	for i, sz := range []int64{maxSectors * 2048, maxSectors*2048 + 1, maxSectors*2048 + 2048, 9 << 40} {
		regs := []refRegion{{0, 2}, {10, maxSectors - 2}}
		n := tnode{path: "/PS3ISO/huge.iso", kind: 'f', size: sz, seed: sparseSeed, mtime: genMtime(r)}
		n.overlays = []overlay{{0, tableBytes(regs)}}
		for _, off := range []int64{3 * 2048, 9*2048 + 100, (maxSectors - 1) * 2048, (maxSectors-2)*2048 - 300} {
			d := make([]byte, 200)
			for k := range d {
				d[k] = byte(r.next())
			}
			n.overlays = append(n.overlays, overlay{off, d})
		}
		key := randKey(r)
		t := &tree{}
		t.add(tnode{path: "/", kind: 'd', mtime: genMtime(r)})
		t.add(tnode{path: "/PS3ISO", kind: 'd', mtime: genMtime(r)})
		t.add(n)
		t.add(keyFileNode("/PS3ISO/huge.dkey", key, r, 0))
		reqs := []creq{{op: opOpenFile, path: n.path},
			{op: opReadFile, a: 5000, b: 2 * 2048}, {op: opReadFile, a: 3000, b: uint64((maxSectors-3)*2048 - 500)},
			{op: opReadFile, a: 70000, b: uint64(sz - 4000)}, {op: opReadFile, a: 100, b: 1 << 43}, {op: opReadFile, a: 65536, b: 1<<43 - 2048}}
		node := n
		openOK := sz <= maxSectors*2048
		o.count(fmt.Sprintf("huge-image-open:%v", openOK))
		runWithOracle(o, t, false, reqs, fmt.Sprintf("hugeenc%d", i), func(root string, nodes []tnode) string {
			return expectReads(reqs, node.size, node.mtime, openOK, func(off, cnt int64) []byte {
				return refPlain(&node, regs, key, off, cnt)
			})
		})
	}
}

// ---------- C11: image-kind detection and key discovery ----------

func c11Stream(o *out, r *rng, thorough bool) {
	dirNames := []string{"PS3ISO", "ps3iso", "Ps3IsO", "GAMES", "PS3ISO2"}
	exts := []string{".iso", ".ISO", ".IsO", ".bin", ".iso.bak", ""}
	keySits := []string{"none", "adjacent", "redkey", "both", "bad-adjacent", "bad-redkey", "short-adjacent", "dir-adjacent", "redkey-is-file", "long-name"}
	marks := []string{"none", "enc", "dec"}
	lens := []int64{0xF7F, 0xF80, 0xF8F, 0xF90, 0x1000, 0x106f, 0x1070, 0x1071, 0x3000, 0x8800}
	count := 0
	for _, dn := range dirNames {
		for _, ext := range exts {
			for _, ks := range keySits {
				for _, mk := range marks {
					for _, ln := range lens {
						count++
						if !thorough && r.intn(100) >= 12 {
							continue
						}
						nested := r.chance(40)
						base := "/" + dn
						if nested {
							base += "/sub dir"
						}
						gname := "Game Name"
						if ks == "long-name" {
							// 255 bytes: the key file's name beside it (and under REDKEY) cannot exist at all
							gname = strings.Repeat("L", 255-len(ext))
						}
						imgPath := base + "/" + gname + ext
						regs := []refRegion{{0, 1}, {3, uint32(ln/2048) + 1}}
						n := tnode{path: imgPath, kind: 'f', size: ln, seed: int64(r.intn(250)), mtime: genMtime(r)}
						n.overlays = []overlay{{0, tableBytes(regs)}}
						embedded := randKey(r)
						switch mk {
						case "enc", "dec":
							// as much of the watermark (and of the embedded key) as the file has room for
							wm := wmDec
							if mk == "enc" {
								wm = wmEnc
							}
							if ln > 0xF70 {
								n.overlays = append(n.overlays, overlay{0xF70, wm[:min(16, ln-0xF70)]})
							}
							if mk == "enc" && ln > 0xF80 {
								n.overlays = append(n.overlays, overlay{0xF80, embedded[:min(16, ln-0xF80)]})
							}
						}
						t := &tree{}
						t.add(tnode{path: "/", kind: 'd', mtime: genMtime(r)})
						t.add(tnode{path: "/" + dn, kind: 'd', mtime: genMtime(r)})
						if nested {
							t.add(tnode{path: base, kind: 'd', mtime: genMtime(r)})
						}
						t.add(n)
						kAdj, kRed := randKey(r), randKey(r)
						stem := strings.TrimSuffix(imgPath, filepathExt(imgPath))
						redBase := "/REDKEY"
						if nested {
							redBase += "/sub dir"
						}
						redPath := redBase + "/" + strings.TrimSuffix(gname+ext, filepathExt(gname+ext)) + ".dkey"
						addRed := func(nd tnode) {
							t.add(tnode{path: "/REDKEY", kind: 'd', mtime: genMtime(r)})
							if nested {
								t.add(tnode{path: redBase, kind: 'd', mtime: genMtime(r)})
							}
							nd.path = redPath
							t.add(nd)
						}
						bad := tnode{kind: 'f', size: 32, seed: 0, mtime: genMtime(r), overlays: []overlay{{0, []byte("zz0123456789abcdef0123456789abcd")}}}
						short := tnode{kind: 'f', size: 10, seed: 0, mtime: genMtime(r), overlays: []overlay{{0, []byte("0123456789")}}}
						switch ks {
						case "adjacent":
							t.add(keyFileNode(stem+".dkey", kAdj, r, r.intn(4)))
						case "redkey":
							addRed(keyFileNode("", kRed, r, r.intn(4)))
						case "both":
							t.add(keyFileNode(stem+".dkey", kAdj, r, 0))
							addRed(keyFileNode("", kRed, r, 0))
						case "bad-adjacent":
							bad.path = stem + ".dkey"
							t.add(bad)
							addRed(keyFileNode("", kRed, r, 0)) // must NOT be used as a fallback
						case "bad-redkey":
							addRed(bad)
						case "short-adjacent":
							short.path = stem + ".dkey"
							t.add(short)
						case "dir-adjacent":
							t.add(tnode{path: stem + ".dkey", kind: 'd', mtime: genMtime(r)})
						case "redkey-is-file":
							// no key can live below a regular file: the image is simply keyless
							t.add(tnode{path: "/REDKEY", kind: 'f', size: 40, seed: 9, mtime: genMtime(r)})
						case "long-name":
							t.add(tnode{path: "/REDKEY", kind: 'd', mtime: genMtime(r)})
							if nested {
								t.add(tnode{path: redBase, kind: 'd', mtime: genMtime(r)})
							}
						}
						// the harness's own decision table
						isIso := strings.EqualFold(filepathExt(imgPath), ".iso")
						underPs3 := strings.EqualFold(dn, "ps3iso")
						keyApplies := isIso && underPs3
						var key []byte
						openOK := true
						kind := "plain"
						if keyApplies {
							switch ks {
							case "adjacent", "both":
								key, kind = kAdj, "redump"
							case "redkey":
								key, kind = kRed, "redump"
							case "bad-adjacent", "short-adjacent", "dir-adjacent", "bad-redkey":
								openOK = false
							}
						}
						masked := false
						if openOK && key == nil {
							// recognised by the watermark: the file must hold it (16 bytes at 0xF70) and, for the
							// encrypted form, the key behind it - not necessarily the whole 256-byte area
							switch {
							case mk == "enc" && ln >= 0xF90:
								key, kind, masked = embedded, "3k3y-enc", true
							case mk == "dec" && ln >= 0xF80:
								kind, masked = "3k3y-dec", true
							}
						}
						if key != nil && !refTableValid(regs) {
							openOK = false
						}
						o.count("kind:" + kind)
						if !openOK {
							o.count("open-fails")
						}
						reqs := []creq{{op: opOpenFile, path: imgPath}}
						for _, off := range []int64{0, 0xF6F, 0xF70, 0xF71, 0xF80, 0x106F, 0x1070, 2048, 4096, 6143, int64(r.intn(int(ln)))} {
							reqs = append(reqs, creq{op: opReadFile, a: uint64(r.pick(1, 16, 17, 255, 256, 257, 300, 2048, 5000)), b: uint64(off)})
						}
						node := n
						runWithOracle(o, t, false, reqs, fmt.Sprintf("%s|%s|%s|%s|%d|%v", dn, ext, ks, mk, ln, nested), func(root string, nodes []tnode) string {
							return expectReads(reqs, node.size, node.mtime, openOK, func(off, cnt int64) []byte {
								var d []byte
								if key != nil {
									d = refPlain(&node, regs, key, off, cnt)
								} else {
									d = node.slice(off, cnt)
								}
								if masked {
									d = refMask3k3y(d, off)
								}
								return d
							})
						})
					}
				}
			}
		}
	}
	o.notes = append(o.notes, fmt.Sprintf("product size %d", count))
}

func filepathExt(p string) string {
	for i := len(p) - 1; i >= 0 && p[i] != '/'; i-- {
		if p[i] == '.' {
			return p[i:]
		}
	}
	return ""
}

func init() {
	streams["c10"] = c10Stream
	streams["c11"] = c11Stream
}
