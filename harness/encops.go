//go:build verif

package main

import (
	"bytes"
	"fmt"
	"io"
	"os"
	"strings"

	"github.com/spf13/afero"

	"github.com/xakep666/ps3netsrv-go/pkg/fs"
)

// shortFs makes every sequential Read of every file return fewer bytes than asked for (never zero):
// "underlying reads cut at arbitrary points".
type shortFs struct {
	afero.Fs
	r *rng
}

type shortFile struct {
	afero.File
	r *rng
}

func (s shortFs) Open(name string) (afero.File, error) {
	f, err := s.Fs.Open(name)
	if err != nil {
		return nil, err
	}
	return shortFile{f, s.r}, nil
}

func (s shortFs) OpenFile(name string, flag int, perm os.FileMode) (afero.File, error) {
	f, err := s.Fs.OpenFile(name, flag, perm)
	if err != nil {
		return nil, err
	}
	return shortFile{f, s.r}, nil
}

func (f shortFile) Read(p []byte) (int, error) {
	if len(p) > 1 {
		p = p[:1+f.r.intn(len(p)-1)]
	}
	return f.File.Read(p)
}

// runFileOps: Read(n) is performed as a loop until n bytes arrived or the source ended.
func runFileOps(f afero.File, ops []visoOp) []string {
	var out []string
	for _, op := range ops {
		func() {
			defer func() {
				if r := recover(); r != nil {
					out = append(out, "PANIC")
				}
			}()
			switch op.kind {
			case 'A':
				buf := dirtyBuf(op.n)
				n, err := f.ReadAt(buf, op.off)
				out = append(out, fmt.Sprintf("%d/%s/%s", n, errClass(err), digest(buf[:max(n, 0)])))
			case 'R':
				buf := dirtyBuf(op.n)
				total := 0
				var err error
				for total < op.n && err == nil {
					var k int
					k, err = f.Read(buf[total:])
					total += k
					if k == 0 && err == nil {
						err = io.ErrNoProgress
					}
				}
				out = append(out, fmt.Sprintf("%d/%s/%s", total, errClass(err), digest(buf[:total])))
			case 'S':
				pos, err := f.Seek(op.off, op.whence)
				out = append(out, fmt.Sprintf("%d/%s", pos, errClass(err)))
			}
		}()
	}
	return out
}

func genFileOps(r *rng, size int64, regs []refRegion, n int) []visoOp {
	bounds := []int64{0, 8, 24, 2048, size, size - 1, size - 2048, 0xF70, 0x1070}
	for _, g := range regs {
		bounds = append(bounds, int64(g.start)*2048, int64(g.end)*2048)
	}
	pick := func() int64 {
		o := bounds[r.intn(len(bounds))] + int64(r.pick(-2049, -2048, -17, -1, 0, 1, 16, 1000, 2047, 2048))
		if o < 0 {
			o = 0
		}
		return o
	}
	var ops []visoOp
	for i := 0; i < n; i++ {
		switch r.intn(10) {
		case 0, 1, 2, 3:
			ops = append(ops, visoOp{kind: 'A', n: r.pick(1, 16, 17, 100, 2047, 2048, 2049, 4096, 9000, 70000), off: pick()})
		case 4, 5, 6, 7:
			ops = append(ops, visoOp{kind: 'R', n: r.pick(1, 15, 16, 100, 2048, 3000, 5000, 70000)})
		default:
			w := r.intn(3)
			off := pick()
			if w == 1 {
				off = int64(r.pick(-3000, -1, 0, 1, 2048, 5000))
			} else if w == 2 {
				off = -int64(r.pick(0, 1, 2048, 5000, 100))
			}
			ops = append(ops, visoOp{kind: 'S', off: off, whence: w})
		}
	}
	return ops
}

// refOps: what a sequence of ReadAt/Read/Seek observes on a fixed byte string given by `view`
func refOps(ops []visoOp, size int64, view func(off, cnt int64) []byte) []string {
	var ref []string
	cur := int64(0)
	for _, op := range ops {
		switch op.kind {
		case 'A', 'R':
			off := op.off
			if op.kind == 'R' {
				off = cur
			}
			d := view(off, int64(op.n))
			cls := "ok"
			if len(d) < op.n {
				cls = "eof"
			}
			ref = append(ref, fmt.Sprintf("%d/%s/%s", len(d), cls, digest(d)))
			if op.kind == 'R' {
				cur += int64(len(d))
			}
		case 'S':
			var t int64
			switch op.whence {
			case 0:
				t = op.off
			case 1:
				t = cur + op.off
			default:
				t = size + op.off
			}
			if t < 0 {
				ref = append(ref, "0/err")
			} else {
				cur = t
				ref = append(ref, fmt.Sprintf("%d/ok", t))
			}
		}
	}
	return ref
}

// c10OpsStream: library-level access patterns on the decrypting / masking views.
func c10OpsStream(o *out, r *rng, thorough bool) {
	n := 24
	if thorough {
		n = 300
	}
	for i := 0; i < n; i++ {
		sectors := uint32(r.pick(8, 12, 20, 33))
		im := genEncImage(r, "/PS3ISO/game.iso", sectors, int64(r.pick(0, 0, 100, 2047)))
		if !im.valid {
			im.regs = []refRegion{{0, 2}, {5, sectors}}
			im.node.overlays = []overlay{{0, tableBytes(im.regs)}}
			im.valid = true
		}
		t := &tree{}
		t.add(tnode{path: "/", kind: 'd', mtime: genMtime(r)})
		t.add(tnode{path: "/PS3ISO", kind: 'd', mtime: genMtime(r)})
		kind := r.picks("redump", "3k3y-enc", "3k3y-dec")
		key := randKey(r)
		switch kind {
		case "redump":
			t.add(keyFileNode("/PS3ISO/game.dkey", key, r, 0))
		case "3k3y-enc":
			im.node.overlays = append(im.node.overlays, overlay{0xF70, wmEnc}, overlay{0xF80, key})
		default:
			im.node.overlays = append(im.node.overlays, overlay{0xF70, wmDec})
		}
		t.add(im.node)
		short := r.chance(50)
		ops := genFileOps(r, im.node.size, im.regs, 14)
		withTempRoot(func(root string) {
			if err := t.materialize(root); err != nil {
				return
			}
			nodes, err := t.ordered(root)
			if err != nil {
				return
			}
			var base afero.Fs = afero.NewBasePathFs(afero.NewOsFs(), root)
			if short {
				base = shortFs{base, &rng{s: r.next()}}
			}
			fsys := &fs.FS{Fs: base}
			obs := "openerr"
			func() {
				defer func() {
					if rec := recover(); rec != nil {
						obs = "PANIC-in-open"
					}
				}()
				f, err := fsys.Open(im.node.path)
				if err != nil {
					return
				}
				defer f.Close()
				obs = "ops=" + strings.Join(runFileOps(f, ops), ",")
			}()
			// oracle: the reference view
			var ref []string
			cur := int64(0)
			view := func(off, cnt int64) []byte {
				var d []byte
				if kind == "3k3y-dec" {
					d = im.node.slice(off, cnt)
				} else {
					d = refPlain(&im.node, im.regs, key, off, cnt)
				}
				if kind != "redump" {
					d = refMask3k3y(d, off)
				}
				return d
			}
			_ = cur
			ref = refOps(ops, im.node.size, view)
			sm := 0
			if short {
				sm = 1
			}
			o.count("view:" + kind)
			o.count(fmt.Sprintf("short-reads:%v", short))
			o.emit(fmt.Sprintf("fileops %d %s %s %s", sm, encodeTree(nodes), hx([]byte(im.node.path)), encodeOps(ops)), obs, "ops="+strings.Join(ref, ","), fmt.Sprintf("ops%d", i))
			// opened for writing - read-write included - the file is passed through as stored: no view in front of it
			{
				rw := "rw=openerr"
				if g, err := fsys.OpenFile(im.node.path, os.O_RDWR, 0); err == nil {
					rw = "rw=raw"
					for _, off := range []int64{0, 0xF70, 5 * 2048, im.node.size - 2048} {
						if off < 0 || off >= im.node.size {
							continue
						}
						buf := make([]byte, 2048)
						n, _ := g.ReadAt(buf, off)
						if !bytes.Equal(buf[:n], im.node.slice(off, int64(n))) {
							rw = fmt.Sprintf("rw=TRANSFORMED@%d", off)
						}
					}
					g.Close()
				}
				o.count("opened-read-write:" + kind)
				o.emit("c11rw "+kind, rw, "rw=raw", fmt.Sprintf("rw%d", i))
			}
			if kind == "3k3y-dec" {
				return
			}
			// the same image through the view the decrypt tools build: header clearing requested
			// (NewEncryptedISO(image, key, true); for 3k3y inside NewISO3k3y). The region table - and nothing
			// else - reads as zeros, wherever a read starts: inside the table, after a seek into it, after a
			// short read that ended inside it
			hdr := int64(8 + 8*len(im.regs))
			cops := []visoOp{{kind: 'A', n: 24, off: 1}, {kind: 'A', n: 100, off: hdr - 1}, {kind: 'S', off: 5, whence: 0}, {kind: 'R', n: 40},
				{kind: 'A', n: 16, off: hdr}, {kind: 'S', off: 0, whence: 0}, {kind: 'R', n: int(hdr) - 3}, {kind: 'R', n: 50}, {kind: 'A', n: 2049, off: 3}}
			cops = append(cops, genFileOps(r, im.node.size, im.regs, 8)...)
			cobs := "openerr"
			func() {
				defer func() {
					if rec := recover(); rec != nil {
						cobs = "PANIC-in-open"
					}
				}()
				raw, err := base.Open(im.node.path)
				if err != nil {
					return
				}
				defer raw.Close()
				var v afero.File
				enc, err := fs.NewEncryptedISO(raw, key, true)
				if err != nil {
					return
				}
				v = enc
				if kind == "3k3y-enc" {
					m, err := fs.NewISO3k3y(enc)
					if err != nil {
						return
					}
					v = m
				}
				cobs = "ops=" + strings.Join(runFileOps(v, cops), ",")
			}()
			cview := func(off, cnt int64) []byte {
				d := view(off, cnt)
				for i := range d {
					if off+int64(i) < hdr {
						d[i] = 0
					}
				}
				return d
			}
			o.count("view:" + kind + "+clear-header")
			o.emit(fmt.Sprintf("fileopsclr %d %s %s %s %s %s", sm, encodeTree(nodes), hx([]byte(im.node.path)), kind, hx(key), encodeOps(cops)), cobs,
				"ops="+strings.Join(refOps(cops, im.node.size, cview), ","), fmt.Sprintf("opsclr%d", i))
		})
	}
}

func init() {
	prev := streams["c10"]
	streams["c10"] = func(o *out, r *rng, thorough bool) { prev(o, r, thorough); c10OpsStream(o, r, thorough) }
}
