//go:build verif

package main

// Independent ISO 9660 (ECMA-119) + Joliet reader and strict structural
// validator, written from the standard (ECMA-119 2nd ed. sections 6.8, 8.4,
// 8.5, 9.1, 9.4 and the Joliet specification). Standard library only.

import (
	"bytes"
	"encoding/binary"
	"fmt"
	"io"
	"sort"
	"unicode/utf16"
)

const (
	isoSector          = 2048
	isoMaxDepth        = 64
	isoDefaultMaxNodes = 1 << 20
	isoMaxViolations   = 500
	isoMaxDirLen       = 256 << 20 // refuse to walk directory extents larger than this
	isoMaxPathTable    = 32 << 20  // 65535 entries * (8+256) is about 17 MiB
	isoMaxDescriptors  = 64
)

// IsoExtent is one directory record's extent (Len in bytes).
type IsoExtent struct {
	LBA uint32
	Len uint32
}

type IsoNode struct {
	Name     string // decoded identifier (";1" stripped from file names, see HasVersion)
	IsDir    bool
	Size     int64       // sum of extent lengths (files); 0 for directories
	Extents  []IsoExtent // in record order (directories: the single directory extent)
	Children []*IsoNode  // on-disc record order, '.' and '..' excluded
	Mtime    [7]byte     // recording date of the (first) record
	DirLBA   uint32      // directories: extent location
	DirLen   uint32      // directories: extent length in bytes
	// Extras beyond the required API:
	RawID      string // identifier bytes exactly as recorded (with version, Joliet: UTF-16BE bytes)
	HasVersion bool   // a trailing ";1" was present and stripped from Name
	Flags      byte   // file flags of the first record
	SysUseLen  int    // system use length of the first record
}

type IsoVolume struct {
	Joliet           bool
	VolumeSpaceSize  uint32
	LogicalBlockSize uint16
	PathTableSize    uint32
	LPathLoc         uint32
	MPathLoc         uint32
	VolumeID         string
	SystemID         string
	Root             *IsoNode
	// Extras:
	SetSize, SeqNumber uint16
	Sector             uint32 // sector the descriptor was read from
	Escape             string // SVD escape sequence (first 3 bytes)
	Incomplete         bool   // a fatal error cut the directory walk short (only visible via isoValidate internals)
}

type IsoImage struct {
	Primary, Supplementary *IsoVolume
	TotalSize              int64
	DescTypes              []byte // descriptor type bytes found from sector 16 up to and including the terminator
	TermSector             uint32 // sector of the volume descriptor set terminator
}

type IsoValidateOpts struct {
	CheckPadding bool // zero fill after file data / after last extent / after directory records / path tables
	MaxNodes     int  // cap on directory records over both hierarchies (0 = 1<<20)
	// Leniency / strictness switches (zero value = the strict rule set requested):
	AllowTrailingData bool // accept image size > VolumeSpaceSize*2048 (hybrid images); SIZE still requires size >= volume
	AllowNoJoliet     bool // accept a descriptor set without a Joliet SVD at sector 17 (then PVD@16, terminator@17)
	NoSystemUse       bool // stricter: flag any directory record that carries a system use area (e.g. Rock Ridge)
	CheckPTOrder      bool // stricter: path table entries ordered by parent number, then identifier; parent precedes child
}

type isoCtx struct {
	r        io.ReaderAt
	size     int64
	opts     IsoValidateOpts
	viol     []string
	err      error // first fatal error
	nfatal   int
	records  int
	maxNodes int
}

type isoHier struct {
	tag     string // "P" or "J", used in messages
	joliet  bool
	seq     uint16
	visited map[uint32]bool
}

type isoRec struct {
	lba, length uint32
	flags       byte
	id          []byte
	mtime       [7]byte
	sysUse      int
}

func isoNewCtx(r io.ReaderAt, size int64, opts IsoValidateOpts) *isoCtx {
	c := &isoCtx{r: r, size: size, opts: opts, maxNodes: opts.MaxNodes}
	if c.maxNodes <= 0 {
		c.maxNodes = isoDefaultMaxNodes
	}
	return c
}

func (c *isoCtx) v(format string, a ...any) {
	if len(c.viol) < isoMaxViolations {
		c.viol = append(c.viol, fmt.Sprintf(format, a...))
	} else if len(c.viol) == isoMaxViolations {
		c.viol = append(c.viol, "TRUNC: too many violations, further ones suppressed")
	}
}

func (c *isoCtx) fatal(format string, a ...any) error {
	err := fmt.Errorf(format, a...)
	c.v("%s", err.Error())
	c.nfatal++
	if c.err == nil {
		c.err = err
	}
	return err
}

func (c *isoCtx) read(off int64, n int, what string) ([]byte, error) {
	if off < 0 || n < 0 || off > c.size || int64(n) > c.size-off {
		return nil, c.fatal("EXTENT: %s: bytes [%d,+%d) lie outside the image (%d bytes)", what, off, n, c.size)
	}
	buf := make([]byte, n)
	m, err := c.r.ReadAt(buf, off)
	if m < n {
		if err == nil {
			err = io.ErrUnexpectedEOF
		}
		return nil, c.fatal("IO: %s: read %d bytes at %d: %v", what, n, off, err)
	}
	return buf, nil
}

func (c *isoCtx) both32(b []byte, what string, a ...any) uint32 {
	le, be := binary.LittleEndian.Uint32(b), binary.BigEndian.Uint32(b[4:])
	if le != be {
		c.v("BOTHENDIAN: %s: LE=%d BE=%d", fmt.Sprintf(what, a...), le, be)
	}
	return le
}

func (c *isoCtx) both16(b []byte, what string, a ...any) uint16 {
	le, be := binary.LittleEndian.Uint16(b), binary.BigEndian.Uint16(b[2:])
	if le != be {
		c.v("BOTHENDIAN: %s: LE=%d BE=%d", fmt.Sprintf(what, a...), le, be)
	}
	return le
}

func isoAllZero(b []byte) bool {
	for _, x := range b {
		if x != 0 {
			return false
		}
	}
	return true
}

func isoSectors(n uint64) uint64 { return (n + isoSector - 1) / isoSector }

func isoUTF16BE(b []byte) string {
	u := make([]uint16, len(b)/2)
	for i := range u {
		u[i] = binary.BigEndian.Uint16(b[2*i:])
	}
	return string(utf16.Decode(u))
}

func isoIsJolietEscape(d []byte) bool {
	e := string(d[88:91])
	return e == "%/@" || e == "%/C" || e == "%/E"
}

// parseRec decodes one directory record; b is exactly the record (len(b) == b[0] >= 34).
func (c *isoCtx) parseRec(b []byte, h *isoHier, path string, idx int) (isoRec, error) {
	var r isoRec
	l, idlen := len(b), int(b[32])
	need := 33 + idlen
	if idlen%2 == 0 {
		need++
	}
	if idlen == 0 || need > l {
		return r, c.fatal("RECLEN: %s:%s rec#%d: length %d cannot hold identifier of %d bytes (need %d)", h.tag, path, idx, l, idlen, need)
	}
	if l%2 != 0 {
		c.v("RECLEN: %s:%s rec#%d: odd record length %d (33+idlen %d+pad+sysuse must be even)", h.tag, path, idx, l, idlen)
	}
	r.sysUse = l - need
	if c.opts.NoSystemUse && r.sysUse != 0 {
		c.v("RECLEN: %s:%s rec#%d: length %d != 33+%d+pad: %d system use bytes", h.tag, path, idx, l, idlen, r.sysUse)
	}
	if c.opts.CheckPadding && idlen%2 == 0 && b[33+idlen] != 0 {
		c.v("PAD: %s:%s rec#%d: identifier padding byte is 0x%02x", h.tag, path, idx, b[33+idlen])
	}
	r.lba = c.both32(b[2:], "%s:%s rec#%d extent location", h.tag, path, idx)
	r.length = c.both32(b[10:], "%s:%s rec#%d data length", h.tag, path, idx)
	seq := c.both16(b[28:], "%s:%s rec#%d volume sequence number", h.tag, path, idx)
	if seq != h.seq {
		c.v("REC: %s:%s rec#%d: volume sequence number %d != volume's %d", h.tag, path, idx, seq, h.seq)
	}
	if b[1] != 0 || b[26] != 0 || b[27] != 0 {
		c.v("REC: %s:%s rec#%d: extended attribute length %d / file unit size %d / interleave gap %d not all zero", h.tag, path, idx, b[1], b[26], b[27])
	}
	copy(r.mtime[:], b[18:25])
	r.flags = b[25]
	r.id = b[33 : 33+idlen]
	return r, nil
}

func (c *isoCtx) walkDir(h *isoHier, node, parent *IsoNode, dirPath string, depth int) error {
	path := dirPath // for messages only
	if path == "" {
		path = "/"
	}
	if depth > isoMaxDepth {
		return c.fatal("CHILD: %s:%s: directories nested deeper than %d", h.tag, path, isoMaxDepth)
	}
	if h.visited[node.DirLBA] {
		return c.fatal("CHILD: %s:%s: directory extent at LBA %d reached twice (cycle or shared directory)", h.tag, path, node.DirLBA)
	}
	h.visited[node.DirLBA] = true
	if node.DirLen == 0 || node.DirLen%isoSector != 0 {
		c.v("EXTENT: %s:%s: directory extent length %d is not a positive multiple of %d", h.tag, path, node.DirLen, isoSector)
	}
	if node.DirLen > isoMaxDirLen {
		return c.fatal("EXTENT: %s:%s: directory extent length %d exceeds reader limit %d", h.tag, path, node.DirLen, isoMaxDirLen)
	}
	var cur *IsoNode // file whose multi-extent chain is still open
	names := map[string]bool{}
	idx := 0
	for done := uint32(0); done < node.DirLen; done += isoSector {
		n := node.DirLen - done
		if n > isoSector {
			n = isoSector
		}
		sec, err := c.read(int64(node.DirLBA)*isoSector+int64(done), int(n), "directory "+h.tag+":"+path)
		if err != nil {
			return err
		}
		for off := 0; off < len(sec); {
			l := int(sec[off])
			if l == 0 { // no more records in this sector
				if c.opts.CheckPadding && !isoAllZero(sec[off:]) {
					c.v("PAD: %s:%s: non-zero bytes after last record in sector %d", h.tag, path, node.DirLBA+done/isoSector)
				}
				break
			}
			if l < 34 {
				return c.fatal("RECLEN: %s:%s rec#%d: record length %d < 34 (sector %d offset %d)", h.tag, path, idx, l, node.DirLBA+done/isoSector, off)
			}
			if off+l > len(sec) {
				return c.fatal("STRADDLE: %s:%s rec#%d: record of %d bytes at offset %d crosses the sector boundary (sector %d)", h.tag, path, idx, l, off, node.DirLBA+done/isoSector)
			}
			if c.records++; c.records > c.maxNodes {
				return c.fatal("LIMIT: more than %d directory records", c.maxNodes)
			}
			rec, err := c.parseRec(sec[off:off+l], h, path, idx)
			if err != nil {
				return err
			}
			off += l
			special := len(rec.id) == 1 && rec.id[0] <= 1
			switch {
			case idx == 0:
				ref := "referring record"
				if parent == nil {
					ref = "root record in descriptor"
				}
				if !special || rec.id[0] != 0 {
					c.v("DOT: %s:%s: first record identifier is %q, want 0x00", h.tag, path, rec.id)
				} else if rec.lba != node.DirLBA || rec.length != node.DirLen || rec.flags&2 == 0 {
					c.v("DOT: %s:%s: '.' is (LBA %d, len %d, flags 0x%02x), want own extent (LBA %d, len %d, dir) per %s", h.tag, path, rec.lba, rec.length, rec.flags, node.DirLBA, node.DirLen, ref)
					if parent != nil {
						c.v("CHILD: %s:%s: record in parent (LBA %d, len %d) != child's '.' (LBA %d, len %d)", h.tag, path, node.DirLBA, node.DirLen, rec.lba, rec.length)
					}
				}
			case idx == 1:
				p := parent
				if p == nil {
					p = node
				}
				if !special || rec.id[0] != 1 {
					c.v("DOTDOT: %s:%s: second record identifier is %q, want 0x01", h.tag, path, rec.id)
				} else if rec.lba != p.DirLBA || rec.length != p.DirLen || rec.flags&2 == 0 {
					c.v("DOTDOT: %s:%s: '..' is (LBA %d, len %d, flags 0x%02x), want parent extent (LBA %d, len %d, dir)", h.tag, path, rec.lba, rec.length, rec.flags, p.DirLBA, p.DirLen)
				}
			case special:
				c.v("DOT: %s:%s rec#%d: stray record with identifier 0x%02x", h.tag, path, idx, rec.id[0])
			}
			idx++
			if special {
				continue
			}
			if cur != nil { // previous record had the multi-extent flag set
				prev := cur.Extents[len(cur.Extents)-1]
				if string(rec.id) != cur.RawID || rec.flags&2 != 0 {
					c.v("MULTIEXT: %s:%s/%s: record with multi-extent flag is followed by a different entry %q", h.tag, path, cur.Name, rec.id)
					cur = nil
				} else {
					if prev.Len%isoSector != 0 {
						c.v("MULTIEXT: %s:%s/%s: non-final extent #%d length %d is not a multiple of %d", h.tag, path, cur.Name, len(cur.Extents)-1, prev.Len, isoSector)
					}
					if want := uint64(prev.LBA) + isoSectors(uint64(prev.Len)); uint64(rec.lba) != want {
						c.v("MULTIEXT: %s:%s/%s: extent #%d starts at LBA %d, want %d (contiguous)", h.tag, path, cur.Name, len(cur.Extents), rec.lba, want)
					}
					cur.Extents = append(cur.Extents, IsoExtent{rec.lba, rec.length})
					cur.Size += int64(rec.length)
					if rec.flags&0x80 == 0 {
						cur = nil
					}
					continue
				}
			}
			if names[string(rec.id)] {
				c.v("DUP: %s:%s rec#%d: identifier %q occurs more than once in this directory", h.tag, path, idx-1, rec.id)
			}
			names[string(rec.id)] = true
			ch := &IsoNode{IsDir: rec.flags&2 != 0, Mtime: rec.mtime, RawID: string(rec.id), Flags: rec.flags, SysUseLen: rec.sysUse,
				Extents: []IsoExtent{{rec.lba, rec.length}}}
			if h.joliet {
				if len(rec.id)%2 != 0 {
					c.v("NAME: %s:%s rec#%d: Joliet identifier has odd length %d", h.tag, path, idx-1, len(rec.id))
				}
				ch.Name = isoUTF16BE(rec.id)
			} else {
				ch.Name = string(rec.id)
			}
			if ch.IsDir {
				ch.DirLBA, ch.DirLen = rec.lba, rec.length
				if rec.flags&0x80 != 0 {
					c.v("MULTIEXT: %s:%s/%s: directory record has the multi-extent flag", h.tag, path, ch.Name)
				}
			} else {
				if n := len(ch.Name); n >= 2 && ch.Name[n-2:] == ";1" {
					ch.Name, ch.HasVersion = ch.Name[:n-2], true
				}
				ch.Size = int64(rec.length)
				if rec.flags&0x80 != 0 {
					cur = ch
				}
			}
			node.Children = append(node.Children, ch)
		}
	}
	if idx < 2 {
		c.v("DOTDOT: %s:%s: directory has only %d records, '.' and '..' required", h.tag, path, idx)
	}
	if cur != nil {
		c.v("MULTIEXT: %s:%s/%s: last record of the file still has the multi-extent flag", h.tag, path, cur.Name)
	}
	for _, ch := range node.Children {
		if ch.IsDir {
			// a broken subdirectory does not stop the walk of its siblings (the error is recorded in c.err)
			if err := c.walkDir(h, ch, node, dirPath+"/"+ch.Name, depth+1); err != nil && c.records > c.maxNodes {
				return err
			}
		}
	}
	return nil
}

// parseVolume decodes a primary or supplementary descriptor sector and walks its hierarchy.
func (c *isoCtx) parseVolume(d []byte, sector uint32, joliet bool) *IsoVolume {
	v := &IsoVolume{Joliet: joliet, Sector: sector}
	tag := "PVD"
	h := &isoHier{tag: "P", joliet: joliet, visited: map[uint32]bool{}}
	if joliet {
		tag, h.tag = "SVD", "J"
		v.Escape = string(d[88:91])
		v.SystemID = string(bytes.TrimRight([]byte(isoUTF16BE(d[8:40])), " \x00"))
		v.VolumeID = string(bytes.TrimRight([]byte(isoUTF16BE(d[40:72])), " \x00"))
	} else {
		v.SystemID = string(bytes.TrimRight(d[8:40], " \x00"))
		v.VolumeID = string(bytes.TrimRight(d[40:72], " \x00"))
	}
	v.VolumeSpaceSize = c.both32(d[80:], "%s volume space size", tag)
	v.SetSize = c.both16(d[120:], "%s volume set size", tag)
	v.SeqNumber = c.both16(d[124:], "%s volume sequence number", tag)
	v.LogicalBlockSize = c.both16(d[128:], "%s logical block size", tag)
	v.PathTableSize = c.both32(d[132:], "%s path table size", tag)
	v.LPathLoc = binary.LittleEndian.Uint32(d[140:])
	v.MPathLoc = binary.BigEndian.Uint32(d[148:])
	h.seq = v.SeqNumber
	if v.LogicalBlockSize != isoSector {
		c.fatal("SIZE: %s logical block size %d, only %d is supported", tag, v.LogicalBlockSize, isoSector)
		return v
	}
	if d[156] != 34 {
		c.fatal("RECLEN: %s root directory record length %d, want 34", tag, d[156])
		return v
	}
	rec, err := c.parseRec(d[156:190], h, "<root record>", 0)
	if err != nil {
		return v
	}
	if len(rec.id) != 1 || rec.id[0] != 0 || rec.flags&2 == 0 {
		c.v("DOT: %s root directory record has identifier %q flags 0x%02x, want 0x00 and directory flag", tag, rec.id, rec.flags)
	}
	v.Root = &IsoNode{IsDir: true, Mtime: rec.mtime, RawID: string(rec.id), Flags: rec.flags, DirLBA: rec.lba, DirLen: rec.length,
		Extents: []IsoExtent{{rec.lba, rec.length}}}
	before := c.nfatal
	c.walkDir(h, v.Root, nil, "", 0) // a fatal error is recorded in c.err; the partial tree is kept
	v.Incomplete = c.nfatal != before
	return v
}

func (c *isoCtx) parseImage() *IsoImage {
	img := &IsoImage{TotalSize: c.size}
	var pvd, svd []byte
	var psec, ssec uint32
	for i := uint32(0); ; i++ {
		if i >= isoMaxDescriptors {
			c.fatal("DESC: no volume descriptor set terminator within %d sectors", isoMaxDescriptors)
			break
		}
		d, err := c.read(int64(16+i)*isoSector, isoSector, fmt.Sprintf("volume descriptor at sector %d", 16+i))
		if err != nil {
			break
		}
		if string(d[1:6]) != "CD001" {
			c.fatal("DESC: sector %d has no CD001 standard identifier", 16+i)
			break
		}
		img.DescTypes = append(img.DescTypes, d[0])
		if d[0] == 255 {
			img.TermSector = 16 + i
			break
		}
		if d[0] == 1 && pvd == nil {
			pvd, psec = d, 16+i
		} else if d[0] == 2 && svd == nil && isoIsJolietEscape(d) {
			svd, ssec = d, 16+i
		}
	}
	if pvd == nil {
		c.fatal("DESC: no primary volume descriptor found")
		return img
	}
	img.Primary = c.parseVolume(pvd, psec, false)
	if svd != nil {
		img.Supplementary = c.parseVolume(svd, ssec, true)
	}
	return img
}

// isoParse reads the volume descriptors starting at sector 16 and both directory
// hierarchies. Structural oddities that do not prevent reading are ignored here
// (isoValidate reports them); anything that prevents reading is an error.
func isoParse(r io.ReaderAt, size int64) (*IsoImage, error) {
	c := isoNewCtx(r, size, IsoValidateOpts{})
	img := c.parseImage()
	if c.err != nil {
		return nil, c.err
	}
	return img, nil
}

type isoPTEntry struct {
	id     []byte
	xattr  byte
	loc    uint32
	parent uint16
}

func (c *isoCtx) parsePT(what string, loc, size uint32, bo binary.ByteOrder) []isoPTEntry {
	raw, err := c.read(int64(loc)*isoSector, int(size), what)
	if err != nil {
		return nil
	}
	var es []isoPTEntry
	for off := 0; off < len(raw); {
		idlen := int(raw[off])
		n := 8 + idlen + idlen%2
		if idlen == 0 || off+n > len(raw) {
			c.v("PT: %s: entry #%d at offset %d (idlen %d) does not fit the path table size %d", what, len(es)+1, off, idlen, size)
			return es
		}
		es = append(es, isoPTEntry{id: raw[off+8 : off+8+idlen], xattr: raw[off+1], loc: bo.Uint32(raw[off+2:]), parent: bo.Uint16(raw[off+6:])})
		if c.opts.CheckPadding && idlen%2 == 1 && raw[off+n-1] != 0 {
			c.v("PAD: %s: entry #%d padding byte is non-zero", what, len(es))
		}
		off += n
	}
	if rest := int(isoSectors(uint64(size)))*isoSector - int(size); c.opts.CheckPadding && rest > 0 {
		if tail, err := c.read(int64(loc)*isoSector+int64(size), rest, what+" padding"); err == nil && !isoAllZero(tail) {
			c.v("PAD: %s: non-zero bytes between end of table and end of its last sector", what)
		}
	}
	return es
}

type isoDirInfo struct {
	node, parent *IsoNode
	path         string
}

func isoEach(n, parent *IsoNode, path string, f func(n, parent *IsoNode, path string)) {
	f(n, parent, path)
	for _, ch := range n.Children {
		isoEach(ch, n, path+"/"+ch.Name, f) // depth is bounded by the parser
	}
}

func (c *isoCtx) checkPathTables(v *IsoVolume, tag string) {
	if v.PathTableSize == 0 || v.PathTableSize > isoMaxPathTable {
		c.v("PT: %s path table size %d is zero or exceeds reader limit", tag, v.PathTableSize)
		return
	}
	byLBA := map[uint32]*isoDirInfo{}
	ndirs, wantSize := 0, uint64(0)
	isoEach(v.Root, nil, "", func(n, parent *IsoNode, path string) {
		if n.IsDir {
			byLBA[n.DirLBA] = &isoDirInfo{n, parent, path}
			ndirs++
			wantSize += uint64(8 + len(n.RawID) + len(n.RawID)%2)
		}
	})
	le := c.parsePT(tag+" L path table", v.LPathLoc, v.PathTableSize, binary.LittleEndian)
	me := c.parsePT(tag+" M path table", v.MPathLoc, v.PathTableSize, binary.BigEndian)
	if len(le) != len(me) {
		c.v("PT: %s L table has %d entries, M table has %d", tag, len(le), len(me))
	}
	for i := 0; i < len(le) && i < len(me); i++ {
		if l, m := le[i], me[i]; !bytes.Equal(l.id, m.id) || l.xattr != m.xattr || l.loc != m.loc || l.parent != m.parent {
			c.v("PT: %s entry #%d differs: L=(id %q loc %d parent %d) M=(id %q loc %d parent %d)", tag, i+1, l.id, l.loc, l.parent, m.id, m.loc, m.parent)
		}
	}
	// Entry count == number of directories. Documented cap: parent numbers are 16 bit,
	// so a hierarchy with more than 65535 directories may record exactly 65535 entries.
	capped := ndirs > 65535 && len(le) == 65535
	if len(le) != ndirs && !capped {
		c.v("PT: %s path table has %d entries but the hierarchy has %d directories", tag, len(le), ndirs)
	}
	if !capped && uint64(v.PathTableSize) != wantSize {
		c.v("PT: %s path table size %d, but the %d directories need %d bytes", tag, v.PathTableSize, ndirs, wantSize)
	}
	seen := map[uint32]bool{}
	for i, e := range le {
		d := byLBA[e.loc]
		if d == nil {
			c.v("PT: %s entry #%d (%q) location %d is not the extent of any directory", tag, i+1, e.id, e.loc)
			continue
		}
		if seen[e.loc] {
			c.v("PT: %s entry #%d (%q) duplicates directory %s", tag, i+1, e.id, d.path)
		}
		seen[e.loc] = true
		if string(e.id) != d.node.RawID {
			c.v("PT: %s entry #%d identifier %q != directory record identifier %q (%s)", tag, i+1, e.id, d.node.RawID, d.path)
		}
		if e.xattr != 0 {
			c.v("PT: %s entry #%d has extended attribute record length %d", tag, i+1, e.xattr)
		}
		p := int(e.parent)
		if i == 0 {
			if d.node != v.Root || p != 1 || !bytes.Equal(e.id, []byte{0}) {
				c.v("PT: %s entry #1 must be the root (id 0x00, location %d, parent 1), got id %q location %d parent %d", tag, v.Root.DirLBA, e.id, e.loc, p)
			}
			continue
		}
		if d.parent == nil {
			c.v("PT: %s entry #%d refers to the root directory again", tag, i+1)
		} else if p < 1 || p > len(le) || le[p-1].loc != d.parent.DirLBA {
			c.v("PT: %s entry #%d (%s) parent number %d does not designate its parent directory (LBA %d)", tag, i+1, d.path, p, d.parent.DirLBA)
		}
		if c.opts.CheckPTOrder {
			q := le[i-1]
			if p > i || (i > 1 && (e.parent < q.parent || (e.parent == q.parent && bytes.Compare(e.id, q.id) <= 0))) {
				c.v("PT: %s entry #%d (%s, parent %d) is out of order after entry #%d (%q, parent %d)", tag, i+1, d.path, p, i, q.id, q.parent)
			}
		}
	}
}

type isoRegion struct {
	start, end uint64 // sectors, end exclusive
	what       string
}

func (c *isoCtx) checkDescriptors(img *IsoImage) {
	want := []byte{1, 2, 255}
	if c.opts.AllowNoJoliet && img.Supplementary == nil {
		want = []byte{1, 255}
	}
	for i, t := range want {
		s := int64(16 + i)
		if (s+1)*isoSector > c.size {
			c.v("DESC: sector %d is beyond the end of the image", s)
			return
		}
		d, err := c.read(s*isoSector, isoSector, "volume descriptor")
		if err != nil {
			return
		}
		if d[0] != t || string(d[1:6]) != "CD001" || d[6] != 1 {
			c.v("DESC: sector %d is type %d id %q version %d, want type %d \"CD001\" version 1", s, d[0], d[1:6], d[6], t)
			continue
		}
		if t == 2 && (!isoIsJolietEscape(d) || !isoAllZero(d[91:120])) {
			c.v("DESC: sector %d escape sequences %q are not a Joliet level (%%/@, %%/C, %%/E)", s, bytes.TrimRight(d[88:120], "\x00"))
		}
		if t != 255 && d[881] != 1 {
			c.v("DESC: sector %d file structure version %d, want 1", s, d[881])
		}
	}
}

// isoValidate returns human-readable violations, each starting with a stable code
// (SIZE, DESC, BOTHENDIAN, RECLEN, STRADDLE, DOT, DOTDOT, CHILD, PT, EXTENT, OVERLAP,
// PAD, MULTIEXT, DUP, REC, NAME, LIMIT, IO). Empty result = valid.
func isoValidate(r io.ReaderAt, size int64, opts IsoValidateOpts) []string {
	c := isoNewCtx(r, size, opts)
	if size%isoSector != 0 {
		c.v("SIZE: image size %d is not a multiple of %d", size, isoSector)
	}
	img := c.parseImage()
	c.checkDescriptors(img)
	vols := []*IsoVolume{}
	for _, v := range []*IsoVolume{img.Primary, img.Supplementary} {
		if v != nil {
			vols = append(vols, v)
		}
	}
	var regions []isoRegion
	add := func(v *IsoVolume, lba uint32, length uint64, what string) {
		n := isoSectors(length)
		if n == 0 {
			return // zero-length extents may share an LBA with anything
		}
		if uint64(lba)+n > uint64(v.VolumeSpaceSize) {
			c.v("EXTENT: %s: sectors [%d,%d) not within the volume space [0,%d)", what, lba, uint64(lba)+n, v.VolumeSpaceSize)
		}
		regions = append(regions, isoRegion{uint64(lba), uint64(lba) + n, what})
	}
	var padFiles []IsoExtent // extents whose sector tail must be zero
	primaryFiles := map[IsoExtent]bool{}
	for _, v := range vols {
		tag := "P"
		if v.Joliet {
			tag = "J"
		}
		if want := int64(v.VolumeSpaceSize) * isoSector; size != want && !(opts.AllowTrailingData && size > want) {
			c.v("SIZE: %s volume space size %d sectors = %d bytes, image size is %d", tag, v.VolumeSpaceSize, want, size)
		}
		if v.SetSize != 1 || v.SeqNumber != 1 {
			c.v("DESC: %s volume set size %d / sequence number %d, want 1/1", tag, v.SetSize, v.SeqNumber)
		}
		if v.Root == nil {
			continue
		}
		if !v.Joliet {
			regions = append(regions, isoRegion{0, 16, "system area"}, isoRegion{16, uint64(img.TermSector) + 1, "volume descriptors"})
		}
		add(v, v.LPathLoc, uint64(v.PathTableSize), tag+" L path table")
		add(v, v.MPathLoc, uint64(v.PathTableSize), tag+" M path table")
		if v.Incomplete {
			c.v("PT: %s path table checks skipped, directory hierarchy could not be read completely", tag)
		} else {
			c.checkPathTables(v, tag)
		}
		isoEach(v.Root, nil, "", func(n, _ *IsoNode, path string) {
			if n.IsDir {
				add(v, n.DirLBA, uint64(n.DirLen), tag+":"+path+"/ (directory)")
				return
			}
			for i, e := range n.Extents {
				if v.Joliet && primaryFiles[e] {
					continue // same file, shared between the two hierarchies
				}
				if !v.Joliet {
					primaryFiles[e] = true
				}
				add(v, e.LBA, uint64(e.Len), fmt.Sprintf("%s:%s extent#%d", tag, path, i))
				if e.Len%isoSector != 0 {
					padFiles = append(padFiles, e)
				}
			}
		})
	}
	sort.SliceStable(regions, func(i, j int) bool { return regions[i].start < regions[j].start })
	for i, hi := 1, 0; i < len(regions); i++ { // hi = index of region with the largest end so far
		if regions[i].start < regions[hi].end {
			a, b := regions[hi], regions[i]
			c.v("OVERLAP: %s [%d,%d) overlaps %s [%d,%d)", a.what, a.start, a.end, b.what, b.start, b.end)
		}
		if regions[i].end > regions[hi].end {
			hi = i
		}
	}
	if opts.CheckPadding && img.Primary != nil {
		for _, e := range padFiles {
			off := int64(e.LBA)*isoSector + int64(e.Len)
			n := isoSector - int(e.Len%isoSector)
			if off+int64(n) > size {
				continue // already reported as EXTENT
			}
			if tail, err := c.read(off, n, "file padding"); err == nil && !isoAllZero(tail) {
				c.v("PAD: file extent (LBA %d, len %d): non-zero bytes between end of data and end of its last sector", e.LBA, e.Len)
			}
		}
		last := uint64(0)
		for _, g := range regions {
			if g.end > last {
				last = g.end
			}
		}
		end := int64(img.Primary.VolumeSpaceSize) * isoSector
		if end > size {
			end = size
		}
		for off := int64(last) * isoSector; off < end; {
			n := int64(1 << 20)
			if n > end-off {
				n = end - off
			}
			buf, err := c.read(off, int(n), "trailing padding")
			if err != nil {
				break
			}
			if !isoAllZero(buf) {
				c.v("PAD: non-zero byte at offset %d after the last extent (ends at sector %d)", off+int64(len(buf)-len(bytes.TrimLeft(buf, "\x00"))), last)
				break
			}
			off += n
		}
	}
	return c.viol
}

// isoReadFile returns up to n bytes of the file's content starting at byte offset off,
// walking the extents (multi-extent files > 4 GiB supported). It returns fewer bytes
// only at end of file, and (nil, io.EOF) when off >= node.Size.
func isoReadFile(r io.ReaderAt, node *IsoNode, off int64, n int) ([]byte, error) {
	if node == nil || node.IsDir || off < 0 || n < 0 {
		return nil, fmt.Errorf("isoReadFile: invalid argument")
	}
	if off >= node.Size {
		return nil, io.EOF
	}
	if int64(n) > node.Size-off {
		n = int(node.Size - off)
	}
	out := make([]byte, n)
	got, pos := 0, int64(0) // pos = file offset of the current extent's first byte
	for _, e := range node.Extents {
		el := int64(e.Len)
		if got < n && off+int64(got) < pos+el {
			s := off + int64(got) - pos
			cnt := el - s
			if cnt > int64(n-got) {
				cnt = int64(n - got)
			}
			m, err := r.ReadAt(out[got:got+int(cnt)], int64(e.LBA)*isoSector+s)
			if m < int(cnt) {
				if err == nil {
					err = io.ErrUnexpectedEOF
				}
				return out[:got+m], fmt.Errorf("isoReadFile: extent LBA %d: %w", e.LBA, err)
			}
			got += int(cnt)
		}
		pos += el
	}
	if got < n {
		return out[:got], io.ErrUnexpectedEOF
	}
	return out, nil
}
