//go:build verif

// Command verifharness runs the real ps3netsrv-go code (compiled into the repository's own module
// through `go build -overlay`) on generated cases and prints what it observed, one line per case.
// The same case lines are fed to the Lean model driver (`vmodel`); ./check diffs the two streams.
package main

import (
	"bufio"
	"encoding/hex"
	"encoding/json"
	"fmt"
	"os"
	"path/filepath"
	"sort"
	"strconv"
	"strings"
)

// rng is splitmix64; every random choice of every stream derives from one seed.
type rng struct{ s uint64 }

func (r *rng) next() uint64 {
	r.s += 0x9e3779b97f4a7c15
	z := r.s
	z = (z ^ (z >> 30)) * 0xbf58476d1ce4e5b9
	z = (z ^ (z >> 27)) * 0x94d049bb133111eb
	return z ^ (z >> 31)
}
func (r *rng) intn(n int) int {
	if n <= 0 {
		return 0
	}
	return int(r.next() % uint64(n))
}
func (r *rng) pick(xs ...int) int        { return xs[r.intn(len(xs))] }
func (r *rng) picks(xs ...string) string { return xs[r.intn(len(xs))] }
func (r *rng) chance(pct int) bool       { return r.intn(100) < pct }

// out collects the case lines, the implementation's observations and per-stream statistics.
type out struct {
	cases, impl, oracle *bufio.Writer
	files               []*os.File
	n                   int
	dist                map[string]int
	nontrivial          map[string]struct{}
	samples             []string
	notes               []string
}

func newOut(dir, stream string) *out {
	o := &out{dist: map[string]int{}, nontrivial: map[string]struct{}{}}
	mk := func(ext string) *bufio.Writer {
		f, err := os.Create(filepath.Join(dir, stream+"."+ext))
		if err != nil {
			panic(err)
		}
		o.files = append(o.files, f)
		return bufio.NewWriterSize(f, 1<<20)
	}
	o.cases, o.impl, o.oracle = mk("cases"), mk("impl"), mk("oracle")
	return o
}

// emit records one case: its input line, what the implementation did, and (optionally, "" = none)
// what an independent oracle says. key != "" marks the case as non-trivial under that distinct key.
func (o *out) emit(caseLine, implLine, oracleLine, key string) {
	fmt.Fprintln(o.cases, caseLine)
	fmt.Fprintln(o.impl, implLine)
	fmt.Fprintln(o.oracle, oracleLine)
	o.n++
	if key != "" {
		o.nontrivial[key] = struct{}{}
	}
	if len(o.samples) < 5 && (o.n%97 == 1) {
		s := caseLine + " => " + implLine
		if len(s) > 400 {
			s = s[:400] + "..."
		}
		o.samples = append(o.samples, s)
	}
}
func (o *out) count(k string) { o.dist[k]++ }

func (o *out) close(dir, stream string) {
	o.cases.Flush()
	o.impl.Flush()
	o.oracle.Flush()
	for _, f := range o.files {
		f.Close()
	}
	keys := make([]string, 0, len(o.dist))
	for k := range o.dist {
		keys = append(keys, k)
	}
	sort.Strings(keys)
	st := map[string]any{
		"evaluations":         o.n,
		"distinct_nontrivial": len(o.nontrivial),
		"distribution":        o.dist,
		"samples":             o.samples,
		"notes":               o.notes,
	}
	b, _ := json.MarshalIndent(st, "", " ")
	os.WriteFile(filepath.Join(dir, stream+".stats.json"), b, 0o644)
}

func hx(b []byte) string {
	if len(b) == 0 {
		return "-"
	}
	return hex.EncodeToString(b)
}
func unhx(s string) []byte {
	if s == "-" {
		return nil
	}
	b, err := hex.DecodeString(s)
	if err != nil {
		panic(err)
	}
	return b
}

func fnv1a(b []byte) uint64 {
	h := uint64(0xcbf29ce484222325)
	for _, c := range b {
		h = (h ^ uint64(c)) * 0x100000001b3
	}
	return h
}

// digest renders a (possibly large) byte string: short ones in full, long ones as len+fnv+edges.
func digest(b []byte) string {
	if len(b) <= 64 {
		return hx(b)
	}
	return fmt.Sprintf("L%d:%016x:%s:%s", len(b), fnv1a(b), hx(b[:16]), hx(b[len(b)-16:]))
}

type streamFn func(o *out, r *rng, thorough bool)

var streams = map[string]streamFn{}

// replayFns re-run a single case line on the implementation (for --replay and for shrinking).
var replayFns = map[string]func(caseLine string) (impl, oracle string){}

func main() {
	if len(os.Args) >= 3 && os.Args[1] == "replay" {
		// verifharness replay <file-with-case-lines>
		data, err := os.ReadFile(os.Args[2])
		if err != nil {
			fmt.Fprintln(os.Stderr, err)
			os.Exit(2)
		}
		for _, line := range strings.Split(strings.TrimSpace(string(data)), "\n") {
			line = strings.TrimSpace(line)
			if line == "" || strings.HasPrefix(line, "#") {
				continue
			}
			tag := strings.SplitN(line, " ", 2)[0]
			fn, ok := replayFns[tag]
			if !ok {
				fmt.Printf("?? no replay for %s\n", tag)
				continue
			}
			impl, oracle := fn(line)
			fmt.Printf("%s\n%s\n", impl, oracle)
		}
		return
	}
	if len(os.Args) < 5 {
		fmt.Fprintln(os.Stderr, "usage: verifharness <stream> <quick|thorough> <seed> <outdir> | replay <file>")
		os.Exit(2)
	}
	stream, tier, outdir := os.Args[1], os.Args[2], os.Args[4]
	seed, _ := strconv.ParseUint(os.Args[3], 10, 64)
	fn, ok := streams[stream]
	if !ok {
		fmt.Fprintln(os.Stderr, "unknown stream", stream)
		os.Exit(2)
	}
	o := newOut(outdir, stream)
	r := &rng{s: seed*0x9e3779b97f4a7c15 + 0x1234567}
	fn(o, r, tier == "thorough")
	o.close(outdir, stream)
}
