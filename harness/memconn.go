//go:build verif

package main

import (
	"errors"
	"io"
	"net"
	"sync"
	"time"
)

// memConn is an in-memory duplex connection made of two io.Pipes. Unlike net.Pipe it supports a
// half-close from the client side, and because io.Pipe is synchronous the number of bytes the
// server consumed is exactly the number of bytes the client managed to write.
type memAddr string

func (a memAddr) Network() string { return "mem" }
func (a memAddr) String() string  { return string(a) }

type memConn struct {
	r      *io.PipeReader
	w      *io.PipeWriter
	local  memAddr
	remote memAddr
	once   sync.Once
}

func (c *memConn) Read(p []byte) (int, error)  { return c.r.Read(p) }
func (c *memConn) Write(p []byte) (int, error) { return c.w.Write(p) }
func (c *memConn) Close() error {
	c.once.Do(func() {
		c.r.CloseWithError(io.ErrClosedPipe)
		c.w.Close()
	})
	return nil
}
func (c *memConn) CloseWrite() error                  { return c.w.Close() }
func (c *memConn) LocalAddr() net.Addr                { return c.local }
func (c *memConn) RemoteAddr() net.Addr               { return c.remote }
func (c *memConn) SetDeadline(t time.Time) error      { return nil }
func (c *memConn) SetReadDeadline(t time.Time) error  { return nil }
func (c *memConn) SetWriteDeadline(t time.Time) error { return nil }

func newMemPair() (client, server *memConn) {
	c2sR, c2sW := io.Pipe()
	s2cR, s2cW := io.Pipe()
	client = &memConn{r: s2cR, w: c2sW, local: "client", remote: "server"}
	server = &memConn{r: c2sR, w: s2cW, local: "server", remote: "client"}
	return
}

// memListener hands out server ends of memConns.
type memListener struct {
	ch     chan net.Conn
	closed chan struct{}
	once   sync.Once
}

func newMemListener() *memListener {
	return &memListener{ch: make(chan net.Conn), closed: make(chan struct{})}
}
func (l *memListener) Accept() (net.Conn, error) {
	select {
	case c := <-l.ch:
		return c, nil
	case <-l.closed:
		return nil, errors.New("listener closed")
	}
}
func (l *memListener) Close() error   { l.once.Do(func() { close(l.closed) }); return nil }
func (l *memListener) Addr() net.Addr { return memAddr("memlistener") }
func (l *memListener) dial() *memConn {
	c, s := newMemPair()
	l.ch <- s
	return c
}
