//go:build verif

package main

import (
	"fmt"
	"strings"
	"time"
)

var fragToggle int

// rawFragment: when set, runRaw delivers the stream in random small pieces
var rawFragment *rng

// runRaw sends an arbitrary byte stream, half-closes, and reports everything the server sent
// plus how many request bytes it consumed (exact, because the in-memory pipe is synchronous).
func (e *connEnv) runRaw(stream []byte) string {
	start := time.Now().Unix()
	lc := &lockClient{c: e.ln.dial(), sessionStart: start, timeout: 5 * time.Second}
	lc.pump()
	wch := make(chan int, 1)
	frag := rawFragment
	go func() {
		// one Write per piece: over the in-memory pipe a Read never spans two Writes, so with `frag` set the
		// server sees commands, paths and payloads arrive in several pieces (as over a real network)
		n := 0
		if frag == nil {
			n, _ = lc.c.Write(stream)
		} else {
			for n < len(stream) {
				k := 1 + frag.intn(frag.pick(3, 9, 40, 700))
				if n+k > len(stream) {
					k = len(stream) - n
				}
				m, err := lc.c.Write(stream[n : n+k])
				n += m
				if err != nil {
					break
				}
			}
		}
		lc.c.CloseWrite()
		wch <- n
	}()
	ok := lc.waitFor(lc.timeout, func() bool { return lc.eof })
	lc.mu.Lock()
	got := append([]byte{}, lc.buf...)
	lc.mu.Unlock()
	lc.c.Close()
	consumed := -1
	select {
	case consumed = <-wch:
	case <-time.After(lc.timeout):
	}
	leak := -1
	for i := 0; i < 200; i++ {
		if len(e.rec.leaked()) == 0 {
			leak = 0
			break
		}
		time.Sleep(5 * time.Millisecond)
	}
	if leak != 0 {
		leak = len(e.rec.leaked())
	}
	snap, err := snapshot(e.root, start)
	if err != nil {
		snap = "ERR:" + err.Error()
	}
	pre := "out="
	if !ok {
		pre = "out=T:"
	}
	return fmt.Sprintf("%s%s consumed=%d fs=%016x leak=%d out=%d", pre, digest(got), consumed, fnv1a([]byte(snap)), leak, len(e.rec.outside(e.root)))
}

func rawCase(aw bool, nodes []tnode, stream []byte) string {
	a := 0
	if aw {
		a = 1
	}
	return fmt.Sprintf("raw %d %s %s", a, encodeTree(nodes), hx(stream))
}

// genRawSession: requests whose responses carry no "now"-dependent field, so the raw byte stream
// is comparable without parsing it.
func genRawSession(r *rng, t *tree, n int) []creq {
	var reqs []creq
	files := t.pathsOf('f')
	dirs := t.pathsOf('d')
	pickF := func() string {
		if len(files) == 0 || r.chance(15) {
			return "/missing"
		}
		return files[r.intn(len(files))]
	}
	opened := false
	mutated := false // once names were added or removed the OS enumeration order is no longer the recorded one
	for len(reqs) < n {
		k := r.intn(100)
		if k >= 68 && (k < 76 || k >= 88) {
			mutated = true
		}
		switch {
		case k < 12:
			reqs = append(reqs, creq{op: opOpenDir, path: dirs[r.intn(len(dirs))]})
		case k < 24:
			if mutated {
				continue
			}
			reqs = append(reqs, creq{op: opReadDirEntry})
		case k < 40:
			reqs = append(reqs, creq{op: opOpenFile, path: pickF()})
			opened = true
		case k < 55:
			if !opened && !r.chance(10) {
				continue
			}
			reqs = append(reqs, creq{op: opReadFile, a: uint64(r.pick(0, 1, 100, 2048, 70000)), b: uint64(r.pick(0, 1, 2047, 65536))})
		case k < 63:
			if !opened && !r.chance(10) {
				continue
			}
			reqs = append(reqs, creq{op: opReadFileCritical, a: uint64(r.pick(0, 1, 100)), b: 0})
		case k < 68:
			reqs = append(reqs, creq{op: opGetDirSize, path: dirs[r.intn(len(dirs))]})
		case k < 76:
			reqs = append(reqs, creq{op: opCreateFile, path: "/rawnew" + fmt.Sprint(r.intn(2))})
		case k < 88:
			pl := make([]byte, r.pick(0, 1, 16, 17, 100, 70000))
			for i := range pl {
				pl[i] = byte(r.next())
			}
			// payloads that look like commands are the interesting ones for synchronisation
			if len(pl) >= 16 && r.chance(60) {
				copy(pl, creq{op: opOpenDir, path: "/"}.bytes())
			}
			reqs = append(reqs, creq{op: opWriteFile, payload: pl, announced: uint32(len(pl))})
		case k < 92:
			reqs = append(reqs, creq{op: opMkdir, path: "/rawdir"})
		case k < 96:
			reqs = append(reqs, creq{op: opRmdir, path: "/rawdir"})
		default:
			reqs = append(reqs, creq{op: opDeleteFile, path: "/rawnew0"})
		}
	}
	return reqs
}

func c03Stream(o *out, r *rng, thorough bool) {
	nTrees := 25
	if thorough {
		nTrees = 150
	}
	for ti := 0; ti < nTrees; ti++ {
		t := genTree(r, 2, 3, false)
		aw := r.chance(50)
		reqs := genRawSession(r, t, 2+r.intn(8))
		var full []byte
		var bounds []int
		for _, q := range reqs {
			full = append(full, q.bytes()...)
			bounds = append(bounds, len(full))
		}
		type variant struct {
			kind   string
			stream []byte
		}
		vs := []variant{{"whole", full}}
		// truncation points: around every request boundary, inside commands, inside paths/payloads
		cuts := map[int]bool{}
		for _, b := range bounds {
			for _, d := range []int{-17, -16, -15, -1, 1, 2, 15, 16} {
				if c := b + d; c > 0 && c < len(full) {
					cuts[c] = true
				}
			}
		}
		nc := 6
		if thorough {
			nc = 25
		}
		for c := range cuts {
			if nc == 0 {
				break
			}
			nc--
			vs = append(vs, variant{"cut", append([]byte{}, full[:c]...)})
		}
		for i := 0; i < 3; i++ {
			vs = append(vs, variant{"cut", append([]byte{}, full[:r.intn(len(full)+1)]...)})
		}
		// unknown opcode spliced at a request boundary, followed by the rest
		b := 0
		if len(bounds) > 1 {
			b = bounds[r.intn(len(bounds)-1)]
		}
		unk := make([]byte, 16)
		unk[0], unk[1] = byte(r.pick(0x00, 0x12, 0x24, 0xff)), byte(r.pick(0x00, 0x23, 0x33, 0x12, 0xff))
		vs = append(vs, variant{"unknown", append(append(append([]byte{}, full[:b]...), unk...), full[b:]...)})
		// WRITE_FILE announcing more than is sent (client dies mid-payload)
		short := creq{op: opWriteFile, payload: make([]byte, 10), announced: 1000}
		vs = append(vs, variant{"short-write", append(append([]byte{}, creq{op: opCreateFile, path: "/rawnew0"}.bytes()...), short.bytes()...)})
		// garbage
		g := make([]byte, r.pick(1, 15, 16, 17, 40, 200))
		for i := range g {
			g[i] = byte(r.next())
		}
		vs = append(vs, variant{"garbage", g})
		// a path length announcing more than follows
		lie := creq{op: opStatFile, path: "/abc"}.bytes()
		lie[2], lie[3] = 0xff, 0xff
		vs = append(vs, variant{"long-path", lie})
		for _, v := range vs {
			withTempRoot(func(root string) {
				if err := t.materialize(root); err != nil {
					o.notes = append(o.notes, "materialize: "+err.Error())
					return
				}
				nodes, err := t.ordered(root)
				if err != nil {
					return
				}
				env := newConnEnv(root, aw, 65536)
				defer env.close()
				if fragToggle++; fragToggle%2 == 0 {
					rawFragment = &rng{s: uint64(fragToggle) * 7919}
				}
				line := env.runRaw(v.stream)
				rawFragment = nil
				o.count("variant:" + v.kind)
				o.emit(rawCase(aw, nodes, v.stream), line, "", fmt.Sprintf("%d:%s:%x", ti, v.kind, fnv1a(v.stream)))
			})
		}
	}
}

func init() {
	streams["c03"] = c03Stream
	replayFns["raw"] = func(line string) (string, string) {
		f := strings.Fields(line)
		res := ""
		withTempRoot(func(root string) {
			t := decodeTree(f[2])
			if err := t.materialize(root); err != nil {
				res = "materialize: " + err.Error()
				return
			}
			env := newConnEnv(root, f[1] == "1", 65536)
			defer env.close()
			res = env.runRaw(unhx(f[3]))
		})
		return res, ""
	}
}
