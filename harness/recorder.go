//go:build verif

package main

import (
	"errors"
	"io"
	"os"
	"runtime"
	"sort"
	"strings"
	"sync"
	"sync/atomic"
	"time"

	"github.com/spf13/afero"
)

// recFs is a transparent afero.Fs wrapper placed *under* BasePathFs: it sees the real OS paths.
// It keeps the ledger of opens/closes, the set of paths touched, and can inject faults by
// operation index.
type recFs struct {
	inner         afero.Fs
	mu            sync.Mutex
	ops           int
	paths         map[string]struct{}
	log           []string
	open          map[int]string
	nextH         int
	nOpen, nClose int
	mutating      int
	// fault injection: operation index -> kind ("err", "short", "nerr")
	faults map[int]string
	hit    []string
	hitIdx []int // operation index of each hit
	// closeErr: every Close() really closes and then reports an error (what a network or FUSE mount,
	// or a full disk on the last flush, does); not an indexed operation, so that the operation
	// numbering of the fault schedules is unaffected
	closeErr bool
}

var errInjected = errors.New("injected fault")

func newRecFs(inner afero.Fs) *recFs {
	return &recFs{inner: inner, paths: map[string]struct{}{}, open: map[int]string{}, faults: map[int]string{}}
}

// op registers one filesystem operation and says whether a fault is scheduled for it.
func (r *recFs) op(kind, path string) string {
	r.mu.Lock()
	defer r.mu.Unlock()
	switch kind {
	case "create", "mkdir", "mkdirall", "remove", "removeall", "rename", "chmod", "chown", "chtimes":
		r.mutating++
	}
	idx := r.ops
	r.ops++
	if path != "" {
		r.paths[path] = struct{}{}
	}
	if len(r.log) < 4096 {
		r.log = append(r.log, kind+":"+path)
	}
	if f, ok := r.faults[idx]; ok {
		r.hit = append(r.hit, kind)
		r.hitIdx = append(r.hitIdx, idx)
		return f
	}
	return ""
}

func (r *recFs) wrap(f afero.File, path string) afero.File {
	r.mu.Lock()
	defer r.mu.Unlock()
	id := r.nextH
	r.nextH++
	r.open[id] = path
	r.nOpen++
	return &recFile{File: f, fs: r, id: id, path: path}
}

func (r *recFs) Name() string { return "recFs" }
func (r *recFs) Create(name string) (afero.File, error) {
	if r.op("create", name) != "" {
		return nil, errInjected
	}
	f, err := r.inner.Create(name)
	if err != nil {
		return nil, err
	}
	return r.wrap(f, name), nil
}
func (r *recFs) Mkdir(name string, perm os.FileMode) error {
	if r.op("mkdir", name) != "" {
		return errInjected
	}
	return r.inner.Mkdir(name, perm)
}
func (r *recFs) MkdirAll(path string, perm os.FileMode) error {
	if r.op("mkdirall", path) != "" {
		return errInjected
	}
	return r.inner.MkdirAll(path, perm)
}
func (r *recFs) Open(name string) (afero.File, error) {
	if r.op("open", name) != "" {
		return nil, errInjected
	}
	f, err := r.inner.Open(name)
	if err != nil {
		return nil, err
	}
	return r.wrap(f, name), nil
}
func (r *recFs) OpenFile(name string, flag int, perm os.FileMode) (afero.File, error) {
	if r.op("openfile", name) != "" {
		return nil, errInjected
	}
	f, err := r.inner.OpenFile(name, flag, perm)
	if err != nil {
		return nil, err
	}
	return r.wrap(f, name), nil
}
func (r *recFs) Remove(name string) error {
	if r.op("remove", name) != "" {
		return errInjected
	}
	return r.inner.Remove(name)
}
func (r *recFs) RemoveAll(path string) error {
	if r.op("removeall", path) != "" {
		return errInjected
	}
	return r.inner.RemoveAll(path)
}
func (r *recFs) Rename(oldname, newname string) error {
	r.op("rename", newname)
	if r.op("rename", oldname) != "" {
		return errInjected
	}
	return r.inner.Rename(oldname, newname)
}
func (r *recFs) Stat(name string) (os.FileInfo, error) {
	if r.op("stat", name) != "" {
		return nil, errInjected
	}
	return r.inner.Stat(name)
}
func (r *recFs) LstatIfPossible(name string) (os.FileInfo, bool, error) {
	if r.op("lstat", name) != "" {
		return nil, false, errInjected
	}
	if l, ok := r.inner.(afero.Lstater); ok {
		return l.LstatIfPossible(name)
	}
	fi, err := r.inner.Stat(name)
	return fi, false, err
}
func (r *recFs) Chmod(name string, mode os.FileMode) error {
	r.op("chmod", name)
	return r.inner.Chmod(name, mode)
}
func (r *recFs) Chown(name string, uid, gid int) error {
	r.op("chown", name)
	return r.inner.Chown(name, uid, gid)
}
func (r *recFs) Chtimes(name string, atime, mtime time.Time) error {
	r.op("chtimes", name)
	return r.inner.Chtimes(name, atime, mtime)
}

type recFile struct {
	afero.File
	fs     *recFs
	id     int
	path   string
	closed bool
}

func (f *recFile) Close() error {
	f.fs.mu.Lock()
	if !f.closed {
		f.closed = true
		delete(f.fs.open, f.id)
		f.fs.nClose++
	}
	ce := f.fs.closeErr
	f.fs.mu.Unlock()
	err := f.File.Close()
	if ce && err == nil {
		return errInjected
	}
	return err
}

// closeErrFs: a filesystem whose handles work normally but report an error from Close()
// (after really closing) - for the library server of the C15 stream
type closeErrFs struct{ afero.Fs }

type closeErrFile struct{ afero.File }

func (f closeErrFile) Close() error {
	if err := f.File.Close(); err != nil {
		return err
	}
	return errInjected
}
func (s closeErrFs) Open(name string) (afero.File, error) {
	f, err := s.Fs.Open(name)
	if err != nil {
		return nil, err
	}
	return closeErrFile{f}, nil
}
func (s closeErrFs) OpenFile(name string, flag int, perm os.FileMode) (afero.File, error) {
	f, err := s.Fs.OpenFile(name, flag, perm)
	if err != nil {
		return nil, err
	}
	return closeErrFile{f}, nil
}
func (f *recFile) Read(p []byte) (int, error) {
	switch f.fs.op("read", "") {
	case "err":
		return 0, errInjected
	case "short":
		if len(p) > 1 {
			return f.File.Read(p[:1+len(p)/3])
		}
	case "nerr":
		n, _ := f.File.Read(p[:(len(p)+1)/2])
		return n, errInjected
	}
	return f.File.Read(p)
}
func (f *recFile) ReadAt(p []byte, off int64) (int, error) {
	switch f.fs.op("readat", "") {
	case "err":
		return 0, errInjected
	case "short", "nerr":
		n, _ := f.File.ReadAt(p[:(len(p)+1)/2], off)
		return n, errInjected
	}
	return f.File.ReadAt(p, off)
}
func (f *recFile) Seek(off int64, whence int) (int64, error) {
	if f.fs.op("seek", "") != "" {
		return 0, errInjected
	}
	return f.File.Seek(off, whence)
}
func (f *recFile) Write(p []byte) (int, error) {
	switch f.fs.op("write", "") {
	case "err":
		return 0, errInjected
	case "short", "nerr":
		n, _ := f.File.Write(p[:len(p)/2])
		return n, io.ErrShortWrite
	}
	return f.File.Write(p)
}
func (f *recFile) Stat() (os.FileInfo, error) {
	if f.fs.op("fstat", "") != "" {
		return nil, errInjected
	}
	return f.File.Stat()
}
func (f *recFile) Readdir(n int) ([]os.FileInfo, error) {
	if f.fs.op("readdir", "") != "" {
		return nil, errInjected
	}
	return f.File.Readdir(n)
}
func (f *recFile) Readdirnames(n int) ([]string, error) {
	if f.fs.op("readdirnames", "") != "" {
		return nil, errInjected
	}
	return f.File.Readdirnames(n)
}

// outside lists the recorded paths that are not the root or below it.
func (r *recFs) outside(root string) []string {
	r.mu.Lock()
	defer r.mu.Unlock()
	var out []string
	for p := range r.paths {
		if p != root && !strings.HasPrefix(p, root+"/") {
			out = append(out, p)
		}
	}
	sort.Strings(out)
	return out
}

func (r *recFs) leaked() []string {
	r.mu.Lock()
	defer r.mu.Unlock()
	var out []string
	for _, p := range r.open {
		out = append(out, p)
	}
	sort.Strings(out)
	return out
}

// yieldFs: every file-system call first yields the processor. With few scheduler threads this interleaves
// the connections at exactly the points where one of them is between two file-system calls - the window in
// which state shared by mistake (a pooled scratch buffer still referenced, a package-level variable) is
// overwritten by somebody else.
type yieldFs struct {
	afero.Fs
	// between: what "another connection" does between any two file-system calls of this one - run inline, at
	// every call (systematic interleaving at the yield points instead of waiting for the scheduler to produce it)
	between *func()
}

type yieldFile struct {
	afero.File
	between *func()
}

var betweenBusy sync.Mutex
var betweenCalls atomic.Int64

func runBetween(b *func()) {
	if b == nil || *b == nil {
		runtime.Gosched()
		return
	}
	// (no yield here: the other connection's action runs inline and to completion, also its own file-system calls)
	if !betweenBusy.TryLock() {
		return
	}
	defer betweenBusy.Unlock()
	betweenCalls.Add(1)
	(*b)()
}

func (s yieldFs) Open(name string) (afero.File, error) {
	runBetween(s.between)
	f, err := s.Fs.Open(name)
	if err != nil {
		return nil, err
	}
	return yieldFile{f, s.between}, nil
}
func (s yieldFs) OpenFile(name string, flag int, perm os.FileMode) (afero.File, error) {
	runBetween(s.between)
	f, err := s.Fs.OpenFile(name, flag, perm)
	if err != nil {
		return nil, err
	}
	return yieldFile{f, s.between}, nil
}
func (s yieldFs) Stat(name string) (os.FileInfo, error) {
	runBetween(s.between)
	return s.Fs.Stat(name)
}
func (f yieldFile) Read(p []byte) (int, error) { runBetween(f.between); return f.File.Read(p) }
func (f yieldFile) ReadAt(p []byte, off int64) (int, error) {
	// (no inline interleaving at positional reads: the other connection's open would then always find the
	// pools empty and get fresh objects - the interesting interleavings are those AFTER something was put back)
	runtime.Gosched()
	return f.File.ReadAt(p, off)
}
func (f yieldFile) Seek(off int64, whence int) (int64, error) {
	runBetween(f.between)
	return f.File.Seek(off, whence)
}
func (f yieldFile) Stat() (os.FileInfo, error) { runBetween(f.between); return f.File.Stat() }
func (f yieldFile) Close() error               { runBetween(f.between); return f.File.Close() }
