//go:build verif

package main

import (
	"bytes"
	"encoding/binary"
	"errors"
	"fmt"
	"os"
	"path/filepath"
	"sort"
	"strings"
	"syscall"
	"time"
)

// ---------- independent expectations (oracle side), written from the protocol description ----------

func be32(v uint32) []byte { b := make([]byte, 4); binary.BigEndian.PutUint32(b, v); return b }
func be64(v uint64) []byte { b := make([]byte, 8); binary.BigEndian.PutUint64(b, v); return b }

// runWithOracle runs one session on a fresh root and pairs it with an oracle line built by `expect`.
func runWithOracle(o *out, t *tree, aw bool, reqs []creq, key string, expect func(root string, nodes []tnode) string) {
	withTempRoot(func(root string) {
		if err := t.materialize(root); err != nil {
			o.notes = append(o.notes, "materialize: "+err.Error())
			return
		}
		nodes, err := t.ordered(root)
		if err != nil {
			o.notes = append(o.notes, "ordered: "+err.Error())
			return
		}
		orc := ""
		if expect != nil {
			orc = expect(root, nodes)
		}
		env := newConnEnv(root, aw, 65536)
		defer env.close()
		line := env.runSession(reqs, true)
		if orc != "" {
			// the oracle predicts the responses only; append the implementation's own trailer
			if i := strings.Index(line, " fs="); i >= 0 {
				orc += line[i:]
			}
		}
		o.emit(connCase(aw, nodes, reqs), line, orc, key)
	})
}

// ---------- C02: served bytes equal stored bytes ----------

func c02Stream(o *out, r *rng, thorough bool) {
	sizes := []int64{0, 1, 2047, 2048, 2049, 65535, 65536, 65537, 131072, 200000}
	nPer := 6
	if thorough {
		sizes = append(sizes, 4095, 4096, 4097, 1<<20+1, 3*65536)
		nPer = 40
	}
	type fileSpec struct {
		size int64
		n    tnode
	}
	var specs []tnode
	for _, sz := range sizes {
		specs = append(specs, tnode{kind: 'f', size: sz, seed: int64(r.intn(250)), mtime: genMtime(r)})
	}
	// sparse files past 4 GiB with recognisable bytes at the interesting places
	for _, sz := range []int64{1<<32 + 4096, 1<<32 - 2048, 5 << 30} {
		mk := func(off int64) overlay {
			d := make([]byte, 64)
			for i := range d {
				d[i] = byte(r.next())
			}
			return overlay{off, d}
		}
		n := tnode{kind: 'f', size: sz, seed: sparseSeed, mtime: genMtime(r)}
		for _, off := range []int64{0, 1<<31 - 32, 1<<32 - 40, sz - 64, sz/2 + 7} {
			if off >= 0 && off+64 <= sz {
				n.overlays = append(n.overlays, mk(off))
			}
		}
		specs = append(specs, n)
	}
	for fi, spec := range specs {
		spec.path = fmt.Sprintf("/f%d.bin", fi)
		t := &tree{}
		t.add(tnode{path: "/", kind: 'd', mtime: genMtime(r)})
		t.add(spec)
		sz := spec.size
		offs := []int64{0, 1, sz - 1, sz, sz + 1, sz / 2, 2047, 2048, 2049, 65535, 65536, 65537, sz - 2048, sz - 65536, 1<<31 - 16, 1<<32 - 20}
		lims := []int64{0, 1, 2, 2047, 2048, 2049, 65535, 65536, 65537, 100}
		for k := 0; k < nPer; k++ {
			reqs := []creq{{op: opOpenFile, path: spec.path}}
			nr := 1 + r.intn(6)
			for j := 0; j < nr; j++ {
				off := offs[r.intn(len(offs))]
				if off < 0 {
					off = 0
				}
				lim := lims[r.intn(len(lims))]
				switch r.intn(4) {
				case 0:
					lim = sz - off
				case 1:
					lim = sz - off + 1
				}
				if lim < 0 {
					lim = 0
				}
				if lim > 400000 {
					lim = 400000
				}
				op := uint16(opReadFile)
				if r.chance(45) {
					op = opReadFileCritical
				}
				reqs = append(reqs, creq{op: op, a: uint64(lim), b: uint64(off)})
			}
			if r.chance(30) {
				// interleave with other requests on the connection
				reqs = append(reqs[:1], append([]creq{{op: opStatFile, path: "/"}, {op: opOpenDir, path: "/"}}, reqs[1:]...)...)
			}
			key := fmt.Sprintf("%d:%s", sz, encodeReqs(reqs[1:]))
			node := spec
			runWithOracle(o, t, false, reqs, key, func(root string, nodes []tnode) string {
				var sb strings.Builder
				for i, q := range reqs {
					switch q.op {
					case opOpenFile:
						fmt.Fprintf(&sb, "r%d=%s ", i, digest(append(be64(uint64(node.size)), be64(uint64(node.mtime))...)))
					case opStatFile:
						rootM := nodes[0].mtime
						b := append(be64(0), be64(uint64(rootM))...)
						b = append(b, make([]byte, 16)...)
						b = append(b, 1)
						fmt.Fprintf(&sb, "r%d=%s ", i, digest(b))
					case opOpenDir:
						fmt.Fprintf(&sb, "r%d=%s ", i, digest(be32(0)))
					case opReadFile:
						d := node.slice(int64(q.b), int64(q.a))
						fmt.Fprintf(&sb, "r%d=%s ", i, digest(append(be32(uint32(len(d))), d...)))
					case opReadFileCritical:
						d := node.slice(int64(q.b), int64(q.a))
						if uint64(len(d)) < q.a {
							fmt.Fprintf(&sb, "r%d=X:%s", i, digest(d))
							return sb.String()
						}
						fmt.Fprintf(&sb, "r%d=%s ", i, digest(d))
					}
					o.count("op:" + opName(q.op))
				}
				sb.WriteString("end=-")
				return sb.String()
			})
			o.count(fmt.Sprintf("size:%d", sz))
		}
	}
	// a regular file that happens to be NAMED like the reserved path: only "/CLOSEFILE" itself closes,
	// a file of that name in a directory is opened and read like any other
	{
		t := &tree{}
		t.add(tnode{path: "/", kind: 'd', mtime: genMtime(r)})
		t.add(tnode{path: "/d", kind: 'd', mtime: genMtime(r)})
		inDir := tnode{path: "/d/CLOSEFILE", kind: 'f', size: 5000, seed: 31, mtime: genMtime(r)}
		t.add(inDir)
		t.add(tnode{path: "/CLOSEFILE", kind: 'f', size: 300, seed: 32, mtime: genMtime(r)})
		reqs := []creq{{op: opStatFile, path: "/d/CLOSEFILE"}, {op: opOpenFile, path: "/d/CLOSEFILE"}, {op: opReadFile, a: 100, b: 0},
			{op: opReadFileCritical, a: 200, b: 4000}, {op: opOpenFile, path: "/CLOSEFILE"}, {op: opReadFile, a: 10, b: 0},
			{op: opOpenFile, path: "/d/../d/CLOSEFILE"}, {op: opReadFile, a: 6000, b: 10}, {op: opOpenFile, path: "CLOSEFILE"},
			{op: opReadFile, a: 10, b: 0}, {op: opOpenFile, path: "/d/CLOSEFILE/"}, {op: opReadFile, a: 7, b: 4999}}
		o.count("closefile-named-file")
		runWithOracle(o, t, false, reqs, "closefile-name", func(root string, nodes []tnode) string {
			var sb strings.Builder
			open := false
			for i, q := range reqs {
				switch q.op {
				case opStatFile:
					fmt.Fprintf(&sb, "r%d=%s ", i, digest(append(append(be64(5000), be64(uint64(inDir.mtime))...), make([]byte, 17)...)))
				case opOpenFile:
					if filepath.Clean("/"+q.path) == "/CLOSEFILE" {
						open = false
						fmt.Fprintf(&sb, "r%d=%s ", i, digest(make([]byte, 16)))
					} else {
						open = true
						fmt.Fprintf(&sb, "r%d=%s ", i, digest(append(be64(5000), be64(uint64(inDir.mtime))...)))
					}
				case opReadFile:
					if !open {
						fmt.Fprintf(&sb, "r%d=%s ", i, digest(be32(0xffffffff)))
						continue
					}
					d := inDir.slice(int64(q.b), int64(q.a))
					fmt.Fprintf(&sb, "r%d=%s ", i, digest(append(be32(uint32(len(d))), d...)))
				case opReadFileCritical:
					fmt.Fprintf(&sb, "r%d=%s ", i, digest(inDir.slice(int64(q.b), int64(q.a))))
				}
			}
			sb.WriteString("end=-")
			return sb.String()
		})
	}
}

// c02VisoStream: the same read rule through a generated image served over the connection.
func c02VisoStream(o *out, r *rng, thorough bool) {
	n := 6
	if thorough {
		n = 60
	}
	for ti := 0; ti < n; ti++ {
		t, dir := genVisoTree(r, false)
		if dir == "/" {
			continue
		}
		var reqs []creq
		withTempRoot(func(root string) {
			if err := t.materialize(root); err != nil {
				return
			}
			bounds, total := visoBounds(root, dir, false)
			if total == 0 {
				return
			}
			reqs = []creq{{op: opOpenFile, path: "/***DVD***" + dir}}
			for k := 0; k < 10; k++ {
				off := bounds[r.intn(len(bounds))] + int64(r.pick(-2049, -2048, -1000, -1, 0, 1, 1000, 2047, 2048))
				if off < 0 {
					off = 0
				}
				lim := int64(r.pick(0, 1, 100, 2047, 2048, 2049, 3000, 65536, 70000))
				op := uint16(opReadFile)
				if r.chance(40) && off+lim <= total {
					op = opReadFileCritical
				}
				reqs = append(reqs, creq{op: op, a: uint64(lim), b: uint64(off)})
			}
			reqs = append(reqs, creq{op: opReadFileCritical, a: 4096, b: uint64(total - 100)}) // crosses the end: prefix, then close
		})
		if len(reqs) == 0 {
			continue
		}
		for _, q := range reqs {
			o.count("viso-op:" + opName(q.op))
		}
		runWithOracle(o, t, false, reqs, fmt.Sprintf("viso%d", ti), nil)
	}
}

// ---------- C06: listing, stat, dir-size ----------

type realInfo struct {
	name  string
	isDir bool
	size  int64
	mtime int64
}

// specTruth: set by a case whose tree holds objects beyond PATH_MAX - stat by full path fails there although
// the object exists, so the harness's own knowledge of the tree it built is the truth (root -> nodes)
var specTruth func(p string) (realInfo, bool)

func statReal(p string) (realInfo, bool) {
	st, err := os.Stat(p)
	if err != nil {
		if specTruth != nil && errors.Is(err, syscall.ENAMETOOLONG) {
			return specTruth(p)
		}
		return realInfo{}, false
	}
	ri := realInfo{name: filepath.Base(p), isDir: st.IsDir(), mtime: st.ModTime().Unix()}
	if !st.IsDir() {
		ri.size = st.Size()
	}
	return ri, true
}

// dirSizeAnswer: what GET_DIR_SIZE must answer for a path: -1 unless it is an existing directory
func dirSizeAnswer(p string) int64 {
	if st, err := os.Stat(p); err != nil || !st.IsDir() {
		return -1
	}
	total, ok := realDirSize(p)
	if !ok {
		return -1
	}
	return total
}

// realDirSize: total size of the regular files beneath p, links followed. A link that does not resolve
// (missing target, a loop, a target behind a regular file) or an entry whose path cannot be spelled (beyond
// PATH_MAX) has nothing to add; anything else that cannot be examined makes the total unknown.
func realDirSize(p string) (int64, bool) {
	st, err := os.Stat(p)
	if err != nil {
		if errors.Is(err, os.ErrNotExist) || errors.Is(err, syscall.ENAMETOOLONG) || errors.Is(err, syscall.ELOOP) || errors.Is(err, syscall.ENOTDIR) {
			return 0, true
		}
		return 0, false
	}
	if !st.IsDir() {
		return st.Size(), true
	}
	ents, _ := os.ReadDir(p)
	var total int64
	for _, e := range ents {
		s, ok := realDirSize(filepath.Join(p, e.Name()))
		if !ok {
			return 0, false
		}
		total += s
	}
	return total, true
}

func c06Stream(o *out, r *rng, thorough bool) {
	trees := 25
	if thorough {
		trees = 200
	}
	runOne := func(t *tree, reqs []creq, key string) { c06Run(o, t, reqs, key) }
	// directories with exactly 2^k entries (and neighbours): where a chunked or buffered enumeration
	// meets the end of the directory exactly at a chunk border
	sizes := []int{64, 256, 1024}
	if thorough {
		sizes = []int{1, 2, 64, 128, 255, 256, 257, 512, 1000, 1023, 1024, 1025, 2048, 4096}
	}
	for _, n := range sizes {
		t := &tree{}
		t.add(tnode{path: "/", kind: 'd', mtime: genMtime(r)})
		t.add(tnode{path: "/p", kind: 'd', mtime: genMtime(r)})
		for i := 0; i < n; i++ {
			kind := byte('f')
			if i%17 == 5 {
				kind = 'd'
			}
			t.add(tnode{path: fmt.Sprintf("/p/n%05d", i), kind: kind, size: int64(i % 7), seed: 1, mtime: genMtime(r)})
		}
		o.count(fmt.Sprintf("exact-dir:%d", n))
		runOne(t, []creq{{op: opOpenDir, path: "/p"}, {op: opReadDir}, {op: opGetDirSize, path: "/p"}}, fmt.Sprintf("exact%d:list", n))
		if n <= 1100 {
			op := uint16(opReadDirEntry)
			if n%2 == 1 || n == 256 {
				op = opReadDirEntryV2
			}
			reqs := []creq{{op: opOpenDir, path: "/p"}}
			for i := 0; i < n+2; i++ {
				reqs = append(reqs, creq{op: op})
			}
			runOne(t, reqs, fmt.Sprintf("exact%d:entries", n))
		}
	}
	// a directory whose own path is just short of PATH_MAX, holding an entry whose full path is beyond it:
	// the server cannot examine that entry; it is left out - of the bulk listing as of the entry-by-entry
	// enumeration - and hides nothing else
	// KNOWN FINDING (open, known_findings.txt C06-path-max): an existing regular file / directory whose full
	// path is beyond PATH_MAX is invisible - left out of listings, STAT answers -1 - because every entry is
	// examined by its full path name. The oracle of this case is the tree itself.
	{
		t := &tree{}
		t.add(tnode{path: "/", kind: 'd', mtime: genMtime(r)})
		deep := ""
		for i := 0; i < 16; i++ {
			deep += "/" + strings.Repeat(string(rune('a'+i)), 240)
			t.add(tnode{path: deep, kind: 'd', mtime: genMtime(r)})
		}
		long := deep + "/" + strings.Repeat("Y", 255)
		t.add(tnode{path: deep + "/short.bin", kind: 'f', size: 77, seed: 5, mtime: genMtime(r)})
		t.add(tnode{path: long, kind: 'f', size: 1234, seed: 6, mtime: genMtime(r)})
		specTruth = func(p string) (realInfo, bool) {
			for _, n := range t.nodes {
				if strings.HasSuffix(p, n.path) && (n.kind == 'f' || n.kind == 'd') {
					return realInfo{name: filepath.Base(n.path), isDir: n.kind == 'd', size: n.size, mtime: n.mtime}, true
				}
			}
			return realInfo{}, false
		}
		o.count("beyond-path-max:regular-file")
		runOne(t, []creq{{op: opOpenDir, path: deep}, {op: opReadDir}, {op: opOpenDir, path: deep}, {op: opReadDirEntry}, {op: opReadDirEntry},
			{op: opReadDirEntry}, {op: opStatFile, path: long}}, "deep:file-beyond-path-max")
		specTruth = nil
	}
	{
		t := &tree{}
		t.add(tnode{path: "/", kind: 'd', mtime: genMtime(r)})
		deep := ""
		for i := 0; i < 16; i++ {
			deep += "/" + strings.Repeat(string(rune('a'+i)), 240)
			t.add(tnode{path: deep, kind: 'd', mtime: genMtime(r)})
		}
		t.add(tnode{path: deep + "/short.bin", kind: 'f', size: 77, seed: 5, mtime: genMtime(r)})
		t.add(tnode{path: deep + "/sub", kind: 'd', mtime: genMtime(r)})
		t.add(tnode{path: deep + "/" + strings.Repeat("Z", 255), kind: 'x'})
		o.count("beyond-path-max")
		runOne(t, []creq{{op: opOpenDir, path: deep}, {op: opReadDir}, {op: opOpenDir, path: deep}, {op: opReadDirEntry}, {op: opReadDirEntry},
			{op: opReadDirEntry}, {op: opOpenDir, path: deep}, {op: opReadDirEntryV2}, {op: opReadDirEntryV2}, {op: opReadDirEntryV2}, {op: opGetDirSize, path: deep}}, "deep:list")
	}
	// directories with the setgid or the sticky bit (shared storage: chmod g+s, chmod +t) are directories like any other
	{
		t := &tree{}
		t.add(tnode{path: "/", kind: 'd', mtime: genMtime(r)})
		t.add(tnode{path: "/shared", kind: 'd', mtime: genMtime(r), mode: os.ModeSetgid})
		t.add(tnode{path: "/shared/sub", kind: 'd', mtime: genMtime(r), mode: os.ModeSetgid | os.ModeSticky})
		t.add(tnode{path: "/drop", kind: 'd', mtime: genMtime(r), mode: os.ModeSticky})
		t.add(tnode{path: "/shared/a.bin", kind: 'f', size: 10, seed: 1, mtime: genMtime(r)})
		t.add(tnode{path: "/shared/sub/b.bin", kind: 'f', size: 20, seed: 1, mtime: genMtime(r)})
		t.add(tnode{path: "/drop/c.bin", kind: 'f', size: 30, seed: 1, mtime: genMtime(r)})
		o.count("special-mode-directories")
		runOne(t, []creq{{op: opOpenDir, path: "/shared"}, {op: opReadDir}, {op: opOpenDir, path: "/drop"}, {op: opReadDirEntry}, {op: opReadDirEntry},
			{op: opOpenDir, path: "/shared/sub"}, {op: opReadDirEntryV2}, {op: opReadDirEntryV2}, {op: opStatFile, path: "/shared"}, {op: opStatFile, path: "/drop"},
			{op: opGetDirSize, path: "/shared"}, {op: opGetDirSize, path: "/drop"}, {op: opGetDirSize, path: "/"}, {op: opOpenDir, path: "/"}, {op: opReadDir}}, "modes:setgid-sticky")
	}
	// links that do not resolve for other reasons than a missing target - a link to itself (ELOOP), a link whose
	// target leads through a regular file (ENOTDIR) - are dangling links like any other: omitted from listings,
	// nothing to add to a directory size, and no reason to call the size of every directory above them unknown
	{
		t := &tree{}
		t.add(tnode{path: "/", kind: 'd', mtime: genMtime(r)})
		t.add(tnode{path: "/d", kind: 'd', mtime: genMtime(r)})
		t.add(tnode{path: "/d/sub", kind: 'd', mtime: genMtime(r)})
		t.add(tnode{path: "/d/f1", kind: 'f', size: 5, seed: 1, mtime: genMtime(r)})
		t.add(tnode{path: "/d/sub/f2", kind: 'f', size: 3, seed: 1, mtime: genMtime(r)})
		t.add(tnode{path: "/d/self", kind: 'l', target: "/d/self"})
		t.add(tnode{path: "/d/thru", kind: 'l', target: "/d/f1/x"})
		t.add(tnode{path: "/d/pair1", kind: 'l', target: "/d/pair2"})
		t.add(tnode{path: "/d/pair2", kind: 'l', target: "/d/pair1"})
		o.count("unresolvable-links")
		runOne(t, []creq{{op: opGetDirSize, path: "/d"}, {op: opGetDirSize, path: "/"}, {op: opGetDirSize, path: "/d/sub"}, {op: opGetDirSize, path: "/d/self"},
			{op: opStatFile, path: "/d/self"}, {op: opStatFile, path: "/d/thru"}, {op: opOpenDir, path: "/d"}, {op: opReadDir},
			{op: opOpenDir, path: "/d"}, {op: opReadDirEntry}, {op: opReadDirEntry}, {op: opReadDirEntry}, {op: opReadDirEntry}, {op: opOpenDir, path: "/d/thru"}}, "links:unresolvable")
	}
	// links that form a cycle through directories (A/l0 -> B, B/l1 -> A; a link to its own parent): every level
	// resolves until the 41st link of one path does not; what is counted on the way is what the walk finds
	{
		t := &tree{}
		t.add(tnode{path: "/", kind: 'd', mtime: genMtime(r)})
		for _, d := range []string{"/A", "/B", "/C", "/C/in"} {
			t.add(tnode{path: d, kind: 'd', mtime: genMtime(r)})
		}
		t.add(tnode{path: "/A/a.bin", kind: 'f', size: 100, seed: 1, mtime: genMtime(r)})
		t.add(tnode{path: "/B/b.bin", kind: 'f', size: 2049, seed: 2, mtime: genMtime(r)})
		t.add(tnode{path: "/C/c.bin", kind: 'f', size: 7, seed: 3, mtime: genMtime(r)})
		t.add(tnode{path: "/C/in/d.bin", kind: 'f', size: 9, seed: 3, mtime: genMtime(r)})
		t.add(tnode{path: "/A/l0", kind: 'l', target: "/B"})
		t.add(tnode{path: "/B/l1", kind: 'l', target: "/A"})
		o.count("symlink-cycle")
		runOne(t, []creq{{op: opGetDirSize, path: "/A"}, {op: opGetDirSize, path: "/B"}, {op: opGetDirSize, path: "/C"}, {op: opGetDirSize, path: "/"},
			{op: opGetDirSize, path: "/A/l0/l1"}, {op: opStatFile, path: "/A/l0/l1/a.bin"}, {op: opOpenDir, path: "/A"}, {op: opReadDir},
			{op: opOpenDir, path: "/B/l1"}, {op: opReadDirEntry}, {op: opReadDirEntry}, {op: opReadDirEntry}}, "cycle:two-links")
		t2 := &tree{}
		t2.add(tnode{path: "/", kind: 'd', mtime: genMtime(r)})
		t2.add(tnode{path: "/P", kind: 'd', mtime: genMtime(r)})
		t2.add(tnode{path: "/P/sub", kind: 'd', mtime: genMtime(r)})
		t2.add(tnode{path: "/P/sub/f.bin", kind: 'f', size: 33, seed: 4, mtime: genMtime(r)})
		t2.add(tnode{path: "/P/sub/up", kind: 'l', target: "/P"})
		t2.add(tnode{path: "/Q", kind: 'd', mtime: genMtime(r)})
		t2.add(tnode{path: "/Q/q.bin", kind: 'f', size: 5, seed: 4, mtime: genMtime(r)})
		runOne(t2, []creq{{op: opGetDirSize, path: "/P"}, {op: opGetDirSize, path: "/P/sub"}, {op: opGetDirSize, path: "/Q"}, {op: opGetDirSize, path: "/"},
			{op: opOpenDir, path: "/P/sub/up/sub"}, {op: opReadDirEntryV2}, {op: opReadDirEntryV2}, {op: opReadDirEntryV2}}, "cycle:link-to-parent")
	}
	for ti := 0; ti < trees; ti++ {
		t := genTree(r, 4, 8, true)
		if ti%9 == 3 {
			// a directory with many entries
			n := 300
			if thorough {
				n = 3000
			}
			t.add(tnode{path: "/big", kind: 'd', mtime: genMtime(r)})
			for i := 0; i < n; i++ {
				t.add(tnode{path: fmt.Sprintf("/big/e%05d", i), kind: 'f', size: int64(r.intn(5)), seed: 1, mtime: genMtime(r)})
			}
		}
		dirs := t.pathsOf('d')
		for rep := 0; rep < 3; rep++ {
			d := dirs[r.intn(len(dirs))]
			mode := r.intn(4)
			var reqs []creq
			switch mode {
			case 0:
				reqs = []creq{{op: opOpenDir, path: d}, {op: opReadDir}, {op: opReadDir}}
			case 1, 2:
				reqs = []creq{{op: opOpenDir, path: d}}
				op := uint16(opReadDirEntry)
				if mode == 2 {
					op = opReadDirEntryV2
				}
				cnt := 0
				for _, n := range t.nodes {
					if filepath.Dir(n.path) == d && n.path != "/" {
						cnt++
					}
				}
				plain := t.plainFiles()
				for i := 0; i < cnt+2; i++ {
					reqs = append(reqs, creq{op: op})
					if r.chance(10) {
						reqs = append(reqs, creq{op: opStatFile, path: d}) // interleaving must not disturb the cursor
					}
					// ... nor must the connection's other state: a file opened, replaced, closed through the
					// reserved path /CLOSEFILE, or an open that fails, in the middle of an enumeration
					if len(plain) > 0 && (r.chance(12) || (rep == 1 && i == 1)) {
						reqs = append(reqs, creq{op: opOpenFile, path: plain[r.intn(len(plain))]})
						switch r.intn(3) {
						case 0:
							reqs = append(reqs, creq{op: opOpenFile, path: "/CLOSEFILE"})
						case 1:
							reqs = append(reqs, creq{op: opOpenFile, path: "/no-such-file.bin"})
						}
					}
					if r.chance(4) {
						reqs = append(reqs, creq{op: opOpenFile, path: "/CLOSEFILE"})
					}
				}
			default:
				for i := 0; i < 4; i++ {
					n := t.nodes[r.intn(len(t.nodes))]
					reqs = append(reqs, creq{op: opStatFile, path: n.path}, creq{op: opGetDirSize, path: n.path})
				}
				reqs = append(reqs, creq{op: opStatFile, path: "/nonexistent"}, creq{op: opOpenDir, path: "/nonexistent"})
				if fs := t.pathsOf('f'); len(fs) > 0 {
					reqs = append(reqs, creq{op: opOpenDir, path: fs[0]})
				}
			}
			runOne(t, reqs, fmt.Sprintf("%d:%s:%d", ti, d, mode))
		}
	}
}

// c06Run plays one enumeration session against the harness's own walk of the materialised tree.
func c06Run(o *out, t *tree, reqs []creq, key string) {
	{
		{
			runWithOracle(o, t, false, reqs, key, func(root string, nodes []tnode) string {
				var sb strings.Builder
				var cursor []string // names not yet enumerated
				cwdOpen := false
				cwd := ""
				for i, q := range reqs {
					o.count("op:" + opName(q.op))
					switch q.op {
					case opOpenDir:
						p := filepath.Join(root, q.path)
						if st, err := os.Stat(p); err == nil && st.IsDir() {
							f, _ := os.Open(p)
							cursor, _ = f.Readdirnames(-1)
							f.Close()
							cwd, cwdOpen = p, true
							fmt.Fprintf(&sb, "r%d=%s ", i, digest(be32(0)))
						} else {
							if err == nil {
								cwdOpen = false
							}
							fmt.Fprintf(&sb, "r%d=%s ", i, digest(be32(0xffffffff)))
						}
					case opReadDir:
						var recs [][]byte
						if cwdOpen {
							for _, nm := range cursor {
								ri, ok := statReal(filepath.Join(cwd, nm))
								if !ok {
									continue
								}
								rec := append(be64(uint64(ri.size)), be64(uint64(ri.mtime))...)
								if ri.isDir {
									rec = append(rec, 1)
								} else {
									rec = append(rec, 0)
								}
								name := make([]byte, 512)
								copy(name, nm)
								recs = append(recs, append(rec, name...))
							}
							cursor = nil
						}
						sort.Slice(recs, func(a, b int) bool { return bytes.Compare(recs[a][17:], recs[b][17:]) < 0 })
						b := be64(uint64(len(recs)))
						for _, rec := range recs {
							b = append(b, rec...)
						}
						fmt.Fprintf(&sb, "r%d=%s ", i, digest(b))
					case opReadDirEntry, opReadDirEntryV2:
						var ri realInfo
						found := false
						for cwdOpen && len(cursor) > 0 && !found {
							nm := cursor[0]
							cursor = cursor[1:]
							ri, found = statReal(filepath.Join(cwd, nm))
							ri.name = nm
						}
						if !found {
							cwdOpen = false
						}
						var b []byte
						if q.op == opReadDirEntry {
							if !found {
								b = append(be64(^uint64(0)), 0, 0, 0)
							} else {
								b = append(be64(uint64(ri.size)), byte(len(ri.name)>>8), byte(len(ri.name)))
								if ri.isDir {
									b = append(b, 1)
								} else {
									b = append(b, 0)
								}
								b = append(b, ri.name...)
							}
						} else {
							if !found {
								b = append(be64(^uint64(0)), make([]byte, 27)...)
							} else {
								b = append(be64(uint64(ri.size)), be64(uint64(ri.mtime))...)
								b = append(b, make([]byte, 16)...)
								b = append(b, byte(len(ri.name)>>8), byte(len(ri.name)))
								if ri.isDir {
									b = append(b, 1)
								} else {
									b = append(b, 0)
								}
								b = append(b, ri.name...)
							}
						}
						fmt.Fprintf(&sb, "r%d=%s ", i, digest(b))
					case opStatFile:
						ri, ok := statReal(filepath.Join(root, q.path))
						var b []byte
						if !ok {
							b = append(be64(^uint64(0)), make([]byte, 25)...)
						} else {
							b = append(be64(uint64(ri.size)), be64(uint64(ri.mtime))...)
							b = append(b, make([]byte, 16)...)
							if ri.isDir {
								b = append(b, 1)
							} else {
								b = append(b, 0)
							}
						}
						fmt.Fprintf(&sb, "r%d=%s ", i, digest(b))
					case opGetDirSize:
						fmt.Fprintf(&sb, "r%d=%s ", i, digest(be64(uint64(dirSizeAnswer(filepath.Join(root, q.path))))))
					case opOpenFile:
						// only used with plain regular files, the reserved path /CLOSEFILE and missing paths:
						// whatever happens to the connection's file must leave the enumeration alone
						if q.path == "/CLOSEFILE" {
							fmt.Fprintf(&sb, "r%d=%s ", i, digest(make([]byte, 16)))
						} else if ri, ok := statReal(filepath.Join(root, q.path)); ok && !ri.isDir {
							fmt.Fprintf(&sb, "r%d=%s ", i, digest(append(be64(uint64(ri.size)), be64(uint64(ri.mtime))...)))
						} else {
							fmt.Fprintf(&sb, "r%d=%s ", i, digest(append(be64(^uint64(0)), make([]byte, 8)...)))
						}
					}
				}
				sb.WriteString("end=-")
				return sb.String()
			})
		}
	}
}

// ---------- C17: PSX CD sector reads ----------

var cdSectorSizes = []int64{2048, 2328, 2336, 2340, 2352, 2368, 2448}

func c17Stream(o *out, r *rng, thorough bool) {
	magic1 := []byte("\x01CD001")
	magic2 := []byte("PLAYSTATION ")
	type img struct {
		n      tnode
		secLen int64 // what the server must assume
	}
	mkImg := func(name string, size int64, sec int64, sig int) img {
		n := tnode{path: "/" + name, kind: 'f', size: size, seed: sparseSeed, mtime: genMtime(r)}
		pos := 24 + 16*sec
		switch sig {
		case 1:
			n.overlays = append(n.overlays, overlay{pos, magic1})
		case 2:
			n.overlays = append(n.overlays, overlay{pos + 8, magic2})
		}
		// recognisable user data in a few sectors
		for _, s := range []int64{0, 1, 2, 5, 16, 17, 100} {
			d := make([]byte, 48)
			for i := range d {
				d[i] = byte(r.next())
			}
			if 24+s*sec+2048 <= size && s != 16 {
				n.overlays = append(n.overlays, overlay{24 + s*sec + int64(r.intn(2000)), d})
			}
		}
		assumed := int64(2352)
		if sig != 0 && size >= 0x200000 && size <= 0x35000000 {
			assumed = sec
		}
		return img{n, assumed}
	}
	var imgs []img
	for i, sec := range cdSectorSizes {
		for sig := 1; sig <= 2; sig++ {
			imgs = append(imgs, mkImg(fmt.Sprintf("cd%d_%d.bin", i, sig), 0x200000+int64(r.intn(1<<20)), sec, sig))
		}
	}
	imgs = append(imgs, mkImg("nosig.bin", 0x300000, 2336, 0))
	imgs = append(imgs, mkImg("small.bin", 0x200000-1, 2336, 1))    // below the window: 2352 assumed
	imgs = append(imgs, mkImg("edge_lo.bin", 0x200000, 2340, 2))    // exactly at the window's lower edge
	imgs = append(imgs, mkImg("edge_hi.bin", 0x35000000, 2448, 1))  // exactly at the upper edge
	imgs = append(imgs, mkImg("toobig.bin", 0x35000000+1, 2448, 1)) // above: 2352 assumed
	reps := 16
	if thorough {
		reps = 120
	}
	for rep := 0; rep < reps; rep++ {
		// several images on one connection: re-opening must reset the sector size
		t := &tree{}
		t.add(tnode{path: "/", kind: 'd', mtime: genMtime(r)})
		k := 2 + r.intn(3)
		var chosen []img
		for i := 0; i < k; i++ {
			im := imgs[r.intn(len(imgs))]
			dup := false
			for _, c := range chosen {
				if c.n.path == im.n.path {
					dup = true
				}
			}
			if !dup {
				chosen = append(chosen, im)
				t.add(im.n)
			}
		}
		var reqs []creq
		type exp struct {
			im    img
			start int64
			count int64
		}
		var exps []exp
		for _, im := range chosen {
			reqs = append(reqs, creq{op: opOpenFile, path: im.n.path})
			exps = append(exps, exp{im: im, start: -1})
			nr := 1 + r.intn(4)
			for j := 0; j < nr; j++ {
				start := int64(r.pick(0, 1, 2, 5, 15, 16, 17, 99, 100, 3))
				count := int64(r.pick(0, 1, 2, 3, 1, 2))
				if (start+count)*im.secLen+24 > im.n.size {
					continue
				}
				reqs = append(reqs, creq{op: opReadCD2048, a: uint64(start), b: uint64(count)})
				exps = append(exps, exp{im: im, start: start, count: count})
			}
		}
		// a start sector far beyond the end whose byte offset is a multiple of 2^32 (2^32/gcd(S,2^32), and
		// neighbours): nothing may be delivered - 64-bit offset arithmetic must not wrap into the file
		if rep%2 == 1 {
			lastIm := chosen[len(chosen)-1]
			wrap := int64(1) << 32
			for g := lastIm.secLen; g%2 == 0; g /= 2 {
				wrap /= 2
			}
			st := wrap + int64(r.pick(0, 0, 1, 16))
			reqs = append(reqs, creq{op: opReadCD2048, a: uint64(st), b: 1})
			exps = append(exps, exp{im: lastIm, start: st, count: 1})
		} else {
			// finally a range crossing the end of the last image: correct prefix, then disconnect
			last := chosen[len(chosen)-1]
			lastSector := (last.n.size - 24) / last.secLen
			reqs = append(reqs, creq{op: opReadCD2048, a: uint64(lastSector - 1), b: 3})
			exps = append(exps, exp{im: last, start: lastSector - 1, count: 3})
		}
		key := fmt.Sprintf("%d:%s", rep, encodeReqs(reqs))
		runWithOracle(o, t, false, reqs, key, func(root string, nodes []tnode) string {
			var sb strings.Builder
			for i, e := range exps {
				if e.start < 0 {
					fmt.Fprintf(&sb, "r%d=%s ", i, digest(append(be64(uint64(e.im.n.size)), be64(uint64(e.im.n.mtime))...)))
					o.count(fmt.Sprintf("sector:%d", e.im.secLen))
					continue
				}
				var data []byte
				short := false
				for k := int64(0); k < e.count; k++ {
					d := e.im.n.slice(24+(e.start+k)*e.im.secLen, 2048)
					data = append(data, d...)
					if len(d) < 2048 {
						short = true
						break
					}
				}
				if short {
					fmt.Fprintf(&sb, "r%d=X:%s", i, digest(data))
					return sb.String()
				}
				fmt.Fprintf(&sb, "r%d=%s ", i, digest(data))
			}
			sb.WriteString("end=-")
			return sb.String()
		})
	}
}

// ---------- C05: write gating ----------

func c05Stream(o *out, r *rng, thorough bool) {
	n := 60
	if thorough {
		n = 600
	}
	// read-only servers bombarded with mutating requests: nothing may change, every one refused
	for i := 0; i < n; i++ {
		t := genTree(r, 3, 4, false)
		reqs := genSession(r, t, 3+r.intn(12), false, 100)
		// make sure mutating opcodes dominate
		for j := range reqs {
			if r.chance(40) {
				switch r.intn(5) {
				case 0:
					reqs[j] = creq{op: opCreateFile, path: genPath(r, t, 'f')}
				case 1:
					pl := make([]byte, r.pick(0, 1, 100, 70000))
					reqs[j] = creq{op: opWriteFile, payload: pl, announced: uint32(len(pl))}
				case 2:
					reqs[j] = creq{op: opDeleteFile, path: genPath(r, t, 'f')}
				case 3:
					reqs[j] = creq{op: opMkdir, path: "/mk" + fmt.Sprint(r.intn(3))}
				default:
					reqs[j] = creq{op: opRmdir, path: genPath(r, t, 'd')}
				}
			}
		}
		for _, q := range reqs {
			o.count("ro:" + opName(q.op))
		}
		before := ""
		runWithOracle(o, t, false, reqs, fmt.Sprintf("ro%d", i), func(root string, nodes []tnode) string {
			before, _ = snapshot(root, 0)
			return ""
		})
		_ = before
	}
	// writing enabled: uploads (create + chunked writes), read back through the server and from disk
	for i := 0; i < n; i++ {
		t := genTree(r, 3, 3, false)
		var reqs []creq
		ups := 1 + r.intn(3)
		for u := 0; u < ups; u++ {
			target := "/up" + fmt.Sprint(u)
			switch r.intn(5) {
			case 0:
				if fs := t.pathsOf('f'); len(fs) > 0 {
					target = fs[r.intn(len(fs))] // existing file: truncated, then rewritten
				}
			case 1:
				ds := t.pathsOf('d')
				target = strings.TrimSuffix(ds[r.intn(len(ds))], "/") + "/nested-up"
			case 2:
				target = "/***DVD***/up" // virtual paths can never be written
			case 3:
				target = "/no/such/dir/up"
			}
			reqs = append(reqs, creq{op: opCreateFile, path: target})
			chunks := r.intn(5)
			for c := 0; c < chunks; c++ {
				pl := make([]byte, r.pick(0, 1, 100, 2048, 65535, 65536, 65537, 140000))
				for k := range pl {
					pl[k] = byte(r.next())
				}
				reqs = append(reqs, creq{op: opWriteFile, payload: pl, announced: uint32(len(pl))})
				if r.chance(25) {
					reqs = append(reqs, creq{op: opStatFile, path: target})
				}
			}
			if r.chance(60) {
				// the way a client ends an upload: CREATE_FILE on a directory closes the write file (answer 0);
				// a WRITE_FILE straying in afterwards has nowhere to go: refused, the upload stays as it was
				ds := t.pathsOf('d')
				stray := make([]byte, r.pick(1, 11, 3000))
				for k := range stray {
					stray[k] = byte(r.next())
				}
				reqs = append(reqs, creq{op: opCreateFile, path: ds[r.intn(len(ds))]}, creq{op: opWriteFile, payload: stray, announced: uint32(len(stray))},
					creq{op: opStatFile, path: target})
				o.count("rw:upload-closed-then-stray-write")
			}
			reqs = append(reqs, creq{op: opOpenFile, path: target}, creq{op: opReadFile, a: 300000, b: 0})
		}
		if r.chance(50) {
			reqs = append(reqs, creq{op: opMkdir, path: "/newdir"}, creq{op: opMkdir, path: "/newdir"}, creq{op: opRmdir, path: "/newdir"}, creq{op: opRmdir, path: "/newdir"})
		}
		if fs := t.pathsOf('f'); len(fs) > 0 && r.chance(50) {
			f := fs[r.intn(len(fs))]
			reqs = append(reqs, creq{op: opRmdir, path: f}, creq{op: opDeleteFile, path: f}, creq{op: opDeleteFile, path: f}, creq{op: opStatFile, path: f})
		}
		if ds := t.pathsOf('d'); len(ds) > 1 && r.chance(50) {
			d := ds[1+r.intn(len(ds)-1)]
			reqs = append(reqs, creq{op: opDeleteFile, path: d}, creq{op: opRmdir, path: d}, creq{op: opStatFile, path: d})
		}
		for _, q := range reqs {
			o.count("rw:" + opName(q.op))
		}
		runWithOracle(o, t, true, reqs, fmt.Sprintf("rw%d", i), nil)
	}
	// the served root itself, in every spelling that cleans to it, on an empty and on a populated root:
	// it must never be removed (nor "deleted"), and it is still there afterwards
	for i, spelling := range []string{"/", "", "/..", "/x/../..", "/.", "//", "/../.."} {
		t := &tree{}
		t.add(tnode{path: "/", kind: 'd', mtime: genMtime(r)})
		if i%2 == 1 {
			t.add(tnode{path: "/keep.bin", kind: 'f', size: 10, seed: 1, mtime: genMtime(r)})
		}
		reqs := []creq{{op: opRmdir, path: spelling}, {op: opDeleteFile, path: spelling}, {op: opStatFile, path: "/"}, {op: opOpenDir, path: "/"}, {op: opReadDir}}
		o.count("rw:root-spelling")
		runWithOracle(o, t, true, reqs, fmt.Sprintf("rwroot%d", i), nil)
	}
}

func init() {
	streams["c02"] = func(o *out, r *rng, thorough bool) { c02Stream(o, r, thorough); c02VisoStream(o, r, thorough) }
	streams["c06"] = c06Stream
	streams["c17"] = c17Stream
	streams["c05"] = func(o *out, r *rng, thorough bool) { c05Stream(o, r, thorough); c05Big(o) }
}

// c05Big: WRITE_FILE announcing 2^31 bytes (more than the 32-bit answer can report) with writing enabled.
// The payload is streamed (zeros); the model is asked for its answer to the same command without the
// payload being materialised on either side. Observed: the answer, that the connection is still in step,
// and how many bytes reached the file.
func c05Big(o *out) {
	for _, announced := range []uint64{1 << 31, 1<<32 - 1} {
		res := "error"
		withTempRoot(func(root string) {
			env := newConnEnv(root, true, 65536)
			defer env.close()
			lc := &lockClient{c: env.ln.dial(), sessionStart: time.Now().Unix(), timeout: 120 * time.Second}
			defer lc.c.Close()
			if ob := lc.do(creq{op: opCreateFile, path: "/up.bin"}, false); ob.closed || ob.timeout {
				res = "create-failed"
				return
			}
			hdr := creq{op: opWriteFile, announced: uint32(announced)}.bytes()
			go func() {
				lc.c.Write(hdr[:16])
				chunk := make([]byte, 1<<20)
				for left := announced; left > 0; {
					n := uint64(len(chunk))
					if left < n {
						n = left
					}
					if _, err := lc.c.Write(chunk[:n]); err != nil {
						return
					}
					left -= n
				}
			}()
			b, closed, to := lc.readN(4)
			if closed || to {
				res = fmt.Sprintf("resp=none closed=%v timeout=%v", closed, to)
				return
			}
			insync := 0
			if ob := lc.do(creq{op: opStatFile, path: "/"}, false); !ob.closed && !ob.timeout && len(ob.data) == 33 {
				insync = 1
			}
			size := int64(-1)
			if st, err := os.Stat(filepath.Join(root, "up.bin")); err == nil {
				size = st.Size()
			}
			res = fmt.Sprintf("resp=%x insync=%d size=%d", b, insync, size)
		})
		o.count("big-write")
		o.emit(fmt.Sprintf("c05big %d", announced), res, "", fmt.Sprintf("big-write-%d", announced))
	}
}
