//go:build verif

package main

import (
	"fmt"
	"io"
	"net"
	"os"
	"path/filepath"
	"strings"
	"sync"
	"time"
)

type tchunk struct {
	delayMs int
	data    []byte
}

type tscript struct {
	name   string
	chunks []tchunk
	sizes  []int // response sizes of the requests in order, when not all are STAT answers (33 bytes)
}

// responses: how many complete responses the received bytes make up
func (sc tscript) responses(got int) int {
	if sc.sizes == nil {
		return got / 33
	}
	n := 0
	for _, sz := range sc.sizes {
		if got < sz {
			break
		}
		got -= sz
		n++
	}
	return n
}

func encodeChunks(cs []tchunk) string {
	if len(cs) == 0 {
		return "-"
	}
	parts := make([]string, len(cs))
	for i, c := range cs {
		parts[i] = fmt.Sprintf("%d:%s", c.delayMs, hx(c.data))
	}
	return strings.Join(parts, ",")
}

// c16Scripts: all delays are multiples of the bucket so that predicted cut times sit at bucket centres.
func c16Scripts(T int) []tscript {
	b := T / 2
	req := statRootReq
	long := creq{op: opStatFile, path: "/some/longer/path/that/does/not/exist"}.bytes()
	var out []tscript
	out = append(out, tscript{"silent-after-connect", nil, nil})
	out = append(out, tscript{"three-requests-then-silent", []tchunk{{0, req}, {0, req}, {b, req}}, nil})
	out = append(out, tscript{"half-command-then-silent", []tchunk{{b, req[:8]}}, nil})
	out = append(out, tscript{"command-then-partial-path", []tchunk{{0, req}, {b, long[:20]}}, nil})
	// active: a request every T/2 for 6T, then silence
	var active []tchunk
	for i := 0; i < 12; i++ {
		active = append(active, tchunk{b, req})
	}
	out = append(out, tscript{"active-every-half-T", active, nil})
	// slow delivery of ONE command: 4 pieces T/2 apart -> takes 1.5T > T: partial bytes do not re-arm the timer
	out = append(out, tscript{"slowloris", []tchunk{{0, req[:4]}, {b, req[4:8]}, {b, req[8:12]}, {b, req[12:]}}, nil})
	// a request in two halves T/2 apart (complete within T): served
	out = append(out, tscript{"two-halves-in-time", []tchunk{{0, long[:10]}, {b, long[10:]}, {b, req}}, nil})
	// path arrives T/2 after its command: still the same deadline, still in time
	out = append(out, tscript{"path-after-command", []tchunk{{0, long[:16]}, {b, long[16:]}}, nil})
	// long-lived: requests spaced just under T (one bucket) for 8T
	var slow []tchunk
	for i := 0; i < 8; i++ {
		slow = append(slow, tchunk{b, req}, tchunk{0, long})
	}
	out = append(out, tscript{"long-lived", slow, nil})
	// stalled inside the payload of a WRITE_FILE (writing is off: the handler refuses at once and the
	// rest of the payload is drained - the drain is where the deadline strikes): no answer, cut at T
	wr := creq{op: opWriteFile, payload: make([]byte, 100), announced: 1000}.bytes()
	out = append(out, tscript{"stall-in-write-payload", []tchunk{{0, req}, {b, wr}}, []int{33, 4}})
	// the same after the whole payload has arrived in two parts in time: answered (-1), then idle
	wr2 := creq{op: opWriteFile, payload: make([]byte, 1000), announced: 1000}.bytes()
	out = append(out, tscript{"write-payload-two-parts", []tchunk{{0, wr2[:500]}, {b, wr2[500:]}}, []int{4}})
	return out
}

func runScript(env *tcpEnv, sc tscript, bucketMs int, limit time.Duration) string {
	c, err := net.Dial("tcp4", env.addr)
	if err != nil {
		return "dialerr"
	}
	defer c.Close()
	start := time.Now()
	var mu sync.Mutex
	got := 0
	cutAt := time.Duration(-1)
	done := make(chan struct{})
	go func() {
		buf := make([]byte, 4096)
		for {
			n, err := c.Read(buf)
			mu.Lock()
			got += n
			if err != nil {
				cutAt = time.Since(start)
				mu.Unlock()
				close(done)
				return
			}
			mu.Unlock()
		}
	}()
	// chunks are sent at absolute times (no accumulating drift); what lateness remains under load is
	// measured and taken out of the observed cut time, because the server's deadline runs from the
	// moment the bytes really arrived
	planned := time.Duration(0)
	late := time.Duration(0)
	for _, ch := range sc.chunks {
		planned += time.Duration(ch.delayMs) * time.Millisecond
		if d := time.Until(start.Add(planned)); d > 0 {
			time.Sleep(d)
		}
		mu.Lock()
		over := cutAt >= 0
		mu.Unlock()
		if over {
			break
		}
		if _, err := c.Write(ch.data); err != nil {
			break
		}
		late = time.Since(start) - planned
	}
	select {
	case <-done:
	case <-time.After(limit):
	}
	mu.Lock()
	defer mu.Unlock()
	if cutAt < 0 {
		return fmt.Sprintf("resp=%d cut=never", sc.responses(got))
	}
	ms := int((cutAt - late) / time.Millisecond)
	return fmt.Sprintf("resp=%d cut=%d", sc.responses(got), (ms+bucketMs/2)/bucketMs)
}

func c16Stream(o *out, r *rng, thorough bool) {
	root, err := os.MkdirTemp("", "vroot16-")
	if err != nil {
		return
	}
	defer os.RemoveAll(root)
	Ts := []int{300}
	if thorough {
		Ts = []int{200, 400, 1000}
	}
	for _, T := range Ts {
		env, err := newTCPEnv(root, "", 0, time.Duration(T)*time.Millisecond)
		if err != nil {
			continue
		}
		scripts := c16Scripts(T)
		res := make([]string, len(scripts))
		var wg sync.WaitGroup
		for i, sc := range scripts {
			wg.Add(1)
			go func(i int, sc tscript) {
				defer wg.Done()
				total := 0
				for _, ch := range sc.chunks {
					total += ch.delayMs
				}
				res[i] = runScript(env, sc, T/2, time.Duration(total+3*T)*time.Millisecond)
			}(i, sc)
		}
		wg.Wait()
		env.close()
		for i, sc := range scripts {
			o.count("script:" + sc.name)
			o.emit(fmt.Sprintf("c16 %d %d %s %s", T, T/2, sc.name, encodeChunks(sc.chunks)), res[i], "", fmt.Sprintf("%d:%s", T, sc.name))
		}
	}
	// the write side: a client that stops reading its response, and one that keeps draining a long one
	big := filepath.Join(root, "big.bin")
	if f, err := os.Create(big); err == nil {
		f.Truncate(1 << 30)
		f.Close()
	}
	for _, T := range Ts {
		env, err := newTCPEnv(root, "", 0, time.Duration(T)*time.Millisecond)
		if err != nil {
			continue
		}
		// one after the other: the descriptor count of the first must not see the second's file
		stalled := runStalledReader(env, big, T)
		steady := runSteadyReader(env, T)
		env.close()
		o.count("write-side:stalled")
		o.count("write-side:steady")
		o.emit(fmt.Sprintf("c16w %d stalled", T), stalled, "", fmt.Sprintf("%d:stalled-reader", T))
		o.emit(fmt.Sprintf("c16w %d steady", T), steady, "", fmt.Sprintf("%d:steady-reader", T))
	}
	// no timeout configured: an idle connection is never cut
	env, err := newTCPEnv(root, "", 0, 0)
	if err == nil {
		c, err := net.Dial("tcp4", env.addr)
		if err == nil {
			c.SetReadDeadline(time.Now().Add(900 * time.Millisecond))
			buf := make([]byte, 1)
			_, rerr := io.ReadFull(c, buf)
			obs := "resp=0 cut=never"
			if ne, ok := rerr.(net.Error); !(ok && ne.Timeout()) {
				obs = "resp=0 cut=early"
			}
			c.Close()
			o.emit("c16 0 150 no-timeout -", obs, "", "T0")
		}
		env.close()
	}
}

func init() {
	streams["c16"] = c16Stream
}

// openCount: how many descriptors of this process refer to the file (the server runs in-process)
func openCount(path string) int {
	ents, err := os.ReadDir("/proc/self/fd")
	if err != nil {
		return -1
	}
	n := 0
	for _, e := range ents {
		if t, err := os.Readlink("/proc/self/fd/" + e.Name()); err == nil && t == path {
			n++
		}
	}
	return n
}

func openBigAndAsk(env *tcpEnv, length uint64) (net.Conn, bool) {
	c, err := net.Dial("tcp4", env.addr)
	if err != nil {
		return nil, false
	}
	c.SetDeadline(time.Now().Add(60 * time.Second))
	c.Write(creq{op: opOpenFile, path: "/big.bin"}.bytes())
	if _, err := io.ReadFull(c, make([]byte, 16)); err != nil {
		c.Close()
		return nil, false
	}
	c.Write(creq{op: opReadFile, a: length, b: 0}.bytes())
	return c, true
}

// runStalledReader: ask for 512 MiB, read nothing for 3T. By then the server must have given the
// connection up and closed the file; what can still be read afterwards is only what sat in buffers.
func runStalledReader(env *tcpEnv, big string, T int) string {
	const length = 512 << 20
	c, ok := openBigAndAsk(env, length)
	if !ok {
		return "dialerr"
	}
	defer c.Close()
	time.Sleep(time.Duration(3*T) * time.Millisecond)
	handles := "released"
	if n := openCount(big); n != 0 {
		handles = fmt.Sprintf("held(%d)", n)
	}
	got, _ := io.Copy(io.Discard, c)
	cut := "yes"
	if got >= length+4 {
		cut = "no"
	}
	return fmt.Sprintf("cut=%s handles=%s", cut, handles)
}

// runSteadyReader: drain 256 MiB in 64 steps spread over about 3T: the response takes longer than T
// but no single write waits anywhere near T, so it must arrive in full.
func runSteadyReader(env *tcpEnv, T int) string {
	const length = 256 << 20
	c, ok := openBigAndAsk(env, length)
	if !ok {
		return "dialerr"
	}
	defer c.Close()
	hdr := make([]byte, 4)
	if _, err := io.ReadFull(c, hdr); err != nil {
		return "served=short"
	}
	buf := make([]byte, 4<<20)
	total := 0
	for i := 0; i < 64; i++ {
		n, err := io.ReadFull(c, buf)
		total += n
		if err != nil {
			break
		}
		time.Sleep(time.Duration(3*T) * time.Millisecond / 64)
	}
	if total == length {
		return "served=full"
	}
	return fmt.Sprintf("served=short(%d)", total)
}
