//go:build verif

package main

import (
	"bytes"
	"fmt"
	"os"
	"os/exec"
	"path/filepath"
	"strings"
	"time"
)

func binPath() string {
	if p := os.Getenv("VERIF_BIN"); p != "" {
		return p
	}
	if exe, err := os.Executable(); err == nil { // the harness and the real binary are built into the same directory
		return filepath.Join(filepath.Dir(exe), "ps3netsrv-go")
	}
	return "/verif/.build/ps3netsrv-go"
}

type toolRes struct {
	stdout, stderr []byte
	exit           int
	timedOut       bool
}

func runTool(dir string, env []string, args ...string) toolRes {
	cmd := exec.Command(binPath(), args...)
	cmd.Dir = dir
	cmd.Env = append([]string{"TZ=UTC", "HOME=" + dir, "XDG_CONFIG_HOME=" + filepath.Join(dir, ".config"), "PATH=/usr/bin:/bin"}, env...)
	var so, se bytes.Buffer
	cmd.Stdout, cmd.Stderr = &so, &se
	if err := cmd.Start(); err != nil {
		return toolRes{exit: -1, stderr: []byte(err.Error())}
	}
	done := make(chan error, 1)
	go func() { done <- cmd.Wait() }()
	var res toolRes
	select {
	case err := <-done:
		if err != nil {
			if ee, ok := err.(*exec.ExitError); ok {
				res.exit = ee.ExitCode()
			} else {
				res.exit = -1
			}
		}
	case <-time.After(60 * time.Second):
		cmd.Process.Kill()
		<-done
		res.timedOut = true
		res.exit = -2
	}
	res.stdout, res.stderr = so.Bytes(), se.Bytes()
	return res
}

func exitClass(r toolRes) string {
	switch {
	case r.timedOut:
		return "timeout"
	case r.exit == 0:
		return "ok"
	case r.exit == 1 || r.exit == 80:
		return "error" // kong's FatalIfErrorf: a normal error exit
	case r.exit == 2 && !bytes.Contains(r.stderr, []byte("goroutine ")):
		return "error"
	default:
		if bytes.Contains(r.stderr, []byte("panic:")) || bytes.Contains(r.stderr, []byte("fatal error:")) {
			return "CRASH"
		}
		return fmt.Sprintf("exit%d", r.exit)
	}
}

func fileState(p string) string {
	st, err := os.Lstat(p)
	if err != nil {
		return "absent"
	}
	if st.IsDir() {
		return "dir"
	}
	b, _ := os.ReadFile(p)
	return fmt.Sprintf("file:%d:%016x", len(b), fnv1a(b))
}

// ---------- C20 ----------

func c20Stream(o *out, r *rng, thorough bool) {
	nTrees, nImgs := 5, 6
	if thorough {
		nTrees, nImgs = 40, 60
	}
	// make-iso: exactly the image the server would serve (the model's image), to a file and to stdout
	for ti := 0; ti < nTrees; ti++ {
		t, dir := genVisoTree(r, false)
		if dir == "/" {
			continue
		}
		ps3 := r.chance(40)
		if ps3 {
			addPS3Game(r, t, dir, r.picks("BCES00104", "BLUS12345", "AB"))
		}
		withTempRoot(func(root string) {
			if err := t.materialize(root); err != nil {
				return
			}
			nodes, err := t.ordered(root)
			if err != nil {
				return
			}
			work := filepath.Dir(root)
			src := filepath.Join(root, dir)
			// the directory as shell completion spells it: with a trailing separator (or two) - the image is the same
			switch ti % 3 {
			case 1:
				src += "/"
			case 2:
				src += "//"
			}
			for _, target := range []string{"new", "stdout", "existing-file", "existing-dir"} {
				args := []string{"make-iso", src}
				outPath := filepath.Join(work, "out.iso")
				os.Remove(outPath)
				before := ""
				switch target {
				case "stdout":
					args = append(args, "-")
				case "existing-file":
					os.WriteFile(outPath, []byte("precious user data"), 0o644)
					before = fileState(outPath)
					args = append(args, outPath)
				case "existing-dir":
					outPath = filepath.Join(work, "outdir")
					os.Mkdir(outPath, 0o755)
					before = fileState(outPath)
					args = append(args, outPath)
				default:
					args = append(args, outPath)
				}
				if ps3 {
					args = append(args, "--ps3-mode")
				}
				res := runTool(work, nil, args...)
				var img []byte
				obs := "exit=" + exitClass(res)
				switch target {
				case "new":
					img, _ = os.ReadFile(outPath)
					if len(res.stdout) != 0 {
						obs += " STDOUT-NOT-EMPTY"
					}
				case "stdout":
					img = res.stdout
				default:
					if after := fileState(outPath); after != before {
						obs += " CLOBBERED:" + after
					} else {
						obs += " untouched"
					}
				}
				if target == "new" || target == "stdout" {
					if res.exit == 0 {
						maskImage(img, 0, ps3)
						obs += fmt.Sprintf(" size=%d full=%s", len(img), digest(img))
					} else if st := fileState(outPath); target == "new" && st != "absent" && !strings.HasPrefix(st, "file:0:") {
						obs += " partial-output"
					}
				}
				p := 0
				if ps3 {
					p = 1
				}
				o.count("mkiso:" + target)
				o.emit(fmt.Sprintf("mkiso %d %s %s %s", p, target, encodeTree(nodes), hx([]byte(dir))), obs, "", fmt.Sprintf("mk%d%s", ti, target))
			}
		})
	}
	// decrypt: exactly the reference plaintext (header cleared; 3k3y area blanked), file and stdout;
	// then served back from a PS3ISO and a non-PS3ISO location without a second transformation
	for ii := 0; ii < nImgs; ii++ {
		// both formats in turn, and the first image of each with a valid table whatever the seed: the
		// successful runs (new file, stdout) are where a stray byte on standard output would show
		kind := []string{"redump", "3k3y"}[ii%2]
		sectors := uint32(r.pick(8, 12, 20, 33))
		im := genEncImage(r, "/img.iso", sectors, int64(r.pick(0, 0, 100)))
		for ii < 2 && !im.valid {
			im = genEncImage(r, "/img.iso", sectors, int64(r.pick(0, 0, 100)))
		}
		key := randKey(r)
		if kind == "3k3y" {
			im.node.overlays = append(im.node.overlays, overlay{0xF70, wmEnc}, overlay{0xF80, key})
			if r.chance(15) {
				im.node.overlays[1] = overlay{0xF70, wmDec} // already decrypted: the tool must refuse
				kind = "3k3y-dec"
			}
		}
		t := &tree{}
		t.add(tnode{path: "/", kind: 'd', mtime: genMtime(r)})
		t.add(im.node)
		t.add(keyFileNode("/key.dkey", key, r, r.intn(3)))
		withTempRoot(func(root string) {
			if err := t.materialize(root); err != nil {
				return
			}
			work := filepath.Dir(root)
			// the tool's own expectation from the independent reference
			var want []byte
			ok := im.valid && kind != "3k3y-dec"
			if ok {
				want = refPlain(&im.node, im.regs, key, 0, im.node.size)
				hdr := 8 + 8*len(im.regs)
				for i := 0; i < hdr && i < len(want); i++ {
					want[i] = 0
				}
				if kind == "3k3y" {
					refMask3k3y(want, 0)
				}
			}
			for _, target := range []string{"new", "stdout", "existing-file"} {
				outPath := filepath.Join(work, "dec.iso")
				os.Remove(outPath)
				args := []string{"decrypt"}
				if kind == "redump" {
					args = append(args, "redump", filepath.Join(root, "img.iso"), filepath.Join(root, "key.dkey"))
				} else {
					args = append(args, "3k3y", filepath.Join(root, "img.iso"))
				}
				before := ""
				switch target {
				case "stdout":
					args = append(args, "-")
				case "existing-file":
					os.WriteFile(outPath, []byte("precious user data"), 0o644)
					before = fileState(outPath)
					args = append(args, outPath)
				default:
					args = append(args, outPath)
				}
				res := runTool(work, nil, args...)
				obs := "exit=" + exitClass(res)
				orc := "exit=error"
				if ok {
					orc = "exit=ok"
				}
				var got []byte
				switch target {
				case "new":
					got, _ = os.ReadFile(outPath)
				case "stdout":
					got = res.stdout
				default:
					orc = "exit=error untouched"
					if after := fileState(outPath); after != before {
						obs += " CLOBBERED:" + after
					} else {
						obs += " untouched"
					}
				}
				if target != "existing-file" && res.exit == 0 {
					obs += fmt.Sprintf(" size=%d full=%s", len(got), digest(got))
				}
				if target != "existing-file" && ok {
					orc += fmt.Sprintf(" size=%d full=%s", len(want), digest(want))
				}
				o.count("decrypt:" + kind + ":" + target)
				o.emit(fmt.Sprintf("dec %s %s %s %s", kind, target, encodeTree([]tnode{im.node}), hx(key)), obs, orc, fmt.Sprintf("dec%d%s", ii, target))
			}
			// served back byte-identically, from PS3ISO and from elsewhere
			if ok {
				out := tnode{kind: 'f', size: int64(len(want)), seed: 0, mtime: genMtime(r), overlays: []overlay{{0, want}}}
				for _, loc := range []string{"/PS3ISO", "/other"} {
					st := &tree{}
					st.add(tnode{path: "/", kind: 'd', mtime: genMtime(r)})
					st.add(tnode{path: loc, kind: 'd', mtime: genMtime(r)})
					nd := out
					nd.path = loc + "/decrypted.iso"
					st.add(nd)
					reqs := []creq{{op: opOpenFile, path: nd.path}, {op: opReadFile, a: uint64(len(want) + 10), b: 0},
						{op: opReadFile, a: 600, b: 0xF00}, {op: opReadFile, a: 5000, b: 1000}}
					o.count("served-back:" + loc)
					runWithOracle(o, st, false, reqs, fmt.Sprintf("back%d%s", ii, loc), func(root string, nodes []tnode) string {
						return expectReads(reqs, nd.size, nd.mtime, true, func(off, cnt int64) []byte { return nd.slice(off, cnt) })
					})
				}
			}
		})
	}
	// the window between the existence test and the open of the output file
	{
		d, err := os.MkdirTemp("", "vracesrc-")
		if err == nil {
			os.Mkdir(filepath.Join(d, "SRC"), 0o755)
			os.WriteFile(filepath.Join(d, "SRC", "f.bin"), []byte("content"), 0o644)
			os.WriteFile(filepath.Join(d, "img.iso"), make([]byte, 4096), 0o644)
			os.WriteFile(filepath.Join(d, "img.dkey"), []byte("00112233445566778899aabbccddeeff"), 0o644)
			c20Race(o, []string{"make-iso", filepath.Join(d, "SRC")}, "make-iso")
			if thorough {
				c20Race(o, []string{"decrypt", "redump", filepath.Join(d, "img.iso"), filepath.Join(d, "img.dkey")}, "decrypt-redump")
				c20Race(o, []string{"decrypt", "3k3y", filepath.Join(d, "img.iso")}, "decrypt-3k3y")
			}
			os.RemoveAll(d)
		}
	}
}

// c20Race: the output path is created by somebody else BETWEEN the tool's existence test and its open
// (the window is held open by delaying the return of the tool's stat of that path with strace's syscall
// injection): the tool must fail and the newcomer's bytes must survive.
func c20Race(o *out, tool []string, key string) {
	strace, err := exec.LookPath("strace")
	if err != nil {
		o.count("race-probe:skipped-no-strace")
		return
	}
	work, err := os.MkdirTemp("", "vrace-")
	if err != nil {
		return
	}
	defer os.RemoveAll(work)
	outPath := filepath.Join(work, "out.bin")
	args := append([]string{"-f", "-o", os.DevNull, "-P", outPath, "-e", "trace=newfstatat,stat,statx,lstat",
		"-e", "inject=newfstatat,stat,statx,lstat:delay_exit=1200000", binPath()}, tool...)
	args = append(args, outPath)
	cmd := exec.Command(strace, args...)
	cmd.Dir = work
	var stderr bytes.Buffer
	cmd.Stderr = &stderr
	if err := cmd.Start(); err != nil {
		o.count("race-probe:skipped-strace-unusable")
		return
	}
	time.Sleep(500 * time.Millisecond)
	precious := []byte("PRECIOUS DATA OF SOMEBODY ELSE - must survive")
	f, err := os.OpenFile(outPath, os.O_WRONLY|os.O_CREATE|os.O_EXCL, 0o644)
	if err != nil {
		cmd.Wait()
		o.count("race-probe:window-missed")
		return
	}
	f.Write(precious)
	f.Close()
	done := make(chan error, 1)
	go func() { done <- cmd.Wait() }()
	var toolErr error
	select {
	case toolErr = <-done:
	case <-time.After(20 * time.Second):
		cmd.Process.Kill()
		toolErr = <-done
	}
	got, _ := os.ReadFile(outPath)
	obs := "race=intact"
	if !bytes.Equal(got, precious) {
		obs = "race=CLOBBERED"
	}
	if toolErr == nil {
		obs += " exit=ok"
	} else {
		obs += " exit=error"
	}
	if bytes.Equal(got, precious) && toolErr != nil && !bytes.Contains(stderr.Bytes(), []byte("exists")) {
		// strace refused to run, or the tool failed for another reason: nothing was shown
		o.count("race-probe:inconclusive")
		return
	}
	o.count("race-probe:" + key)
	o.emit("c20race "+key, obs, "race=intact exit=error", "race:"+key)
}

func init() {
	streams["c20"] = c20Stream
}
