//go:build verif

package main

import (
	"fmt"
	"os"
	"path/filepath"
	"sort"
	"strconv"
	"strings"
	"syscall"
	"time"
)

const sparseSeed = 4294967295 // content is zeros (sparse) instead of the pattern

func patByte(seed, i int64) byte {
	if seed == sparseSeed {
		return 0
	}
	return byte((seed + i*131 + (i/251)*7 + (i/65521)*3) % 256)
}

type overlay struct {
	off  int64
	data []byte
}

type tnode struct {
	path     string // "/a/b" relative to the root, "/" is the root itself
	kind     byte   // 'f' file, 'd' dir, 'l' symlink to a path inside the root, 'x' dangling symlink
	size     int64
	seed     int64
	mtime    int64
	overlays []overlay
	target   string      // for 'l': "/x/y" below the root
	mode     os.FileMode // for 'd': extra mode bits (setgid, sticky) put on the directory after it was filled
}

type tree struct {
	nodes []tnode
}

func (t *tree) add(n tnode) { t.nodes = append(t.nodes, n) }

// byteAt is the harness's own idea of the content (oracle side).
func (n *tnode) byteAt(i int64) byte {
	b := patByte(n.seed, i)
	for _, o := range n.overlays {
		if i >= o.off && i < o.off+int64(len(o.data)) {
			b = o.data[i-o.off]
		}
	}
	return b
}

func (n *tnode) slice(off, cnt int64) []byte {
	if off >= n.size {
		return nil
	}
	if off+cnt > n.size {
		cnt = n.size - off
	}
	out := make([]byte, cnt)
	for i := range out {
		out[i] = patByte(n.seed, off+int64(i))
	}
	for _, o := range n.overlays {
		for j, c := range o.data {
			p := o.off + int64(j)
			if p >= off && p < off+cnt {
				out[p-off] = c
			}
		}
	}
	return out
}

const materializeLimit = 64 << 20

// materialize creates the tree under root (which must exist and be empty).
func (t *tree) materialize(root string) error {
	// directories first (in given order), then files and links, then mtimes bottom-up
	for _, n := range t.nodes {
		if n.kind == 'd' && n.path != "/" {
			if err := os.MkdirAll(filepath.Join(root, n.path), 0o755); err != nil {
				return err
			}
		}
	}
	for _, n := range t.nodes {
		p := filepath.Join(root, n.path)
		switch n.kind {
		case 'f':
			if len(p) >= 4096 {
				// a regular file whose full path is beyond PATH_MAX: created (content, times) through its parent directory
				d, err := os.Open(filepath.Dir(p))
				if err != nil {
					return err
				}
				fd, err := syscall.Openat(int(d.Fd()), filepath.Base(p), syscall.O_CREAT|syscall.O_WRONLY, 0o644)
				d.Close()
				if err != nil {
					return err
				}
				buf := make([]byte, n.size)
				for i := range buf {
					buf[i] = patByte(n.seed, int64(i))
				}
				syscall.Write(fd, buf)
				tv := []syscall.Timeval{{Sec: n.mtime + atimeShift}, {Sec: n.mtime}}
				syscall.Futimes(fd, tv)
				syscall.Close(fd)
				continue
			}
			f, err := os.OpenFile(p, os.O_CREATE|os.O_WRONLY|os.O_TRUNC, 0o644)
			if err != nil {
				return err
			}
			if n.seed != sparseSeed {
				if n.size > materializeLimit {
					f.Close()
					return fmt.Errorf("pattern file too large: %d", n.size)
				}
				const chunk = 1 << 20
				buf := make([]byte, 0, chunk)
				for off := int64(0); off < n.size; {
					buf = buf[:0]
					for ; off < n.size && len(buf) < chunk; off++ {
						buf = append(buf, patByte(n.seed, off))
					}
					if _, err := f.Write(buf); err != nil {
						f.Close()
						return err
					}
				}
			} else if err := f.Truncate(n.size); err != nil {
				f.Close()
				return err
			}
			for _, o := range n.overlays {
				if _, err := f.WriteAt(o.data, o.off); err != nil {
					f.Close()
					return err
				}
			}
			if err := f.Close(); err != nil {
				return err
			}
		case 'l':
			// relative target so that the link stays inside the root wherever the root is
			rel, err := filepath.Rel(filepath.Dir(p), filepath.Join(root, n.target))
			if err != nil {
				return err
			}
			if err := os.Symlink(rel, p); err != nil {
				return err
			}
		case 'x':
			if len(p) >= 4096 {
				// beyond PATH_MAX: an entry nobody can examine through its full path - for a listing the same
				// as a dangling link (omitted). Created as a regular file through its parent directory.
				d, err := os.Open(filepath.Dir(p))
				if err != nil {
					return err
				}
				fd, err := syscall.Openat(int(d.Fd()), filepath.Base(p), syscall.O_CREAT|syscall.O_WRONLY, 0o644)
				d.Close()
				if err != nil {
					return err
				}
				syscall.Write(fd, []byte("unreachable"))
				syscall.Close(fd)
				continue
			}
			if err := os.Symlink("does-not-exist-anywhere", p); err != nil {
				return err
			}
		}
	}
	for _, n := range t.nodes {
		if n.kind == 'd' && n.mode != 0 {
			if err := os.Chmod(filepath.Join(root, n.path), 0o755|n.mode); err != nil {
				return err
			}
		}
	}
	// mtimes: deepest first so that creating children does not disturb parents afterwards
	idx := make([]int, len(t.nodes))
	for i := range idx {
		idx[i] = i
	}
	sort.SliceStable(idx, func(a, b int) bool {
		return strings.Count(t.nodes[idx[a]].path, "/") > strings.Count(t.nodes[idx[b]].path, "/")
	})
	for _, i := range idx {
		n := t.nodes[i]
		if (n.kind == 'f' || n.kind == 'd') && len(filepath.Join(root, n.path)) < 4096 {
			mt := time.Unix(n.mtime, 0)
			// atime is set to a recognisable value different from mtime (see lockClient.maskTimes)
			if err := os.Chtimes(filepath.Join(root, n.path), time.Unix(n.mtime+atimeShift, 0), mt); err != nil {
				return err
			}
		}
	}
	return nil
}

// ordered returns the nodes in the order the OS enumerates them (BFS, per-directory getdents
// order), which is the order the model's world must use.
func (t *tree) ordered(root string) ([]tnode, error) {
	byPath := map[string]tnode{}
	for _, n := range t.nodes {
		byPath[n.path] = n
	}
	var out []tnode
	if r, ok := byPath["/"]; ok {
		out = append(out, r)
	}
	queue := []string{"/"}
	for len(queue) > 0 {
		d := queue[0]
		queue = queue[1:]
		f, err := os.Open(filepath.Join(root, d))
		if err != nil {
			return nil, err
		}
		names, err := f.Readdirnames(-1)
		f.Close()
		if err != nil {
			return nil, err
		}
		for _, nm := range names {
			p := d + "/" + nm
			if d == "/" {
				p = "/" + nm
			}
			n, ok := byPath[p]
			if !ok {
				return nil, fmt.Errorf("unexpected entry %q", p)
			}
			out = append(out, n)
			if n.kind == 'd' {
				queue = append(queue, p)
			}
		}
	}
	return out, nil
}

func encodeTree(nodes []tnode) string {
	if len(nodes) == 0 {
		return "-"
	}
	parts := make([]string, 0, len(nodes))
	for _, n := range nodes {
		hp := hx([]byte(n.path))
		switch n.kind {
		case 'f':
			ov := "-"
			if len(n.overlays) > 0 {
				os := make([]string, len(n.overlays))
				for i, o := range n.overlays {
					os[i] = strconv.FormatInt(o.off, 10) + "@" + hx(o.data)
				}
				ov = strings.Join(os, ";")
			}
			parts = append(parts, fmt.Sprintf("%s:f:%d:%d:%d:%s", hp, n.size, n.seed, n.mtime, ov))
		case 'd':
			parts = append(parts, fmt.Sprintf("%s:d:%d", hp, n.mtime))
		case 'l':
			parts = append(parts, fmt.Sprintf("%s:l:%s", hp, hx([]byte(n.target))))
		case 'x':
			parts = append(parts, fmt.Sprintf("%s:x", hp))
		}
	}
	return strings.Join(parts, ",")
}

func decodeTree(s string) *tree {
	t := &tree{}
	if s == "-" {
		return t
	}
	for _, e := range strings.Split(s, ",") {
		f := strings.Split(e, ":")
		n := tnode{path: string(unhx(f[0])), kind: f[1][0]}
		switch n.kind {
		case 'f':
			n.size, _ = strconv.ParseInt(f[2], 10, 64)
			n.seed, _ = strconv.ParseInt(f[3], 10, 64)
			n.mtime, _ = strconv.ParseInt(f[4], 10, 64)
			if f[5] != "-" {
				for _, o := range strings.Split(f[5], ";") {
					kv := strings.SplitN(o, "@", 2)
					off, _ := strconv.ParseInt(kv[0], 10, 64)
					n.overlays = append(n.overlays, overlay{off, unhx(kv[1])})
				}
			}
		case 'd':
			n.mtime, _ = strconv.ParseInt(f[2], 10, 64)
		case 'l':
			n.target = string(unhx(f[2]))
		}
		t.add(n)
	}
	return t
}

const recentMarker = ^uint64(0)

// atime of every generated object is its mtime + atimeShift
const atimeShift = 1000

func maskRecent(v uint64, sessionStart int64) uint64 {
	if int64(v) > sessionStart-3600 && int64(v) < sessionStart+3600 {
		return recentMarker
	}
	return v
}

// snapshot renders the tree below root canonically (sorted by path) for before/after comparison.
func snapshot(root string, sessionStart int64) (string, error) {
	var lines []string
	if _, err := os.Lstat(root); os.IsNotExist(err) {
		return "GONE", nil
	}
	err := filepath.Walk(root, func(p string, info os.FileInfo, err error) error {
		if err != nil {
			if len(p) >= 4096 {
				// an entry beyond PATH_MAX (see materialize, kind 'x'): recorded like the link it stands for
				lines = append(lines, fmt.Sprintf("%s:l", hx([]byte(strings.TrimPrefix(p, root)))))
				return nil
			}
			return err
		}
		rel := strings.TrimPrefix(p, root)
		if rel == "" {
			rel = "/"
		}
		switch {
		case info.Mode()&os.ModeSymlink != 0:
			lines = append(lines, fmt.Sprintf("%s:l", hx([]byte(rel))))
		case info.IsDir():
			lines = append(lines, fmt.Sprintf("%s:d:%d", hx([]byte(rel)), maskRecent(uint64(info.ModTime().Unix()), sessionStart)))
		default:
			h := "big"
			if info.Size() <= 1<<20 {
				b, err := os.ReadFile(p)
				if err != nil {
					return err
				}
				h = fmt.Sprintf("%016x", fnv1a(b))
			}
			lines = append(lines, fmt.Sprintf("%s:f:%d:%s:%d", hx([]byte(rel)), info.Size(), h, maskRecent(uint64(info.ModTime().Unix()), sessionStart)))
		}
		return nil
	})
	sort.Strings(lines)
	return strings.Join(lines, ","), err
}

// plainFiles lists the regular files of the tree (no links), for requests that only need "some file".
func (t *tree) plainFiles() []string {
	var out []string
	for _, n := range t.nodes {
		if n.kind == 'f' {
			out = append(out, n.path)
		}
	}
	return out
}
