//go:build verif

package main

import (
	"bytes"
	"encoding/binary"
	"errors"
	"fmt"
	"io"
	"os"
	"path/filepath"
	"sort"
	"strings"
	"time"

	"github.com/spf13/afero"

	"github.com/xakep666/ps3netsrv-go/pkg/fs"
)

func init() {
	// the generator encodes recording times in the process's local zone; the model is in UTC
	os.Setenv("TZ", "UTC")
}

// maskImage blanks the fields that legitimately differ between two builds of the same tree:
// volume creation/modification timestamps in both descriptors and the PS3 sector-1 filler.
func maskImage(b []byte, base int64, ps3 bool) {
	mask := func(lo, hi int64) {
		for i := lo; i < hi; i++ {
			if i-base >= 0 && i-base < int64(len(b)) {
				b[i-base] = 0
			}
		}
	}
	for _, sec := range []int64{16, 17} {
		mask(sec*2048+813, sec*2048+847)
	}
	if ps3 {
		mask(2048+0x40, 2048+0x200)
	}
}

type visoOp struct {
	kind   byte // 'A' ReadAt(n, off), 'R' Read(n), 'S' Seek(off, whence)
	n      int
	off    int64
	whence int
}

func (op visoOp) String() string {
	switch op.kind {
	case 'A':
		return fmt.Sprintf("A%d@%d", op.n, op.off)
	case 'R':
		return fmt.Sprintf("R%d", op.n)
	default:
		return fmt.Sprintf("S%d/%d", op.off, op.whence)
	}
}

func errClass(err error) string {
	switch {
	case err == nil:
		return "ok"
	case errors.Is(err, io.EOF):
		return "eof"
	default:
		return "err"
	}
}

// runVisoOps applies ops to an open image; every observation is (n, error class, bytes).
func runVisoOps(f afero.File, ops []visoOp, ps3 bool) []string {
	var out []string
	var cur int64
	for _, op := range ops {
		func() {
			defer func() {
				if r := recover(); r != nil {
					out = append(out, "PANIC")
				}
			}()
			switch op.kind {
			case 'A':
				buf := dirtyBuf(op.n)
				n, err := f.ReadAt(buf, op.off)
				maskImage(buf[:max(n, 0)], op.off, ps3)
				out = append(out, fmt.Sprintf("%d/%s/%s", n, errClass(err), digest(buf[:max(n, 0)])))
			case 'R':
				buf := dirtyBuf(op.n)
				n, err := f.Read(buf)
				maskImage(buf[:max(n, 0)], cur, ps3)
				out = append(out, fmt.Sprintf("%d/%s/%s", n, errClass(err), digest(buf[:max(n, 0)])))
				cur += int64(max(n, 0))
			case 'S':
				pos, err := f.Seek(op.off, op.whence)
				if err == nil {
					cur = pos
				}
				out = append(out, fmt.Sprintf("%d/%s", pos, errClass(err)))
			}
		}()
	}
	return out
}

type sectionReaderAt struct {
	f afero.File
}

func (s sectionReaderAt) ReadAt(p []byte, off int64) (int, error) {
	// io.ReaderAt demands err != nil when n < len(p); generated images return (n, nil) at the end
	total := 0
	for total < len(p) {
		n, err := s.f.ReadAt(p[total:], off+int64(total))
		total += n
		if err != nil {
			return total, err
		}
		if n == 0 {
			return total, io.EOF
		}
	}
	return total, nil
}

// compareIsoTree checks that a decoded hierarchy contains exactly the directories and files of the
// source tree below `dir`, each file with its size and bytes (sampled at the structural boundaries).
func compareIsoTree(r io.ReaderAt, root *IsoNode, t *tree, dir string, joliet bool) []string {
	var diffs []string
	type want struct {
		isDir bool
		n     *tnode
	}
	children := func(d string) map[string]want {
		m := map[string]want{}
		for i := range t.nodes {
			n := &t.nodes[i]
			if n.path == "/" || filepath.Dir(n.path) != d {
				continue
			}
			target := n
			if n.kind == 'l' {
				for j := range t.nodes {
					if t.nodes[j].path == n.target {
						target = &t.nodes[j]
					}
				}
			}
			m[filepath.Base(n.path)] = want{target.kind == 'd', target}
		}
		return m
	}
	portable := func(s string) bool {
		for _, c := range s {
			if !(c >= 'A' && c <= 'Z' || c >= 'a' && c <= 'z' || c >= '0' && c <= '9' || c == '_' || c == '.' || c == '-') {
				return false
			}
		}
		return len(s) <= 100
	}
	var walk func(node *IsoNode, d string, depth int)
	walk = func(node *IsoNode, d string, depth int) {
		w := children(d)
		if len(w) != len(node.Children) {
			diffs = append(diffs, fmt.Sprintf("COUNT:%s:%d!=%d", d, len(node.Children), len(w)))
		}
		// match by mapped name where names are portable; otherwise by multiset of (kind,size)
		// (a mapped name shared by several records — "WITH SPACE" and "with_space" both become
		// WITH_SPACE in the primary hierarchy — identifies none of them: those go to the multiset)
		byName := map[string]*IsoNode{}
		nameCount := map[string]int{}
		for _, c := range node.Children {
			nameCount[c.Name]++
		}
		for _, c := range node.Children {
			if nameCount[c.Name] == 1 {
				byName[c.Name] = c
			}
		}
		var restWant, restGot []string
		matched := map[*IsoNode]bool{}
		for name, wn := range w {
			key := name
			if !joliet {
				key = strings.ToUpper(name)
			}
			if c, ok := byName[key]; ok && portable(name) {
				matched[c] = true
				if c.IsDir != wn.isDir {
					diffs = append(diffs, "KIND:"+d+"/"+name)
					continue
				}
				if !c.IsDir {
					if c.Size != wn.n.size {
						diffs = append(diffs, fmt.Sprintf("SIZE:%s/%s:%d!=%d", d, name, c.Size, wn.n.size))
					} else {
						for _, off := range []int64{0, 2047, 2048, wn.n.size - 2049, wn.n.size - 100, wn.n.size / 2, 1<<32 - 2048 - 50, 1<<32 - 50} {
							if off < 0 || off >= wn.n.size {
								continue
							}
							got, err := isoReadFile(r, c, off, 100)
							exp := wn.n.slice(off, 100)
							if err != nil || string(got) != string(exp) {
								diffs = append(diffs, fmt.Sprintf("DATA:%s/%s@%d", d, name, off))
								break
							}
						}
					}
				} else if depth < 20 {
					sub := d + "/" + name
					if d == "/" {
						sub = "/" + name
					}
					if wn.n.kind == 'd' && wn.n.path != sub {
						sub = wn.n.path // through a symlink
					}
					walk(c, sub, depth+1)
				}
			} else if portable(name) && nameCount[key] == 0 {
				diffs = append(diffs, "MISSING:"+d+"/"+name)
			} else {
				restWant = append(restWant, fmt.Sprintf("%v:%d", wn.isDir, map[bool]int64{true: 0, false: wn.n.size}[wn.isDir]))
			}
		}
		for _, c := range node.Children {
			if !matched[c] {
				sz := c.Size
				if c.IsDir {
					sz = 0
				}
				restGot = append(restGot, fmt.Sprintf("%v:%d", c.IsDir, sz))
			}
		}
		sort.Strings(restWant)
		sort.Strings(restGot)
		if strings.Join(restWant, ",") != strings.Join(restGot, ",") {
			diffs = append(diffs, "REST:"+d)
		}
	}
	walk(root, dir, 0)
	return diffs
}

type visoCase struct {
	t    *tree
	dir  string
	ps3  bool
	ops  []visoOp
	full bool
}

func encodeOps(ops []visoOp) string {
	if len(ops) == 0 {
		return "-"
	}
	s := make([]string, len(ops))
	for i, o := range ops {
		s[i] = o.String()
	}
	return strings.Join(s, ",")
}

func decodeOps(s string) []visoOp {
	var ops []visoOp
	if s == "-" {
		return ops
	}
	for _, t := range strings.Split(s, ",") {
		var op visoOp
		op.kind = t[0]
		switch op.kind {
		case 'A':
			fmt.Sscanf(t[1:], "%d@%d", &op.n, &op.off)
		case 'R':
			fmt.Sscanf(t[1:], "%d", &op.n)
		case 'S':
			fmt.Sscanf(t[1:], "%d/%d", &op.off, &op.whence)
		}
		ops = append(ops, op)
	}
	return ops
}

// runViso opens the generated image the way the server does (FS.Open of the virtual path) and
// returns the observation line plus the independent validator's verdict as oracle line.
func runViso(root string, c visoCase) (impl, oracle string) {
	fsys := &fs.FS{Fs: afero.NewBasePathFs(afero.NewOsFs(), root)}
	prefix := "/***DVD***"
	if c.ps3 {
		prefix = "/***PS3***"
	}
	var sb strings.Builder
	var f afero.File
	var err error
	panicked := false
	func() {
		defer func() {
			if r := recover(); r != nil {
				panicked = true
			}
		}()
		f, err = fsys.Open(prefix + c.dir)
	}()
	if panicked {
		return "PANIC-in-open", ""
	}
	if err != nil {
		return "openerr", ""
	}
	defer f.Close()
	st, err := f.Stat()
	if err != nil {
		return "staterr", ""
	}
	total := st.Size()
	if total < 0 {
		return fmt.Sprintf("size=%d NEGATIVE-SIZE", total), ""
	}
	fmt.Fprintf(&sb, "size=%d ", total)
	if c.full && total <= 3<<20 {
		buf := dirtyBuf(int(total + 4096))
		n := 0
		for {
			k, err := f.Read(buf[n:min(n+65536, len(buf))])
			n += k
			if err != nil || k == 0 {
				break
			}
		}
		maskImage(buf[:n], 0, c.ps3)
		fmt.Fprintf(&sb, "full=%s ", digest(buf[:n]))
		f.Seek(0, io.SeekStart)
	} else {
		sb.WriteString("full=skip ")
	}
	fmt.Fprintf(&sb, "ops=%s", strings.Join(runVisoOps(f, c.ops, c.ps3), ","))
	// independent reader + validator on the implementation's own bytes
	ra := sectionReaderAt{f}
	verdict := "valid=ok"
	var v []string
	for _, x := range isoValidate(ra, total, IsoValidateOpts{CheckPadding: total <= 64<<20}) {
		// identifiers that coincide after mapping/shortening are not among the things C08 demands
		if !strings.HasPrefix(x, "DUP:") {
			v = append(v, x)
		}
	}
	if len(v) > 0 {
		if len(v) > 4 {
			v = v[:4]
		}
		verdict = "valid=" + strings.ReplaceAll(strings.Join(v, "|"), " ", "_")
	}
	img, err := isoParse(ra, total)
	treeV := "tree=ok"
	if err != nil || img.Primary == nil || img.Supplementary == nil || img.Primary.Root == nil || img.Supplementary.Root == nil {
		treeV = "tree=unparsable"
	} else {
		d := append(compareIsoTree(ra, img.Primary.Root, c.t, c.dir, false), compareIsoTree(ra, img.Supplementary.Root, c.t, c.dir, true)...)
		if len(d) > 0 {
			if len(d) > 4 {
				d = d[:4]
			}
			treeV = "tree=" + strings.ReplaceAll(strings.Join(d, "|"), " ", "_")
		}
	}
	// C18: the same unchanged directory opened again - later and concurrently - gives the same image
	again := "again=same"
	headOf := func() (string, int64) {
		g, err := fsys.Open(prefix + c.dir)
		if err != nil {
			return "openerr", 0
		}
		defer g.Close()
		gs, _ := g.Stat()
		n := gs.Size()
		if n > 2<<20 {
			n = 2 << 20
		}
		buf := dirtyBuf(int(n))
		k, _ := sectionReaderAt{g}.ReadAt(buf, 0)
		maskImage(buf[:k], 0, c.ps3)
		return digest(buf[:k]), gs.Size()
	}
	h0, s0 := headOf()
	time.Sleep(15 * time.Millisecond)
	type hs struct {
		h string
		s int64
	}
	ch := make(chan hs, 2)
	for i := 0; i < 2; i++ {
		go func() { h, s := headOf(); ch <- hs{h, s} }()
	}
	for i := 0; i < 2; i++ {
		r := <-ch
		if r.h != h0 || r.s != s0 || s0 != total {
			again = "again=DIFFERENT"
		}
	}
	// the canonical listing of both hierarchies as this reader sees them; the Lean model prints the same
	// listing from the reader of Spec/IsoTree.lean (the one the end-to-end theorems of C07 are about)
	rd := "rd=unparsable"
	if img != nil && img.Primary != nil && img.Supplementary != nil && img.Primary.Root != nil && img.Supplementary.Root != nil {
		rd = "rd=" + digest([]byte(isoListing(img.Primary.Root))) + "." + digest([]byte(isoListing(img.Supplementary.Root)))
	}
	impl = sb.String() + " " + verdict + " " + treeV + " wf=1 " + again + " " + rd
	return impl, ""
}

// isoListing: depth-first listing of one hierarchy - per directory its identifier path, then its entries in
// record order (files with their total size, sub-directories), then the sub-directories in record order
func isoListing(root *IsoNode) string {
	var sb strings.Builder
	var walk func(n *IsoNode, ids []string)
	walk = func(n *IsoNode, ids []string) {
		sb.WriteString("D")
		for _, id := range ids {
			sb.WriteString("/" + hx([]byte(id)))
		}
		sb.WriteString("\n")
		for _, c := range n.Children {
			if c.IsDir {
				sb.WriteString("S" + hx([]byte(c.RawID)) + "\n")
			} else {
				fmt.Fprintf(&sb, "F%s:%d\n", hx([]byte(c.RawID)), c.Size)
			}
		}
		for _, c := range n.Children {
			if c.IsDir {
				walk(c, append(append([]string{}, ids...), c.RawID))
			}
		}
	}
	walk(root, nil)
	return sb.String()
}

func visoLine(nodes []tnode, c visoCase) string {
	p := 0
	if c.ps3 {
		p = 1
	}
	fl := 0
	if c.full {
		fl = 1
	}
	return fmt.Sprintf("viso %d %d %s %s %s", p, fl, encodeTree(nodes), hx([]byte(c.dir)), encodeOps(c.ops))
}

// sfoBytes builds a well-formed PARAM.SFO with the given entries in the given order.
// sfoBytesOrder: like sfoBytes, but the key table (and the data table) are laid out in the physical
// order `phys` (a permutation of the entry indices) while the index table keeps the given order - the
// format allows it, each index entry carries its own offsets.
func sfoBytesOrder(entries [][2]string, phys []int) []byte {
	le16 := func(v int) []byte { return []byte{byte(v), byte(v >> 8)} }
	le32 := func(v int) []byte { return []byte{byte(v), byte(v >> 8), byte(v >> 16), byte(v >> 24)} }
	keyOff := make([]int, len(entries))
	dataOff := make([]int, len(entries))
	maxLens := make([]int, len(entries))
	var keys, data []byte
	for _, i := range phys {
		keyOff[i], dataOff[i] = len(keys), len(data)
		keys = append(keys, entries[i][0]...)
		keys = append(keys, 0)
		val := append([]byte(entries[i][1]), 0)
		maxLens[i] = (len(val) + 3) &^ 3
		data = append(data, val...)
		data = append(data, make([]byte, maxLens[i]-len(val))...)
	}
	var idx []byte
	for i, e := range entries {
		idx = append(idx, le16(keyOff[i])...)
		idx = append(idx, 0x04, 0x02)
		idx = append(idx, le32(len(e[1])+1)...)
		idx = append(idx, le32(maxLens[i])...)
		idx = append(idx, le32(dataOff[i])...)
	}
	for len(keys)%4 != 0 {
		keys = append(keys, 0)
	}
	keyStart := 20 + len(idx)
	hdr := append([]byte{0, 'P', 'S', 'F', 1, 1, 0, 0}, le32(keyStart)...)
	hdr = append(hdr, le32(keyStart+len(keys))...)
	hdr = append(hdr, le32(len(entries))...)
	out := append(hdr, idx...)
	out = append(out, keys...)
	return append(out, data...)
}

func sfoBytes(entries [][2]string) []byte {
	le16 := func(v int) []byte { return []byte{byte(v), byte(v >> 8)} }
	le32 := func(v int) []byte { return []byte{byte(v), byte(v >> 8), byte(v >> 16), byte(v >> 24)} }
	var keys, data []byte
	var idx []byte
	for _, e := range entries {
		ko, do := len(keys), len(data)
		keys = append(keys, e[0]...)
		keys = append(keys, 0)
		val := append([]byte(e[1]), 0)
		maxLen := (len(val) + 3) &^ 3
		data = append(data, val...)
		data = append(data, make([]byte, maxLen-len(val))...)
		idx = append(idx, le16(ko)...)
		idx = append(idx, 0x04, 0x02)
		idx = append(idx, le32(len(val))...)
		idx = append(idx, le32(maxLen)...)
		idx = append(idx, le32(do)...)
	}
	for len(keys)%4 != 0 {
		keys = append(keys, 0)
	}
	keyStart := 20 + len(idx)
	hdr := append([]byte{0, 'P', 'S', 'F', 1, 1, 0, 0}, le32(keyStart)...)
	hdr = append(hdr, le32(keyStart+len(keys))...)
	hdr = append(hdr, le32(len(entries))...)
	out := append(hdr, idx...)
	out = append(out, keys...)
	return append(out, data...)
}

func addPS3Game(r *rng, t *tree, dir string, titleID string) {
	ents := [][2]string{{"CATEGORY", "DG"}, {"TITLE", "Some Game"}, {"TITLE_ID", titleID}, {"VERSION", "01.00"}}
	// any key order
	for i := range ents {
		j := r.intn(i + 1)
		ents[i], ents[j] = ents[j], ents[i]
	}
	ents = ents[:2+r.intn(3)]
	has := false
	for _, e := range ents {
		if e[0] == "TITLE_ID" {
			has = true
		}
	}
	if !has {
		ents = append(ents, [2]string{"TITLE_ID", titleID})
	}
	g := dir + "/PS3_GAME"
	if dir == "/" {
		g = "/PS3_GAME"
	}
	t.add(tnode{path: g, kind: 'd', mtime: genMtime(r)})
	b := sfoBytes(ents)
	if r.chance(50) {
		// key and data tables in another physical order than the index
		phys := make([]int, len(ents))
		for i := range phys {
			phys[i] = i
		}
		for i := range phys {
			j := r.intn(i + 1)
			phys[i], phys[j] = phys[j], phys[i]
		}
		b = sfoBytesOrder(ents, phys)
	}
	// every third game stores its TITLE_ID in the not-terminated string format (0x0004): the declared
	// length then IS the length of the value, nothing is cut off its end
	sfoFmtTurn++
	if sfoFmtTurn%3 == 0 {
		b = sfoNotTerminated(b, "TITLE_ID")
	}
	t.add(tnode{path: g + "/PARAM.SFO", kind: 'f', size: int64(len(b)), seed: 0, mtime: genMtime(r), overlays: []overlay{{0, b}}})
}

var sfoFmtTurn int

// sfoNotTerminated rewrites the index entry of `key` to the not-terminated format: format 0x0004,
// declared length without the NUL (which stays behind as padding of the data table).
func sfoNotTerminated(b []byte, key string) []byte {
	if len(b) < 20 {
		return b
	}
	keyStart := int(binary.LittleEndian.Uint32(b[8:]))
	count := int(binary.LittleEndian.Uint32(b[16:]))
	for i := 0; i < count; i++ {
		eo := 20 + 16*i
		if eo+16 > len(b) {
			break
		}
		ko := keyStart + int(binary.LittleEndian.Uint16(b[eo:]))
		if ko+len(key)+1 <= len(b) && string(b[ko:ko+len(key)]) == key && b[ko+len(key)] == 0 {
			dl := binary.LittleEndian.Uint32(b[eo+4:])
			if dl > 0 {
				b[eo+2], b[eo+3] = 0x04, 0x00
				binary.LittleEndian.PutUint32(b[eo+4:], dl-1)
			}
		}
	}
	return b
}

// genVisoTree: a directory "/img" (or the root itself) with nested content to turn into an image.
func genVisoTree(r *rng, big bool) (*tree, string) {
	t := &tree{}
	t.add(tnode{path: "/", kind: 'd', mtime: genMtime(r)})
	dir := "/img"
	if r.chance(15) {
		dir = "/" + genName(r)
	}
	if r.chance(8) {
		dir = "/"
	} else {
		t.add(tnode{path: dir, kind: 'd', mtime: genMtime(r)})
	}
	dirs := []string{dir}
	used := map[string]bool{dir: true}
	join := func(d, n string) string {
		if d == "/" {
			return "/" + n
		}
		return d + "/" + n
	}
	nd := r.intn(6)
	manyDirs := r.chance(8)
	if manyDirs {
		// many directories: the Joliet path table (two bytes per character) outgrows the primary one
		// by whole sectors, directories of directories span several sectors
		many := 86 + r.intn(40)
		for i := 0; i < many; i++ {
			parent := dir
			if r.chance(20) && len(dirs) > 1 {
				parent = dirs[1+r.intn(len(dirs)-1)]
			}
			p := join(parent, fmt.Sprintf("dir_%04d%s", i, strings.Repeat("y", r.intn(6))))
			if used[p] || strings.Count(p, "/") > 6 {
				continue
			}
			used[p] = true
			dirs = append(dirs, p)
			t.add(tnode{path: p, kind: 'd', mtime: genMtime(r)})
		}
		nd = 0
	}
	for i := 0; i < nd; i++ {
		p := join(dirs[r.intn(len(dirs))], genName(r))
		if used[p] || len(p) > 1500 {
			continue
		}
		used[p] = true
		dirs = append(dirs, p)
		t.add(tnode{path: p, kind: 'd', mtime: genMtime(r)})
	}
	for di, d := range dirs {
		nf := r.intn(5)
		if manyDirs && di > 6 {
			nf = r.intn(8) / 7 // the model's layout arithmetic is cubic in the number of directories: keep these trees light
		}
		if r.chance(10) && !manyDirs {
			nf = 30 + r.intn(60) // enough records to need several sectors
		}
		for i := 0; i < nf; i++ {
			p := join(d, genName(r))
			if nf > 10 {
				p = join(d, fmt.Sprintf("entry-%03d-%s", i, strings.Repeat("x", r.intn(30))))
			}
			if used[p] {
				continue
			}
			used[p] = true
			sz := genSize(r)
			if r.chance(25) {
				sz = 0
			}
			t.add(tnode{path: p, kind: 'f', size: sz, seed: int64(r.intn(250)), mtime: genMtime(r)})
		}
	}
	if big {
		for i, sz := range []int64{1<<32 - 2048, 1 << 32, 1<<32 + 1, 9 << 30, 2 * (1<<32 - 2048), 2*(1<<32-2048) + 1, 1<<32 - 1} {
			// the sizes at the 32-bit border of a single extent are always present; the others often
			if r.chance(35) || sz == 1<<32 || sz == 1<<32-1 {
				n := tnode{path: join(dir, fmt.Sprintf("huge%d.bin", i)), kind: 'f', size: sz, seed: sparseSeed, mtime: genMtime(r)}
				for _, off := range []int64{0, 2047, 1<<32 - 2048 - 50, 1<<32 - 50, sz - 100, sz / 2} {
					if off >= 0 && off+100 <= sz {
						d := make([]byte, 100)
						for k := range d {
							d[k] = byte(r.next())
						}
						n.overlays = append(n.overlays, overlay{off, d})
					}
				}
				t.add(n)
			}
		}
	}
	return t, dir
}

func genVisoOps(r *rng, total int64, n int, bounds []int64) []visoOp {
	var ops []visoOp
	pickOff := func() int64 {
		if len(bounds) > 0 && r.chance(75) {
			return bounds[r.intn(len(bounds))] + int64(r.pick(-2049, -2048, -1, 0, 1, 2047, 2048))
		}
		return int64(r.next() % uint64(total+4096))
	}
	for i := 0; i < n; i++ {
		switch r.intn(10) {
		case 0, 1, 2, 3, 4:
			off := pickOff()
			if off < 0 && !r.chance(30) {
				off = 0 // a negative offset now and then: ReadAt must refuse it, not index with it
			}
			ops = append(ops, visoOp{kind: 'A', n: r.pick(1, 2, 100, 2047, 2048, 2049, 4096, 65536, 70000, 0), off: off})
		case 5, 6, 7:
			ops = append(ops, visoOp{kind: 'R', n: r.pick(1, 100, 2048, 3000, 65536, 100000)})
		default:
			w := r.intn(3)
			off := pickOff()
			switch w {
			case 1:
				off = int64(r.pick(-5000, -1, 0, 1, 2048, 100000))
			case 2:
				off = -int64(r.pick(0, 1, 2048, 65536, 100, 40000))
				if r.chance(10) {
					off = 5
				}
			}
			if r.chance(3) {
				w = 7
			}
			ops = append(ops, visoOp{kind: 'S', off: off, whence: w})
		}
	}
	return ops
}

// visoBounds opens the image once and returns its structural boundaries (start, data end of every
// file extent, directory extents, descriptor area, pad area) and its size.
func visoBounds(root, dir string, ps3 bool) (bounds []int64, total int64) {
	defer func() {
		if r := recover(); r != nil {
			bounds, total = nil, 0 // the panic itself is reported by runViso
		}
	}()
	fsys := &fs.FS{Fs: afero.NewBasePathFs(afero.NewOsFs(), root)}
	pre := "/***DVD***"
	if ps3 {
		pre = "/***PS3***"
	}
	f, err := fsys.Open(pre + dir)
	if err != nil {
		return nil, 0
	}
	defer f.Close()
	st, _ := f.Stat()
	total = st.Size()
	bounds = append(bounds, 0, total, total-65536, 16*2048, 20*2048)
	if img, err := isoParse(sectionReaderAt{f}, total); err == nil && img.Primary != nil && img.Primary.Root != nil {
		var walk func(n *IsoNode, d int)
		walk = func(n *IsoNode, d int) {
			for _, c := range n.Children {
				if c.IsDir {
					bounds = append(bounds, int64(c.DirLBA)*2048)
					if d < 10 {
						walk(c, d+1)
					}
				} else {
					for _, e := range c.Extents {
						bounds = append(bounds, int64(e.LBA)*2048, int64(e.LBA)*2048+int64(e.Len))
					}
				}
			}
		}
		walk(img.Primary.Root, 0)
	}
	return bounds, total
}

func visoStream(o *out, r *rng, trees int, opsPer int, big bool) {
	for ti := 0; ti < trees; ti++ {
		t, dir := genVisoTree(r, big)
		ps3 := r.chance(40)
		if ps3 {
			addPS3Game(r, t, dir, r.picks("BCES00104", "BLUS12345", "NPEB0", "ABCD", "X1234567890123456789012345678", "BCES00104", "AB", "", "X12345678901234567890123456789012345"))
		}
		visoRunTree(o, r, t, dir, ps3, opsPer, fmt.Sprintf("%d", ti))
	}
}

// visoHuge: trees around the largest volume the format (and the server's int32 sector numbers) can
// express: 2^31-1 sectors = 4 TiB. Sparse files; a tree that does not fit must be refused at open,
// one that fits must be a correct image up to its last sector.
func visoHuge(o *out, r *rng, n int) {
	const maxSector = 1<<31 - 1
	type hc struct {
		name  string
		sizes []int64
	}
	var cases []hc
	// the first three are always run: a sum that wraps int32 although each file is below 4 TiB, and the
	// two sizes on either side of the limit (metadata and small files of these trees: 77 sectors incl. the ~1025 extent
	// records of the huge file in both hierarchies; reserve for padding: 64)
	cases = append(cases, hc{"two-2.5TiB", []int64{5 << 39, 5 << 39}},
		hc{"edge-141", []int64{(maxSector - 141) * 2048}}, hc{"edge-140", []int64{(maxSector - 140) * 2048}})
	for _, k := range []int64{100, 136, 138, 139, 142, 143, 144, 146, 150, 200} {
		cases = append(cases, hc{fmt.Sprintf("edge-%d", k), []int64{(maxSector - k) * 2048}})
	}
	cases = append(cases,
		hc{"one-4TiB", []int64{1 << 42}}, hc{"one-4TiB+1", []int64{1<<42 + 1}}, hc{"one-5TiB", []int64{5 << 40}},
		hc{"three-3TiB", []int64{3 << 40, 3 << 40, 3 << 40}},
		hc{"8TiB", []int64{1 << 43}}, hc{"two-2TiB-fits", []int64{1<<41 - 1<<20, 1<<41 - 1<<20}})
	for i := 0; i < n && len(cases) > 0; i++ {
		j := 0
		if i >= 3 {
			j = r.intn(len(cases))
		}
		c := cases[j]
		cases = append(cases[:j], cases[j+1:]...)
		t := &tree{}
		t.add(tnode{path: "/", kind: 'd', mtime: genMtime(r)})
		t.add(tnode{path: "/h", kind: 'd', mtime: genMtime(r)})
		t.add(tnode{path: "/h/a.bin", kind: 'f', size: 3000, seed: 7, mtime: genMtime(r)})
		for k, sz := range c.sizes {
			nd := tnode{path: fmt.Sprintf("/h/huge%d.bin", k), kind: 'f', size: sz, seed: sparseSeed, mtime: genMtime(r)}
			for _, off := range []int64{0, 1<<32 - 50, sz - 100, sz / 2} {
				d := make([]byte, 100)
				for x := range d {
					d[x] = byte(r.next())
				}
				nd.overlays = append(nd.overlays, overlay{off, d})
			}
			t.add(nd)
		}
		t.add(tnode{path: "/h/z.bin", kind: 'f', size: 2049, seed: 8, mtime: genMtime(r)})
		o.count("huge:" + c.name)
		visoRunTree(o, r, t, "/h", false, 14, "huge-"+c.name)
	}
}

// visoBig: trees with more than a thousand directories (path tables of many sectors, directory numbers
// beyond one byte, parents far from their children). The Lean model's layout arithmetic is cubic in the
// number of directories, so these images are judged by the independent reader alone: structurally valid,
// both hierarchies equal to the source tree, the same image when opened again.
func visoBig(o *out, r *rng, ndirs int) {
	if ndirs > 65536 {
		// more directories than the path table can number (16-bit): the tree must be refused at open.
		// Built directly (flat), the tree description would be megabytes long.
		withTempRoot(func(root string) {
			os.MkdirAll(filepath.Join(root, "b"), 0o755)
			for i := 0; i < ndirs-1; i++ {
				os.Mkdir(filepath.Join(root, "b", fmt.Sprintf("d%05d", i)), 0o755)
			}
			impl, _ := runViso(root, visoCase{t: &tree{}, dir: "/b", ps3: false, full: false})
			if impl != "openerr" {
				impl = "built " + strings.Join(strings.Fields(impl)[:1], " ")
			}
			o.count(fmt.Sprintf("big-tree-dirs:%d", ndirs))
			o.emit(fmt.Sprintf("visobig %d false", ndirs), impl, "", fmt.Sprintf("big%d", ndirs))
		})
		return
	}
	t := &tree{}
	t.add(tnode{path: "/", kind: 'd', mtime: genMtime(r)})
	t.add(tnode{path: "/b", kind: 'd', mtime: genMtime(r)})
	dirs := []string{"/b"}
	for i := 0; len(dirs) < ndirs; i++ {
		parent := dirs[0]
		if r.chance(60) {
			parent = dirs[r.intn(len(dirs))]
		}
		if strings.Count(parent, "/") > 6 {
			continue
		}
		p := parent + fmt.Sprintf("/d%04d%s", i, strings.Repeat("q", r.intn(4)))
		dirs = append(dirs, p)
		t.add(tnode{path: p, kind: 'd', mtime: genMtime(r)})
		if r.chance(12) {
			t.add(tnode{path: p + "/f.bin", kind: 'f', size: int64(r.pick(0, 1, 2048, 2049, 5000)), seed: int64(r.intn(250)), mtime: genMtime(r)})
		}
	}
	ps3 := r.chance(50)
	if ps3 {
		addPS3Game(r, t, "/b", "BLES00001")
	}
	withTempRoot(func(root string) {
		if err := t.materialize(root); err != nil {
			o.notes = append(o.notes, "materialize: "+err.Error())
			return
		}
		impl, _ := runViso(root, visoCase{t: t, dir: "/b", ps3: ps3, full: false})
		var keep []string
		for _, tok := range strings.Fields(impl) {
			if strings.HasPrefix(tok, "valid=") || strings.HasPrefix(tok, "tree=") || strings.HasPrefix(tok, "again=") || strings.Contains(tok, "PANIC") || tok == "openerr" {
				keep = append(keep, tok)
			}
		}
		o.count(fmt.Sprintf("big-tree-dirs:%d", len(dirs)))
		o.emit(fmt.Sprintf("visobig %d %v", len(dirs), ps3), strings.Join(keep, " "), "", fmt.Sprintf("big%d", ndirs))
	})
}

func visoRunTree(o *out, r *rng, t *tree, dir string, ps3 bool, opsPer int, key string) {
	ti := key
	{
		withTempRoot(func(root string) {
			if err := t.materialize(root); err != nil {
				o.notes = append(o.notes, "materialize: "+err.Error())
				return
			}
			nodes, err := t.ordered(root)
			if err != nil {
				o.notes = append(o.notes, "ordered: "+err.Error())
				return
			}
			bounds, total := visoBounds(root, dir, ps3)
			c := visoCase{t: t, dir: dir, ps3: ps3, full: true, ops: genVisoOps(r, total, opsPer, bounds)}
			impl, _ := runViso(root, c)
			oracle := ""
			o.count(fmt.Sprintf("ps3:%v", ps3))
			if nd := len(t.pathsOf('d')); nd > 60 {
				o.count("many-dirs")
			}
			if strings.HasPrefix(impl, "size=") {
				o.count("built")
			} else {
				o.count("open-failed")
			}
			o.emit(visoLine(nodes, c), impl, oracle, ti)
		})
	}
}

func init() {
	streams["viso"] = func(o *out, r *rng, thorough bool) {
		if thorough {
			visoStream(o, r, 300, 60, true)
			visoHuge(o, r, 18)
			visoBig(o, r, 1100)
			visoBig(o, r, 2600)
			visoBig(o, r, 65600)
			c18Wide(o, r, 24)
		} else {
			c18Wide(o, r, 4)
			visoStream(o, r, 34, 25, false)
			visoStream(o, r, 6, 25, true) // a few trees with sparse multi-GiB files (multi-extent records)
			visoHuge(o, r, 6)
			visoBig(o, r, 1050)
			visoBig(o, r, 65600)
		}
	}
	replayFns["viso"] = func(line string) (string, string) {
		f := strings.Fields(line)
		t := decodeTree(f[3])
		c := visoCase{t: t, dir: string(unhx(f[4])), ps3: f[1] == "1", full: f[2] == "1", ops: decodeOps(f[5])}
		res := ""
		withTempRoot(func(root string) {
			if err := t.materialize(root); err != nil {
				res = "materialize: " + err.Error()
				return
			}
			res, _ = runViso(root, c)
		})
		return res, ""
	}
}

// ---------- C18 on a filesystem that keeps timestamps ext4 cannot (before 1901, after 2446) ----------

// wideTimeRoot: a scratch directory on tmpfs if it stores a year-1850 mtime faithfully, else "".
func wideTimeRoot() string {
	for _, base := range []string{"/dev/shm", "/run/shm"} {
		d, err := os.MkdirTemp(base, "vwide-")
		if err != nil {
			continue
		}
		p := filepath.Join(d, "probe")
		os.WriteFile(p, []byte("x"), 0o644)
		old := time.Date(1850, 6, 1, 12, 0, 0, 0, time.UTC)
		if os.Chtimes(p, old, old) == nil {
			if st, err := os.Stat(p); err == nil && st.ModTime().Year() == 1850 {
				os.Remove(p)
				return d
			}
		}
		os.RemoveAll(d)
	}
	return ""
}

// c18Wide: trees whose timestamps lie outside what a directory record can express; the image must
// still be a function of the tree alone (built twice, more than a second apart).
func c18Wide(o *out, r *rng, n int) {
	base := wideTimeRoot()
	if base == "" {
		o.notes = append(o.notes, "c18x: no filesystem with wide timestamps available, skipped")
		return
	}
	defer os.RemoveAll(base)
	years := []int{1601, 1850, 1899, 1900, 1969, 2155, 2156, 2500, 9999}
	type job struct {
		root, desc string
		ps3        bool
		h0         string
	}
	head := func(root string, ps3 bool) string {
		fsys := &fs.FS{Fs: afero.NewBasePathFs(afero.NewOsFs(), root)}
		prefix := "/***DVD***"
		if ps3 {
			prefix = "/***PS3***"
		}
		g, err := fsys.Open(prefix + "/img")
		if err != nil {
			return "openerr:" + errClass(err)
		}
		defer g.Close()
		gs, _ := g.Stat()
		buf := make([]byte, gs.Size())
		k, _ := sectionReaderAt{g}.ReadAt(buf, 0)
		maskImage(buf[:k], 0, ps3)
		return digest(buf[:k])
	}
	var jobs []job
	for i := 0; i < n; i++ {
		root := filepath.Join(base, fmt.Sprintf("t%d", i))
		os.MkdirAll(filepath.Join(root, "img", "sub"), 0o755)
		var desc []string
		set := func(p string) {
			y := years[r.intn(len(years))]
			tm := time.Date(y, time.Month(1+r.intn(12)), 1+r.intn(28), r.intn(24), r.intn(60), r.intn(60), 0, time.UTC)
			os.Chtimes(p, tm, tm)
			desc = append(desc, fmt.Sprintf("%s@%d", filepath.Base(p), y))
		}
		ps3 := r.chance(40)
		if ps3 {
			os.MkdirAll(filepath.Join(root, "img", "PS3_GAME"), 0o755)
			os.WriteFile(filepath.Join(root, "img", "PS3_GAME", "PARAM.SFO"), sfoBytes([][2]string{{"TITLE_ID", "BLES12345"}}), 0o644)
			set(filepath.Join(root, "img", "PS3_GAME", "PARAM.SFO"))
			set(filepath.Join(root, "img", "PS3_GAME"))
		}
		for k := 0; k < 3; k++ {
			p := filepath.Join(root, "img", "sub", fmt.Sprintf("f%d.bin", k))
			os.WriteFile(p, bytes.Repeat([]byte{byte(k)}, 100+r.intn(5000)), 0o644)
			set(p)
		}
		set(filepath.Join(root, "img", "sub"))
		set(filepath.Join(root, "img"))
		jobs = append(jobs, job{root: root, desc: strings.Join(desc, ","), ps3: ps3})
	}
	for i := range jobs {
		jobs[i].h0 = head(jobs[i].root, jobs[i].ps3)
	}
	time.Sleep(1100 * time.Millisecond) // a substituted time.Now() has one-second resolution in a directory record
	for i, j := range jobs {
		again := "again=same"
		if h1 := head(j.root, j.ps3); h1 != j.h0 || strings.HasPrefix(h1, "openerr") {
			again = "again=DIFFERENT"
		}
		o.count("c18x")
		o.emit(fmt.Sprintf("c18x %v %s", j.ps3, j.desc), again, "", fmt.Sprintf("wide%d", i))
	}
}

// dirtyBuf: a read buffer that is NOT zeroed - whatever a Read/ReadAt claims to have delivered it must
// really have written (a reused buffer of io.Copy or of the server's pool looks like this).
func dirtyBuf(n int) []byte {
	b := make([]byte, n)
	for i := range b {
		b[i] = 0xA5 ^ byte(i*7)
	}
	return b
}
