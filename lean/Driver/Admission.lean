import Driver.Util
import Ps3.Model.Admission
import Ps3.Model.IPRange
namespace Driver
open Ps3 Ps3.Admission

/-- `c15w <hexspec> <srcip>…`: which sources are served ('s') and which are closed ('c') -/
def c15wOp (args : List String) : String :=
  match args with
  | [] => "bad-op"
  | spec :: srcs =>
    match fromHex spec with
    | none => "bad-op"
    | some s =>
      match IPRange.parseIPRange s with
      | none => "rej"
      | some r =>
        "acc " ++ String.ofList (srcs.map (fun h => match fromHex h with
          | some ip => if IPRange.contains r ip then 's' else 'c'
          | none => '?'))

def parseEv (s : String) : Option Ev :=
  match s.toList with
  | 'a' :: rest =>
    match (String.ofList rest).splitOn ":" with
    | [i, ins] => some (.arrive (parseNat i) (ins == "1"))
    | _ => none
  | 'd' :: rest => some (.depart (parseNat (String.ofList rest)))
  | _ => none

/-- `c15l <N> <events>`: after each event, the connections that have been answered so far and are still open -/
def c15lOp (args : List String) : String :=
  match args with
  | [n, evs] =>
    let es := (evs.splitOn ",").filterMap parseEv
    let sts := run (init (parseNat n)) es
    String.intercalate "|" (sts.map (fun s => String.intercalate "." ((s.served.mergeSort (· ≤ ·)).map toString)))
  | _ => "bad-op"

end Driver
