import Driver.Util
namespace Driver

/-- C04's black-box cases: what the property demands of the real process after ANY input —
    it is still running, still accepts and serves a fresh connection, a bystander connection still
    gets its bytes; the tools exit normally; memory does not follow the requested length. -/
def c04Op (args : List String) : String :=
  match args with
  | "bb" :: _ => "proc=1 alive=1 by=ok"
  | "tool" :: _ => "exit=clean"
  | "fd" :: _ => "proc=1 alive=1"
  | "fdviso" :: _ => "proc=1 served=full"
  | "mem" :: _ => "proc=1 mem=ok served=true"
  | "memsfo" :: _ => "proc=1 mem=ok alive=1"
  | "fifo" :: _ => "proc=1 fifo=refused"
  | "bufsize" :: _ => "proc=1 alive=1 served=ok"
  | "maxfile" :: _ => "proc=1 alive=1 open=refused tool=error-exit"
  | _ => "bad-op"

end Driver
