import Driver.Util
import Ps3.Spec.C13
namespace Driver
open Ps3 Ps3.Spec.C13

structure ObsLine where
  toks : List Tok
  ended : Bool          -- an "end=" token was present (the session ran to its end)
  endHung : Bool        -- … and the client waited in vain for the server to end the connection
  leak : Nat
  alive : Bool

def parseObs (s : String) : ObsLine :=
  let parts := s.splitOn ";"
  let toks := parts.filterMap (fun p =>
    if p.startsWith "r" then
      match p.splitOn "=" with
      | [_, v] =>
        if v.startsWith "X:" then (fromHex (v.drop 2).toString).map Tok.closed
        else if v.startsWith "T:" then (fromHex (v.drop 2).toString).map Tok.timeout
        else (fromHex v).map Tok.resp
      | _ => none
    else none)
  let find (k : String) : Option String :=
    (parts.find? (fun p => p.startsWith (k ++ "="))).map (fun p => (p.drop (k.length + 1)).toString)
  ⟨toks, (find "end").isSome, ((find "end").map (·.startsWith "T:")) == some true, ((find "leak").bind String.toNat?).getD 99, find "alive" == some "1"⟩

def parseOpsHex (s : String) : List Nat :=
  (s.splitOn ",").map (fun h => ((fromHex h).map fromBE).getD 0)

def c13Op (args : List String) : String :=
  match args with
  | [ops, kind, both] =>
    match both.splitOn "|" with
    | [b, g] =>
      let base := parseObs b
      let got := parseObs g
      match judgeEnd got.endHung (parseOpsHex ops) (kind == "short") base.toks got.toks got.leak got.alive got.ended with
      | .ok => "ok"
      | .bad i why => s!"bad:{i}:{why}"
    | _ => "bad-op"
  | _ => "bad-op"

/-- `c13end <scenario> <i> leak=<n>`: however a connection ends, everything opened for it is closed -/
def c13endOp (args : List String) : String :=
  match args with
  | [_, _, leak] => if leak == "leak=0" then "ok" else "bad:handles-leaked"
  | _ => "bad-op"

end Driver
