import Ps3.Model.IPRange
namespace Driver
open Ps3 Ps3.IPRange

def c14 (args : List String) : String :=
  match args with
  | [] => "bad-op"
  | spec :: probes =>
    match fromHex spec with
    | none => "bad-op"
    | some s =>
      match parseIPRange s with
      | none => "rej"
      | some r =>
        let bits := probes.map (fun p =>
          match fromHex p with
          | none => '?'
          | some ip => if contains r ip then '1' else '0')
        "acc " ++ String.ofList bits
end Driver
