import Driver.Util
import Ps3.Model.Config
namespace Driver
open Ps3 Ps3.Config

def parseAssign (s : String) : Option Assign :=
  match s.splitOn ":" with
  | [setting, ch, tag] =>
    let c : Option Channel := match ch with
      | "flag" => some .flag | "env" => some .env | "cfgflag" => some .cfgflag | "cfgenv" => some .cfgenv
      | "cwdini" => some .cwdini | "userini" => some .userini | _ => none
    let t : Option Tag := match tag with | "A" => some .A | "B" => some .B | "X" => some .X | "E" => some .X | "N" => some .X | _ => none   -- E = blank value, N = negative timeout: further invalid forms
    match c, t with
    | some c, some t => some ⟨setting, c, t⟩
    | _, _ => none
  | _ => none

/-- the observable behaviour of an effective value (the harness's value tables: A/B as in config.go) -/
def behaviour (setting : String) (e : Eff) : String :=
  let t : String := match e with | .val .A => "A" | .val .B => "B" | .val .X => "X" | .dflt => "D"
  match setting, t with
  | "root", "A" => "A" | "root", "B" => "B" | "root", _ => "C"          -- default "." = the working directory
  | "listen-addr", "B" => "B" | "listen-addr", _ => "A"
  | "allow-write", "A" => "1" | "allow-write", _ => "0"
  | "client-whitelist", "B" => "closed" | "client-whitelist", _ => "served"
  | "max-clients", "A" => "limited" | "max-clients", _ => "open"
  | "read-timeout", "A" => "cut" | "read-timeout", _ => "alive"
  | "debug", "A" => "1" | "debug", _ => "0"
  | "json-log", "A" => "1" | "json-log", _ => "0"
  | "debug-server-listen-addr", "A" => "1" | "debug-server-listen-addr", _ => "0"
  | _, _ => "?"

def c19Op (args : List String) : String :=
  match args with
  | [assigns] =>
    let as := (assigns.splitOn ",").filterMap parseAssign
    match effectiveAll as with
    | .error _ => "exit"
    | .ok effs =>
      let b (s : String) : String := behaviour s ((effs.find? (·.1 == s)).map (·.2) |>.getD .dflt)
      if b "client-whitelist" == "closed" then
        s!"port={b "listen-addr"} wl=closed debug={b "debug"} json={b "json-log"} pprof={b "debug-server-listen-addr"}"
      else
        s!"port={b "listen-addr"} wl=served root={b "root"} aw={b "allow-write"} max={b "max-clients"} rt={b "read-timeout"} debug={b "debug"} json={b "json-log"} pprof={b "debug-server-listen-addr"}"
  | _ => "bad-op"

end Driver
