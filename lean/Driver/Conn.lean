import Driver.Util
import Driver.Viso
import Ps3.Model.Conn
import Ps3.Model.FSWrap
namespace Driver
open Ps3 Ps3.Conn Ps3.Proto

def bytesLt : Bytes → Bytes → Bool
  | [], [] => false
  | [], _ => true
  | _, [] => false
  | a :: as, b :: bs => if a < b then true else if b < a then false else bytesLt as bs

/-- READ_DIR answers are compared as multisets: sort the 529-byte records by name (as the harness does) -/
def canonReadDir (b : Bytes) : Bytes :=
  let hdr := b.take 8
  let body := b.drop 8
  let n := body.length / 529
  let recs := (List.range n).map (fun i => slice body (i * 529) 529)
  let sorted := recs.mergeSort (fun a b => !bytesLt (b.drop 17) (a.drop 17))
  hdr ++ sorted.flatten

def pathString (p : Path) : Bytes := if p.isEmpty then [47] else (p.map (fun c => 47 :: c)).flatten

def renderMtime (m : Nat) : String := toString m

/-- canonical rendering of the world, same format as the harness's `snapshot` -/
def snapshotLines (w : World) : List String :=
  let root := s!"{toHex [47]}:d:{renderMtime w.rootMtime}"
  let rest := w.entries.map (fun e =>
    let hp := toHex (pathString e.path)
    match e.node with
    | .file i =>
      match w.inode? i with
      | some f =>
        let c := f.content
        let h := if c.size ≤ 1048576 then hex16 (fnv1a c.all) else "big"
        s!"{hp}:f:{c.size}:{h}:{renderMtime f.mtime}"
      | none => s!"{hp}:f:?"
    | .dir mt => s!"{hp}:d:{renderMtime mt}"
    | .link _ => s!"{hp}:l"
    | .linkOut => s!"{hp}:l")
  (root :: rest).mergeSort (fun a b => a ≤ b)

def snapshotHash (w : World) : String :=
  if w.rootGone then hex16 (fnv1a (strBytes "GONE")) else
  hex16 (fnv1a (strBytes (String.intercalate "," (snapshotLines w))))

def isReadDir (r : Req) : Bool := match r with | .readDir => true | _ => false

/-- run the requests one by one (lockstep): each must be complete on its own -/
def runReqs (cfg : Cfg) : World → State → List Bytes → Nat → List String → World × List String × Bool
  | w, _, [], _, acc => (w, acc.reverse, false)
  | w, st, rb :: rest, i, acc =>
    match decode rb with
    | .req r _ =>
      let (w', st', out) := step cfg w st r
      let bytes := if isReadDir r then canonReadDir out.bytes else out.bytes
      if out.close then (w', (s!"r{i}=X:{digest bytes}" :: acc).reverse, true)
      else runReqs cfg w' st' rest (i + 1) ((s!"r{i}=" ++ digest bytes) :: acc)
    | _ => (w, (s!"r{i}=X:-" :: acc).reverse, true)

def noWrap : World → Path → Option (Option StaticView) := fun _ _ => none

/-- the wrapper selection of FS.OpenFile with the comparison mask applied to generated images
    (volume timestamps, PS3 filler: the harness masks the same positions on the implementation side) -/
def fullWrap : World → Path → Option (Option StaticView) := fun w p =>
  match FSWrap.wrap ⟨0, 0⟩ [] w p with
  | some (some v) =>
    if FSWrap.isVirtualPath p then
      let ps3 := FSWrap.isPs3Path p
      some (some { v with read := fun off n => maskImage (v.read off n) off ps3 })
    else some (some v)
  | r => r

def connWith (wrap : World → Path → Option (Option StaticView)) (args : List String) (trailer : Bool := true) : String :=
  match args with
  | [aw, tree, reqs] =>
    let w := parseTree tree
    let rs := if reqs == "-" then [] else (reqs.splitOn ",").filterMap fromHex
    let cfg : Cfg := { allowWrite := aw == "1", wrap := wrap }
    let (w', outs, aborted) := runReqs cfg w {} rs 0 []
    let outs := if aborted then outs else outs ++ ["end=-"]
    String.intercalate " " (outs ++ (if trailer then [s!"fs={snapshotHash w'}", "leak=0", "out=0"] else []))
  | _ => "bad-op"

/-- `clean <hexpath>`: filepath.Clean("/" + p) -/
def cleanOp (args : List String) : String :=
  match args with
  | [h] => match fromHex h with
    | some p => toHex (PathStr.renderRooted (PathStr.cleanRequest p))
    | none => "bad-op"
  | _ => "bad-op"

/-- `real <hexroot> <hexpath>`: BasePathFs.RealPath(Clean("/" + p)) for a rooted base path -/
def realOp (args : List String) : String :=
  match args with
  | [hr, hp] => match fromHex hr, fromHex hp with
    | some r, some p =>
      toHex (PathStr.renderRooted (PathStr.cleanRooted [] (PathStr.splitSlash r) ++ PathStr.cleanRequest p))
    | _, _ => "bad-op"
  | _ => "bad-op"

def rawWith (wrap : World → Path → Option (Option StaticView)) (args : List String) : String :=
  match args with
  | [aw, tree, stream] =>
    match fromHex stream with
    | none => "bad-op"
    | some input =>
      let w := parseTree tree
      let cfg : Cfg := { allowWrite := aw == "1", wrap := wrap }
      let (w', _, out, used) := serve cfg (input.length / 16 + 2) w {} input [] 0
      s!"out={digest out} consumed={used} fs={snapshotHash w'} leak=0 out=0"
  | _ => "bad-op"

/-- `c05big <announced>`: with writing enabled, CREATE /up.bin, then a WRITE_FILE announcing `announced`
    bytes. The model's answer does not depend on the payload once the announced length exceeds what the
    answer can report, so the payload is not materialised. -/
def c05bigOp (args : List String) : String :=
  match args with
  | [a] =>
    let announced := parseNat a
    let cfg : Cfg := { allowWrite := true, wrap := fun _ _ => none }
    let w0 := parseTree "2f:d:1000"
    let (w1, st1, _) := step cfg w0 ({} : State) (.createFile (strBytes "/up.bin"))
    let (w2, st2, out) := step cfg w1 st1 (.writeFile announced [])
    if announced ≤ maxAnnounce then "model-needs-payload" else
    let (_, _, out3) := step cfg w2 st2 (.statFile [47])
    let size := match w2.stat [strBytes "up.bin"] with
      | some (_, .file i) => ((w2.inode? i).map (fun (f : Inode) => f.content.size)).getD 0
      | _ => 0
    s!"resp={toHex out.bytes} insync={if out.close || out3.close then 0 else 1} size={size}"
  | _ => "bad-op"

end Driver
