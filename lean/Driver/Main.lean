import Driver.C14
import Driver.Conn
import Driver.Viso
import Driver.Tools
import Driver.C13
import Driver.Admission
import Driver.Timeout
import Driver.Config
import Driver.C04
/-! `vmodel`: the line-protocol driver over the executable Lean model.
    One case per input line (`<stream> <args…>`), one predicted observation per output line. -/
namespace Driver

def dispatch (line : String) : String :=
  match (line.splitOn " ").filter (· ≠ "") with
  | [] => ""
  | tag :: args =>
    match tag with
    | "c14" => c14 args
    | "conn" => connWith fullWrap args
    | "connq" => connWith fullWrap args false
    | "raw" => rawWith fullWrap args
    | "clean" => cleanOp args
    | "viso" => visoOp args
    | "visobig" =>   -- judged by the independent reader only (see harness); beyond the path table's numbering: refused
      if (args.head?.map parseNat).getD 0 > Gen.fs_pathTableItemsLimit then "openerr" else "valid=ok tree=ok again=same"
    | "mkiso" => mkisoOp args
    | "dec" => decOp args
    | "fileops" => fileopsOp args
    | "fileopsclr" => fileopsclrOp args
    | "c13" => c13Op args
    | "c15w" => c15wOp args
    | "c15l" => c15lOp args
    | "c16" => c16Op args
    | "c16w" => c16wOp args
    | "c05big" => c05bigOp args
    | "c19" => c19Op args
    | "c04" => c04Op args
    | "c11rw" => "rw=raw"   -- a file opened read-write is passed through as stored (FS.OpenFile: modifying open, no wrapper)
    | "c20race" => "race=intact exit=error"   -- a file that appears between the tool's check and its open survives
    | "c18x" => "again=same"   -- C18 on wide timestamps: the image is a function of the tree alone
    | "c13end" => c13endOp args
    | "real" => realOp args
    | _ => "bad-op"

partial def loop (h : IO.FS.Stream) (out : IO.FS.Stream) : IO Unit := do
  let line ← h.getLine
  if line.isEmpty then return ()
  let l := String.ofList (line.toList.reverse.dropWhile (fun c => c == '\n' || c == '\r')).reverse
  out.putStrLn (dispatch l)
  loop h out

end Driver

def main : IO Unit := do
  let stdin ← IO.getStdin
  let stdout ← IO.getStdout
  Driver.loop stdin stdout
  stdout.flush
