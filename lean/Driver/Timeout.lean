import Driver.Util
import Ps3.Model.Timeout
namespace Driver
open Ps3 Ps3.Timeout

/-- `c16 <T> <bucket> <name> <chunks>` -/
def c16Op (args : List String) : String :=
  match args with
  | [t, b, _, chunks] =>
    let cs : List Chunk := if chunks == "-" then [] else (chunks.splitOn ",").filterMap (fun c =>
      match c.splitOn ":" with
      | [d, h] => (fromHex h).map (fun bytes => ⟨parseNat d, bytes⟩)
      | _ => none)
    let r := run (parseNat t) cs
    let bucket := parseNat b
    match r.cutAt with
    | none => s!"resp={r.responses} cut=never"
    | some at_ => s!"resp={r.responses} cut={(at_ + bucket / 2) / bucket}"
  | _ => "bad-op"

/-- `c16w <T> <scenario>`: the write side. `stalled`: the client reads nothing for 3T after asking for
    far more than the socket buffers hold; `steady`: it drains a response that takes about 3T. -/
def c16wOp (args : List String) : String :=
  match args with
  | [t, "stalled"] =>
    let T := parseNat t
    if (writeOut T [0, 0, 0, 3 * T]).2 then "cut=yes handles=released" else "cut=no handles=held"
  | [t, "steady"] =>
    let T := parseNat t
    let r := writeOut T (List.replicate 64 (T / 20))
    if r.2 then "served=short" else "served=full"
  | _ => "bad-op"

end Driver
