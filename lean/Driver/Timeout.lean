import Driver.Util
import Ps3.Model.Timeout
namespace Driver
open Ps3 Ps3.Timeout

/-- `c16 <T> <bucket> <name> <chunks>` -/
def c16Op (args : List String) : String :=
  match args with
  | [t, b, _, chunks] =>
    let cs : List Chunk := if chunks == "-" then [] else (chunks.splitOn ",").filterMap (fun c =>
      match c.splitOn ":" with
      | [d, h] => (fromHex h).map (fun bytes => ⟨parseNat d, bytes⟩)
      | _ => none)
    let r := run (parseNat t) cs
    let bucket := parseNat b
    match r.cutAt with
    | none => s!"resp={r.responses} cut=never"
    | some at_ => s!"resp={r.responses} cut={(at_ + bucket / 2) / bucket}"
  | _ => "bad-op"

end Driver
