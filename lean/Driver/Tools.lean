import Driver.Viso
import Ps3.Model.FSWrap
namespace Driver
open Ps3 Ps3.Viso

/-- `mkiso <ps3> <target> <tree> <hexdir>`: make-iso writes exactly the image the server serves -/
def mkisoOp (args : List String) : String :=
  match args with
  | [ps3, target, tree, hdir] =>
    match fromHex hdir with
    | none => "bad-op"
    | some dir =>
      if target == "existing-file" || target == "existing-dir" then "exit=error untouched" else
      let w := parseTree tree
      let isPs3 := ps3 == "1"
      match build w (pathOfBytes dir) isPs3 ⟨0, 0⟩ [] with
      | none => "exit=error"
      | some img =>
        let bytes := maskImage (img.read (contentOf w) 0 img.totalSize) 0 isPs3
        s!"exit=ok size={img.totalSize} full={digest bytes}"
  | _ => "bad-op"

/-- `dec <kind> <target> <tree with the image> <hexkey>`: the decrypt tool's output -/
def decOp (args : List String) : String :=
  match args with
  | [kind, target, tree, hkey] =>
    match fromHex hkey with
    | none => "bad-op"
    | some key =>
      if target == "existing-file" then "exit=error untouched" else
      let w := parseTree tree
      match w.inodes.head? with
      | none => "bad-op"
      | some f =>
        let rd := FSWrap.fileRd f
        let embedded? : Option (Option Bytes) :=
          if kind == "redump" then some (some key)
          else match Crypt.test3k3y rd with
            | .enc k => some (some k)
            | _ => none          -- "image is not encrypted" / not a 3k3y image: error exit
        match embedded? with
        | none => "exit=error"
        | some none => "exit=error"
        | some (some k) =>
          match Crypt.parseTable rd with
          | none => "exit=error"
          | some regs =>
            let size := f.content.size
            let out := Crypt.readDec (Crypt.aesSector k) (Crypt.gaps regs) rd size (8 + 8 * regs.length) 0 size
            let out := if kind == "redump" then out else Crypt.mask3k3y out 0
            s!"exit=ok size={out.length} full={digest out}"
  | _ => "bad-op"

end Driver

namespace Driver
open Ps3 Ps3.Viso

/-- os.File-like semantics of Read (looped until n bytes or the end) / ReadAt / Seek on a view -/
def fileOpsRun (rd : Nat → Nat → Bytes) (size : Nat) : List VOp → Nat → List String → List String
  | [], _, acc => acc.reverse
  | op :: rest, cur, acc =>
    if op.kind == 'A' || op.kind == 'R' then
      let off := if op.kind == 'A' then op.off.toNat else cur
      let d := rd off op.n
      let cls := if d.length < op.n then "eof" else "ok"
      fileOpsRun rd size rest (if op.kind == 'R' then cur + d.length else cur) (s!"{d.length}/{cls}/{digest d}" :: acc)
    else
      let t : Int := if op.whence == 0 then op.off else if op.whence == 1 then op.off + cur else (size : Int) + op.off
      if t < 0 then fileOpsRun rd size rest cur ("0/err" :: acc)
      else fileOpsRun rd size rest t.toNat (s!"{t}/ok" :: acc)

/-- `fileops <short> <tree> <hexpath> <ops>`: access patterns on what FS.Open returns for a file -/
def fileopsOp (args : List String) : String :=
  match args with
  | [_, tree, hpath, ops] =>
    match fromHex hpath with
    | none => "bad-op"
    | some pb =>
      let w := parseTree tree
      let p := pathOfBytes pb
      match FSWrap.wrap ⟨0, 0⟩ [] w p with
      | some none => "openerr"
      | some (some v) => "ops=" ++ String.intercalate "," (fileOpsRun v.read v.size (parseOps ops) 0 [])
      | none =>
        match w.stat p with
        | some (_, .file i) =>
          match w.inode? i with
          | some f => "ops=" ++ String.intercalate "," (fileOpsRun (FSWrap.fileRd f) f.content.size (parseOps ops) 0 [])
          | none => "openerr"
        | _ => "openerr"
  | _ => "bad-op"

/-- `fileopsclr <short> <tree> <hexpath> <kind> <hexkey> <ops>`: access patterns on the view the decrypt tools
    build — NewEncryptedISO(image, key, clearRegions = true), for 3k3y wrapped in NewISO3k3y -/
def fileopsclrOp (args : List String) : String :=
  match args with
  | [_, tree, hpath, kind, hkey, ops] =>
    match fromHex hpath, fromHex hkey with
    | some pb, some key =>
      let w := parseTree tree
      match w.stat (pathOfBytes pb) with
      | some (_, .file i) =>
        match w.inode? i with
        | some f =>
          let rd := FSWrap.fileRd f
          let size := f.content.size
          if size > Viso.maxSector * Crypt.sectorSize then "openerr" else
          match Crypt.parseTable rd with
          | none => "openerr"
          | some regs =>
            let dec := Crypt.readDec (Crypt.aesSector key) (Crypt.gaps regs) rd size (8 + 8 * regs.length)
            let view : Nat → Nat → Bytes := if kind == "redump" then dec else fun off n => Crypt.mask3k3y (dec off n) off
            "ops=" ++ String.intercalate "," (fileOpsRun view size (parseOps ops) 0 [])
        | none => "openerr"
      | _ => "openerr"
    | _, _ => "bad-op"
  | _ => "bad-op"

end Driver
