import Ps3.Base.Bytes
import Ps3.Model.World
import Ps3.Base.PathStr
namespace Driver
open Ps3

def hex16 (v : UInt64) : String :=
  let s := (Nat.toDigits 16 v.toNat)
  String.ofList (List.replicate (16 - s.length) '0' ++ s)

/-- same rendering as the harness's `digest` -/
def digest (b : Bytes) : String :=
  if b.length ≤ 64 then hexOrDash b
  else s!"L{b.length}:{hex16 (fnv1a b)}:{toHex (b.take 16)}:{toHex (b.drop (b.length - 16))}"

def parseNat (s : String) : Nat := s.toNat?.getD 0

/-- "/a/b" → ["a","b"] (no cleaning: tree paths are written canonically by the harness) -/
def pathOfBytes (b : Bytes) : Path :=
  ((PathStr.splitSlash b).filter (!·.isEmpty))

def parseOverlays (s : String) : List Overlay :=
  if s == "-" then [] else
  (s.splitOn ";").filterMap (fun o =>
    match o.splitOn "@" with
    | [off, h] => (fromHex h).map (fun d => ⟨parseNat off, d⟩)
    | _ => none)

inductive PNode where
  | file (c : Content) (mt : Nat) | dir (mt : Nat) | link (t : Path) | linkOut

/-- tree description → world (entries in the given order) -/
def parseTree (s : String) : World :=
  if s == "-" then { entries := [] } else
  let es : List (Path × PNode) := (s.splitOn ",").filterMap (fun e =>
    match e.splitOn ":" with
    | [hp, "f", size, seed, mtime, ovs] =>
      (fromHex hp).map (fun p => (pathOfBytes p, PNode.file { size := parseNat size, seed := parseNat seed, overlays := parseOverlays ovs } (parseNat mtime)))
    | [hp, "d", mtime] => (fromHex hp).map (fun p => (pathOfBytes p, PNode.dir (parseNat mtime)))
    | [hp, "l", ht] => do
      let p ← fromHex hp
      let t ← fromHex ht
      pure (pathOfBytes p, PNode.link (pathOfBytes t))
    | [hp, "x"] => (fromHex hp).map (fun p => (pathOfBytes p, PNode.linkOut))
    | _ => none)
  let rootM := match es.find? (fun e => e.1.isEmpty) with
    | some (_, .dir m) => m
    | _ => 0
  let w0 : World := { entries := [], rootMtime := rootM }
  (es.filter (fun e => !e.1.isEmpty)).foldl (fun w e =>
    match e.2 with
    | .file c mt => w.newFile e.1 c mt
    | .dir mt => w.addEntry ⟨e.1, .dir mt⟩
    | .link t => w.addEntry ⟨e.1, .link t⟩
    | .linkOut => w.addEntry ⟨e.1, .linkOut⟩) w0

end Driver
