import Driver.Util
import Ps3.Model.Viso
import Ps3.Model.Checked
import Ps3.Proof.BuildWF
import Ps3.Spec.Viso
import Ps3.Spec.IsoTree
namespace Driver
open Ps3 Ps3.Viso

/-- blank the documented variable fields of a slice that starts at image offset `base` -/
def maskImage (b : Bytes) (base : Nat) (ps3 : Bool) : Bytes :=
  let ranges : List (Nat × Nat) :=
    [(16 * 2048 + 813, 16 * 2048 + 847), (17 * 2048 + 813, 17 * 2048 + 847)] ++
    (if ps3 then [(2048 + 0x40, 2048 + 0x200)] else [])
  ranges.foldl (fun acc (r : Nat × Nat) =>
    let lo := max r.1 base
    let hi := min r.2 (base + acc.length)
    if lo < hi then acc.take (lo - base) ++ zeros (hi - lo) ++ acc.drop (hi - base) else acc) b

/-- the content function of the theorems (`build_wf` is about exactly this one) -/
def contentOf (w : World) (i : Nat) : Content := Ps3.Proof.BuildWF.cfOf w i

def parseInt (s : String) : Int :=
  if s.startsWith "-" then -(((s.drop 1).toString.toNat?).getD 0 : Nat) else ((s.toNat?).getD 0 : Nat)

structure VOp where
  kind : Char
  n : Nat
  off : Int
  whence : Nat

def parseOps (s : String) : List VOp :=
  if s == "-" then [] else
  (s.splitOn ",").filterMap (fun t =>
    match t.toList with
    | 'A' :: rest =>
      match (String.ofList rest).splitOn "@" with
      | [n, off] => some ⟨'A', parseNat n, parseInt off, 0⟩
      | _ => none
    | 'R' :: rest => some ⟨'R', parseNat (String.ofList rest), 0, 0⟩
    | 'S' :: rest =>
      match (String.ofList rest).splitOn "/" with
      | [off, wh] => some ⟨'S', 0, parseInt off, parseNat wh⟩
      | _ => none
    | _ => none)

def readObs (img : Image) (w : World) (ps3 : Bool) (off n : Nat) : String × Nat :=
  let d := img.read (contentOf w) off n
  let cls := if off ≥ img.totalSize ∨ n == 0 then "eof" else "ok"
  -- the checked transcription (Model/Checked.lean) must neither fault nor differ
  match Checked.readC img (contentOf w) off n with
  | .error _ => ("MODEL-FAULT", 0)
  | .ok (d', errd) =>
    if errd || d' != d then ("CHECKED-MISMATCH", 0)
    else (s!"{d.length}/{cls}/{digest (maskImage d off ps3)}", d.length)

def runOps (img : Image) (w : World) (ps3 : Bool) : List VOp → Nat → List String → List String
  | [], _, acc => acc.reverse
  | op :: rest, cur, acc =>
    if op.kind == 'A' then
      if op.off < 0 then
        -- ReadAt refuses a negative offset before anything else (Checked.readAtC)
        let s := match Checked.readAtC img (contentOf w) op.off op.n with
          | .ok ([], true) => s!"0/err/{digest []}"
          | .ok _ => "CHECKED-MISMATCH"
          | .error _ => "MODEL-FAULT"
        runOps img w ps3 rest cur (s :: acc)
      else
      let (s, _) := readObs img w ps3 op.off.toNat op.n
      runOps img w ps3 rest cur (s :: acc)
    else if op.kind == 'R' then
      let (s, k) := readObs img w ps3 cur op.n
      runOps img w ps3 rest (cur + k) (s :: acc)
    else
      let target : Option Int :=
        if op.whence == 0 then some op.off
        else if op.whence == 1 then some (op.off + cur)
        else if op.whence == 2 then some ((img.totalSize : Int) + op.off)
        else none
      match target with
      | none => runOps img w ps3 rest cur ("0/err" :: acc)
      | some t =>
        if t < 0 ∨ t > img.totalSize then runOps img w ps3 rest cur ("0/err" :: acc)
        else runOps img w ps3 rest t.toNat (s!"{t}/ok" :: acc)

def visoOp (args : List String) : String :=
  match args with
  | [ps3, full, tree, hdir, ops] =>
    match fromHex hdir with
    | none => "bad-op"
    | some dir =>
      let w := parseTree tree
      let isPs3 := ps3 == "1"
      match build w (pathOfBytes dir) isPs3 ⟨0, 0⟩ [] with
      | none => "openerr"
      | some img =>
        let fullS :=
          if full == "1" && img.totalSize ≤ 3145728 then
            "full=" ++ digest (maskImage (img.read (contentOf w) 0 img.totalSize) 0 isPs3)
          else "full=skip"
        let obs := runOps img w isPs3 (parseOps ops) 0 []
        let wf := if Spec.Viso.wfB img (contentOf w) then "1" else "0"
        -- the ECMA-119 reader of Spec/IsoTree.lean walks the model's metadata area; the harness prints the
        -- same listing from its own Go reader on the implementation's image
        let rd (j : Bool) := digest (strBytes (Spec.IsoTree.listingOf img.fsBuf j))
        s!"size={img.totalSize} {fullS} ops={String.intercalate "," obs} valid=ok tree=ok wf={wf} again=same rd={rd false}.{rd true}"
  | _ => "bad-op"

end Driver
