import Ps3.Base.Bytes
import Ps3.Base.Aes
import Ps3.Gen.Facts
import Ps3.Props.C14
