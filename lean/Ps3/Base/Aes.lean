/-
AES-128 (FIPS-197), single block + CBC, over `ByteArray`.  Core Lean only.
The state is a 16-byte `ByteArray` in FIPS order (byte `r + 4*c` is row `r`, column `c`).
All functions are total; out-of-range reads yield `0` (no panics).
-/
namespace Ps3.Aes

/-- Total byte read: `0` when out of range. -/
@[inline] def gb (a : ByteArray) (i : Nat) : UInt8 :=
  if h : i < a.size then a[i] else 0

/-- AES S-box. -/
def sbox : ByteArray := ⟨#[
  0x63, 0x7c, 0x77, 0x7b, 0xf2, 0x6b, 0x6f, 0xc5, 0x30, 0x01, 0x67, 0x2b, 0xfe, 0xd7, 0xab, 0x76,
  0xca, 0x82, 0xc9, 0x7d, 0xfa, 0x59, 0x47, 0xf0, 0xad, 0xd4, 0xa2, 0xaf, 0x9c, 0xa4, 0x72, 0xc0,
  0xb7, 0xfd, 0x93, 0x26, 0x36, 0x3f, 0xf7, 0xcc, 0x34, 0xa5, 0xe5, 0xf1, 0x71, 0xd8, 0x31, 0x15,
  0x04, 0xc7, 0x23, 0xc3, 0x18, 0x96, 0x05, 0x9a, 0x07, 0x12, 0x80, 0xe2, 0xeb, 0x27, 0xb2, 0x75,
  0x09, 0x83, 0x2c, 0x1a, 0x1b, 0x6e, 0x5a, 0xa0, 0x52, 0x3b, 0xd6, 0xb3, 0x29, 0xe3, 0x2f, 0x84,
  0x53, 0xd1, 0x00, 0xed, 0x20, 0xfc, 0xb1, 0x5b, 0x6a, 0xcb, 0xbe, 0x39, 0x4a, 0x4c, 0x58, 0xcf,
  0xd0, 0xef, 0xaa, 0xfb, 0x43, 0x4d, 0x33, 0x85, 0x45, 0xf9, 0x02, 0x7f, 0x50, 0x3c, 0x9f, 0xa8,
  0x51, 0xa3, 0x40, 0x8f, 0x92, 0x9d, 0x38, 0xf5, 0xbc, 0xb6, 0xda, 0x21, 0x10, 0xff, 0xf3, 0xd2,
  0xcd, 0x0c, 0x13, 0xec, 0x5f, 0x97, 0x44, 0x17, 0xc4, 0xa7, 0x7e, 0x3d, 0x64, 0x5d, 0x19, 0x73,
  0x60, 0x81, 0x4f, 0xdc, 0x22, 0x2a, 0x90, 0x88, 0x46, 0xee, 0xb8, 0x14, 0xde, 0x5e, 0x0b, 0xdb,
  0xe0, 0x32, 0x3a, 0x0a, 0x49, 0x06, 0x24, 0x5c, 0xc2, 0xd3, 0xac, 0x62, 0x91, 0x95, 0xe4, 0x79,
  0xe7, 0xc8, 0x37, 0x6d, 0x8d, 0xd5, 0x4e, 0xa9, 0x6c, 0x56, 0xf4, 0xea, 0x65, 0x7a, 0xae, 0x08,
  0xba, 0x78, 0x25, 0x2e, 0x1c, 0xa6, 0xb4, 0xc6, 0xe8, 0xdd, 0x74, 0x1f, 0x4b, 0xbd, 0x8b, 0x8a,
  0x70, 0x3e, 0xb5, 0x66, 0x48, 0x03, 0xf6, 0x0e, 0x61, 0x35, 0x57, 0xb9, 0x86, 0xc1, 0x1d, 0x9e,
  0xe1, 0xf8, 0x98, 0x11, 0x69, 0xd9, 0x8e, 0x94, 0x9b, 0x1e, 0x87, 0xe9, 0xce, 0x55, 0x28, 0xdf,
  0x8c, 0xa1, 0x89, 0x0d, 0xbf, 0xe6, 0x42, 0x68, 0x41, 0x99, 0x2d, 0x0f, 0xb0, 0x54, 0xbb, 0x16]⟩

/-- AES inverse S-box. -/
def invSbox : ByteArray := ⟨#[
  0x52, 0x09, 0x6a, 0xd5, 0x30, 0x36, 0xa5, 0x38, 0xbf, 0x40, 0xa3, 0x9e, 0x81, 0xf3, 0xd7, 0xfb,
  0x7c, 0xe3, 0x39, 0x82, 0x9b, 0x2f, 0xff, 0x87, 0x34, 0x8e, 0x43, 0x44, 0xc4, 0xde, 0xe9, 0xcb,
  0x54, 0x7b, 0x94, 0x32, 0xa6, 0xc2, 0x23, 0x3d, 0xee, 0x4c, 0x95, 0x0b, 0x42, 0xfa, 0xc3, 0x4e,
  0x08, 0x2e, 0xa1, 0x66, 0x28, 0xd9, 0x24, 0xb2, 0x76, 0x5b, 0xa2, 0x49, 0x6d, 0x8b, 0xd1, 0x25,
  0x72, 0xf8, 0xf6, 0x64, 0x86, 0x68, 0x98, 0x16, 0xd4, 0xa4, 0x5c, 0xcc, 0x5d, 0x65, 0xb6, 0x92,
  0x6c, 0x70, 0x48, 0x50, 0xfd, 0xed, 0xb9, 0xda, 0x5e, 0x15, 0x46, 0x57, 0xa7, 0x8d, 0x9d, 0x84,
  0x90, 0xd8, 0xab, 0x00, 0x8c, 0xbc, 0xd3, 0x0a, 0xf7, 0xe4, 0x58, 0x05, 0xb8, 0xb3, 0x45, 0x06,
  0xd0, 0x2c, 0x1e, 0x8f, 0xca, 0x3f, 0x0f, 0x02, 0xc1, 0xaf, 0xbd, 0x03, 0x01, 0x13, 0x8a, 0x6b,
  0x3a, 0x91, 0x11, 0x41, 0x4f, 0x67, 0xdc, 0xea, 0x97, 0xf2, 0xcf, 0xce, 0xf0, 0xb4, 0xe6, 0x73,
  0x96, 0xac, 0x74, 0x22, 0xe7, 0xad, 0x35, 0x85, 0xe2, 0xf9, 0x37, 0xe8, 0x1c, 0x75, 0xdf, 0x6e,
  0x47, 0xf1, 0x1a, 0x71, 0x1d, 0x29, 0xc5, 0x89, 0x6f, 0xb7, 0x62, 0x0e, 0xaa, 0x18, 0xbe, 0x1b,
  0xfc, 0x56, 0x3e, 0x4b, 0xc6, 0xd2, 0x79, 0x20, 0x9a, 0xdb, 0xc0, 0xfe, 0x78, 0xcd, 0x5a, 0xf4,
  0x1f, 0xdd, 0xa8, 0x33, 0x88, 0x07, 0xc7, 0x31, 0xb1, 0x12, 0x10, 0x59, 0x27, 0x80, 0xec, 0x5f,
  0x60, 0x51, 0x7f, 0xa9, 0x19, 0xb5, 0x4a, 0x0d, 0x2d, 0xe5, 0x7a, 0x9f, 0x93, 0xc9, 0x9c, 0xef,
  0xa0, 0xe0, 0x3b, 0x4d, 0xae, 0x2a, 0xf5, 0xb0, 0xc8, 0xeb, 0xbb, 0x3c, 0x83, 0x53, 0x99, 0x61,
  0x17, 0x2b, 0x04, 0x7e, 0xba, 0x77, 0xd6, 0x26, 0xe1, 0x69, 0x14, 0x63, 0x55, 0x21, 0x0c, 0x7d]⟩

@[inline] def sub (b : UInt8) : UInt8 := gb sbox b.toNat
@[inline] def invSub (b : UInt8) : UInt8 := gb invSbox b.toNat

/-- Multiplication by `x` (i.e. `{02}`) in GF(2^8) modulo `x^8+x^4+x^3+x+1`. -/
@[inline] def xtime (b : UInt8) : UInt8 :=
  (b <<< 1) ^^^ (if b &&& 0x80 != 0 then 0x1b else 0)

/-- Bytewise XOR of two 16-byte blocks (missing bytes read as `0`); result has size 16. -/
def xorBlock (a b : ByteArray) : ByteArray :=
  Nat.fold 16 (fun i _ out => out.push (gb a i ^^^ gb b i)) (ByteArray.emptyWithCapacity 16)

/-- Round constants `Rcon[1..10]` (index 0 unused). -/
def rcon : ByteArray := ⟨#[0x00, 0x01, 0x02, 0x04, 0x08, 0x10, 0x20, 0x40, 0x80, 0x1b, 0x36]⟩

/-- The 176-byte expanded key `w[0..43]` (4 bytes per word), FIPS-197 §5.2. -/
def expandKeyFlat (key : ByteArray) : ByteArray :=
  Nat.fold 40 (fun j _ w =>
    let i := j + 4
    let p := 4 * (i - 1)
    let q := 4 * (i - 4)
    let (t0, t1, t2, t3) :=
      if i % 4 == 0 then
        (sub (gb w (p+1)) ^^^ gb rcon (i / 4), sub (gb w (p+2)), sub (gb w (p+3)), sub (gb w p))
      else (gb w p, gb w (p+1), gb w (p+2), gb w (p+3))
    (((w.push (gb w q ^^^ t0)).push (gb w (q+1) ^^^ t1)).push (gb w (q+2) ^^^ t2)).push
      (gb w (q+3) ^^^ t3))
    (xorBlock key ByteArray.empty)

/-- Key schedule: 11 round keys of 16 bytes each. -/
def expandKey (key : ByteArray) : Array ByteArray :=
  let w := expandKeyFlat key
  Nat.fold 11 (fun r _ acc => acc.push (w.extract (16 * r) (16 * r + 16))) (Array.emptyWithCapacity 11)

@[inline] def roundKey (rks : Array ByteArray) (r : Nat) : ByteArray := rks.getD r ByteArray.empty

/-- One encryption round: SubBytes, ShiftRows, MixColumns (skipped when `last`), AddRoundKey. -/
def encRound (last : Bool) (st rk : ByteArray) : ByteArray :=
  Nat.fold 4 (fun c _ out =>
    let b := 4 * c
    let s0 := sub (gb st b)
    let s1 := sub (gb st ((b + 5) % 16))
    let s2 := sub (gb st ((b + 10) % 16))
    let s3 := sub (gb st ((b + 15) % 16))
    let (m0, m1, m2, m3) :=
      if last then (s0, s1, s2, s3) else
        let t := s0 ^^^ s1 ^^^ s2 ^^^ s3
        (s0 ^^^ t ^^^ xtime (s0 ^^^ s1), s1 ^^^ t ^^^ xtime (s1 ^^^ s2),
         s2 ^^^ t ^^^ xtime (s2 ^^^ s3), s3 ^^^ t ^^^ xtime (s3 ^^^ s0))
    (((out.push (m0 ^^^ gb rk b)).push (m1 ^^^ gb rk (b+1))).push (m2 ^^^ gb rk (b+2))).push
      (m3 ^^^ gb rk (b+3)))
    (ByteArray.emptyWithCapacity 16)

/-- One decryption round: InvShiftRows, InvSubBytes, AddRoundKey, InvMixColumns (skipped when `last`). -/
def decRound (last : Bool) (st rk : ByteArray) : ByteArray :=
  Nat.fold 4 (fun c _ out =>
    let b := 4 * c
    let a0 := invSub (gb st b) ^^^ gb rk b
    let a1 := invSub (gb st ((b + 13) % 16)) ^^^ gb rk (b+1)
    let a2 := invSub (gb st ((b + 10) % 16)) ^^^ gb rk (b+2)
    let a3 := invSub (gb st ((b + 7) % 16)) ^^^ gb rk (b+3)
    if last then (((out.push a0).push a1).push a2).push a3 else
      -- InvMixColumns = MixColumns ∘ P, where P adds {04}·(a0+a2) to rows 0,2 and {04}·(a1+a3) to rows 1,3
      let u := xtime (xtime (a0 ^^^ a2))
      let v := xtime (xtime (a1 ^^^ a3))
      let s0 := a0 ^^^ u
      let s1 := a1 ^^^ v
      let s2 := a2 ^^^ u
      let s3 := a3 ^^^ v
      let t := s0 ^^^ s1 ^^^ s2 ^^^ s3
      (((out.push (s0 ^^^ t ^^^ xtime (s0 ^^^ s1))).push (s1 ^^^ t ^^^ xtime (s1 ^^^ s2))).push
        (s2 ^^^ t ^^^ xtime (s2 ^^^ s3))).push (s3 ^^^ t ^^^ xtime (s3 ^^^ s0)))
    (ByteArray.emptyWithCapacity 16)

/-- Encrypt one 16-byte block with an expanded key schedule (`expandKey`). -/
def encryptBlockWith (rks : Array ByteArray) (blk : ByteArray) : ByteArray :=
  let st := xorBlock blk (roundKey rks 0)
  let st := Nat.fold 9 (fun i _ st => encRound false st (roundKey rks (i + 1))) st
  encRound true st (roundKey rks 10)

/-- Decrypt one 16-byte block with an expanded key schedule (`expandKey`). -/
def decryptBlockWith (rks : Array ByteArray) (blk : ByteArray) : ByteArray :=
  let st := xorBlock blk (roundKey rks 10)
  let st := Nat.fold 9 (fun i _ st => decRound false st (roundKey rks (9 - i))) st
  decRound true st (roundKey rks 0)

/-- AES-128 single block encrypt; `key.size = 16`, `blk.size = 16`. -/
def encryptBlock (key blk : ByteArray) : ByteArray := encryptBlockWith (expandKey key) blk

/-- AES-128 single block decrypt; `key.size = 16`, `blk.size = 16`. -/
def decryptBlock (key blk : ByteArray) : ByteArray := decryptBlockWith (expandKey key) blk

/-- CBC encrypt with a precomputed schedule; tail bytes beyond whole blocks are copied unchanged. -/
def cbcEncryptWith (rks : Array ByteArray) (iv data : ByteArray) : ByteArray :=
  let n := data.size / 16
  let r := Nat.fold n (fun i _ (acc : ByteArray × ByteArray) =>
    let c := encryptBlockWith rks (xorBlock (data.extract (16 * i) (16 * i + 16)) acc.2)
    (acc.1 ++ c, c)) (ByteArray.emptyWithCapacity data.size, iv)
  r.1 ++ data.extract (16 * n) data.size

/-- CBC decrypt with a precomputed schedule; tail bytes beyond whole blocks are copied unchanged. -/
def cbcDecryptWith (rks : Array ByteArray) (iv data : ByteArray) : ByteArray :=
  let n := data.size / 16
  let r := Nat.fold n (fun i _ (acc : ByteArray × ByteArray) =>
    let c := data.extract (16 * i) (16 * i + 16)
    (acc.1 ++ xorBlock (decryptBlockWith rks c) acc.2, c)) (ByteArray.emptyWithCapacity data.size, iv)
  r.1 ++ data.extract (16 * n) data.size

/-- CBC encrypt of a whole number of 16-byte blocks (extra tail bytes, if any, copied unchanged). -/
def cbcEncrypt (key iv data : ByteArray) : ByteArray := cbcEncryptWith (expandKey key) iv data

/-- CBC decrypt of a whole number of 16-byte blocks (extra tail bytes, if any, copied unchanged). -/
def cbcDecrypt (key iv data : ByteArray) : ByteArray := cbcDecryptWith (expandKey key) iv data

/-! ### Hex helpers -/

def hexVal (c : Char) : UInt8 :=
  if '0' ≤ c ∧ c ≤ '9' then (c.toNat - 48).toUInt8
  else if 'a' ≤ c ∧ c ≤ 'f' then (c.toNat - 87).toUInt8
  else if 'A' ≤ c ∧ c ≤ 'F' then (c.toNat - 55).toUInt8
  else 0

def fromHexAux : List Char → ByteArray → ByteArray
  | a :: b :: rest, acc => fromHexAux rest (acc.push ((hexVal a <<< 4) ||| hexVal b))
  | _, acc => acc

/-- Parse a hex string (two digits per byte; non-hex digits read as `0`, odd trailing digit dropped). -/
def fromHex (s : String) : ByteArray := fromHexAux s.toList ByteArray.empty

def hexChar (n : UInt8) : Char :=
  if n < 10 then Char.ofNat (48 + n.toNat) else Char.ofNat (87 + n.toNat)

/-- Lower-case hex rendering. -/
def toHex (b : ByteArray) : String :=
  b.foldl (fun s x => (s.push (hexChar (x >>> 4))).push (hexChar (x &&& 0x0f))) ""

section Tests

-- FIPS-197 Appendix C.1
#guard toHex (encryptBlock (fromHex "000102030405060708090a0b0c0d0e0f")
  (fromHex "00112233445566778899aabbccddeeff")) == "69c4e0d86a7b0430d8cdb78070b4c55a"
#guard toHex (decryptBlock (fromHex "000102030405060708090a0b0c0d0e0f")
  (fromHex "69c4e0d86a7b0430d8cdb78070b4c55a")) == "00112233445566778899aabbccddeeff"
-- FIPS-197 Appendix B (and last round key from Appendix A.1)
#guard toHex (encryptBlock (fromHex "2b7e151628aed2a6abf7158809cf4f3c")
  (fromHex "3243f6a8885a308d313198a2e0370734")) == "3925841d02dc09fbdc118597196a0b32"
#guard toHex (decryptBlock (fromHex "2b7e151628aed2a6abf7158809cf4f3c")
  (fromHex "3925841d02dc09fbdc118597196a0b32")) == "3243f6a8885a308d313198a2e0370734"
#guard toHex (roundKey (expandKey (fromHex "2b7e151628aed2a6abf7158809cf4f3c")) 10)
  == "d014f9a8c9ee2589e13f0cc8b6630ca6"
-- NIST SP 800-38A F.2.1 / F.2.2 (CBC-AES128), first two blocks, plus an unaligned 3-byte tail
#guard toHex (cbcEncrypt (fromHex "2b7e151628aed2a6abf7158809cf4f3c")
  (fromHex "000102030405060708090a0b0c0d0e0f")
  (fromHex "6bc1bee22e409f96e93d7e117393172aae2d8a571e03ac9c9eb76fac45af8e51a1b2c3"))
  == "7649abac8119b246cee98e9b12e9197d5086cb9b507219ee95db113a917678b2a1b2c3"
#guard toHex (cbcDecrypt (fromHex "2b7e151628aed2a6abf7158809cf4f3c")
  (fromHex "000102030405060708090a0b0c0d0e0f")
  (fromHex "7649abac8119b246cee98e9b12e9197d5086cb9b507219ee95db113a917678b2a1b2c3"))
  == "6bc1bee22e409f96e93d7e117393172aae2d8a571e03ac9c9eb76fac45af8e51a1b2c3"

end Tests

end Ps3.Aes
