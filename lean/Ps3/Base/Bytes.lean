/-
  Base definitions shared by Spec / Model / Props: byte strings, slices, fixed-width
  big/little-endian encoders and decoders, hex helpers for the driver.
  Core Lean only (no Mathlib) so that the driver executable links.
-/
namespace Ps3

abbrev Bytes := List UInt8

/-- `slice l off n` = `l[off : off+n]` clipped to the list (Go: `l[off:min(off+n,len)]` for `off ≤ len`). -/
def slice {α : Type} (l : List α) (off n : Nat) : List α := (l.drop off).take n

/-- `n` zero bytes. -/
def zeros (n : Nat) : Bytes := List.replicate n 0

/-- little-endian, `w` bytes, truncating (Go: `binary.LittleEndian.PutUintN(uintN(v))`). -/
def leN : Nat → Nat → Bytes
  | 0, _ => []
  | w+1, v => UInt8.ofNat (v % 256) :: leN w (v / 256)

/-- big-endian, `w` bytes, truncating. -/
def beN (w v : Nat) : Bytes := (leN w v).reverse

def fromLE : Bytes → Nat
  | [] => 0
  | b :: bs => b.toNat + 256 * fromLE bs

def fromBE (bs : Bytes) : Nat := fromLE bs.reverse

/-- ISO 9660 both-endian field: little-endian then big-endian copy. -/
def lsbmsb (w v : Nat) : Bytes := leN w v ++ beN w v

/-- two's complement of a Go signed integer in `w` bytes, as the natural the encoder writes. -/
def twos (w : Nat) (v : Int) : Nat := (v % (256 ^ w : Nat)).toNat

/-- reinterpret an unsigned `w`-byte value as Go's signed integer of that width. -/
def toSigned (w : Nat) (v : Nat) : Int :=
  let m := 256 ^ w
  let v := v % m
  if v < m / 2 then (v : Int) else (v : Int) - m

@[simp] theorem leN_length (w v : Nat) : (leN w v).length = w := by
  induction w generalizing v with
  | zero => rfl
  | succ w ih => simp [leN, ih]

@[simp] theorem beN_length (w v : Nat) : (beN w v).length = w := by simp [beN]

@[simp] theorem lsbmsb_length (w v : Nat) : (lsbmsb w v).length = 2 * w := by
  simp [lsbmsb]; omega

@[simp] theorem zeros_length (n : Nat) : (zeros n).length = n := by simp [zeros]

theorem fromLE_leN (w v : Nat) : fromLE (leN w v) = v % 256 ^ w := by
  induction w generalizing v with
  | zero => simp [leN, fromLE, Nat.mod_one]
  | succ w ih =>
    simp only [leN, fromLE, ih]
    have h : (UInt8.ofNat (v % 256)).toNat = v % 256 := by
      simp [UInt8.toNat_ofNat']
    rw [h, Nat.pow_succ, Nat.mul_comm (256 ^ w) 256, Nat.mod_mul]

theorem fromBE_beN (w v : Nat) : fromBE (beN w v) = v % 256 ^ w := by
  simp [fromBE, beN, fromLE_leN]

/-- the two halves of a both-endian field always decode to the same value -/
theorem lsbmsb_agree (w v : Nat) :
    fromLE ((lsbmsb w v).take w) = fromBE ((lsbmsb w v).drop w) := by
  simp [lsbmsb, fromLE_leN, fromBE_beN]

theorem slice_length {α : Type} (l : List α) (off n : Nat) :
    (slice l off n).length = min n (l.length - off) := by
  simp [slice]

theorem slice_append_left {α : Type} (a b : List α) (off n : Nat) (h : off + n ≤ a.length) :
    slice (a ++ b) off n = slice a off n := by
  unfold slice
  rw [List.drop_append_of_le_length (by omega)]
  rw [List.take_append_of_le_length (by simp; omega)]

theorem slice_append_right {α : Type} (a b : List α) (off n : Nat) (h : a.length ≤ off) :
    slice (a ++ b) off n = slice b (off - a.length) n := by
  unfold slice
  rw [List.drop_append]
  simp [List.drop_eq_nil_of_le h]

theorem slice_zero_all {α : Type} (l : List α) (n : Nat) (h : l.length ≤ n) : slice l 0 n = l := by
  simp [slice, List.take_of_length_le h]

/-- reading in two consecutive pieces = reading once (the chunking lemma) -/
theorem slice_add {α : Type} (l : List α) (off n m : Nat) :
    slice l off (n + m) = slice l off n ++ slice l (off + n) m := by
  unfold slice
  rw [List.take_add, List.drop_drop]

/-! ### hex (driver only) -/

def hexDigit (n : Nat) : Char :=
  if n < 10 then Char.ofNat (48 + n) else Char.ofNat (87 + n)

def toHex (bs : Bytes) : String :=
  String.ofList (bs.foldr (fun b acc => hexDigit (b.toNat / 16) :: hexDigit (b.toNat % 16) :: acc) [])

def hexVal (c : Char) : Option Nat :=
  if '0' ≤ c ∧ c ≤ '9' then some (c.toNat - 48)
  else if 'a' ≤ c ∧ c ≤ 'f' then some (c.toNat - 87)
  else if 'A' ≤ c ∧ c ≤ 'F' then some (c.toNat - 55)
  else none

def fromHexChars : List Char → Option Bytes
  | [] => some []
  | [_] => none
  | a :: b :: rest => do
    let x ← hexVal a
    let y ← hexVal b
    let r ← fromHexChars rest
    pure (UInt8.ofNat (x * 16 + y) :: r)

/-- "-" denotes the empty byte string on the wire of the line protocol. -/
def fromHex (s : String) : Option Bytes :=
  if s == "-" then some [] else fromHexChars s.toList

def hexOrDash (bs : Bytes) : String := if bs.isEmpty then "-" else toHex bs

/-- FNV-1a 64 over a byte list (same function in the Go harness). -/
def fnv1a (bs : Bytes) : UInt64 :=
  bs.foldl (fun h b => (h ^^^ b.toUInt64) * 0x100000001b3) 0xcbf29ce484222325

def strBytes (s : String) : Bytes := s.toUTF8.toList

end Ps3
