/-
  Go's Unix `path/filepath` on byte strings, in the component view.
  `Clean` is modelled as: split at '/', run the component stack, join — the same function Go
  computes with its lazy buffer (validated against the real `filepath.Clean` by the differential
  stream `c01p`).
-/
import Ps3.Base.Bytes

namespace Ps3.PathStr
open Ps3

def slash : UInt8 := 47
def dot : UInt8 := 46

/-- strings.Split(s, "/") -/
def splitSlash : Bytes → List Bytes
  | [] => [[]]
  | c :: rest =>
    if c == slash then [] :: splitSlash rest
    else match splitSlash rest with
      | [] => [[c]]
      | x :: xs => (c :: x) :: xs

def isDot (c : Bytes) : Bool := c == [dot]
def isDotDot (c : Bytes) : Bool := c == [dot, dot]

/-- a component that names a directory entry: non-empty, not "." or "..", no '/' inside -/
def normal (c : Bytes) : Bool := !c.isEmpty && !isDot c && !isDotDot c && !c.contains slash

/-- the stack machine of `Clean` for a rooted path: `..` pops (and is dropped at the root) -/
def cleanRooted : List Bytes → List Bytes → List Bytes
  | stack, [] => stack.reverse
  | stack, c :: rest =>
    if c.isEmpty || isDot c then cleanRooted stack rest
    else if isDotDot c then cleanRooted stack.tail rest
    else cleanRooted (c :: stack) rest

/-- … and for a relative path: leading `..` that cannot be resolved are kept -/
def cleanRel : List Bytes → List Bytes → List Bytes
  | stack, [] => stack.reverse
  | stack, c :: rest =>
    if c.isEmpty || isDot c then cleanRel stack rest
    else if isDotDot c then
      match stack with
      | top :: below => if isDotDot top then cleanRel (c :: stack) rest else cleanRel below rest
      | [] => cleanRel [c] rest
    else cleanRel (c :: stack) rest

def joinSlash : List Bytes → Bytes
  | [] => []
  | [c] => c
  | c :: rest => c ++ slash :: joinSlash rest

/-- filepath.Clean -/
def clean (s : Bytes) : Bytes :=
  match s with
  | [] => [dot]
  | c :: _ =>
    if c == slash then slash :: joinSlash (cleanRooted [] (splitSlash s))
    else
      let r := joinSlash (cleanRel [] (splitSlash s))
      if r.isEmpty then [dot] else r

/-- components of `filepath.Clean("/" + p)`: what pkg/server hands to the handler for every
    path-carrying command (as a component list; the string is "/" ++ joinSlash comps) -/
def cleanRequest (p : Bytes) : List Bytes := cleanRooted [] (splitSlash (slash :: p))

/-- filepath.Join(a, b) for two strings -/
def join2 (a b : Bytes) : Bytes :=
  if a.isEmpty then (if b.isEmpty then [] else clean b)
  else if b.isEmpty then clean a
  else clean (a ++ slash :: b)

/-- the string of a rooted component path -/
def renderRooted (comps : List Bytes) : Bytes := slash :: joinSlash comps

/-- `a` is `root` or lies below it, component-wise -/
def within (root p : List Bytes) : Bool := root.isPrefixOf p

/-! ### lemmas -/

theorem cleanRooted_normal (stack comps : List Bytes)
    (hs : ∀ c ∈ stack, normal c = true) (hc : ∀ c ∈ comps, c.contains slash = false) :
    ∀ c ∈ cleanRooted stack comps, normal c = true := by
  induction comps generalizing stack with
  | nil => intro c hcm; simp [cleanRooted] at hcm; exact hs c hcm
  | cons x rest ih =>
    intro c hcm
    unfold cleanRooted at hcm
    have hrest : ∀ c ∈ rest, c.contains slash = false := fun c h => hc c (List.mem_cons_of_mem _ h)
    split at hcm
    · exact ih stack hs hrest c hcm
    · split at hcm
      · refine ih stack.tail ?_ hrest c hcm
        intro d hd; exact hs d (List.mem_of_mem_tail hd)
      · refine ih (x :: stack) ?_ hrest c hcm
        intro d hd
        rcases List.mem_cons.mp hd with rfl | hd
        · have hx := hc d (List.mem_cons_self)
          simp_all [normal]
        · exact hs d hd

theorem splitSlash_no_slash (s : Bytes) : ∀ c ∈ splitSlash s, c.contains slash = false := by
  induction s with
  | nil => intro c hc; simp [splitSlash] at hc; simp [hc]
  | cons x rest ih =>
    intro c hc
    unfold splitSlash at hc
    split at hc
    · rcases List.mem_cons.mp hc with rfl | h
      · simp
      · exact ih c h
    · split at hc
      · simp at hc; subst hc; simp_all; exact fun h => ‹¬x = slash› h.symm
      · rename_i y ys heq
        have hy : y.contains slash = false := ih y (by rw [heq]; exact List.mem_cons_self)
        rcases List.mem_cons.mp hc with rfl | h
        · simp_all; exact fun h => ‹¬x = slash› h.symm
        · exact ih c (by rw [heq]; exact List.mem_cons_of_mem _ h)

/-- **Every** byte string a client can send is mapped to a list of normal components:
    no "", ".", ".." and no separator survives `filepath.Clean("/" + p)`. -/
theorem cleanRequest_normal (p : Bytes) : ∀ c ∈ cleanRequest p, normal c = true :=
  cleanRooted_normal [] _ (by simp) (splitSlash_no_slash _)

end Ps3.PathStr
