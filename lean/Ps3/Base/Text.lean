/-
  Text helpers the ISO generator depends on: Go's UTF-8 decoding (one U+FFFD per invalid byte),
  the case mappings that can land in ASCII, and civil time from Unix seconds (UTC).
-/
import Ps3.Base.Bytes

namespace Ps3.Text
open Ps3

def runeError : Nat := 0xFFFD

def isCont (b : UInt8) : Bool := 0x80 ≤ b.toNat && b.toNat ≤ 0xBF

/-- Go's `for _, r := range s` / utf8.DecodeRune: the runes of a byte string -/
def runesAux : Nat → Bytes → List Nat
  | 0, _ => []
  | _, [] => []
  | fuel + 1, b0 :: rest =>
    let runes := runesAux fuel
    let n0 := b0.toNat
    if n0 < 0x80 then n0 :: runes rest
    else if 0xC2 ≤ n0 ∧ n0 ≤ 0xDF then
      match rest with
      | b1 :: r1 => if isCont b1 then ((n0 - 0xC0) * 64 + (b1.toNat - 0x80)) :: runes r1 else runeError :: runes rest
      | [] => runeError :: runes rest
    else if 0xE0 ≤ n0 ∧ n0 ≤ 0xEF then
      match rest with
      | b1 :: b2 :: r2 =>
        let lo := if n0 == 0xE0 then 0xA0 else 0x80
        let hi := if n0 == 0xED then 0x9F else 0xBF
        if lo ≤ b1.toNat ∧ b1.toNat ≤ hi ∧ isCont b2 then
          ((n0 - 0xE0) * 4096 + (b1.toNat - 0x80) * 64 + (b2.toNat - 0x80)) :: runes r2
        else runeError :: runes rest
      | _ => runeError :: runes rest
    else if 0xF0 ≤ n0 ∧ n0 ≤ 0xF4 then
      match rest with
      | b1 :: b2 :: b3 :: r3 =>
        let lo := if n0 == 0xF0 then 0x90 else 0x80
        let hi := if n0 == 0xF4 then 0x8F else 0xBF
        if lo ≤ b1.toNat ∧ b1.toNat ≤ hi ∧ isCont b2 ∧ isCont b3 then
          ((n0 - 0xF0) * 262144 + (b1.toNat - 0x80) * 4096 + (b2.toNat - 0x80) * 64 + (b3.toNat - 0x80)) :: runes r3
        else runeError :: runes rest
      | _ => runeError :: runes rest
    else runeError :: runes rest

def runes (s : Bytes) : List Nat := runesAux s.length s

/-- unicode.ToUpper restricted to what can produce an ASCII rune (a–z, dotless ı, long ſ);
    every other non-ASCII rune stays non-ASCII and is mapped to '_' afterwards anyway -/
def toUpperRune (r : Nat) : Nat :=
  if 97 ≤ r ∧ r ≤ 122 then r - 32 else if r == 0x131 then 73 else if r == 0x17F then 83 else r

/-- unicode.ToLower restricted likewise (A–Z, İ with dot → i, Kelvin sign → k) -/
def toLowerRune (r : Nat) : Nat :=
  if 65 ≤ r ∧ r ≤ 90 then r + 32 else if r == 0x130 then 105 else if r == 0x212A then 107 else r

/-- (year, month, day, hour, minute, second) of a Unix time in UTC -/
def civil (t : Nat) : Nat × Nat × Nat × Nat × Nat × Nat :=
  let days := t / 86400
  let rem := t % 86400
  let z := days + 719468
  let era := z / 146097
  let doe := z - era * 146097
  let yoe := (doe - doe / 1460 + doe / 36524 - doe / 146096) / 365
  let y := yoe + era * 400
  let doy := doe - (365 * yoe + yoe / 4 - yoe / 100)
  let mp := (5 * doy + 2) / 153
  let d := doy - (153 * mp + 2) / 5 + 1
  let m := if mp < 10 then mp + 3 else mp - 9
  let y := if m ≤ 2 then y + 1 else y
  (y, m, d, rem / 3600, (rem % 3600) / 60, rem % 60)

end Ps3.Text
