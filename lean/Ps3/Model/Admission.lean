/-
  Admission control: iprange.FilterListener over netutil.LimitListener (cmd/ps3netsrv-go/server.go
  wraps the socket in this order: limit first, filter outermost).

  A connection that arrives is queued by the kernel; the accept loop takes the head of the queue
  whenever a slot of the limiter is free: a peer outside the whitelist is closed at once (its slot is
  released), a peer inside is served until it departs.
-/
import Ps3.Base.Bytes
import Ps3.Gen.Facts
namespace Ps3.Admission

structure Pending where
  id : Nat
  inside : Bool      -- peer address is in the whitelist (or there is none)
  alive : Bool       -- the client has not given up yet
deriving Repr, DecidableEq

structure St where
  cap : Nat
  served : List Nat          -- connections holding a slot, being served
  queue : List Pending       -- established but not yet accepted, in arrival order
  everServed : List Nat      -- history: every connection that was ever handed to the server
  rejected : List Nat        -- history: closed by the filter without being served
deriving Repr

inductive Ev where
  | arrive (id : Nat) (inside : Bool)
  | depart (id : Nat)
deriving Repr

/-- the accept loop: runs while a slot is free and something is queued -/
def drain : Nat → St → St
  | 0, s => s
  | fuel + 1, s =>
    if s.served.length < s.cap then
      match s.queue with
      | [] => s
      | p :: rest =>
        if !p.inside then drain fuel { s with queue := rest, rejected := s.rejected ++ [p.id] }   -- slot taken and released
        else if !p.alive then drain fuel { s with queue := rest, everServed := s.everServed ++ [p.id] } -- sees EOF, ends, slot released
        else drain fuel { s with queue := rest, served := s.served ++ [p.id], everServed := s.everServed ++ [p.id] }
    else s

def step (s : St) : Ev → St
  | .arrive id inside =>
    let s := { s with queue := s.queue ++ [⟨id, inside, true⟩] }
    drain (s.queue.length + 1) s
  | .depart id =>
    if s.served.contains id then
      -- the slot comes back when the limiter's connection wrapper is closed: `defer conn.Close()` in
      -- serveConn, unconditionally (F-shape fact regenerated from the source); were the close to depend on
      -- anything else, the model would not know the slot to be released
      let s := { s with served := if Gen.server_connCloseDeferred then s.served.filter (· != id) else s.served }
      drain (s.queue.length + 1) s
    else
      { s with queue := s.queue.map (fun p => if p.id == id then { p with alive := false } else p) }

def init (cap : Nat) : St := ⟨cap, [], [], [], []⟩

def run (s : St) : List Ev → List St
  | [] => []
  | e :: es => let s' := step s e; s' :: run s' es

end Ps3.Admission
