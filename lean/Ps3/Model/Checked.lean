/-
  "Go with faults": the index and slice arithmetic of the functions that run on attacker-chosen
  offsets, lengths and file contents, transcribed over `Int` (Go's int64 `sizeBytes`) with every
  slice / index expression checked the way the Go runtime checks it. A run-time panic of the real
  code is `Except.error` here, so "cannot crash" is a theorem: the result is never `.error`.

  Transcribed: VirtualISO.read (pkg/fs/virtual_iso.go), EncryptedISO.clearRegionsData and
  decryptData (pkg/fs/encrypted_iso.go), ISO3k3y.clear3k3yData (pkg/fs/3k3y_iso.go),
  the offset arithmetic of HandleReadCD2048Critical (internal/handler/handler.go).
  Buffers that are only written are represented by their length.
-/
import Ps3.Model.Viso
import Ps3.Model.Crypt

namespace Ps3.Checked
open Ps3 Ps3.Viso

inductive Fault where
  | slice (site : String)      -- slice bounds out of range
  | index (site : String)      -- index out of range
deriving Repr, DecidableEq

abbrev M := Except Fault

/-- Go `b[lo:hi]` with `len(b) = cap(b) = len` -/
def sliceOk (len lo hi : Int) : Bool := decide (0 ≤ lo) && decide (lo ≤ hi) && decide (hi ≤ len)

/-- Go `for i := lo; i < hi; i++ { b[i] = … }` -/
def loopOk (len lo hi : Int) : Bool := decide (hi ≤ lo) || (decide (0 ≤ lo) && decide (hi ≤ len))

def S : Int := 2048

/-! ### VirtualISO.read -/

/-- the function's mutable locals; `remain` is also `len(buf)`: buf is re-sliced in step with it -/
structure RS where
  out : Bytes
  remain : Int
  offset : Int

/-- reading the file's own bytes; the Bool says "returned with an error" -/
def dataPartC (cf : Nat → Content) (f : FileExt) (s : RS) (start : Int) : M (RS × Bool) :=
  let fo : Int := s.offset - start
  if fo < f.size then
    let k : Int := min s.remain ((f.size : Int) - fo)
    if !sliceOk s.remain 0 k then .error (.slice "read: buf[:min(remain, size-fileOffset)]") else
    let data := (cf f.ino).read fo.toNat k.toNat
    if (data.length : Int) < k then .ok (s, true)                      -- io.ReadFull failed
    else if !sliceOk s.remain k s.remain then .error (.slice "read: buf[n:]")
    else .ok ({ out := s.out ++ data, remain := s.remain - k, offset := s.offset + k }, false)
  else .ok (s, false)

/-- zero-filling the rest of the file's last sector -/
def padPartC (f : FileExt) (s1 : RS) (fileEnd : Int) : M (RS × Bool) :=
  if f.size % sectorSize > 0 ∧ s1.remain > 0 then
    let toWrite0 : Int := fileEnd - s1.offset
    let toWrite : Int := if s1.remain < toWrite0 then s1.remain else toWrite0
    if !loopOk s1.remain 0 toWrite then .error (.index "read: buf[i] = 0 (sector padding)")
    else if !sliceOk s1.remain toWrite s1.remain then .error (.slice "read: buf[toWrite:]")
    else .ok ({ out := s1.out ++ zeros toWrite.toNat, remain := s1.remain - toWrite, offset := s1.offset + toWrite }, false)
  else .ok (s1, false)

/-- the body of the file loop -/
def fileStepC (cf : Nat → Content) (f : FileExt) (s : RS) : M (RS × Bool) :=
  let start : Int := (f.lba : Int) * S
  let padded : Int := (sectors f.size : Int) * S
  if s.offset < start then .ok (s, true)
  else if s.offset ≥ start + padded then .ok (s, true)
  else
    match dataPartC cf f s start with
    | .error e => .error e
    | .ok (s1, true) => .ok (s1, true)
    | .ok (s1, false) => padPartC f s1 (start + padded)

def filesLoopC (cf : Nat → Content) : List FileExt → RS → M (RS × Bool)
  | [], s => .ok (s, false)
  | f :: rest, s =>
    if s.remain ≤ 0 then .ok (s, false) else
    match fileStepC cf f s with
    | .error e => .error e
    | .ok (s1, true) => .ok (s1, true)
    | .ok (s1, false) => filesLoopC cf rest s1

/-- the direct read from the metadata buffer -/
def headPartC (img : Image) (off : Int) (n : Nat) : M RS :=
  let fsLen : Int := img.fsBuf.length
  if off < fsLen then
    let e : Int := min (off + n) fsLen
    if !sliceOk fsLen off e then .error (.slice "read: fsBuf[offset:end]") else
    let written : Int := min (n : Int) (e - off)                         -- copy
    if !sliceOk n written n then .error (.slice "read: buf[written:]") else
    .ok ⟨slice img.fsBuf off.toNat written.toNat, (n : Int) - written, off + written⟩
  else .ok ⟨[], n, off⟩

/-- the file zone -/
def filesPartC (img : Image) (cf : Nat → Content) (s1 : RS) : M (RS × Bool) :=
  if s1.offset < img.padAreaStart then
    let target := s1.offset.toNat / sectorSize
    let fs := img.files.dropWhile (fun f => target ≥ f.lba + sectors f.size)
    if fs.isEmpty then .ok (s1, false)
    else if target < (fs.head?.map (·.lba)).getD 0 then .ok (s1, false)
    else filesLoopC cf fs s1
  else .ok (s1, false)

/-- the trailing pad area -/
def tailPartC (img : Image) (s2 : RS) : M (Bytes × Bool) :=
  let pas : Int := img.padAreaStart
  if s2.offset ≥ pas ∧ s2.offset < img.totalSize then
    let toRead0 : Int := (img.padAreaSize : Int) - (s2.offset - pas)
    if toRead0 == 0 then .ok (s2.out, false) else
    let toRead : Int := if toRead0 > s2.remain then s2.remain else toRead0
    if !loopOk s2.remain 0 toRead then .error (.index "read: buf[i] = 0 (pad area)")
    else .ok (s2.out ++ zeros toRead.toNat, false)
  else .ok (s2.out, false)

/-- VirtualISO.read(buf of length n, off): the bytes written, and whether an error was returned -/
def readC (img : Image) (cf : Nat → Content) (off : Int) (n : Nat) : M (Bytes × Bool) :=
  let total : Int := img.totalSize
  if off ≥ total ∨ n == 0 then .ok ([], false) else
  match headPartC img off n with
  | .error e => .error e
  | .ok s1 =>
    if s1.offset ≥ total ∨ s1.remain == 0 then .ok (s1.out, false) else
    match filesPartC img cf s1 with
    | .error e => .error e
    | .ok (s2, true) => .ok (s2.out, true)
    | .ok (s2, false) => tailPartC img s2

/-- VirtualISO.ReadAt: a negative offset is an error before `read` is entered -/
def readAtC (img : Image) (cf : Nat → Content) (off : Int) (n : Nat) : M (Bytes × Bool) :=
  if off < 0 then .ok ([], true) else readC img cf off n

/-! ### EncryptedISO / ISO3k3y in-place transformations: the index sets they touch -/

/-- clearRegionsData(start, data): `for i := 0; i < hdr-start && i < len(data); i++ { data[i] = 0 }` -/
def clearRegionsC (hdr start len : Int) (clear : Bool) : M Unit :=
  if start ≥ hdr ∨ !clear then .ok () else
  let hi : Int := min (hdr - start) len
  if loopOk len 0 hi then .ok () else .error (.index "clearRegionsData: data[i]")

/-- one iteration of decryptData's sector loop for sector `i` -/
def decryptSectorC (start len i : Int) : M Unit :=
  let end_ : Int := start + len
  let ss : Int := i * S
  let se : Int := (i + 1) * S
  if ss ≥ start ∧ se ≤ end_ then
    if sliceOk len (ss - start) (se - start) then .ok () else .error (.slice "decryptData: data[sectorStart-start:sectorEnd-start]")
  else
    let frm : Int := max ss start
    let to : Int := min se end_
    if !sliceOk len (frm - start) (to - start) then .error (.slice "decryptData: data[from-start:to-start]")
    else if !sliceOk S (frm - ss) (to - ss) then .error (.slice "decryptData: sector[from-sectorStart:to-sectorStart]")
    else .ok ()

/-- the sectors decryptData visits for one encrypted region `[rs, re)` -/
def decryptRange (start len rs re : Int) : Int × Int :=
  (max rs (start / S), min re ((start + len + S - 1) / S))

/-- clear3k3yData(start, data) -/
def clear3k3yC (b e start len : Int) : M Unit :=
  let end_ : Int := start + len
  if start ≥ e ∨ end_ < b then .ok () else
  if loopOk len (max b start - start) (min e end_ - start) then .ok () else .error (.index "clear3k3yData: data[i]")

/-! ### HandleReadCD2048Critical: int64 offsets -/

/-- the largest offset the loop can compute; must stay below 2^63 -/
def readCDMaxOffset (prefixSize sectorSize : Nat) : Nat := prefixSize + (2 ^ 32 - 1) * sectorSize + (2 ^ 32) * sectorSize

end Ps3.Checked
