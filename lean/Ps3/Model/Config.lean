/-
  How a server setting gets its effective value (cmd/ps3netsrv-go/main.go, server.go,
  pkg/kongini/resolver.go) under the rules of kong v1.8.1 (`KongSem`, transcribed from its source:
  Kong.Parse = Reset → parse flags → Resolve → Apply → Validate):

  * Reset: the environment variable of a flag, if set, is decoded — a decode error aborts start-up
    even when the flag is also given on the command line; otherwise the default is decoded.
  * flags given on the command line override everything;
  * Resolve: for a flag not given on the command line the configuration files are asked in the order
    [user config dir, ./config.ini, --config / PS3NETSRV_CONFIG_FILE]; the LAST one that has the key
    wins and only its value is decoded (a decode error aborts start-up).
  Values are abstract tags: A, B (two valid, distinguishable values), X (malformed).
-/
import Ps3.Base.Bytes
namespace Ps3.Config

inductive Channel where
  | flag | env | cfgflag | cfgenv | cwdini | userini
deriving Repr, DecidableEq

inductive Tag where
  | A | B | X
deriving Repr, DecidableEq

/-- effective value: one of the given tags, or the default -/
inductive Eff where
  | val (t : Tag)
  | dflt
deriving Repr, DecidableEq

structure Assign where
  setting : String
  ch : Channel
  tag : Tag
deriving Repr, DecidableEq

def lookup (as : List Assign) (s : String) (c : Channel) : Option Tag :=
  (as.find? (fun a => a.setting == s && a.ch == c)).map (·.tag)

/-- the value the configuration files provide: --config (or, without it, the env-selected file),
    then ./config.ini, then the user configuration directory -/
def fromFiles (as : List Assign) (s : String) : Option Tag :=
  let cfg := match lookup as s .cfgflag with
    | some t => some t
    | none => if (as.any (fun a => a.ch == .cfgflag)) then none else lookup as s .cfgenv
  match cfg with
  | some t => some t
  | none => match lookup as s .cwdini with
    | some t => some t
    | none => lookup as s .userini

/-- effective value of one setting, or a start-up error -/
def effective (as : List Assign) (s : String) : Except Unit Eff :=
  if lookup as s .env == some .X then .error ()              -- Reset decodes the envar first
  else match lookup as s .flag with
    | some .X => .error ()
    | some t => .ok (.val t)
    | none => match fromFiles as s with
      | some .X => .error ()
      | some t => .ok (.val t)
      | none => match lookup as s .env with
        | some t => .ok (.val t)
        | none => .ok .dflt

def settings : List String :=
  ["root", "listen-addr", "allow-write", "client-whitelist", "max-clients", "read-timeout", "debug", "json-log", "debug-server-listen-addr"]

/-- all settings, or a start-up error if any of them fails to decode -/
def effectiveAll (as : List Assign) : Except Unit (List (String × Eff)) :=
  settings.mapM (fun s => (effective as s).map (fun e => (s, e)))

end Ps3.Config
