/-
  One connection of the server: pkg/server (serveConn, handleCommand, handle*) and
  internal/handler (Handle*, State) over the abstract world.

  `step` is one request; `serve` is the byte-level loop of `serveConn`. Timestamps of objects the
  session itself creates or modifies are "now", which both the model and the harness render as the
  marker `recent`.
-/
import Ps3.Base.PathStr
import Ps3.Model.World
import Ps3.Model.Proto

namespace Ps3.Conn
open Ps3 Ps3.Proto Ps3.PathStr

/-- marker for "mtime = time of this session" -/
def recent : Nat := 2 ^ 64 - 1

/-- a read-only object that is not a plain file: generated image, decrypting view, masked view -/
structure StaticView where
  size : Nat
  mtime : Nat
  /-- the bytes `[off, off+n)` clipped to `size` -/
  read : Nat → Nat → Bytes
  /-- Seek(off, SeekStart) succeeds (generated images refuse offsets beyond their end) -/
  seekOk : Nat → Bool

inductive RO where
  | plain (ino : Nat)           -- regular file: the inode, read live from the world
  | dir (p : Path)              -- a directory opened through OPEN_FILE
  | static (v : StaticView)

structure DirHandle where
  real : Path                   -- resolved directory
  named : Path                  -- the path it was opened under (handle.Name())
  remaining : Option (List Name) -- names not yet enumerated; none = nothing read yet

structure WO where
  ino : Nat                     -- inode of the file being written

structure State where
  cwd : Option DirHandle := none
  ro : Option RO := none
  cdSectorSize : Nat := 0
  wo : Option WO := none

structure Cfg where
  allowWrite : Bool
  /-- FS.OpenFile's wrapper selection for a read-only open of `path` (clean components):
      `none` = no wrapper applies (plain behaviour); `some none` = open error;
      `some (some v)` = serve this view -/
  wrap : World → Path → Option (Option StaticView)

/-- Whether a mutating handler may go on: writing was enabled — or the handler does not start with the
    AllowWrite guard at all. `guardFirst` is an F-shape fact regenerated from the source on every run
    (`Gen.handler_guardFirst_*`: an `if !h.AllowWrite { … return }` precedes every use of the file
    system in that handler); while it is `true` this is just `cfg.allowWrite` (`mayWrite_*` below). -/
def Cfg.mayWrite (cfg : Cfg) (guardFirst : Bool) : Bool := cfg.allowWrite || !guardFirst

@[simp] theorem mayWrite_create (cfg : Cfg) : cfg.mayWrite Gen.handler_guardFirst_HandleCreateFile = cfg.allowWrite := by
  simp [Cfg.mayWrite, Gen.handler_guardFirst_HandleCreateFile]
@[simp] theorem mayWrite_write (cfg : Cfg) : cfg.mayWrite Gen.handler_guardFirst_HandleWriteFile = cfg.allowWrite := by
  simp [Cfg.mayWrite, Gen.handler_guardFirst_HandleWriteFile]
@[simp] theorem mayWrite_delete (cfg : Cfg) : cfg.mayWrite Gen.handler_guardFirst_HandleDeleteFile = cfg.allowWrite := by
  simp [Cfg.mayWrite, Gen.handler_guardFirst_HandleDeleteFile]
@[simp] theorem mayWrite_mkdir (cfg : Cfg) : cfg.mayWrite Gen.handler_guardFirst_HandleMkdir = cfg.allowWrite := by
  simp [Cfg.mayWrite, Gen.handler_guardFirst_HandleMkdir]
@[simp] theorem mayWrite_rmdir (cfg : Cfg) : cfg.mayWrite Gen.handler_guardFirst_HandleRmdir = cfg.allowWrite := by
  simp [Cfg.mayWrite, Gen.handler_guardFirst_HandleRmdir]

def maxName : Nat := 255

/-- a component the OS accepts as a new name -/
def nameOk (c : Name) : Bool := c.length ≤ maxName && !c.contains 0

def infoOf (w : World) (name : Name) (n : Node) : Option Info :=
  match n with
  | .file i => (w.inode? i).map (fun f => { name := name, isDir := false, size := f.content.size, mtime := f.mtime })
  | .dir mt => some { name := name, isDir := true, size := 0, mtime := mt }
  | _ => none

/-- Fs.Stat of a clean component path -/
def statInfo (w : World) (p : Path) : Option Info :=
  if !p.all nameOk then none else
  match w.stat p with
  | none => none
  | some (_, n) => infoOf w (p.getLast?.getD []) n

/-- size and mtime a read-only object announces -/
def roSize (w : World) : RO → Nat
  | .plain i => match w.inode? i with | some f => f.content.size | none => 0
  | .dir _ => 0
  | .static v => v.size

def RO.isDir : RO → Bool
  | .dir _ => true
  | _ => false

def roRead (w : World) (ro : RO) (off n : Nat) : Option Bytes :=
  match ro with
  | .plain i => match w.inode? i with | some f => some (f.content.read off n) | none => some []
  | .dir _ => if n == 0 then some [] else none   -- EISDIR, but a zero-length LimitReader never reads
  | .static v => some (v.read off n)

/-- largest offset lseek(2) accepts on the served filesystem (ext4 with 4 KiB blocks: 2^44 − 4096);
    an environment fact, probed by the harness on its scratch directory -/
def osSeekMax : Nat := 17592186040320

def roSeekOk (ro : RO) (off : Nat) : Bool :=
  if off ≥ 2 ^ 63 then false     -- int64(offset) < 0
  else match ro with
    | .static v => v.seekOk off
    | _ => off ≤ osSeekMax

/-! ### sector size detection (HandleOpenFile / determineSectorSize) -/

def probeLen : Nat :=
  Gen.handler_determineSectorSize_magic1.length + Gen.handler_determineSectorSize_extraBytes +
    Gen.handler_determineSectorSize_magic2.length

/-- the probed bytes carry the ISO 9660 signature, or (two bytes further) the PLAYSTATION one -/
def probeMatch (buf : Bytes) : Bool :=
  buf.take Gen.handler_determineSectorSize_magic1.length == Gen.handler_determineSectorSize_magic1 ||
  slice buf (Gen.handler_determineSectorSize_magic1.length + Gen.handler_determineSectorSize_extraBytes)
    Gen.handler_determineSectorSize_magic2.length == Gen.handler_determineSectorSize_magic2

/-- the loop of determineSectorSize: ReadAt at sector 16 of each candidate; a short read aborts -/
def detectGo (read : Nat → Nat → Bytes) : List Nat → Option Nat
  | [] => none
  | s :: rest =>
    let buf := read (Gen.handler_psxPrefixSize + Gen.handler_determineSectorSize_systemAreaSectors * s) probeLen
    if buf.length != probeLen then none
    else if probeMatch buf then some s
    else detectGo read rest

def detectSectorSizeStrict (read : Nat → Nat → Bytes) : Option Nat :=
  detectGo read Gen.handler_determineSectorSize_sectorSizes

def defaultSectorSize : Nat := 2352
def detectMin : Nat := 0x200000
def detectMax : Nat := 0x35000000

/-! ### directory enumeration -/

/-- names os.File.Readdirnames yields for a directory (never "." / "..") -/
def dirNames (w : World) (real : Path) : List Name := (w.childrenOf real).map (·.1)

/-- HandleReadDirEntry's loop: skip entries whose Stat fails; returns the entry and the rest -/
def nextEntry (w : World) (named : Path) : List Name → Option (Info × List Name)
  | [] => none
  | n :: rest =>
    match statInfo w (named ++ [n]) with
    | some i => some (i, rest)
    | none => nextEntry w named rest

/-! ### GET_DIR_SIZE: afero.Walk over Stat (follows symlinks), summing regular files -/

def dirSizeFuel : Nat := 128

/-- the largest amount a 32-bit signed length field can announce -/
def maxAnnounce : Nat := 2 ^ 31 - 1

def walkSize (w : World) : Nat → Path → Nat
  | 0, _ => 0
  | fuel + 1, p =>
    match w.stat p with
    | none => 0
    | some (_, .file i) => ((w.inode? i).map (·.content.size)).getD 0
    | some (q, .dir _) => ((dirNames w q).map (fun n => walkSize w fuel (p ++ [n]))).sum
    | some _ => 0

/-! ### one request -/

structure Out where
  bytes : Bytes
  close : Bool := false

def touchParent (w : World) (p : Path) : World :=
  let parent := p.dropLast
  if parent.isEmpty then { w with rootMtime := recent }
  else match w.lookupRaw parent with
    | some (.dir _) => w.setNode parent (.dir recent)
    | _ => w

/-- FS.Open for reading: virtual prefixes / wrappers first, then the plain object -/
def openRO (cfg : Cfg) (w : World) (p : Path) : Option RO :=
  match cfg.wrap w p with
  | some none => none
  | some (some v) => some (.static v)
  | none =>
    if !p.all nameOk then none else
    match w.stat p with
    | some (_, .file i) => some (.plain i)
    | some (q, .dir _) => some (.dir q)
    | _ => none

def isVirtual (p : Path) : Bool :=
  match p with
  | c :: _ :: _ => ([slash] ++ c == Gen.fs_virtualISOMask) || ([slash] ++ c == Gen.fs_virtualPS3ISOMask)
  | _ => false

def closeFileName : Bytes := [67, 76, 79, 83, 69, 70, 73, 76, 69]  -- "CLOSEFILE"

def step (cfg : Cfg) (w : World) (st : State) (r : Req) : World × State × Out :=
  match r with
  | .openDir raw =>
    let p := cleanRequest raw
    match openRO cfg w p with
    | none => (w, { st with cwd := none }, ⟨openDirResult false, false⟩)   -- the active directory is closed first, whatever follows
    | some (.dir q) => (w, { st with cwd := some ⟨q, p, none⟩ }, ⟨openDirResult true, false⟩)
    | some _ => (w, { st with cwd := none }, ⟨openDirResult false, false⟩)
  | .readDirEntry | .readDirEntryV2 =>
    let enc := match r with | .readDirEntry => readDirEntryResult | _ => readDirEntryV2Result
    match st.cwd with
    | none => (w, st, ⟨enc none, false⟩)
    | some h =>
      let names := h.remaining.getD (dirNames w h.real)
      match nextEntry w h.named names with
      | none => (w, { st with cwd := none }, ⟨enc none, false⟩)
      | some (i, rest) => (w, { st with cwd := some { h with remaining := some rest } }, ⟨enc (some i), false⟩)
  | .readDir =>
    match st.cwd with
    | none => (w, st, ⟨readDirResult [], false⟩)
    | some h =>
      let names := h.remaining.getD (dirNames w h.real)
      let infos := names.filterMap (fun n => statInfo w (h.named ++ [n]))
      (w, { st with cwd := some { h with remaining := some [] } }, ⟨readDirResult infos, false⟩)
  | .statFile raw =>
    (w, st, ⟨statFileResult (statInfo w (cleanRequest raw)), false⟩)
  | .openFile raw =>
    let p := cleanRequest raw
    if p == [closeFileName] then          -- only the reserved path /CLOSEFILE itself
      (w, { st with ro := none, cdSectorSize := if st.ro.isSome then 0 else st.cdSectorSize },
        ⟨openFileResult (some (0, 0)), false⟩)
    else
      match openRO cfg w p with
      | none => (w, { st with ro := none }, ⟨openFileResult none, false⟩)
      | some ro =>
        let size := roSize w ro
        let mtime : Nat :=
          match ro with
          | .plain i => match w.inode? i with | some f => f.mtime | none => 0
          | .dir q => match w.lookupRaw q with | some (.dir mt) => mt | _ => 0
          | .static v => v.mtime
        let cd :=
          if detectMin ≤ size ∧ size ≤ detectMax then
            match ro with
            | .dir _ => defaultSectorSize
            | _ => (detectSectorSizeStrict (fun off n => (roRead w ro off n).getD [])).getD defaultSectorSize
          else defaultSectorSize
        (w, { st with ro := some ro, cdSectorSize := cd }, ⟨openFileResult (some (size, mtime)), false⟩)
  | .readFile limit off =>
    -- a read that cannot be started is answered with -1 (nothing was announced yet); the connection goes on
    match st.ro with
    | none => (w, st, ⟨readFileResultHdr (neg1 4), false⟩)
    | some ro =>
      if ro.isDir then (w, st, ⟨readFileResultHdr (neg1 4), false⟩) else
      if off ≥ roSize w ro then (w, st, ⟨readFileResultHdr 0, false⟩) else   -- at or after the end: an empty answer, no seek at all
      if !roSeekOk ro off then (w, st, ⟨readFileResultHdr (neg1 4), false⟩) else
      -- the announced amount is an int32: a bigger request gets what can be announced
      match roRead w ro off (min limit maxAnnounce) with
      | none => (w, st, ⟨[], true⟩)
      | some data => (w, st, ⟨readFileResultHdr data.length ++ data, false⟩)
  | .readFileCritical limit off =>
    match st.ro with
    | none => (w, st, ⟨[], true⟩)
    | some ro =>
      if !roSeekOk ro off then (w, st, ⟨[], true⟩) else
      match roRead w ro off limit with
      | none => (w, st, ⟨[], true⟩)
      | some data => (w, st, ⟨data, data.length < limit⟩)
  | .readCD start count =>
    match st.ro with
    | none => (w, st, ⟨[], true⟩)
    | some ro =>
      if st.cdSectorSize == 0 then (w, st, ⟨[], true⟩) else
      let rec go : Nat → Nat → Bytes → Bytes × Bool
        | 0, _, acc => (acc, false)
        | k + 1, off, acc =>
          if !roSeekOk ro off then (acc, true) else
          match roRead w ro off Gen.handler_HandleReadCD2048Critical_readSize with
          | none => (acc, true)
          | some d =>
            if d.length < Gen.handler_HandleReadCD2048Critical_readSize then (acc ++ d, true)
            else go k (off + st.cdSectorSize) (acc ++ d)
      let (bytes, cl) := go count (Gen.handler_psxPrefixSize + start * st.cdSectorSize) []
      (w, st, ⟨bytes, cl⟩)
  | .createFile raw =>
    let p := cleanRequest raw
    if !cfg.mayWrite Gen.handler_guardFirst_HandleCreateFile then (w, st, ⟨createFileResult false, false⟩) else
    let st := { st with wo := none }
    if (statInfo w p).any (·.isDir) then (w, st, ⟨createFileResult true, false⟩)
    else if isVirtual p then (w, st, ⟨createFileResult false, false⟩)
    else if !p.all nameOk || p.isEmpty then (w, st, ⟨createFileResult false, false⟩)
    else
      -- O_CREATE|O_TRUNC|O_WRONLY follows a symlink in the last component
      match w.stat p with
      | some (_, .file i) =>
        (w.setInode i ⟨Content.ofBytes [], recent⟩, { st with wo := some ⟨i⟩ }, ⟨createFileResult true, false⟩)
      | some _ => (w, st, ⟨createFileResult false, false⟩)
      | none =>
        match w.stat p.dropLast, w.lookupRaw p with
        | some (pq, .dir _), none =>
          let q := pq ++ [p.getLast?.getD []]
          match w.lookupRaw q with
          | none =>
            let ino := w.inodes.length
            let w := touchParent (w.newFile q (Content.ofBytes []) recent) q
            (w, { st with wo := some ⟨ino⟩ }, ⟨createFileResult true, false⟩)
          | some _ => (w, st, ⟨createFileResult false, false⟩)
        | _, _ => (w, st, ⟨createFileResult false, false⟩)
  | .writeFile announced payload =>
    -- the written amount is reported as an int32: a payload that could not be reported is refused as a whole
    if announced > maxAnnounce then (w, st, ⟨writeFileResult none, false⟩) else
    if !cfg.mayWrite Gen.handler_guardFirst_HandleWriteFile then (w, st, ⟨writeFileResult none, false⟩) else
    match st.wo with
    | none => (w, st, ⟨writeFileResult none, false⟩)
    | some wo =>
      match w.inode? wo.ino with
      | some f =>
        (w.setInode wo.ino ⟨Content.ofBytes (f.content.all ++ payload), if payload.isEmpty then f.mtime else recent⟩, st,
          ⟨writeFileResult (some payload.length), false⟩)
      | none => (w, st, ⟨writeFileResult (some payload.length), false⟩)
  | .deleteFile raw =>
    let p := cleanRequest raw
    if !cfg.mayWrite Gen.handler_guardFirst_HandleDeleteFile then (w, st, ⟨deleteFileResult false, false⟩) else
    if (statInfo w p).any (·.isDir) then (w, st, ⟨deleteFileResult false, false⟩) else
    if !p.all nameOk || p.isEmpty then (w, st, ⟨deleteFileResult false, false⟩) else
    -- os.Remove acts on the name itself (lstat semantics for the last component)
    match w.stat p.dropLast with
    | some (pq, .dir _) =>
      let q := pq ++ [p.getLast?.getD []]
      match w.lookupRaw q with
      | some (.dir _) =>
        if w.hasChildren q then (w, st, ⟨deleteFileResult false, false⟩)
        else (touchParent (w.removeEntry q) q, st, ⟨deleteFileResult true, false⟩)
      | some _ => (touchParent (w.removeEntry q) q, st, ⟨deleteFileResult true, false⟩)
      | none => (w, st, ⟨deleteFileResult false, false⟩)
    | _ => (w, st, ⟨deleteFileResult false, false⟩)
  | .rmdir raw =>
    let p := cleanRequest raw
    if !cfg.mayWrite Gen.handler_guardFirst_HandleRmdir then (w, st, ⟨rmdirResult false, false⟩) else
    if p.isEmpty then (w, st, ⟨rmdirResult false, false⟩) else     -- the root itself is never removed
    if (statInfo w p).any (fun i => !i.isDir) then (w, st, ⟨rmdirResult false, false⟩) else
    if !p.all nameOk then (w, st, ⟨rmdirResult false, false⟩) else
    match w.stat p.dropLast with
    | some (pq, .dir _) =>
      let q := pq ++ [p.getLast?.getD []]
      match w.lookupRaw q with
      | some (.dir _) =>
        if w.hasChildren q then (w, st, ⟨rmdirResult false, false⟩)
        else (touchParent (w.removeEntry q) q, st, ⟨rmdirResult true, false⟩)
      | some _ => (touchParent (w.removeEntry q) q, st, ⟨rmdirResult true, false⟩)
      | none => (w, st, ⟨rmdirResult false, false⟩)
    | _ => (w, st, ⟨rmdirResult false, false⟩)
  | .mkdir raw =>
    let p := cleanRequest raw
    if !cfg.mayWrite Gen.handler_guardFirst_HandleMkdir then (w, st, ⟨mkdirResult false, false⟩) else
    if p.isEmpty then
      if w.rootGone then ({ w with rootGone := false, rootMtime := recent }, st, ⟨mkdirResult true, false⟩)
      else (w, st, ⟨mkdirResult false, false⟩)
    else
    if !p.all nameOk then (w, st, ⟨mkdirResult false, false⟩) else
    match w.stat p.dropLast with
    | some (pq, .dir _) =>
      let q := pq ++ [p.getLast?.getD []]
      match w.lookupRaw q with
      | none => (touchParent (w.addEntry ⟨q, .dir recent⟩) q, st, ⟨mkdirResult true, false⟩)
      | some _ => (w, st, ⟨mkdirResult false, false⟩)
    | _ => (w, st, ⟨mkdirResult false, false⟩)
  | .getDirSize raw =>
    let p := cleanRequest raw
    -- only an existing directory has a size to report
    match (if p.all nameOk then w.stat p else none) with
    | some (_, .dir _) => (w, st, ⟨getDirSizeResult (walkSize w dirSizeFuel p), false⟩)
    | _ => (w, st, ⟨getDirSizeResult (neg1 8), false⟩)

/-- A WRITE_FILE whose payload ends before the announced length: the announced length and the part
    of the payload that did arrive. -/
def truncatedWrite (input : Bytes) : Option (Nat × Bytes) :=
  if input.length < cmdSize then none else
  if getField Gen.proto_layout_Command "OpCode" input != Gen.proto_CmdWriteFile then none else
  let data := slice input ((Layout.field Gen.proto_layout_Command "Data").getD (2, 14)).1 14
  let n := getField Gen.proto_layout_WriteFileCommand "BytesToWrite" data
  let part := input.drop cmdSize
  if part.length < n then some (n, part) else none

/-- The payload is streamed into the file as it arrives, so what a truncated WRITE_FILE did deliver is
    in the file when the connection ends (no answer is sent): the only effect a truncated request has. -/
def partialWrite (cfg : Cfg) (w : World) (st : State) (input : Bytes) : World :=
  match truncatedWrite input with
  | none => w
  | some (n, part) =>
    if n > maxAnnounce || !cfg.mayWrite Gen.handler_guardFirst_HandleWriteFile || part.isEmpty then w else
    match st.wo with
    | none => w
    | some wo =>
      match w.inode? wo.ino with
      | some f => w.setInode wo.ino ⟨Content.ofBytes (f.content.all ++ part), recent⟩
      | none => w

/-- the loop of serveConn over the bytes a client sends; `fuel` ≥ number of requests.
    Returns the final world and state, everything sent, and the number of input bytes consumed. -/
def serve (cfg : Cfg) : Nat → World → State → Bytes → Bytes → Nat → World × State × Bytes × Nat
  | 0, w, st, _, acc, used => (w, st, acc, used)
  | fuel + 1, w, st, input, acc, used =>
    match decode input with
    | .incomplete => (partialWrite cfg w st input, st, acc, used + input.length)   -- the blocked read swallowed what there was
    | .unknown _ => (w, st, acc, used + cmdSize)
    | .req r rest =>
      let (w', st', out) := step cfg w st r
      let used' := used + (input.length - rest.length)
      if out.close then (w', st', acc ++ out.bytes, used')
      else serve cfg fuel w' st' rest (acc ++ out.bytes) used'

end Ps3.Conn

namespace Ps3.Conn
open Ps3 Ps3.Proto Ps3.PathStr

/-! ### the handle ledger (State.{CwdHandle,ROFile,WOFile}, State.Close) -/

/-- number of handles the connection state owns -/
def handles (st : State) : Nat := st.cwd.isSome.toNat + st.ro.isSome.toNat + st.wo.isSome.toNat

/-- State.Close: every slot is closed and cleared (deferred on every exit path of serveConn) -/
def State.close (_ : State) : State := {}

/-- (opened, closed): the handles a handler opens into / closes out of the three slots for one
    request, following the replace-then-close logic of HandleOpenDir / HandleReadDirEntry /
    HandleOpenFile / HandleCloseFile / HandleCreateFile. Handles that live only inside one handler
    call (key files, PARAM.SFO, directories walked for a size) are closed by `defer` there. -/
def ledgerEv (cfg : Cfg) (w : World) (st : State) (r : Req) : Nat × Nat :=
  let had (b : Bool) : Nat := b.toNat
  match r with
  | .openDir raw =>
    match openRO cfg w (PathStr.cleanRequest raw) with
    | none => (0, had st.cwd.isSome)
    | some (.dir _) => (1, had st.cwd.isSome)
    | some _ => (1, 1 + had st.cwd.isSome)      -- opened, found not to be a directory, closed again
  | .readDirEntry | .readDirEntryV2 =>
    match st.cwd with
    | none => (0, 0)
    | some h =>
      match nextEntry w h.named (h.remaining.getD (dirNames w h.real)) with
      | none => (0, 1)                           -- end of directory: the handle is closed
      | some _ => (0, 0)
  | .openFile raw =>
    let p := PathStr.cleanRequest raw
    if p == [closeFileName] then (0, had st.ro.isSome)
    else match openRO cfg w p with
      | none => (0, had st.ro.isSome)
      | some _ => (1, had st.ro.isSome)
  | .createFile raw =>
    let p := PathStr.cleanRequest raw
    if !cfg.mayWrite Gen.handler_guardFirst_HandleCreateFile then (0, 0) else
    let closedOld := had st.wo.isSome
    if (step cfg w st (.createFile raw)).2.1.wo.isSome then (1, closedOld) else (0, closedOld)
  | _ => (0, 0)

end Ps3.Conn
