/-
  pkg/fs/encrypted_iso.go and pkg/fs/3k3y_iso.go: region table parsing and validation, per-sector
  AES-128-CBC decryption with the sector number as IV, header clearing, the 3k3y mask, key files,
  image-kind detection. The block cipher is a parameter in the theorems; the driver instantiates
  it with the executable AES of Base/Aes.lean.
-/
import Ps3.Base.Text
import Ps3.Base.Aes
import Ps3.Gen.Facts

namespace Ps3.Crypt
open Ps3

def sectorSize : Nat := Gen.fs_sectorSize

structure Region where
  start : Nat
  stop : Nat       -- the region's LAST sector (inclusive), as on discs and in the images the server generates
deriving Repr, DecidableEq

/-- maximal number of table entries: the table lives in the first sector -/
def maxRegions : Nat := (sectorSize - 8) / 8

/-- borders must increase monotonically: no region ends before it starts, each starts after the last
    sector of the previous one (`prev` = none for the first region) -/
def bordersOk : List Region → Option Nat → Bool
  | [], _ => true
  | r :: rest, prev =>
    if r.stop < r.start then false
    else if (match prev with | some e => decide (r.start ≤ e) | none => false) then false
    else bordersOk rest (some r.stop)

/-- the sanity checks of NewEncryptedISO on a decoded table -/
def validRegs (regs : List Region) : Bool :=
  2 ≤ regs.length && regs.length ≤ maxRegions && (regs.head?.map (·.start)) == some 0 && bordersOk regs none

/-- the big-endian table at the start of the image: count, 4 pad bytes, (start, end) pairs.
    none = the file is too short for the table it announces, or announces more than fits a sector -/
def decodeTable (rd : Nat → Nat → Bytes) : Option (List Region) :=
  let hdr := rd 0 8
  if hdr.length != 8 then none else
  let count := fromBE (hdr.take 4)
  if count > maxRegions then none else
  let raw := rd 8 (8 * count)
  if raw.length != 8 * count then none else
  some ((List.range count).map (fun i => (⟨fromBE (slice raw (8 * i) 4), fromBE (slice raw (8 * i + 4) 4)⟩ : Region)))

/-- `rd off n` reads the stored bytes (clipped at the end of the file).
    Result: the plain regions, or none when NewEncryptedISO returns an error. -/
def parseTable (rd : Nat → Nat → Bytes) : Option (List Region) :=
  match decodeTable rd with
  | none => none
  | some regs => if validRegs regs then some regs else none

/-- the encrypted gaps between consecutive plain regions -/
def gaps : List Region → List Region
  | a :: b :: rest => ⟨a.stop + 1, b.start⟩ :: gaps (b :: rest)
  | _ => []

def inGap (gs : List Region) (sector : Nat) : Bool := gs.any (fun g => g.start ≤ sector && sector < g.stop)

/-- what one stored sector reads as: decrypted when it lies in a gap and is complete -/
def plainSector (D : Nat → Bytes → Bytes) (gs : List Region) (s : Nat) (stored : Bytes) : Bytes :=
  if inGap gs s && stored.length == sectorSize then D s stored else stored

/-- the decrypting view: bytes `[off, off+n)` clipped to the file size -/
def readDec (D : Nat → Bytes → Bytes) (gs : List Region) (rd : Nat → Nat → Bytes) (size : Nat)
    (hdrClear : Nat) (off n : Nat) : Bytes :=
  let len := min n (size - off)
  if len == 0 then [] else
  let s0 := off / sectorSize
  let s1 := (off + len - 1) / sectorSize
  let body := ((List.range (s1 - s0 + 1)).map (fun k =>
    plainSector D gs (s0 + k) (rd ((s0 + k) * sectorSize) sectorSize))).flatten
  let data := slice body (off - s0 * sectorSize) len
  -- clearRegionsData: the table itself reads as zeros when requested
  if off < hdrClear then zeros (min (hdrClear - off) data.length) ++ data.drop (hdrClear - off) else data

/-! ### the 3k3y mask -/

def maskBegin : Nat := Gen.fs__3k3yMaskedDataBegin
def maskEnd : Nat := Gen.fs__3k3yMaskedDataEnd

/-- ISO3k3y: the underlying bytes with `[0xF70, 0x1070)` zeroed -/
def mask3k3y (data : Bytes) (off : Nat) : Bytes :=
  let lo := max maskBegin off
  let hi := min maskEnd (off + data.length)
  if lo < hi then data.take (lo - off) ++ zeros (hi - lo) ++ data.drop (hi - off) else data

inductive Kind3k3y where
  | enc (key : Bytes) | dec | no
deriving Repr, DecidableEq

/-- Test3k3yImage -/
def test3k3y (rd : Nat → Nat → Bytes) : Kind3k3y :=
  -- the file may end inside the area: the watermark (and the key of an encrypted image) are its first bytes
  let d := rd maskBegin Gen.fs__3k3yMaskedDataSize
  if d.length < 16 then .no
  else
    let wm := d.take 16
    if wm == Gen.fs__3k3yEncWatermark.map UInt8.ofNat then (if d.length < 32 then .no else .enc (slice d 16 16))
    else if wm == Gen.fs__3k3yDecWatermark.map UInt8.ofNat then .dec
    else .no

/-! ### key files -/

def hexNibble (c : UInt8) : Option Nat :=
  let n := c.toNat
  if 48 ≤ n ∧ n ≤ 57 then some (n - 48)
  else if 97 ≤ n ∧ n ≤ 102 then some (n - 87)
  else if 65 ≤ n ∧ n ≤ 70 then some (n - 55)
  else none

/-- ReadKeyFile: the first 32 bytes must be hex digits -/
def readKeyFile (content : Bytes) : Option Bytes :=
  let h := content.take 32
  if h.length != 32 then none else
  let rec go : Bytes → Option Bytes
    | a :: b :: rest => do
      let x ← hexNibble a
      let y ← hexNibble b
      let r ← go rest
      pure (UInt8.ofNat (x * 16 + y) :: r)
    | [] => some []
    | [_] => none
  go h

/-! ### executable AES instance (driver only) -/

def toBA (b : Bytes) : ByteArray := ⟨b.toArray⟩
def ofBA (b : ByteArray) : Bytes := b.data.toList

/-- deriveISOKey: AES-128-CBC-encrypt the disc key with the fixed key and IV -/
def deriveKey (data1 : Bytes) : Bytes :=
  ofBA (Aes.cbcEncrypt (toBA (Gen.fs_keyData1.map UInt8.ofNat)) (toBA (Gen.fs_ivData1.map UInt8.ofNat)) (toBA data1))

/-- the sector decryptor for a given disc key: AES-128-CBC, IV = 12 zero bytes ++ be32 sector -/
def aesSector (data1 : Bytes) : Nat → Bytes → Bytes :=
  let rks := Aes.expandKey (toBA (deriveKey data1))
  fun s stored => ofBA (Aes.cbcDecryptWith rks (toBA (zeros 12 ++ beN 4 s)) (toBA stored))

end Ps3.Crypt
