/-
  pkg/fs/fs.go: FS.OpenFile's decision chain for a read-only open — virtual image prefixes first,
  then (for regular files) redump key lookup, 3k3y test, plain.
-/
import Ps3.Model.Conn
import Ps3.Model.Viso
import Ps3.Model.Crypt

namespace Ps3.FSWrap
open Ps3 Ps3.Conn Ps3.PathStr

def isVirtualPath (p : Path) : Bool := Conn.isVirtual p

def isPs3Path (p : Path) : Bool :=
  match p with
  | c :: _ => [slash] ++ c == Gen.fs_virtualPS3ISOMask
  | [] => false

def contentOf (w : World) (i : Nat) : Content :=
  match w.inode? i with
  | some f => f.content
  | none => { size := 0, seed := 0 }

/-- a generated image as a read-only object -/
def visoView (w : World) (img : Viso.Image) : StaticView :=
  { size := img.totalSize, mtime := recent,
    read := fun off n => img.read (contentOf w) off n,
    seekOk := fun off => off ≤ img.totalSize }

def lowerBytes (b : Bytes) : List Nat := (Text.runes b).map Text.toLowerRune

/-- filepath.Ext of a file name: from the last '.' on ("" when there is none) -/
def extOf (name : Bytes) : Bytes :=
  match (name.reverse.findIdx? (· == 46)) with
  | none => []
  | some i => name.drop (name.length - 1 - i)

def dkeyName (name : Bytes) : Bytes := name.take (name.length - (extOf name).length) ++ Gen.fs_dkeyExt

inductive KeyLookup where
  | notFound              -- afero.ErrFileNotFound: go on with the 3k3y test
  | key (k : Bytes)
  | failed                -- a key file exists but cannot be read / is malformed: the open fails
deriving Repr, DecidableEq

/-- read a key file that exists at `p` -/
def keyAt (w : World) (p : Path) : Option KeyLookup :=
  match w.stat p with
  | none => none
  | some (_, .file i) =>
    match w.inode? i with
    | some f => match Crypt.readKeyFile f.content.all with
      | some k => some (.key k)
      | none => some .failed
    | none => some .failed
  | some _ => some .failed     -- a directory opens but cannot be read

/-- tryGetRedumpKey: `.iso` (any case) below a `ps3iso` element (any case): key beside the image
    first, then in the parallel REDKEY directory -/
def redumpKey (w : World) (p : Path) : KeyLookup :=
  match p.getLast? with
  | none => .notFound
  | some name =>
    if lowerBytes (extOf name) != lowerBytes Gen.fs_isoExt then .notFound else
    match p.findIdx? (fun c => lowerBytes c == lowerBytes Gen.fs_ps3isoDir) with
    | none => .notFound
    | some idx =>
      let beside := p.dropLast ++ [dkeyName name]
      match keyAt w beside with
      | some r => r
      | none =>
        match keyAt w ((p.set idx Gen.fs_redkeyDir).dropLast ++ [dkeyName name]) with
        | some r => r
        | none => .notFound

/-! ### the same decision with I/O faults (tryGetRedumpKey after its repair) -/

/-- what opening one candidate key file can give -/
inductive OpenRes where
  | absent                  -- no such file: ENOENT, ENOTDIR, ENAMETOOLONG (`keyFileAbsent`)
  | ioerr                   -- any other error
  | opened (r : KeyLookup)  -- opened; `r` is what ReadKeyFile makes of it
deriving Repr, DecidableEq

/-- the decision over the two candidates, adjacent first -/
def keyDecision (adj red : OpenRes) : KeyLookup :=
  match adj with
  | .opened r => r
  | .ioerr => .failed
  | .absent =>
    match red with
    | .opened r => r
    | .ioerr => .failed
    | .absent => .notFound

/-- a fault-free world: a candidate is there or not -/
def OpenRes.ofStat : Option KeyLookup → OpenRes
  | none => .absent
  | some r => .opened r

def fileRd (f : Inode) : Nat → Nat → Bytes := fun off n => f.content.read off n

/-- the wrappers FS.OpenFile puts around a regular file opened for reading -/
def wrapFile (w : World) (p : Path) : Option (Option StaticView) :=
  match w.stat p with
  | some (_, .file i) =>
    match w.inode? i with
    | none => none
    | some f =>
      let size := f.content.size
      let plainView (rd : Nat → Nat → Bytes) : StaticView :=
        { size := size, mtime := f.mtime, read := rd, seekOk := fun off => off ≤ osSeekMax }
      let decrypting (key : Bytes) : Option (Nat → Nat → Bytes) :=
        -- sector numbers are int32: an image of more than 2^31−1 sectors is refused
        if size > Viso.maxSector * Crypt.sectorSize then none else
        (Crypt.parseTable (fileRd f)).map (fun regs =>
          Crypt.readDec (Crypt.aesSector key) (Crypt.gaps regs) (fileRd f) size 0)
      match redumpKey w p with
      | .failed => some none
      | .key k =>
        match decrypting k with
        | none => some none
        | some rd => some (some (plainView rd))
      | .notFound =>
        match Crypt.test3k3y (fileRd f) with
        | .enc k =>
          match decrypting k with
          | none => some none
          | some rd => some (some (plainView (fun off n => Crypt.mask3k3y (rd off n) off)))
        | .dec => some (some (plainView (fun off n => Crypt.mask3k3y (fileRd f off n) off)))
        | .no => none
  | _ => none

/-- translatePath + NewVirtualISO, then the file wrappers -/
def wrap (clk : Viso.Clock) (filler : Bytes) (w : World) (p : Path) : Option (Option StaticView) :=
  if isVirtualPath p then
    match Viso.build w (p.drop 1) (isPs3Path p) clk filler with
    | none => some none
    | some img => some (some (visoView w img))
  else if !p.all Conn.nameOk then none
  else wrapFile w p

end Ps3.FSWrap
