/-
  pkg/fs/fs.go: FS.OpenFile's decision chain for a read-only open — virtual image prefixes first,
  then (for regular files) redump key lookup, 3k3y test, plain.
-/
import Ps3.Model.Conn
import Ps3.Model.Viso

namespace Ps3.FSWrap
open Ps3 Ps3.Conn Ps3.PathStr

def isVirtualPath (p : Path) : Bool := Conn.isVirtual p

def isPs3Path (p : Path) : Bool :=
  match p with
  | c :: _ => [slash] ++ c == Gen.fs_virtualPS3ISOMask
  | [] => false

def contentOf (w : World) (i : Nat) : Content :=
  match w.inode? i with
  | some f => f.content
  | none => { size := 0, seed := 0 }

/-- a generated image as a read-only object -/
def visoView (w : World) (img : Viso.Image) : StaticView :=
  { size := img.totalSize, mtime := recent,
    read := fun off n => img.read (contentOf w) off n,
    seekOk := fun off => off ≤ img.totalSize }

/-- translatePath + NewVirtualISO; other wrappers are added by `wrapFile` -/
def wrap (clk : Viso.Clock) (filler : Bytes) (w : World) (p : Path) : Option (Option StaticView) :=
  if isVirtualPath p then
    match Viso.build w (p.drop 1) (isPs3Path p) clk filler with
    | none => some none
    | some img => some (some (visoView w img))
  else none

end Ps3.FSWrap
