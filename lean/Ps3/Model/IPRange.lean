/-
  Model of pkg/iprange/iprange.go (ParseIPRange, parseCIDRorMask, lastByMask, parseTwo, Contains)
  and of the Go standard-library glue it calls (net.ParseIP = netip.ParseAddr without zone,
  strconv.Atoi, net.CIDRMask, IPMask.Size, IP.To4/To16/Mask, bytes.Compare).
  Strings are byte lists exactly as Go strings are.
-/
import Ps3.Base.Bytes

namespace Ps3.IPRange
open Ps3

def isDigit (c : UInt8) : Bool := 48 ≤ c.toNat && c.toNat ≤ 57

/-- netip.parseIPv4Fields over the whole string; returns the 4 octets. -/
def v4go : Bytes → Bool → Bool → Nat → Nat → Nat → Bytes → Option Bytes
  | [], _, _, val, pos, _, acc => if pos < 3 then none else some (acc ++ [UInt8.ofNat val])
  | c :: rest, first, prevDot, val, pos, digLen, acc =>
    if isDigit c then
      if digLen == 1 && val == 0 then none
      else
        let val' := val * 10 + (c.toNat - 48)
        if val' > 255 then none else v4go rest false false val' pos (digLen + 1) acc
    else if c == 46 then
      if first || rest.isEmpty || prevDot then none
      else if pos == 3 then none
      else v4go rest false true 0 (pos + 1) 0 (acc ++ [UInt8.ofNat val])
    else none

def parseV4Fields (s : Bytes) : Option Bytes := v4go s true false 0 0 0 []

def v4InV6Prefix : Bytes := zeros 10 ++ [0xff, 0xff]

def hexDig (c : UInt8) : Option Nat :=
  let n := c.toNat
  if 48 ≤ n ∧ n ≤ 57 then some (n - 48)
  else if 97 ≤ n ∧ n ≤ 102 then some (n - 87)
  else if 65 ≤ n ∧ n ≤ 70 then some (n - 55)
  else none

/-- the inner hex-group scan of parseIPv6: returns (digits consumed, value, rest) or none on
    ">4 digits"/overflow. -/
def hexGroup : Bytes → Nat → Nat → Option (Nat × Nat × Bytes)
  | [], off, acc => some (off, acc, [])
  | c :: rest, off, acc =>
    match hexDig c with
    | none => some (off, acc, c :: rest)
    | some d =>
      let acc' := acc * 16 + d
      if off > 3 then none
      else if acc' > 65535 then none
      else hexGroup rest (off + 1) acc'

/-- main loop of netip.parseIPv6 (zone already excluded: '%' makes ParseIP fail or is rejected).
    `ip` is the prefix of the 16-byte array written so far (`ip.length = i`). -/
def v6loop : Nat → Bytes → Bytes → Option Nat → Option (Bytes × Option Nat × Bytes)
  | 0, s, ip, ell => some (ip, ell, s)
  | fuel + 1, s, ip, ell =>
    if ip.length ≥ 16 then some (ip, ell, s) else
    match hexGroup s 0 0 with
    | none => none
    | some (off, acc, rest) =>
      if off == 0 then none
      else
        match rest with
        | 46 :: _ =>
          -- embedded IPv4: must replace the final 2 fields
          if ell.isNone && ip.length != 12 then none
          else if ip.length + 4 > 16 then none
          else match parseV4Fields s with
            | none => none
            | some f => some (ip ++ f, ell, [])
        | [] => some (ip ++ [UInt8.ofNat (acc / 256), UInt8.ofNat (acc % 256)], ell, [])
        | c :: rest' =>
          let ip' := ip ++ [UInt8.ofNat (acc / 256), UInt8.ofNat (acc % 256)]
          if c != 58 then none
          else match rest' with
            | [] => none
            | 58 :: rest'' =>
              if ell.isSome then none
              else if rest''.isEmpty then some (ip', some ip'.length, [])
              else v6loop fuel rest'' ip' (some ip'.length)
            | _ => v6loop fuel rest' ip' ell

def parseV6 (s0 : Bytes) : Option Bytes :=
  if s0.contains 37 then none  -- '%': zone present ⇒ net.ParseIP rejects (empty zone ⇒ parse error)
  else
    let (s, ell) : Bytes × Option Nat :=
      match s0 with
      | 58 :: 58 :: r => (r, some 0)
      | _ => (s0, none)
    if ell.isSome && s.isEmpty then some (zeros 16)
    else match v6loop 9 s [] ell with
      | none => none
      | some (ip, ell, rest) =>
        if !rest.isEmpty then none
        else if ip.length < 16 then
          match ell with
          | none => none
          | some e => some (ip.take e ++ zeros (16 - ip.length) ++ ip.drop e)
        else if ell.isSome then none
        else some ip

/-- net.ParseIP: always the 16-byte form. -/
def parseIP (s : Bytes) : Option Bytes :=
  match s.find? (fun c => c == 46 || c == 58 || c == 37) with
  | some 46 => (parseV4Fields s).map (fun f => v4InV6Prefix ++ f)
  | some 58 => parseV6 s
  | _ => none

/-- IP.To4 -/
def to4 (ip : Bytes) : Option Bytes :=
  if ip.length == 4 then some ip
  else if ip.length == 16 && ip.take 12 == v4InV6Prefix then some (ip.drop 12)
  else none

/-- IP.To16 -/
def to16 (ip : Bytes) : Option Bytes :=
  if ip.length == 4 then some (v4InV6Prefix ++ ip)
  else if ip.length == 16 then some ip
  else none

/-- strconv.Atoi (base 10, optional sign, int64 range) -/
def atoi (s : Bytes) : Option Int :=
  let (neg, ds) : Bool × Bytes :=
    match s with
    | 45 :: r => (true, r)
    | 43 :: r => (false, r)
    | _ => (false, s)
  if ds.isEmpty then none
  else if !ds.all isDigit then none
  else
    let v : Nat := ds.foldl (fun a c => a * 10 + (c.toNat - 48)) 0
    if neg then (if v ≤ 2 ^ 63 then some (-(v : Int)) else none)
    else (if v < 2 ^ 63 then some (v : Int) else none)

/-- one byte of net.CIDRMask with `n` leading ones still to place (n ≤ 8) -/
def maskByte (n : Nat) : UInt8 := UInt8.ofNat (256 - 2 ^ (8 - n))

/-- net.CIDRMask(ones, 8*l) for valid arguments -/
def cidrMask : Nat → Nat → Bytes
  | 0, _ => []
  | l + 1, n => if n ≥ 8 then 0xff :: cidrMask l (n - 8) else maskByte n :: cidrMask l 0

/-- number of leading one bits of a byte if it is of the form 1…10…0 -/
def byteOnes (v : UInt8) : Option Nat :=
  (List.range 9).find? (fun n => maskByte n == v)

/-- net.simpleMaskLength -/
def simpleMaskLength : Bytes → Option Nat
  | [] => some 0
  | v :: rest =>
    if v == 0xff then (simpleMaskLength rest).map (· + 8)
    else match byteOnes v with
      | none => none
      | some n => if rest.all (· == 0) then some n else none

def bytesAnd (a b : Bytes) : Bytes := List.zipWith (· &&& ·) a b
def bytesOrNot (a m : Bytes) : Bytes := List.zipWith (fun x y => x ||| ~~~y) a m

/-- bytes.Compare as an ordering result -/
def cmpBytes : Bytes → Bytes → Ordering
  | [], [] => .eq
  | [], _ :: _ => .lt
  | _ :: _, [] => .gt
  | a :: as, b :: bs => if a < b then .lt else if b < a then .gt else cmpBytes as bs

def setLastBit (l : Bytes) : Bytes :=
  match l.reverse with
  | [] => []
  | x :: r => ((x ||| 1) :: r).reverse

def clearLastBit (l : Bytes) : Bytes :=
  match l.reverse with
  | [] => []
  | x :: r => ((x &&& 0xfe) :: r).reverse

structure Range where
  left : Bytes
  right : Bytes
deriving Repr, DecidableEq

/-- left/right from (address in its 4- or 16-byte form, mask of the same length, prefix length) -/
def blockRange (addr mask : Bytes) (prefixLen : Nat) : Range :=
  let left := bytesAnd addr mask
  let right := bytesOrNot left mask
  let addrLen := addr.length
  if (addrLen == 4 && prefixLen < 31) || (addrLen == 16 && prefixLen < 127) then
    ⟨setLastBit left, clearLastBit right⟩
  else ⟨left, right⟩

/-- the text after the slash as a prefix length: strconv.Atoi, but a sign makes it no CIDR notation -/
def prefixLenOf (tail : Bytes) : Option Int :=
  match tail with
  | 43 :: _ => none
  | 45 :: _ => none
  | _ => atoi tail

def parseCIDRorMask (s : Bytes) (sepIdx : Nat) : Option Range :=
  if sepIdx == s.length - 1 then none else
  match parseIP (s.take sepIdx) with
  | none => none
  | some addr =>
    let tail := s.drop (sepIdx + 1)
    let maskAsIP := parseIP tail
    let prefixLen? := prefixLenOf tail
    let addr' : Bytes := match to4 addr with | some a => a | none => addr
    let addrLen := addr'.length
    let mp : Option (Bytes × Nat) :=
      match maskAsIP with
      | some m =>
        match to4 m with
        | none => none
        | some m4 =>
          if addrLen != 4 then none
          else match simpleMaskLength m4 with
            | none => none
            | some ones => some (m4, ones)
      | none =>
        match prefixLen? with
        | none => none
        | some p =>
          if p < 0 || p > 8 * (addrLen : Int) then none
          else some (cidrMask addrLen p.toNat, p.toNat)
    match mp with
    | none => none
    | some (mask, prefixLen) =>
      let r := blockRange addr' mask prefixLen
      match to16 r.left, to16 r.right with
      | some l, some rr => some ⟨l, rr⟩
      | _, _ => none

def parseTwo (s : Bytes) (sepIdx : Nat) : Option Range :=
  if sepIdx == s.length - 1 then none else
  match parseIP (s.take sepIdx), parseIP (s.drop (sepIdx + 1)) with
  | some l, some r =>
    if (to4 l).isSome != (to4 r).isSome then none
    else if cmpBytes l r == .gt then none
    else some ⟨l, r⟩
  | _, _ => none

def parseIPRange (s : Bytes) : Option Range :=
  let viaSep : Option Range :=
    match s.findIdx? (fun c => c == 47 || c == 45) with
    | none => none
    | some i => if s[i]? == some 47 then parseCIDRorMask s i else parseTwo s i
  match viaSep with
  | some r => some r
  | none => (parseIP s).map (fun a => ⟨a, a⟩)

/-- (*IPRange).Contains for a 4- or 16-byte (or malformed) net.IP -/
def contains (r : Range) (ip : Bytes) : Bool :=
  match to16 ip with
  | none => cmpBytes [] r.left != .lt && cmpBytes [] r.right != .gt
  | some ip16 => cmpBytes ip16 r.left != .lt && cmpBytes ip16 r.right != .gt

end Ps3.IPRange
