/-
  Several connections against one world: pkg/server.Serve starts one goroutine and one
  Context/State per accepted connection; the Handler (Fs, Copier, AllowWrite) is shared and read-only.
  A schedule is any interleaving of the connections' requests (request granularity), and — for the
  shared buffer pool of internal/copier — of get / put events.
-/
import Ps3.Model.Conn
namespace Ps3.Multi
open Ps3 Ps3.Conn Ps3.Proto

structure Sys where
  w : World
  sts : List State        -- state of connection i

/-- connection `i` handles request `r` -/
def stepConn (cfg : Cfg) (s : Sys) (i : Nat) (r : Req) : Sys × Option Out :=
  match s.sts[i]? with
  | none => (s, none)
  | some st =>
    let res := step cfg s.w st r
    ({ w := res.1, sts := s.sts.set i res.2.1 }, some res.2.2)

/-- outputs of a whole schedule, tagged with the connection they belong to -/
def runSched (cfg : Cfg) : Sys → List (Nat × Req) → List (Nat × Out)
  | _, [] => []
  | s, (i, r) :: rest =>
    let res := stepConn cfg s i r
    match res.2 with
    | some o => (i, o) :: runSched cfg res.1 rest
    | none => runSched cfg res.1 rest

/-- a connection served alone -/
def runAlone (cfg : Cfg) : World → State → List Req → List Out
  | _, _, [] => []
  | w, st, r :: rest => let res := step cfg w st r; res.2.2 :: runAlone cfg res.1 res.2.1 rest

def project (i : Nat) {α : Type} (l : List (Nat × α)) : List α :=
  l.filterMap (fun p => if p.1 = i then some p.2 else none)

/-! ### the transfer-buffer pool (sync.Pool in internal/copier) -/

structure Pool where
  free : List Nat                -- buffers lying in the pool
  held : List (Nat × Nat)        -- (connection, buffer) pairs currently in use
  next : Nat                     -- next fresh buffer id (sync.Pool.New)

inductive PoolEv where
  | get (conn : Nat)
  | put (conn : Nat)

def Pool.step (p : Pool) : PoolEv → Pool
  | .get c =>
    match p.free with
    | b :: rest => { p with free := rest, held := (c, b) :: p.held }
    | [] => { p with held := (c, p.next) :: p.held, next := p.next + 1 }
  | .put c =>
    match p.held.find? (fun h => h.1 == c) with
    | some h => { p with held := p.held.erase h, free := h.2 :: p.free }
    | none => p

/-- every buffer is either free or held by exactly one connection, and ids below `next` only -/
def Pool.Inv (p : Pool) : Prop :=
  (p.free ++ p.held.map (·.2)).Nodup ∧ ∀ b ∈ p.free ++ p.held.map (·.2), b < p.next

end Ps3.Multi
