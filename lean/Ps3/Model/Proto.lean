/-
  Wire protocol: request decoding and response encoding, generic over the struct layouts that the
  extractor regenerates from pkg/proto/types.go (Gen.proto_layout_*). A reordered, resized or
  dropped field in the Go structs therefore changes this model.
-/
import Ps3.Base.Bytes
import Ps3.Gen.Facts

namespace Ps3.Proto
open Ps3

abbrev Layout := List (String × Nat)

def Layout.size (l : Layout) : Nat := (l.map (·.2)).sum

/-- byte offset and width of a named field -/
def Layout.field (l : Layout) (name : String) : Option (Nat × Nat) :=
  let rec go : Layout → Nat → Option (Nat × Nat)
    | [], _ => none
    | (n, sz) :: rest, off => if n == name then some (off, sz) else go rest (off + sz)
  go l 0

/-- big-endian unsigned value of a named field inside `data` (0 if the field is absent) -/
def getField (l : Layout) (name : String) (data : Bytes) : Nat :=
  match l.field name with
  | none => 0
  | some (off, sz) => fromBE (slice data off sz)

/-- encode a struct: every field big-endian in declaration order; a field without a value is zero.
    Values are given as naturals (already two's-complemented when negative) or raw bytes. -/
inductive FVal where
  | num (v : Nat)
  | raw (b : Bytes)

def encodeStruct (l : Layout) (vals : List (String × FVal)) : Bytes :=
  l.foldr (fun (f : String × Nat) acc =>
    let bytes : Bytes :=
      match vals.find? (fun v => v.1 == f.1) with
      | some (_, .num v) => beN f.2 v
      | some (_, .raw b) => (b.take f.2) ++ zeros (f.2 - (b.take f.2).length)
      | none => zeros f.2
    bytes ++ acc) []

theorem encodeStruct_length (l : Layout) (vals : List (String × FVal)) :
    (encodeStruct l vals).length = l.size := by
  unfold encodeStruct Layout.size
  induction l with
  | nil => rfl
  | cons f rest ih =>
    simp only [List.foldr_cons, List.map_cons, List.sum_cons, List.length_append]
    rw [ih]
    congr 1
    split
    · simp
    · simp; omega
    · simp

def neg1 (w : Nat) : Nat := 256 ^ w - 1

/-! ### requests -/

inductive Req where
  | openDir (p : Bytes) | readDir | readDirEntry | readDirEntryV2
  | statFile (p : Bytes) | openFile (p : Bytes)
  | readFile (limit off : Nat) | readFileCritical (limit off : Nat)
  | readCD (start count : Nat)
  | createFile (p : Bytes) | writeFile (announced : Nat) (payload : Bytes)
  | deleteFile (p : Bytes) | mkdir (p : Bytes) | rmdir (p : Bytes) | getDirSize (p : Bytes)
deriving Repr

inductive Decoded where
  | req (r : Req) (rest : Bytes)
  /-- fewer bytes than the command (or its announced path) needs: the read fails, connection ends -/
  | incomplete
  | unknown (op : Nat)
deriving Repr

def cmdSize : Nat := Layout.size Gen.proto_layout_Command

/-- the bytes of one request at the head of the stream -/
def decode (s : Bytes) : Decoded :=
  if s.length < cmdSize then .incomplete else
  let op := getField Gen.proto_layout_Command "OpCode" s
  let data := slice s ((Layout.field Gen.proto_layout_Command "Data").getD (2, 14)).1 14
  let rest := s.drop cmdSize
  let withPath (l : Layout) (fld : String) (mk : Bytes → Req) : Decoded :=
    let n := getField l fld data
    if rest.length < n then .incomplete else .req (mk (rest.take n)) (rest.drop n)
  if op == Gen.proto_CmdOpenDir then withPath Gen.proto_layout_OpenDirCommand "DpLen" .openDir
  else if op == Gen.proto_CmdReadDir then .req .readDir rest
  else if op == Gen.proto_CmdReadDirEntry then .req .readDirEntry rest
  else if op == Gen.proto_CmdReadDirEntryV2 then .req .readDirEntryV2 rest
  else if op == Gen.proto_CmdStatFile then withPath Gen.proto_layout_StatFileCommand "FpLen" .statFile
  else if op == Gen.proto_CmdOpenFile then withPath Gen.proto_layout_StatFileCommand "FpLen" .openFile
  else if op == Gen.proto_CmdReadFile then
    .req (.readFile (getField Gen.proto_layout_ReadFileCommand "BytesToRead" data)
                    (getField Gen.proto_layout_ReadFileCommand "Offset" data)) rest
  else if op == Gen.proto_CmdReadFileCritical then
    .req (.readFileCritical (getField Gen.proto_layout_ReadFileCommand "BytesToRead" data)
                            (getField Gen.proto_layout_ReadFileCommand "Offset" data)) rest
  else if op == Gen.proto_CmdReadCD2048Critical then
    .req (.readCD (getField Gen.proto_layout_ReadCD2048CriticalCommand "StartSector" data)
                  (getField Gen.proto_layout_ReadCD2048CriticalCommand "SectorsToRead" data)) rest
  else if op == Gen.proto_CmdCreateFile then withPath Gen.proto_layout_CreateFileCommand "FpLen" .createFile
  else if op == Gen.proto_CmdWriteFile then
    let n := getField Gen.proto_layout_WriteFileCommand "BytesToWrite" data
    -- a payload that ends before the announced length is a truncated request like any other
    if rest.length < n then .incomplete else .req (.writeFile n (rest.take n)) (rest.drop n)
  else if op == Gen.proto_CmdDeleteFile then withPath Gen.proto_layout_DeleteFileCommand "FpLen" .deleteFile
  else if op == Gen.proto_CmdMkdir then withPath Gen.proto_layout_MkdirCommand "DpLen" .mkdir
  else if op == Gen.proto_CmdRmdir then withPath Gen.proto_layout_RmdirCommand "DpLen" .rmdir
  else if op == Gen.proto_CmdGetDirSize then withPath Gen.proto_layout_GetDirSizeCommand "DpLen" .getDirSize
  else .unknown op

/-! ### responses -/

def result32 (l : Layout) (ok : Bool) : Bytes :=
  encodeStruct l [("Result", .num (if ok then 0 else neg1 4))]

def openDirResult (ok : Bool) : Bytes := result32 Gen.proto_layout_OpenDirResult ok
def createFileResult (ok : Bool) : Bytes := result32 Gen.proto_layout_CreateFileResult ok
def deleteFileResult (ok : Bool) : Bytes := result32 Gen.proto_layout_DeleteFileResult ok
def mkdirResult (ok : Bool) : Bytes := result32 Gen.proto_layout_MkdirResult ok
def rmdirResult (ok : Bool) : Bytes := result32 Gen.proto_layout_RmdirResult ok

def writeFileResult (written : Option Nat) : Bytes :=
  encodeStruct Gen.proto_layout_WriteFileResult
    [("BytesWritten", .num (match written with | some n => n | none => neg1 4))]

def getDirSizeResult (sz : Nat) : Bytes :=
  encodeStruct Gen.proto_layout_GetDirSizeResult [("Size", .num sz)]

def readFileResultHdr (n : Nat) : Bytes :=
  encodeStruct Gen.proto_layout_ReadFileResult [("BytesRead", .num n)]

/-- (size, mtime) or the error form -/
def openFileResult (r : Option (Nat × Nat)) : Bytes :=
  match r with
  | some (sz, mt) => encodeStruct Gen.proto_layout_OpenFileResult [("FileSize", .num sz), ("ModTime", .num mt)]
  | none => encodeStruct Gen.proto_layout_OpenFileResult [("FileSize", .num (neg1 8))]

structure Info where
  name : Bytes
  isDir : Bool
  size : Nat
  mtime : Nat
  ctime : Nat := 0   -- masked by the harness (atime/ctime are not compared)
  atime : Nat := 0
deriving Repr

def boolNum (b : Bool) : Nat := if b then 1 else 0

def statFileResult (r : Option Info) : Bytes :=
  match r with
  | none => encodeStruct Gen.proto_layout_StatFileResult [("FileSize", .num (neg1 8))]
  | some i => encodeStruct Gen.proto_layout_StatFileResult
      [("FileSize", .num (if i.isDir then 0 else i.size)), ("ModTime", .num i.mtime),
       ("ChangeTime", .num i.ctime), ("AccessTime", .num i.atime), ("IsDirectory", .num (boolNum i.isDir))]

def readDirEntryResult (r : Option Info) : Bytes :=
  match r with
  | none => encodeStruct Gen.proto_layout_ReadDirEntryResult [("FileSize", .num (neg1 8))]
  | some i =>
    encodeStruct Gen.proto_layout_ReadDirEntryResult
      [("FileSize", .num (if i.isDir then 0 else i.size)), ("FilenameLen", .num i.name.length),
       ("IsDirectory", .num (boolNum i.isDir))]
    ++ (if i.name.length % 65536 > 0 then i.name else [])

def readDirEntryV2Result (r : Option Info) : Bytes :=
  match r with
  | none => encodeStruct Gen.proto_layout_ReadDirEntryV2Result [("FileSize", .num (neg1 8))]
  | some i =>
    encodeStruct Gen.proto_layout_ReadDirEntryV2Result
      [("FileSize", .num (if i.isDir then 0 else i.size)), ("ModTime", .num i.mtime),
       ("ChangeTime", .num i.ctime), ("AccessTime", .num i.atime),
       ("FilenameLen", .num i.name.length), ("IsDirectory", .num (boolNum i.isDir))]
    ++ (if i.name.length % 65536 > 0 then i.name else [])

def dirEntry (i : Info) : Bytes :=
  encodeStruct Gen.proto_layout_DirEntry
    [("FileSize", .num (if i.isDir then 0 else i.size)), ("ModTime", .num i.mtime),
     ("IsDirectory", .num (boolNum i.isDir)), ("Name", .raw i.name)]

def readDirResult (es : List Info) : Bytes :=
  encodeStruct Gen.proto_layout_ReadDirResult [("Size", .num es.length)]
  ++ (es.map dirEntry).flatten

end Ps3.Proto
