/-
  pkg/server/server.go: setConnReadDeadline(now + ReadTimeout) at the top of every iteration of
  the serveConn loop; any read blocked past that deadline ends the connection.
  Timed model: bytes arrive in chunks at given times (ms); handling a request takes no time.
-/
import Ps3.Model.Proto
import Ps3.Gen.Facts
namespace Ps3.Timeout
open Ps3 Ps3.Proto

structure Chunk where
  delay : Nat          -- ms after the previous chunk (or after connect)
  bytes : Bytes
deriving Repr

/-- On a live connection a WRITE_FILE is complete only when its whole announced payload has arrived:
    the handler, or the drain after a refusal, reads all of it before the loop goes on (`decode`
    alone describes a stream that has ended, where a short payload is simply what there was). -/
def decodeT (s : Bytes) : Decoded :=
  match decode s with
  | .req (.writeFile n pl) rest => if pl.length < n then .incomplete else .req (.writeFile n pl) rest
  | d => d

/-- consume every complete request at the head of the buffer -/
def consume : Nat → Bytes → Nat → Bytes × Nat
  | 0, buf, n => (buf, n)
  | fuel + 1, buf, n =>
    match decodeT buf with
    | .req _ rest => consume fuel rest (n + 1)
    | _ => (buf, n)

structure Result where
  responses : Nat
  cutAt : Option Nat     -- ms since connect at which the server closes; none = never
deriving Repr, DecidableEq

/-- `armInLoop` = the deadline is re-armed at the top of every loop iteration (the code as written);
    with `false` it would be armed once per connection -/
def simulate (T : Nat) (armInLoop : Bool) : List Chunk → Nat → Nat → Bytes → Nat → Result
  | [], _, loopTop, _, n => ⟨n, if T == 0 then none else some (loopTop + T)⟩
  | c :: rest, t, loopTop, buf, n =>
    let t' := t + c.delay
    if T != 0 && t' ≥ loopTop + T then ⟨n, some (loopTop + T)⟩
    else
      let (buf', n') := consume (buf.length + c.bytes.length + 1) (buf ++ c.bytes) n
      let loopTop' := if armInLoop && n' > n then t' else loopTop
      simulate T armInLoop rest t' loopTop' buf' n'

/-- the server as written: whether the deadline is armed inside the request loop is an F-shape fact
    regenerated from `serveConn` on every run -/
def run (T : Nat) (cs : List Chunk) : Result := simulate T Gen.server_armInLoop cs 0 0 [] 0

/-! ### the write side (deadlineWriter): the deadline is re-armed before EVERY write of a response -/

/-- One response goes out as a sequence of writes; `g` is how long (ms) a write stays blocked until
    the client has drained enough. Result: writes completed, and whether the connection was cut. -/
def writeOut (T : Nat) : List Nat → Nat × Bool
  | [] => (0, false)
  | g :: rest =>
    if T != 0 && g ≥ T then (0, true)
    else
      let r := writeOut T rest
      (r.1 + 1, r.2)

end Ps3.Timeout
