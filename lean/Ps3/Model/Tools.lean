/-
  cmd/ps3netsrv-go/makeiso.go, decrypt.go and internal/kongutil/outputfile.go: the offline tools.
-/
import Ps3.Model.Viso
import Ps3.Model.Crypt
namespace Ps3.Tools
open Ps3

/-- what the `outputfile` mapper does with the target argument -/
inductive OutDecision where
  | stdout          -- "-"
  | refuse          -- the path exists (file or directory): error before anything is opened
  | create          -- opened with O_WRONLY|O_CREATE (no truncation)
deriving Repr, DecidableEq

def outputDecision (path : Bytes) (exists_ : Bool) : OutDecision :=
  if path == [45] then .stdout else if exists_ then .refuse else .create

/-- io.Copy(dst, src): whatever chunk sizes the copy loop happens to use, it writes the
    concatenation of successive reads until a read returns nothing -/
def copyChunks (rd : Nat → Nat → Bytes) : Nat → List Nat → Bytes
  | _, [] => []
  | off, c :: cs => let d := rd off c; d ++ copyChunks rd (off + d.length) cs

end Ps3.Tools
