/-
  The on-the-fly ISO 9660 + Joliet (+PS3) generator of pkg/fs (virtual_iso.go, virtual_iso_items.go,
  iso9660.go, iso9660_encoder.go, sfo.go) over the abstract world.

  `build` produces the in-memory metadata area (`fsBuf`) and the list of file extents; `Image.read`
  is the three-zone read; `Image.flat`-style specifications live in Spec/Viso.lean.
  The two volume timestamps and the PS3 sector-1 filler are parameters (`now`, `filler`).
-/
import Ps3.Base.Text
import Ps3.Model.World
import Ps3.Gen.Facts

namespace Ps3.Viso
open Ps3 Ps3.Text

def sectorSize : Nat := Gen.fs_sectorSize

/-- sizeBytes.sectors(): ceil -/
def sectors (b : Nat) : Nat := b / sectorSize + (if b % sectorSize > 0 then 1 else 0)

/-! ### names -/

def inSet (set : Bytes) (r : Nat) : Bool := r < 128 && set.contains (UInt8.ofNat r)

/-- mangleStrD1 on runes: keep d1-characters, everything else becomes '_' -/
def mangleD1 (rs : List Nat) : Bytes :=
  rs.map (fun r => if inSet Gen.fs_d1Characters r then UInt8.ofNat r else 95)

/-- UTF-16BE of an ASCII string -/
def utf16be (s : Bytes) : Bytes := (s.map (fun c => [0, c])).flatten

/-- makeIdentifier -/
def makeIdentifier (name : Bytes) (joliet : Bool) : Bytes :=
  let rs := runes name
  let rs := if joliet then rs else rs.map toUpperRune
  let limit := if joliet then Gen.fs_maxJolietIdentifierChars else Gen.fs_maxIdentifierChars
  let m := mangleD1 (rs.take limit)
  if joliet then utf16be m else m

/-- mangleStrA / mangleStrD: keep characters of the set, upper-case what then falls into it, else '_' -/
def mangleUpper (set : Bytes) (name : Bytes) (joliet : Bool) : Bytes :=
  let m := (runes name).map (fun r =>
    if inSet set r then UInt8.ofNat r
    else if inSet set (toUpperRune r) then UInt8.ofNat (toUpperRune r) else 95)
  if joliet then utf16be m else m

/-- appendString(s, fixedLen, padding) for `s.length ≤ fixedLen` -/
def padTo (s : Bytes) (n : Nat) (pad : UInt8) : Bytes := s ++ List.replicate (n - s.length) pad

/-! ### timestamps -/

/-- recordingTimestamp.encode in UTC -/
def recTime (t : Nat) : Bytes :=
  let (y, m, d, hh, mm, ss) := civil t
  [UInt8.ofNat (y - 1900), UInt8.ofNat m, UInt8.ofNat d, UInt8.ofNat hh, UInt8.ofNat mm, UInt8.ofNat ss, 0]

def digits (w n : Nat) : Bytes :=
  (List.range w).reverse.map (fun i => UInt8.ofNat (48 + (n / 10 ^ i) % 10))

/-- volumeDescriptorTimestamp.encode: 16 digits + offset byte -/
def volTime (t : Nat) (hundredths : Nat) : Bytes :=
  let (y, m, d, hh, mm, ss) := civil t
  digits 4 y ++ digits 2 m ++ digits 2 d ++ digits 2 hh ++ digits 2 mm ++ digits 2 ss ++ digits 2 hundredths ++ [0]

/-- the zero value of volumeDescriptorTimestamp -/
def volTimeZero : Bytes := List.replicate 16 48 ++ [0]

/-! ### directory records -/

structure DirRec where
  extLoc : Nat
  extLen : Nat
  time : Bytes
  flags : Nat
  ident : Bytes
deriving Repr

def DirRec.size (r : DirRec) : Nat := 33 + r.ident.length + (r.ident.length + 1) % 2

def DirRec.encode (r : DirRec) : Bytes :=
  [UInt8.ofNat r.size, 0] ++ lsbmsb 4 r.extLoc ++ lsbmsb 4 r.extLen ++ r.time ++
  [UInt8.ofNat r.flags, 0, 0] ++ lsbmsb 2 1 ++ [UInt8.ofNat r.ident.length] ++ r.ident ++
  (if (r.ident.length + 1) % 2 > 0 then [0] else [])

/-- directoryEntryGap -/
def recGap (pos : Nat) (r : DirRec) : Nat :=
  let free := sectorSize - pos % sectorSize
  if r.size > free then free else 0

/-- directoryEntriesSize -/
def recsSize (rs : List DirRec) : Nat := rs.foldl (fun pos r => pos + recGap pos r + r.size) 0

/-- writeDirEntries: records with gaps, last sector padded -/
def encodeRecs (rs : List DirRec) : Bytes :=
  let body := rs.foldl (fun (acc : Bytes) r => acc ++ zeros (recGap acc.length r) ++ r.encode) []
  body ++ zeros (sectors body.length * sectorSize - body.length)

/-! ### scan -/

structure FileRef where
  ino : Nat
  name : Bytes
  size : Nat
  rLBA : Nat        -- relative to the start of the file area, in sectors
  mtime : Nat
deriving Repr

structure DirItem where
  path : Path
  name : Bytes
  mtime : Nat
  files : List FileRef
deriving Repr

def dirNames (w : World) (real : Path) : List Name := (w.childrenOf real).map (·.1)

/-- process the entries of one directory: files get consecutive sector runs, directories are pushed -/
def scanEntries (w : World) (path : Path) : List Name → List FileRef → List Path → Nat →
    Option (List FileRef × List Path × Nat)
  | [], files, stack, s => some (files, stack, s)
  | n :: rest, files, stack, s =>
    match w.stat (path ++ [n]) with
    | none => none                               -- Stat error aborts the whole build
    | some (_, .dir _) => scanEntries w path rest files (stack ++ [path ++ [n]]) s
    | some (_, .file i) =>
      match w.inode? i with
      | none => none
      | some f =>
        scanEntries w path rest (files ++ [⟨i, n, f.content.size, s, f.mtime⟩]) stack (s + sectors f.content.size)
    | some _ => none

/-- scanDirectory: a stack (last pushed is processed first) -/
def scan (w : World) : Nat → List Path → List DirItem → Nat → Option (List DirItem × Nat)
  | _, [], acc, s => some (acc, s)
  | 0, _, _, _ => none
  | fuel + 1, stack, acc, s =>
    match stack.getLast? with
    | none => some (acc, s)
    | some path =>
      match w.stat path with
      | some (q, .dir mt) =>
        match scanEntries w path (dirNames w q) [] stack.dropLast s with
        | none => none
        | some (files, stack', s') =>
          scan w fuel stack' (acc ++ [⟨path, path.getLast?.getD [], mt, files⟩]) s'
      | _ => none

/-! ### records of every directory -/

def multiExtentPart : Nat := Gen.fs_multiExtentPartSize
def maxPart : Nat := Gen.fs_maxPartSize

/-- the record(s) of one file: several extents when it does not fit 32 bits -/
def fileRecs (f : FileRef) (joliet : Bool) (filesLBA : Nat) : List DirRec :=
  let ident := makeIdentifier f.name joliet
  let tm := recTime f.mtime
  if f.size > maxPart then
    let parts := f.size / multiExtentPart + (if f.size % multiExtentPart > 0 then 1 else 0)
    (List.range parts).map (fun i =>
      let lba := f.rLBA + i * sectors multiExtentPart + filesLBA
      if i == parts - 1 then ⟨lba, f.size - i * multiExtentPart, tm, 0, ident⟩
      else ⟨lba, multiExtentPart, tm, Gen.fs_dirFlagMultiExtent, ident⟩)
  else [⟨f.rLBA + filesLBA, f.size, tm, 0, ident⟩]

def parentIdx (items : List DirItem) (it : DirItem) (rootLen : Nat) : Option Nat :=
  if it.path.length ≤ rootLen then none
  else items.findIdx? (fun p => p.path == it.path.dropLast)

def childrenIdx (items : List DirItem) (it : DirItem) : List Nat :=
  (List.range items.length).filter (fun j =>
    j ≥ 1 && match items[j]? with
      | some c => c.path.dropLast == it.path && c.path.length == it.path.length + 1
      | none => false)

/-- record shapes of one directory with placeholder locations (sizes depend on identifiers only) -/
def shapeRecs (items : List DirItem) (it : DirItem) (joliet : Bool) : List DirRec :=
  [⟨0, 0, recTime it.mtime, 2, [0]⟩, ⟨0, 0, recTime it.mtime, 2, [1]⟩] ++
  (it.files.map (fun f => fileRecs f joliet 0)).flatten ++
  (childrenIdx items it).filterMap (fun j => items[j]?.map (fun c => ⟨0, 0, recTime c.mtime, 2, makeIdentifier c.name joliet⟩))

/-- sectors occupied by each directory of one hierarchy -/
def dirSectors (items : List DirItem) (joliet : Bool) : List Nat :=
  items.map (fun it => sectors (recsSize (shapeRecs items it joliet)))

def prefixSum (l : List Nat) (k : Nat) : Nat := (l.take k).sum

/-- final records of directory `k` -/
def finalRecs (items : List DirItem) (rootLen : Nat) (joliet : Bool) (dirLBA filesLBA : Nat) (k : Nat) (it : DirItem) :
    List DirRec :=
  let secs := dirSectors items joliet
  let loc (j : Nat) : Nat := prefixSum secs j + dirLBA
  let len (j : Nat) : Nat := (secs[j]?.getD 0) * sectorSize
  let dot : DirRec := ⟨loc k, len k, recTime it.mtime, 2, [0]⟩
  let dotdot : DirRec :=
    match parentIdx items it rootLen with
    | some p => ⟨loc p, len p, recTime ((items[p]?.map (·.mtime)).getD 0), 2, [1]⟩
    | none => ⟨loc k, len k, recTime it.mtime, 2, [1]⟩
  [dot, dotdot] ++
  (it.files.map (fun f => fileRecs f joliet filesLBA)).flatten ++
  (childrenIdx items it).filterMap (fun j =>
    items[j]?.map (fun c => ⟨loc j, len j, recTime c.mtime, 2, makeIdentifier c.name joliet⟩))

/-! ### path tables -/

structure PtEntry where
  loc : Nat
  parent : Nat
  ident : Bytes

def PtEntry.size (e : PtEntry) : Nat :=
  let idLen := e.ident.length % 256
  8 + idLen + (if idLen % 2 > 0 then 1 else 0)

def PtEntry.encode (e : PtEntry) (big : Bool) : Bytes :=
  [UInt8.ofNat e.ident.length, 0] ++ (if big then beN 4 e.loc else leN 4 e.loc) ++
  (if big then beN 2 e.parent else leN 2 e.parent) ++ e.ident ++ (if e.ident.length % 2 > 0 then [0] else [])

def pathTable (items : List DirItem) (rootLen : Nat) (joliet : Bool) (dirLBA : Nat) : List PtEntry :=
  let secs := dirSectors items joliet
  ((List.range items.length).take Gen.fs_pathTableItemsLimit).filterMap (fun i =>
    items[i]?.map (fun it =>
      let ident := if i == 0 then [0] else makeIdentifier it.name joliet
      let parent := if i == 0 then 1 else ((parentIdx items it rootLen).map (· + 1)).getD 0
      ⟨prefixSum secs i + dirLBA, parent, ident⟩))

def ptSize (t : List PtEntry) : Nat := (t.map (·.size)).sum

def encodePt (t : List PtEntry) (big : Bool) : Bytes :=
  let body := (t.map (fun e => e.encode big)).flatten
  body ++ zeros (sectors body.length * sectorSize - body.length)

/-! ### volume descriptors -/

structure Clock where
  now : Nat            -- Unix seconds of time.Now()
  hundredths : Nat

/-- descriptor body up to (not including) the creation timestamp -/
def descBodyPre (joliet : Bool) (volumeName : Bytes) (volSectors : Nat) (ptBytes : Nat)
    (lLoc mLoc : Nat) (rootRec : DirRec) : Bytes :=
  let volId := (mangleUpper Gen.fs_dCharacters volumeName joliet).take 32
  [0] ++ padTo (mangleUpper Gen.fs_aCharacters [108, 105, 110, 117, 120] joliet) 32 32 ++   -- runtime.GOOS = "linux"
  padTo volId 32 32 ++ zeros 8 ++ lsbmsb 4 volSectors ++
  padTo (if joliet then [37, 47, 64] else []) 32 0 ++
  lsbmsb 2 1 ++ lsbmsb 2 1 ++ lsbmsb 2 sectorSize ++ lsbmsb 4 ptBytes ++
  leN 4 lLoc ++ leN 4 0 ++ beN 4 mLoc ++ beN 4 0 ++
  padTo rootRec.encode 34 0 ++
  padTo volId 128 32 ++ padTo [] 128 32 ++ padTo [] 128 32 ++
  padTo [112, 115, 51, 110, 101, 116, 115, 114, 118] 128 32 ++        -- "ps3netsrv"
  padTo [] 37 32 ++ padTo [] 37 32 ++ padTo [] 37 32

/-- … and after the modification timestamp: expiration, effective (both unset), version, reserved, application use -/
def descBodyPost : Bytes := volTimeZero ++ volTimeZero ++ [1, 0] ++ zeros 512

def descHeader (typ : Nat) : Bytes := [UInt8.ofNat typ] ++ Gen.fs_standardIdentifierBytes.map UInt8.ofNat ++ [1]

def volumeDescriptor (typ : Nat) (joliet : Bool) (volumeName : Bytes) (volSectors : Nat) (ptBytes : Nat)
    (lLoc mLoc : Nat) (rootRec : DirRec) (clk : Clock) : Bytes :=
  descHeader typ ++
  padTo (descBodyPre joliet volumeName volSectors ptBytes lLoc mLoc rootRec ++
         (volTime clk.now clk.hundredths ++ (volTime clk.now clk.hundredths ++ descBodyPost))) (sectorSize - 7) 0

def terminatorDescriptor : Bytes :=
  [255] ++ Gen.fs_standardIdentifierBytes.map UInt8.ofNat ++ [1] ++ zeros (sectorSize - 7)

/-! ### PARAM.SFO (sfo.go) -/

def leAt (b : Bytes) (off w : Nat) : Option Nat :=
  let s := slice b off w
  if s.length == w then some (fromLE s) else none

/-- bytes up to (not including) the first NUL at/after `off`; none if there is no NUL among the
    first `sfoMaxKeyLen` bytes (the key is read through an io.LimitReader) -/
def cstrAt (b : Bytes) (off : Nat) : Option Bytes :=
  let t := (b.drop off).take Gen.fs_sfoMaxKeyLen
  if t.contains 0 then some (t.takeWhile (· != 0)) else none

/-- the entry of `field`: (declared length, data offset, stored in the not-terminated format 0x0004) -/
def sfoLoop (b : Bytes) (keyStart : Nat) (field : Bytes) : Nat → Nat → Option (Option (Nat × Nat × Bool))
  | 0, _ => some none
  | n + 1, i =>
    let eo := 20 + i * 16
    match leAt b eo 2, leAt b (eo + 4) 4, leAt b (eo + 12) 4 with
    | some keyOff, some dataLen, some dataOff =>
      if (slice b eo 16).length != 16 then none else
      match cstrAt b ((keyStart + keyOff) % 2 ^ 32) with
      | none => none
      | some key =>
        if key == field then
          some (some (dataLen, dataOff, (leAt b (eo + 2) 2).getD 0 == Gen.fs_sfoFormatUTF8NotTerminated))
        else sfoLoop b keyStart field n (i + 1)
    | _, _, _ => none

/-- sfoField: none = error -/
def sfoField (b : Bytes) (field : Bytes) : Option Bytes :=
  if (slice b 0 20).length != 20 then none else
  if slice b 0 4 != Gen.fs_sfoMagic.map UInt8.ofNat then none else
  match leAt b 8 4, leAt b 12 4, leAt b 16 4 with
  | some keyStart, some dataStart, some count =>
    match sfoLoop b keyStart field count 0 with
    | none => none
    | some none => none
    | some (some (dataLen, dataOff, notTerminated)) =>
      if dataLen > Gen.fs_sfoMaxValueLen then none      -- the declared length never drives an allocation
      -- a not-terminated string occupies all of its declared length; the usual format ends with a NUL
      -- that is not part of the value (io.CopyN with a count of -1 or 0 copies nothing)
      else
        let n := if notTerminated then dataLen else dataLen - 1
        let v := slice b (dataStart + dataOff) n
        if v.length == n then some v else none
  | _, _, _ => none

/-! ### the image -/

structure FileExt where
  ino : Nat
  size : Nat
  lba : Nat            -- absolute
deriving Repr

structure Image where
  fsBuf : Bytes
  files : List FileExt
  padAreaStart : Nat
  padAreaSize : Nat
  totalSize : Nat
deriving Repr

def paramSfoPath : Path := [[80, 83, 51, 95, 71, 65, 77, 69], [80, 65, 82, 65, 77, 46, 83, 70, 79]]
def titleIdKey : Bytes := [84, 73, 84, 76, 69, 95, 73, 68]

def scanFuel : Nat := 100000

/-- everything about an image that does not depend on the clock or on randomness -/
structure Layout where
  items : List DirItem
  rootLen : Nat
  volumeName : Bytes
  gameCode : Bytes
  ptSecs : Nat
  ptJSecs : Nat
  isoLBA : Nat
  jolietLBA : Nat
  filesLBA : Nat
  volumeSize : Nat       -- sectors up to the end of the last file
  padSectors : Nat
  volSectors : Nat

/-- TITLE_ID of PS3_GAME/PARAM.SFO (PS3 mode only); none = the open fails -/
def gameCodeOf (w : World) (root : Path) (ps3 : Bool) : Option Bytes :=
  if ps3 then
    match w.stat (root ++ paramSfoPath) with
    | some (_, .file i) =>
      match w.inode? i with
      | some f =>
        match sfoField f.content.all titleIdKey with
        | some c => if c.length < 4 || c.length > 31 then none else some c
        | none => none
      | none => none
    | _ => none
  else some []

/-- calculateSizes: at least one pad granule, and the volume ends on a granule boundary -/
def padSectorsFor (volumeSize : Nat) : Nat :=
  Gen.fs_basePadSectors +
    (if volumeSize % Gen.fs_basePadSectors > 0 then Gen.fs_basePadSectors - volumeSize % Gen.fs_basePadSectors else 0)

/-- the largest sector number the server can represent (sizeSectors is int32) -/
def maxSector : Nat := 2 ^ 31 - 1

/-- buildFSStructures up to calculateSizes: scan and LBA arithmetic -/
def layoutRaw (w : World) (root : Path) (ps3 : Bool) : Option Layout :=
  match w.stat root with
  | some (_, .dir _) =>
    match gameCodeOf w root ps3 with
    | none => none
    | some gameCode =>
      match scan w scanFuel [root] [] 0 with
      | none => none
      | some (items, filesSectors) =>
        let rootLen := root.length
        let ptSecs := sectors (ptSize (pathTable items rootLen false 0))
        let ptJSecs := sectors (ptSize (pathTable items rootLen true 0))
        let isoLBA := 16 + 3 + 1 + ptSecs * 2 + ptJSecs * 2
        let jolietLBA := isoLBA + (dirSectors items false).sum
        let filesLBA := jolietLBA + (dirSectors items true).sum
        let volumeSize := filesLBA + filesSectors
        let padSectors := padSectorsFor volumeSize
        some { items := items, rootLen := rootLen,
               volumeName := if ps3 then Gen.fs_ps3ModeVolumeName else root.getLast?.getD [],
               gameCode := gameCode, ptSecs := ptSecs, ptJSecs := ptJSecs, isoLBA := isoLBA, jolietLBA := jolietLBA,
               filesLBA := filesLBA, volumeSize := volumeSize, padSectors := padSectors,
               volSectors := volumeSize + padSectors }
  | _ => none

/-- sector numbers are int32: a tree that does not fit (with the largest possible padding) is refused -/
def layoutOf (w : World) (root : Path) (ps3 : Bool) : Option Layout :=
  match layoutRaw w root ps3 with
  | none => none
  | some L =>
    if L.volumeSize + 2 * Gen.fs_basePadSectors > maxSector then none
    -- directory numbers in the path table are 16-bit: a tree with more directories is refused
    else if L.items.length > Gen.fs_pathTableItemsLimit then none
    else some L

theorem layoutOf_some {w : World} {root : Path} {ps3 : Bool} {L : Layout} (h : layoutOf w root ps3 = some L) :
    layoutRaw w root ps3 = some L ∧ L.volumeSize + 2 * Gen.fs_basePadSectors ≤ maxSector ∧
      L.items.length ≤ Gen.fs_pathTableItemsLimit := by
  unfold layoutOf at h
  cases hr : layoutRaw w root ps3 with
  | none => simp [hr] at h
  | some L' =>
    simp only [hr] at h
    by_cases hc : L'.volumeSize + 2 * Gen.fs_basePadSectors > maxSector
    · simp [hc] at h
    · by_cases hd : L'.items.length > Gen.fs_pathTableItemsLimit
      · simp [hc, hd] at h
      · simp only [hc, hd, if_false, Option.some.injEq] at h
        subst h
        exact ⟨rfl, Nat.le_of_not_lt hc, Nat.le_of_not_lt hd⟩

def Layout.recsOf (L : Layout) (joliet : Bool) (dirLBA : Nat) : List (List DirRec) :=
  (List.range L.items.length).filterMap (fun k =>
    L.items[k]?.map (finalRecs L.items L.rootLen joliet dirLBA L.filesLBA k))

def rootRecOf (rs : List (List DirRec)) : DirRec := ((rs.head?.bind (·.head?)).getD ⟨0, 0, [], 0, []⟩)

/-- PS3 sector 0: one plain region covering the whole volume -/
def rangesSector (L : Layout) : Bytes :=
  padTo (beN 4 1 ++ zeros 4 ++ beN 4 0 ++ beN 4 (L.volSectors - 1)) sectorSize 0

/-- PS3 sector 1 before the random filler: console id, product code XXXX-YYYYY, 16 zero bytes -/
def infoHead (L : Layout) : Bytes :=
  padTo Gen.fs_consoleID 16 32 ++ padTo (L.gameCode.take 4 ++ [45] ++ L.gameCode.drop 4) 32 32 ++ zeros 16

/-- sectors 0–15: PS3 disc-range and disc-info sectors, or zeros -/
def sysArea (L : Layout) (ps3 : Bool) (filler : Bytes) : Bytes :=
  if ps3 then
    rangesSector L ++ (padTo (infoHead L ++ padTo (filler.take 0x1C0) 0x1C0 0) sectorSize 0 ++ zeros (14 * sectorSize))
  else zeros (16 * sectorSize)

def ptL : Nat := 16 + 3 + 1

def pvdOf (L : Layout) (clk : Clock) : Bytes :=
  volumeDescriptor 1 false L.volumeName L.volSectors (ptSize (pathTable L.items L.rootLen false 0)) ptL (ptL + L.ptSecs)
    (rootRecOf (L.recsOf false L.isoLBA)) clk

def svdOf (L : Layout) (clk : Clock) : Bytes :=
  volumeDescriptor 2 true L.volumeName L.volSectors (ptSize (pathTable L.items L.rootLen true 0))
    (ptL + 2 * L.ptSecs) (ptL + 2 * L.ptSecs + L.ptJSecs) (rootRecOf (L.recsOf true L.jolietLBA)) clk

/-- everything after the three descriptors and the blank sector: path tables and directories -/
def tablesAndDirs (L : Layout) : Bytes :=
  let pt := pathTable L.items L.rootLen false L.isoLBA
  let ptJ := pathTable L.items L.rootLen true L.jolietLBA
  encodePt pt false ++ encodePt pt true ++ encodePt ptJ false ++ encodePt ptJ true ++
  ((L.recsOf false L.isoLBA).map encodeRecs).flatten ++ ((L.recsOf true L.jolietLBA).map encodeRecs).flatten

/-- writeFSStructures: the in-memory metadata area -/
def metaBytes (L : Layout) (ps3 : Bool) (clk : Clock) (filler : Bytes) : Bytes :=
  sysArea L ps3 filler ++ pvdOf L clk ++ svdOf L clk ++ terminatorDescriptor ++ zeros sectorSize ++ tablesAndDirs L

/-- collectFiles: the non-empty files in layout order -/
def Layout.files (L : Layout) : List FileExt :=
  ((L.items.map (·.files)).flatten.filter (fun f => f.size != 0)).map
    (fun f => (⟨f.ino, f.size, f.rLBA + L.filesLBA⟩ : FileExt))

def imageOf (L : Layout) (ps3 : Bool) (clk : Clock) (filler : Bytes) : Image :=
  ⟨metaBytes L ps3 clk filler, L.files, L.volumeSize * sectorSize, L.padSectors * sectorSize, L.volSectors * sectorSize⟩

/-- NewVirtualISO(fs, root, ps3Mode); `filler` are the 0x1C0 random bytes of PS3 sector 1 -/
def build (w : World) (root : Path) (ps3 : Bool) (clk : Clock) (filler : Bytes) : Option Image :=
  (layoutOf w root ps3).map (fun L => imageOf L ps3 clk filler)

/-! ### reads -/

/-- the file zone, from the file containing `off` onwards (VirtualISO.read's loop) -/
def readFiles (cf : Nat → Content) : List FileExt → Nat → Nat → Bytes
  | [], _, _ => []
  | f :: rest, off, remain =>
    if remain == 0 then [] else
    let start := f.lba * sectorSize
    let padded := sectors f.size * sectorSize
    let fo := off - start
    let data := if fo < f.size then (cf f.ino).read fo (min remain (f.size - fo)) else []
    let off1 := off + data.length
    let rem1 := remain - data.length
    let padN := if f.size % sectorSize > 0 ∧ rem1 > 0 then min (start + padded - off1) rem1 else 0
    data ++ zeros padN ++ readFiles cf rest (off1 + padN) (rem1 - padN)

/-- VirtualISO.read(buf of length n, off): the bytes delivered -/
def Image.read (img : Image) (cf : Nat → Content) (off n : Nat) : Bytes :=
  if off ≥ img.totalSize ∨ n == 0 then [] else
  let part1 := if off < img.fsBuf.length then slice img.fsBuf off n else []
  let off1 := off + part1.length
  let rem1 := n - part1.length
  if off1 ≥ img.totalSize ∨ rem1 == 0 then part1 else
  let part2 :=
    if off1 < img.padAreaStart then
      -- filesToRead: the file whose padded extent contains the sector of off1, and its successors
      let target := off1 / sectorSize
      let fs := img.files.dropWhile (fun f => target ≥ f.lba + sectors f.size)
      if fs.isEmpty then []
      else if target < (fs.head?.map (·.lba)).getD 0 then []   -- "file location greater than offset": cannot happen
      else readFiles cf fs off1 rem1
    else []
  let off2 := off1 + part2.length
  let rem2 := rem1 - part2.length
  let part3 :=
    if off2 ≥ img.padAreaStart ∧ off2 < img.totalSize then
      zeros (min (img.padAreaSize - (off2 - img.padAreaStart)) rem2)
    else []
  part1 ++ part2 ++ part3

end Ps3.Viso

namespace Ps3.Viso

/-! ### Read / Seek / ReadAt as the afero.File methods expose them -/

inductive Op where
  | readAt (n : Nat) (off : Nat)
  | read (n : Nat)
  | seek (off : Int) (whence : Nat)

inductive Obs where
  | data (b : Bytes) (eof : Bool)     -- bytes returned; eof = the call reported io.EOF
  | pos (p : Nat)                      -- successful Seek
  | err                                -- failed Seek
deriving DecidableEq

/-- one call against a byte source with a cursor: `rd` is the positioned read, `total` the size -/
def stepOp (rd : Nat → Nat → Bytes) (total : Nat) (cur : Nat) : Op → Nat × Obs
  | .readAt n off => (cur, .data (rd off n) (off ≥ total ∨ n == 0))
  | .read n => let d := rd cur n; (cur + d.length, .data d (cur ≥ total ∨ n == 0))
  | .seek off whence =>
    let target : Option Int :=
      if whence == 0 then some off
      else if whence == 1 then some (off + cur)
      else if whence == 2 then some ((total : Int) + off)
      else none
    match target with
    | none => (cur, .err)
    | some t => if t < 0 ∨ t > total then (cur, .err) else (t.toNat, .pos t.toNat)

def runOps (rd : Nat → Nat → Bytes) (total : Nat) : Nat → List Op → List Obs
  | _, [] => []
  | cur, op :: rest => let r := stepOp rd total cur op; r.2 :: runOps rd total r.1 rest

end Ps3.Viso
