/-
  The filesystem as the code sees it *inside the served root*: a flat, ordered list of entries
  keyed by their component path. The order of the list is the order in which the OS returns
  directory entries (the harness reads it back from getdents), so enumeration order is part of
  the world and not an assumption.

  Content of regular files is a function with a length (`Content`): a deterministic pattern plus
  explicit overlays, so that multi-GiB sparse files are ordinary values.
-/
import Ps3.Base.Bytes

namespace Ps3

/-- deterministic file pattern shared with the Go harness -/
def patByte (seed i : Nat) : UInt8 :=
  if seed == 4294967295 then 0 else
  UInt8.ofNat ((seed + i * 131 + (i / 251) * 7 + (i / 65521) * 3) % 256)

structure Overlay where
  off : Nat
  data : Bytes
deriving Repr

/-- file content: `size` bytes of pattern `seed`, overwritten by the overlays (later ones win) -/
structure Content where
  size : Nat
  seed : Nat
  overlays : List Overlay := []
deriving Repr

namespace Content

def ovAt (ovs : List Overlay) (i : Nat) : Option UInt8 :=
  ovs.foldl (fun acc o => if o.off ≤ i ∧ i < o.off + o.data.length then o.data[i - o.off]? else acc) none

/-- byte `i` of the content (meaningful for `i < size`) -/
def byteAt (c : Content) (i : Nat) : UInt8 :=
  match ovAt c.overlays i with
  | some b => b
  | none => patByte c.seed i

/-- overwrite `base` (which stands for positions `[start, start+base.length)`) with overlay `o` -/
def applyOverlay (start : Nat) (base : Bytes) (o : Overlay) : Bytes :=
  let lo := max start o.off                       -- first affected position
  let hi := min (start + base.length) (o.off + o.data.length)
  if lo < hi then
    base.take (lo - start) ++ slice o.data (lo - o.off) (hi - lo) ++ base.drop (hi - start)
  else base

/-- `c[off : off+n]` clipped to the size — what a correct read of that range returns -/
def read (c : Content) (off n : Nat) : Bytes :=
  let len := min n (c.size - off)
  let base := (List.range len).map (fun k => patByte c.seed (off + k))
  c.overlays.foldl (applyOverlay off) base

def ofBytes (b : Bytes) : Content := { size := b.length, seed := 0, overlays := [⟨0, b⟩] }

def all (c : Content) : Bytes := c.read 0 c.size

theorem applyOverlay_length (start : Nat) (base : Bytes) (o : Overlay) :
    (applyOverlay start base o).length = base.length := by
  unfold applyOverlay
  dsimp only
  split
  · simp [slice]; omega
  · rfl

theorem foldl_applyOverlay_length (off : Nat) (os : List Overlay) (base : Bytes) :
    (os.foldl (applyOverlay off) base).length = base.length := by
  induction os generalizing base with
  | nil => rfl
  | cons o os ih => simp only [List.foldl_cons]; rw [ih, applyOverlay_length]

theorem read_length (c : Content) (off n : Nat) : (c.read off n).length = min n (c.size - off) := by
  unfold read
  dsimp only
  rw [foldl_applyOverlay_length]
  simp

end Content

abbrev Name := Bytes
abbrev Path := List Name   -- components below the root; [] is the root itself

/-- what a regular file's name refers to; it stays alive while a handle is open even after the
    name is removed (POSIX unlink semantics) -/
structure Inode where
  content : Content
  mtime : Nat
deriving Repr

inductive Node where
  | file (ino : Nat)              -- index into `World.inodes`
  | dir (mtime : Nat)
  | link (target : Path)          -- symlink whose target is the given path below the root
  | linkOut                        -- symlink that does not resolve (dangling)
deriving Repr

structure Entry where
  path : Path
  node : Node
deriving Repr

/-- the world: entries in OS enumeration order, plus the root directory's mtime -/
structure World where
  entries : List Entry
  inodes : List Inode := []
  rootMtime : Nat := 0
  /-- the served root directory itself was removed (RMDIR "/" on an empty root) -/
  rootGone : Bool := false
deriving Repr

namespace World

def lookupRaw (w : World) (p : Path) : Option Node :=
  if w.rootGone then none
  else if p.isEmpty then some (.dir w.rootMtime)
  else (w.entries.find? (fun e => e.path == p)).map (·.node)

/-- Linux follows at most 40 symbolic links while resolving one path (MAXSYMLINKS); the next one is ELOOP -/
def maxSymlinks : Nat := 40

/-- resolve symlinks in every component (as `stat` does). `links` counts the links followed so far;
    `fuel` only makes the recursion structural (it never runs out: see `stepFuel`) -/
def resolve (w : World) : Nat → Nat → Path → Path → Option Path
  | _, _, acc, [] => some acc
  | 0, _, _, _ => none
  | fuel + 1, links, acc, c :: rest =>
    let p := acc ++ [c]
    match w.lookupRaw p with
    | none => none
    | some (.link t) => if links ≥ maxSymlinks then none else w.resolve fuel (links + 1) [] (t ++ rest)
    | some .linkOut => none
    | some (.file _) => if rest.isEmpty then some p else none
    | some (.dir _) => w.resolve fuel links p rest

/-- more steps than any resolution can take: every followed link costs one of the 40 and the
    components of paths and targets are bounded by PATH_MAX -/
def stepFuel : Nat := 1000000

/-- `stat`: follows symlinks; none = ENOENT/ENOTDIR/ELOOP -/
def stat (w : World) (p : Path) : Option (Path × Node) :=
  match w.resolve stepFuel 0 [] p with
  | none => none
  | some q => (w.lookupRaw q).map (fun n => (q, n))

def isDir (w : World) (p : Path) : Bool :=
  match w.stat p with
  | some (_, .dir _) => true
  | _ => false

/-- names in directory `p` (already resolved), in enumeration order -/
def childrenOf (w : World) (p : Path) : List (Name × Node) :=
  w.entries.filterMap (fun e =>
    match e.path.getLast? with
    | none => none
    | some nm => if e.path.dropLast == p then some (nm, e.node) else none)

def hasChildren (w : World) (p : Path) : Bool := !(w.childrenOf p).isEmpty

/-- remove the entry at exactly `p` -/
def removeEntry (w : World) (p : Path) : World :=
  { w with entries := w.entries.filter (fun e => e.path != p) }

def addEntry (w : World) (e : Entry) : World := { w with entries := w.entries ++ [e] }

def inode? (w : World) (i : Nat) : Option Inode := w.inodes[i]?

def setInode (w : World) (i : Nat) (n : Inode) : World := { w with inodes := w.inodes.set i n }

/-- create a new regular file named `p` -/
def newFile (w : World) (p : Path) (c : Content) (mtime : Nat) : World :=
  { w with entries := w.entries ++ [⟨p, .file w.inodes.length⟩], inodes := w.inodes ++ [⟨c, mtime⟩] }

/-- content and mtime behind a name that is known to be a regular file -/
def fileOf (w : World) (n : Node) : Option Inode :=
  match n with
  | .file i => w.inode? i
  | _ => none

def setNode (w : World) (p : Path) (n : Node) : World :=
  { w with entries := w.entries.map (fun e => if e.path == p then { e with node := n } else e) }

end World

end Ps3
