/-
  `build` always produces a well-formed image (Spec.Viso.WF): the metadata area is exactly as long as
  the layout arithmetic (calculateSizes) assumed, the member files occupy consecutive sector runs right
  behind it in scan order, their recorded sizes are their inodes' sizes, and the pad area follows.
  With this, the byte-level theorems of C07/C09/C20 hold for every tree, not only for explored ones.
-/
import Ps3.Props.C08
import Ps3.Spec.Viso
namespace Ps3.Proof.BuildWF
open Ps3 Ps3.Viso Ps3.Spec.Viso


/-- the files `fs` occupy consecutive sector runs from `s` to `e`, with the sizes of their inodes -/
def runOk (w : World) : Nat → List FileRef → Nat → Prop
  | s, [], e => s = e
  | s, f :: rest, e => f.rLBA = s ∧ (∃ i, w.inode? f.ino = some i ∧ i.content.size = f.size) ∧
      runOk w (s + sectors f.size) rest e

theorem runOk_append (w : World) (a b : List FileRef) (s e : Nat) :
    runOk w s (a ++ b) e ↔ ∃ m, runOk w s a m ∧ runOk w m b e := by
  induction a generalizing s with
  | nil => simp [runOk]
  | cons f rest ih =>
    simp only [List.cons_append, runOk, ih]
    constructor
    · rintro ⟨h1, h2, m, h3, h4⟩; exact ⟨m, ⟨h1, h2, h3⟩, h4⟩
    · rintro ⟨m, ⟨h1, h2, h3⟩, h4⟩; exact ⟨h1, h2, m, h3, h4⟩

theorem scanEntries_ok (w : World) (path : Path) (names : List Name) (files : List FileRef) (stack : List Path)
    (s0 s : Nat) (files' : List FileRef) (stack' : List Path) (s' : Nat)
    (h0 : runOk w s0 files s)
    (h : scanEntries w path names files stack s = some (files', stack', s')) : runOk w s0 files' s' := by
  induction names generalizing files stack s with
  | nil => simp [scanEntries] at h; obtain ⟨rfl, _, rfl⟩ := h; exact h0
  | cons n rest ih =>
    unfold scanEntries at h
    split at h
    · cases h
    · exact ih _ _ _ h0 h
    · split at h
      · cases h
      · rename_i i _ f hf
        refine ih _ _ _ ?_ h
        rw [runOk_append]
        exact ⟨s, h0, rfl, ⟨f, hf, rfl⟩, rfl⟩
    · cases h

def allFiles (items : List DirItem) : List FileRef := (items.map (·.files)).flatten

theorem scan_ok (w : World) (fuel : Nat) (stack : List Path) (acc : List DirItem) (s : Nat)
    (items : List DirItem) (e : Nat)
    (h0 : runOk w 0 (allFiles acc) s) (h : scan w fuel stack acc s = some (items, e)) :
    runOk w 0 (allFiles items) e := by
  induction fuel generalizing stack acc s with
  | zero =>
    unfold scan at h
    split at h
    · cases h; exact h0
    · cases h
    · omega
  | succ fuel ih =>
    unfold scan at h
    split at h
    · cases h; exact h0
    · omega
    · rename_i fuel' hfu _
      have hf : fuel' = fuel := by omega
      subst hf
      split at h
      · cases h; exact h0
      · split at h
        · split at h
          · cases h
          · rename_i files stack' s' hse
            refine ih _ _ _ ?_ h
            simp only [allFiles, List.map_append, List.flatten_append, List.map_cons, List.map_nil, List.flatten_cons, List.flatten_nil, List.append_nil]
            rw [runOk_append]
            exact ⟨_, h0, scanEntries_ok w _ _ [] _ _ _ _ _ _ rfl hse⟩
        · cases h

/-- the content function the server reads member files through -/
def cfOf (w : World) (i : Nat) : Content :=
  match w.inode? i with
  | some f => f.content
  | none => { size := 0, seed := 0 }

def absF (F : Nat) (f : FileRef) : FileExt := ⟨f.ino, f.size, f.rLBA + F⟩
def nz (f : FileRef) : Bool := f.size != 0

theorem sectors_zero : sectors 0 = 0 := by decide

theorem run_layout (w : World) (F : Nat) (fs : List FileRef) (s e : Nat) (h : runOk w s fs e) :
    Consec ((s + F) * sectorSize) ((fs.filter nz).map (absF F)) ∧
    (((fs.filter nz).map (absF F)).map padded).sum + s * sectorSize = e * sectorSize ∧
    ∀ f ∈ (fs.filter nz).map (absF F), (cfOf w f.ino).size = f.size := by
  induction fs generalizing s with
  | nil =>
    simp only [runOk] at h
    subst h
    simp [Consec]
  | cons f rest ih =>
    obtain ⟨h1, ⟨i, hi, hsz⟩, h3⟩ := h
    obtain ⟨c, p, z⟩ := ih _ h3
    by_cases hz : f.size = 0
    · have : nz f = false := by simp [nz, hz]
      simp only [List.filter_cons, this, Bool.false_eq_true, if_false]
      rw [hz, sectors_zero, Nat.add_zero] at c p
      exact ⟨c, p, z⟩
    · have : nz f = true := by simp [nz, hz]
      simp only [List.filter_cons, this, if_true, List.map_cons, List.sum_cons]
      refine ⟨⟨?_, ?_⟩, ?_, ?_⟩
      · simp [absF, h1]
      · have : (s + F) * sectorSize + padded (absF F f) = (s + sectors f.size + F) * sectorSize := by
          simp only [padded, absF]; rw [← Nat.add_mul]; congr 1; omega
        rw [this]; exact c
      · simp only [padded, absF] at p ⊢
        rw [Nat.add_mul] at p
        omega
      · intro g hg
        rcases List.mem_cons.mp hg with rfl | hg
        · simp [absF, cfOf, hi, hsz]
        · exact z g hg


/-- directoryEntriesSize over the sizes alone -/
def sizesFold (ss : List Nat) (pos : Nat) : Nat :=
  ss.foldl (fun pos sz => pos + (if sz > sectorSize - pos % sectorSize then sectorSize - pos % sectorSize else 0) + sz) pos

theorem foldl_sizes (rs : List DirRec) (p : Nat) :
    rs.foldl (fun pos r => pos + recGap pos r + r.size) p = sizesFold (rs.map (·.size)) p := by
  induction rs generalizing p with
  | nil => rfl
  | cons r rest ih => simp only [List.foldl_cons, List.map_cons, sizesFold]; rw [ih]; rfl

theorem recsSize_eq_sizesFold (rs : List DirRec) : recsSize rs = sizesFold (rs.map (·.size)) 0 :=
  foldl_sizes rs 0

/-- the encoded body is exactly as long as directoryEntriesSize says, when every record's encoding
    has its declared size -/
theorem body_length (rs : List DirRec) (h : ∀ r ∈ rs, r.encode.length = r.size) (acc : Bytes) :
    (rs.foldl (fun (acc : Bytes) r => acc ++ zeros (recGap acc.length r) ++ r.encode) acc).length =
      rs.foldl (fun pos r => pos + recGap pos r + r.size) acc.length := by
  induction rs generalizing acc with
  | nil => rfl
  | cons r rest ih =>
    simp only [List.foldl_cons]
    rw [ih (fun x hx => h x (List.mem_cons_of_mem _ hx))]
    congr 1
    simp [zeros_length, h r (List.mem_cons_self)]; omega

theorem encodeRecs_length (rs : List DirRec) (h : ∀ r ∈ rs, r.encode.length = r.size) :
    (encodeRecs rs).length = sectors (recsSize rs) * sectorSize := by
  unfold encodeRecs
  dsimp only
  have hb := body_length rs h []
  simp only [List.length_nil] at hb
  rw [List.length_append, zeros_length, hb]
  have := Proof.Viso.sectors_mul_ge (recsSize rs)
  unfold recsSize at *
  omega


theorem filterMap_congr' {α β : Type} (f g : α → Option β) (l : List α) (h : ∀ x ∈ l, f x = g x) :
    l.filterMap f = l.filterMap g := by
  induction l with
  | nil => rfl
  | cons a rest ih =>
    simp only [List.filterMap_cons, h a List.mem_cons_self]
    rw [ih (fun x hx => h x (List.mem_cons_of_mem _ hx))]

theorem recTime_length (t : Nat) : (recTime t).length = 7 := by
  simp [recTime]

def identSize (id : Bytes) : Nat := 33 + id.length + (id.length + 1) % 2

theorem fileRecs_sizes (f : FileRef) (joliet : Bool) (F : Nat) :
    (fileRecs f joliet F).map (·.size) = (fileRecs f joliet 0).map (·.size) := by
  unfold fileRecs
  dsimp only
  split
  · simp only [List.map_map]
    apply List.map_congr_left
    intro i _
    simp only [Function.comp]
    generalize f.size / multiExtentPart + (if f.size % multiExtentPart > 0 then 1 else 0) = parts
    by_cases h : (i == parts - 1) = true
    · simp only [h, if_true, DirRec.size]
    · simp only [h, Bool.false_eq_true, if_false, DirRec.size]
  · simp only [List.map_cons, List.map_nil, DirRec.size]

theorem fileRecs_time (f : FileRef) (joliet : Bool) (F : Nat) : ∀ r ∈ fileRecs f joliet F, r.time.length = 7 := by
  intro r hr
  unfold fileRecs at hr
  dsimp only at hr
  split at hr
  · rw [List.mem_map] at hr
    obtain ⟨i, _, rfl⟩ := hr
    split <;> split <;> exact recTime_length _
  · simp at hr; subst hr; exact recTime_length _

theorem finalRecs_sizes (items : List DirItem) (rootLen : Nat) (joliet : Bool) (dirLBA filesLBA k : Nat) (it : DirItem) :
    (finalRecs items rootLen joliet dirLBA filesLBA k it).map (·.size) = (shapeRecs items it joliet).map (·.size) := by
  unfold finalRecs shapeRecs
  simp only [List.map_append, List.map_cons, List.map_nil, List.map_flatten, List.map_map]
  have hA : ∀ (a b : DirRec), a.ident = b.ident → a.size = b.size := by
    intro a b h; simp [DirRec.size, h]
  congr 1
  · congr 1
    · congr 1
      congr 1
      cases parentIdx items it rootLen <;> rfl
    · congr 1
      apply List.map_congr_left
      intro f _
      exact fileRecs_sizes f joliet filesLBA
  · simp only [List.map_filterMap]
    apply filterMap_congr'
    intro j _
    cases items[j]? <;> rfl

theorem finalRecs_time (items : List DirItem) (rootLen : Nat) (joliet : Bool) (dirLBA filesLBA k : Nat) (it : DirItem) :
    ∀ r ∈ finalRecs items rootLen joliet dirLBA filesLBA k it, r.time.length = 7 := by
  intro r hr
  unfold finalRecs at hr
  simp only [List.mem_append, List.mem_cons, List.mem_flatten, List.mem_map, List.mem_filterMap] at hr
  rcases hr with ((rfl | rfl | h) | ⟨l, ⟨f, _, rfl⟩, hr⟩) | ⟨j, _, hj⟩
  · exact recTime_length _
  · cases parentIdx items it rootLen <;> exact recTime_length _
  · cases h
  · exact fileRecs_time f joliet filesLBA r hr
  · cases hi : items[j]? with
    | none => simp [hi] at hj
    | some c => simp [hi] at hj; subst hj; exact recTime_length _


theorem range'_filterMap_getElem {α β : Type} (f : Nat → α → β) (pre items : List α) :
    (List.range' pre.length items.length).filterMap (fun k => (pre ++ items)[k]?.map (f k)) =
      (items.zipIdx pre.length).map (fun p => f p.2 p.1) := by
  induction items generalizing pre with
  | nil => rfl
  | cons a rest ih =>
    simp only [List.length_cons, List.range'_succ, List.filterMap_cons, List.zipIdx_cons, List.map_cons]
    have h0 : (pre ++ a :: rest)[pre.length]? = some a := by simp
    simp only [h0, Option.map_some]
    have := ih (pre ++ [a])
    simp only [List.length_append, List.length_cons, List.length_nil, List.append_assoc, List.cons_append, List.nil_append] at this
    rw [this]

theorem range_filterMap_getElem {α β : Type} (f : Nat → α → β) (items : List α) :
    (List.range items.length).filterMap (fun k => items[k]?.map (f k)) =
      items.zipIdx.map (fun p => f p.2 p.1) := by
  have := range'_filterMap_getElem f [] items
  simpa [List.range_eq_range'] using this

theorem zipIdx_map_fst {α β : Type} (g : α → β) (l : List α) (n : Nat) :
    (l.zipIdx n).map (fun p => g p.1) = l.map g := by
  induction l generalizing n with
  | nil => rfl
  | cons a rest ih => simp only [List.zipIdx_cons, List.map_cons, ih]

theorem recsSize_congr (a b : List DirRec) (h : a.map (·.size) = b.map (·.size)) : recsSize a = recsSize b := by
  rw [recsSize_eq_sizesFold, recsSize_eq_sizesFold, h]

theorem flatten_length_map {α : Type} (l : List α) (f : α → Bytes) :
    ((l.map f).flatten).length = (l.map (fun x => (f x).length)).sum := by
  induction l with
  | nil => rfl
  | cons a rest ih => simp [ih]

theorem sum_map_mul {α : Type} (l : List α) (g : α → Nat) (c : Nat) : (l.map (fun x => g x * c)).sum = (l.map g).sum * c := by
  induction l with
  | nil => simp
  | cons a rest ih => simp [ih, Nat.add_mul]

/-- the encoded directories of one hierarchy are exactly as long as calculateSizes assumed -/
theorem dirs_length (L : Layout) (joliet : Bool) (dirLBA : Nat) :
    (((L.recsOf joliet dirLBA).map encodeRecs).flatten).length = (dirSectors L.items joliet).sum * sectorSize := by
  unfold Layout.recsOf
  rw [range_filterMap_getElem (fun k it => finalRecs L.items L.rootLen joliet dirLBA L.filesLBA k it)]
  rw [List.map_map, flatten_length_map]
  have : ∀ p : DirItem × Nat, ((encodeRecs ∘ fun p : DirItem × Nat => finalRecs L.items L.rootLen joliet dirLBA L.filesLBA p.2 p.1) p).length =
      sectors (recsSize (shapeRecs L.items p.1 joliet)) * sectorSize := by
    intro p
    simp only [Function.comp]
    rw [encodeRecs_length _ (fun r hr => Ps3.Props.C08.record_length r (finalRecs_time _ _ _ _ _ _ _ r hr))]
    rw [recsSize_congr _ _ (finalRecs_sizes _ _ _ _ _ _ _)]
  simp only [this]
  rw [zipIdx_map_fst (fun it => sectors (recsSize (shapeRecs L.items it joliet)) * sectorSize)]
  rw [sum_map_mul]
  rfl

theorem ptEntry_encode_length (e : PtEntry) (big : Bool) (h : e.ident.length < 256) :
    (e.encode big).length = e.size := by
  unfold PtEntry.encode PtEntry.size
  rw [Nat.mod_eq_of_lt h]
  cases big <;> simp <;> split <;> simp <;> omega

theorem pt_body_length (t : List PtEntry) (big : Bool) (h : ∀ e ∈ t, e.ident.length < 256) :
    ((t.map (fun e => e.encode big)).flatten).length = ptSize t := by
  induction t with
  | nil => rfl
  | cons e rest ih =>
    simp only [List.map_cons, List.flatten_cons, List.length_append, ptSize, List.sum_cons]
    rw [ptEntry_encode_length e big (h e List.mem_cons_self)]
    have := ih (fun x hx => h x (List.mem_cons_of_mem _ hx))
    simp only [ptSize] at this
    rw [this]

theorem encodePt_length (t : List PtEntry) (big : Bool) (h : ∀ e ∈ t, e.ident.length < 256) :
    (encodePt t big).length = sectors (ptSize t) * sectorSize := by
  unfold encodePt
  dsimp only
  rw [List.length_append, zeros_length, pt_body_length t big h]
  have := Proof.Viso.sectors_mul_ge (ptSize t)
  omega

theorem pathTable_idents (items : List DirItem) (rootLen : Nat) (joliet : Bool) (D : Nat) :
    (pathTable items rootLen joliet D).map (·.ident) = (pathTable items rootLen joliet 0).map (·.ident) := by
  unfold pathTable
  simp only [List.map_filterMap]
  apply filterMap_congr'
  intro i _
  cases items[i]? <;> rfl

theorem ptSize_idents (a b : List PtEntry) (h : a.map (·.ident) = b.map (·.ident)) : ptSize a = ptSize b := by
  have hs : ∀ t : List PtEntry, ptSize t = ((t.map (·.ident)).map (fun id => (⟨0, 0, id⟩ : PtEntry).size)).sum := by
    intro t; simp only [ptSize, List.map_map]; rfl
  rw [hs a, hs b, h]

theorem pathTable_ident_bound (items : List DirItem) (rootLen : Nat) (joliet : Bool) (D : Nat) :
    ∀ e ∈ pathTable items rootLen joliet D, e.ident.length < 256 := by
  intro e he
  unfold pathTable at he
  simp only [List.mem_filterMap] at he
  obtain ⟨i, _, hi⟩ := he
  cases hit : items[i]? with
  | none => simp [hit] at hi
  | some it =>
    simp [hit] at hi
    subst hi
    dsimp only
    split
    · simp
    · have := Ps3.Props.C08.identifier_fits it.name joliet; omega

/-- each of the four path tables occupies exactly the sectors calculateSizes reserved -/
theorem pt_length (items : List DirItem) (rootLen : Nat) (joliet big : Bool) (D : Nat) :
    (encodePt (pathTable items rootLen joliet D) big).length =
      sectors (ptSize (pathTable items rootLen joliet 0)) * sectorSize := by
  rw [encodePt_length _ _ (pathTable_ident_bound items rootLen joliet D)]
  rw [ptSize_idents _ _ (pathTable_idents items rootLen joliet D)]

theorem padTo_length (s : Bytes) (n : Nat) (p : UInt8) (h : s.length ≤ n) : (padTo s n p).length = n := by
  simp [padTo]; omega

theorem digits_length (w n : Nat) : (digits w n).length = w := by simp [digits]

theorem volTime_length (t h : Nat) : (volTime t h).length = 17 := by
  unfold volTime
  simp [digits_length]

theorem linux_len (joliet : Bool) : (mangleUpper Gen.fs_aCharacters [108, 105, 110, 117, 120] joliet).length ≤ 32 := by
  cases joliet <;> decide

theorem descBodyPost_length : descBodyPost.length = 548 := by
  simp [descBodyPost, volTimeZero]

theorem descHeader_length (typ : Nat) : (descHeader typ).length = 7 := by
  simp [descHeader]; rfl

theorem descBodyPre_length (joliet : Bool) (volumeName : Bytes) (volSectors ptBytes lLoc mLoc : Nat) (rootRec : DirRec)
    (hr : rootRec.encode.length ≤ 34) :
    (descBodyPre joliet volumeName volSectors ptBytes lLoc mLoc rootRec).length = 806 := by
  unfold descBodyPre
  have hv : ((mangleUpper Gen.fs_dCharacters volumeName joliet).take 32).length ≤ 32 := by
    simp [List.length_take]; omega
  have hj : (if joliet then ([37, 47, 64] : Bytes) else []).length ≤ 32 := by cases joliet <;> simp
  simp only [List.length_append, List.length_cons, List.length_nil, zeros_length, lsbmsb_length, leN_length, beN_length,
    padTo_length _ _ _ (linux_len joliet), padTo_length _ _ _ hv, padTo_length _ 128 _ (Nat.le_trans hv (by omega)),
    padTo_length _ _ _ hj, padTo_length _ _ _ hr]
  simp [padTo]

theorem volumeDescriptor_length (typ : Nat) (joliet : Bool) (volumeName : Bytes) (volSectors ptBytes lLoc mLoc : Nat)
    (rootRec : DirRec) (clk : Clock) (hr : rootRec.encode.length ≤ 34) :
    (volumeDescriptor typ joliet volumeName volSectors ptBytes lLoc mLoc rootRec clk).length = sectorSize := by
  unfold volumeDescriptor
  rw [List.length_append, descHeader_length, padTo_length]
  · rfl
  · simp only [List.length_append, descBodyPre_length _ _ _ _ _ _ _ hr, volTime_length, descBodyPost_length]
    decide

theorem terminator_length : terminatorDescriptor.length = sectorSize := by
  simp [terminatorDescriptor]; rfl


theorem dot_encode_len (loc len t : Nat) (id : UInt8) :
    (DirRec.encode ⟨loc, len, recTime t, 2, [id]⟩).length = 34 := by
  rw [Ps3.Props.C08.record_length _ (recTime_length t)]
  simp [DirRec.size]

theorem rootRecOf_len (L : Layout) (joliet : Bool) (D : Nat) : (rootRecOf (L.recsOf joliet D)).encode.length ≤ 34 := by
  unfold rootRecOf
  cases h : (L.recsOf joliet D).head? with
  | none => simp; decide
  | some l =>
    have hm : l ∈ L.recsOf joliet D := List.mem_of_head? h
    unfold Layout.recsOf at hm
    simp only [List.mem_filterMap] at hm
    obtain ⟨k, _, hk⟩ := hm
    cases hit : L.items[k]? with
    | none => simp [hit] at hk
    | some it =>
      simp [hit] at hk
      subst hk
      simp only [Option.bind_some, finalRecs, List.cons_append, List.head?_cons, Option.getD_some]
      rw [dot_encode_len]
      omega

theorem gameCodeOf_len (w : World) (root : Path) (ps3 : Bool) (c : Bytes) (h : gameCodeOf w root ps3 = some c) :
    c.length ≤ 31 := by
  unfold gameCodeOf at h
  split at h
  · split at h
    · split at h
      · split at h
        · split at h
          · cases h
          · rename_i hb; cases h; simp at hb; omega
        · cases h
      · cases h
    · cases h
  · cases h; simp

theorem sysArea_length (L : Layout) (ps3 : Bool) (filler : Bytes) (hg : L.gameCode.length ≤ 31) :
    (sysArea L ps3 filler).length = 16 * sectorSize := by
  unfold sysArea
  split
  · have h1 : (beN 4 1 ++ zeros 4 ++ beN 4 0 ++ beN 4 (L.volSectors - 1)).length ≤ sectorSize := by
      simp; decide
    have hc : (Gen.fs_consoleID : Bytes).length ≤ 16 := by decide
    have hp : (L.gameCode.take 4 ++ [45] ++ L.gameCode.drop 4).length ≤ 32 := by
      simp [List.length_take, List.length_drop]; omega
    have hf : (filler.take 0x1C0).length ≤ 0x1C0 := by simp [List.length_take]; omega
    have h2 : (infoHead L ++ padTo (filler.take 0x1C0) 0x1C0 0).length ≤ sectorSize := by
      unfold infoHead
      simp only [List.length_append, padTo_length _ _ _ hc, padTo_length _ _ _ hp, padTo_length _ _ _ hf, zeros_length]
      decide
    unfold rangesSector
    simp only [List.length_append, padTo_length _ _ _ h1, padTo_length _ _ _ h2, zeros_length]
    omega
  · simp


/-- what `layoutOf` establishes -/
structure LayoutFacts (w : World) (L : Layout) : Prop where
  game : L.gameCode.length ≤ 31
  ptSecs : L.ptSecs = sectors (ptSize (pathTable L.items L.rootLen false 0))
  ptJSecs : L.ptJSecs = sectors (ptSize (pathTable L.items L.rootLen true 0))
  iso : L.isoLBA = 16 + 3 + 1 + L.ptSecs * 2 + L.ptJSecs * 2
  joliet : L.jolietLBA = L.isoLBA + (dirSectors L.items false).sum
  files : L.filesLBA = L.jolietLBA + (dirSectors L.items true).sum
  run : ∃ e, runOk w 0 (allFiles L.items) e ∧ L.volumeSize = L.filesLBA + e
  vol : L.volSectors = L.volumeSize + L.padSectors
  fits : L.volumeSize + 2 * Gen.fs_basePadSectors ≤ maxSector
  pad : L.padSectors = padSectorsFor L.volumeSize
  dirs : L.items.length ≤ Gen.fs_pathTableItemsLimit

theorem layoutOf_facts (w : World) (root : Path) (ps3 : Bool) (L : Layout) (h : layoutOf w root ps3 = some L) :
    LayoutFacts w L := by
  have hfit := (layoutOf_some h).2.1
  have hdirs := (layoutOf_some h).2.2
  have h := (layoutOf_some h).1
  unfold layoutRaw at h
  split at h
  · split at h
    · cases h
    · rename_i gc hgc
      split at h
      · cases h
      · rename_i items fsec hscan
        cases h
        exact ⟨gameCodeOf_len w root ps3 gc hgc, rfl, rfl, rfl, rfl, rfl,
          ⟨fsec, scan_ok w _ _ [] 0 items fsec rfl hscan, rfl⟩, rfl, hfit, rfl, hdirs⟩
  · cases h

theorem metaBytes_length (w : World) (L : Layout) (F : LayoutFacts w L) (ps3 : Bool) (clk : Clock) (filler : Bytes) :
    (metaBytes L ps3 clk filler).length = L.filesLBA * sectorSize := by
  unfold metaBytes tablesAndDirs pvdOf svdOf
  simp only [List.length_append, sysArea_length L ps3 filler F.game,
    volumeDescriptor_length _ _ _ _ _ _ _ _ _ (rootRecOf_len L _ _), terminator_length, zeros_length,
    pt_length, dirs_length]
  rw [F.files, F.joliet, F.iso, F.ptSecs, F.ptJSecs]
  simp only [Proof.Viso.sectorSize_eq]
  omega

/-- **`build` yields a well-formed image, for every world, root and mode.** -/
theorem build_wf (w : World) (root : Path) (ps3 : Bool) (clk : Clock) (filler : Bytes) (img : Image)
    (h : build w root ps3 clk filler = some img) : WF img (cfOf w) := by
  unfold build at h
  cases hL : layoutOf w root ps3 with
  | none => simp [hL] at h
  | some L =>
    simp [hL] at h
    subst h
    have F := layoutOf_facts w root ps3 L hL
    obtain ⟨e, hrun, hvol⟩ := F.run
    have hm := metaBytes_length w L F ps3 clk filler
    obtain ⟨hc, hp, hs⟩ := run_layout w L.filesLBA (allFiles L.items) 0 e hrun
    have hfiles : L.files = ((allFiles L.items).filter nz).map (absF L.filesLBA) := rfl
    refine ⟨?_, ?_, ?_, ?_, ?_⟩
    · show Consec (metaBytes L ps3 clk filler).length L.files
      rw [hm, hfiles]; simpa using hc
    · intro f hf; change f ∈ L.files at hf; rw [hfiles] at hf; exact hs f hf
    · show L.volumeSize * sectorSize = (metaBytes L ps3 clk filler).length + (L.files.map padded).sum
      rw [hm, hfiles, hvol, Nat.add_mul]; omega
    · show L.volSectors * sectorSize = L.volumeSize * sectorSize + L.padSectors * sectorSize
      rw [F.vol, Nat.add_mul]
    · show (metaBytes L ps3 clk filler).length % sectorSize = 0
      rw [hm]; exact Nat.mul_mod_left _ _


/-! ### every directory sits where its records say -/

/-- the k-th piece of a flattened list sits at the sum of the lengths before it -/
theorem slice_flatten {α : Type} (xs : List (List α)) (k : Nat) (x : List α) (hk : xs[k]? = some x) :
    slice xs.flatten (((xs.take k).map List.length).sum) x.length = x := by
  induction xs generalizing k with
  | nil => simp at hk
  | cons y rest ih =>
    cases k with
    | zero =>
      simp at hk; subst hk
      simp [slice]
    | succ k =>
      simp only [List.getElem?_cons_succ] at hk
      simp only [List.take_succ_cons, List.map_cons, List.sum_cons, List.flatten_cons]
      rw [slice_append_right _ _ _ _ (by omega)]
      have : y.length + ((rest.take k).map List.length).sum - y.length = ((rest.take k).map List.length).sum := by omega
      rw [this]
      exact ih k hk

theorem encodeRecs_final_length (L : Layout) (joliet : Bool) (dirLBA k : Nat) (it : DirItem) :
    (encodeRecs (finalRecs L.items L.rootLen joliet dirLBA L.filesLBA k it)).length =
      sectors (recsSize (shapeRecs L.items it joliet)) * sectorSize := by
  rw [encodeRecs_length _ (fun r hr => Ps3.Props.C08.record_length r (finalRecs_time _ _ _ _ _ _ _ r hr))]
  rw [recsSize_congr _ _ (finalRecs_sizes _ _ _ _ _ _ _)]

theorem zipIdx_getElem {α : Type} (l : List α) (n k : Nat) (a : α) (h : l[k]? = some a) :
    (l.zipIdx n)[k]? = some (a, n + k) := by
  induction l generalizing n k with
  | nil => simp at h
  | cons b rest ih =>
    cases k with
    | zero => simp at h; subst h; simp
    | succ k =>
      simp only [List.getElem?_cons_succ] at h
      simp only [List.zipIdx_cons, List.getElem?_cons_succ]
      rw [ih (n + 1) k h]; congr 2; omega

/-- directory `k` of one hierarchy inside the flattened directory area -/
theorem dir_in_area (L : Layout) (joliet : Bool) (dirLBA k : Nat) (it : DirItem) (hk : L.items[k]? = some it) :
    slice ((L.recsOf joliet dirLBA).map encodeRecs).flatten
      (prefixSum (dirSectors L.items joliet) k * sectorSize)
      (((dirSectors L.items joliet)[k]?.getD 0) * sectorSize) =
    encodeRecs (finalRecs L.items L.rootLen joliet dirLBA L.filesLBA k it) := by
  have hrec : L.recsOf joliet dirLBA = L.items.zipIdx.map (fun p => finalRecs L.items L.rootLen joliet dirLBA L.filesLBA p.2 p.1) := by
    unfold Layout.recsOf
    exact range_filterMap_getElem (fun k it => finalRecs L.items L.rootLen joliet dirLBA L.filesLBA k it) L.items
  have hget : ((L.recsOf joliet dirLBA).map encodeRecs)[k]? =
      some (encodeRecs (finalRecs L.items L.rootLen joliet dirLBA L.filesLBA k it)) := by
    rw [hrec, List.map_map, List.getElem?_map, zipIdx_getElem L.items 0 k it hk]
    simp
  have hlens : ((L.recsOf joliet dirLBA).map encodeRecs).map List.length =
      (dirSectors L.items joliet).map (· * sectorSize) := by
    rw [hrec, List.map_map, List.map_map]
    unfold dirSectors
    rw [List.map_map, ← zipIdx_map_fst ((fun x => x * sectorSize) ∘ fun it => sectors (recsSize (shapeRecs L.items it joliet))) L.items 0]
    apply List.map_congr_left
    intro p _
    simp only [Function.comp]
    exact encodeRecs_final_length L joliet dirLBA p.2 p.1
  have hsl := slice_flatten _ k _ hget
  have hsum : ((((L.recsOf joliet dirLBA).map encodeRecs).take k).map List.length).sum =
      prefixSum (dirSectors L.items joliet) k * sectorSize := by
    rw [List.map_take, hlens]
    unfold prefixSum
    rw [← List.map_take, sum_map_mul]
    simp
  rw [hsum] at hsl
  have hlen : (encodeRecs (finalRecs L.items L.rootLen joliet dirLBA L.filesLBA k it)).length =
      ((dirSectors L.items joliet)[k]?.getD 0) * sectorSize := by
    rw [encodeRecs_final_length]
    unfold dirSectors
    simp [List.getElem?_map, hk]
  rw [hlen] at hsl
  exact hsl

theorem take_sum_le (l : List Nat) (k : Nat) : (l.take k).sum ≤ l.sum := by
  induction l generalizing k with
  | nil => simp
  | cons a rest ih =>
    cases k with
    | zero => simp
    | succ k => simp only [List.take_succ_cons, List.sum_cons]; have := ih k; omega

theorem prefix_plus_le (l : List Nat) (k : Nat) (hk : k < l.length) :
    prefixSum l k + (l[k]?.getD 0) ≤ l.sum := by
  have h1 : prefixSum l (k + 1) = prefixSum l k + (l[k]?.getD 0) := by
    unfold prefixSum
    rw [List.take_add_one, List.sum_append]
    simp [List.getElem?_eq_getElem hk]
  rw [← h1]; exact take_sum_le l (k + 1)

/-- **Directory `k` sits in the image exactly where its records say**, in both hierarchies: the bytes
    at sector `dirLoc k`, `dirLen k` long, are the encoding of that directory's records. -/
theorem dir_at_its_location (w : World) (L : Layout) (F : LayoutFacts w L) (ps3 : Bool) (clk : Clock) (filler : Bytes)
    (joliet : Bool) (k : Nat) (it : DirItem) (hk : L.items[k]? = some it) :
    slice (metaBytes L ps3 clk filler)
      ((prefixSum (dirSectors L.items joliet) k + (if joliet then L.jolietLBA else L.isoLBA)) * sectorSize)
      (((dirSectors L.items joliet)[k]?.getD 0) * sectorSize) =
    encodeRecs (finalRecs L.items L.rootLen joliet (if joliet then L.jolietLBA else L.isoLBA) L.filesLBA k it) := by
  have hklt : k < (dirSectors L.items joliet).length := by
    have : k < L.items.length := by
      rcases Nat.lt_or_ge k L.items.length with a | a
      · exact a
      · rw [List.getElem?_eq_none a] at hk; cases hk
    simpa [dirSectors] using this
  have hple := prefix_plus_le (dirSectors L.items joliet) k hklt
  -- the metadata area as prefix ++ primary directories ++ Joliet directories
  have hsplit : metaBytes L ps3 clk filler =
      (sysArea L ps3 filler ++ pvdOf L clk ++ svdOf L clk ++ terminatorDescriptor ++ zeros sectorSize ++
        (encodePt (pathTable L.items L.rootLen false L.isoLBA) false ++ encodePt (pathTable L.items L.rootLen false L.isoLBA) true ++
         encodePt (pathTable L.items L.rootLen true L.jolietLBA) false ++ encodePt (pathTable L.items L.rootLen true L.jolietLBA) true)) ++
      (((L.recsOf false L.isoLBA).map encodeRecs).flatten ++ ((L.recsOf true L.jolietLBA).map encodeRecs).flatten) := by
    unfold metaBytes tablesAndDirs
    simp only [List.append_assoc]
  have hpre : (sysArea L ps3 filler ++ pvdOf L clk ++ svdOf L clk ++ terminatorDescriptor ++ zeros sectorSize ++
        (encodePt (pathTable L.items L.rootLen false L.isoLBA) false ++ encodePt (pathTable L.items L.rootLen false L.isoLBA) true ++
         encodePt (pathTable L.items L.rootLen true L.jolietLBA) false ++ encodePt (pathTable L.items L.rootLen true L.jolietLBA) true)).length =
      L.isoLBA * sectorSize := by
    unfold pvdOf svdOf
    simp only [List.length_append, sysArea_length L ps3 filler F.game,
      volumeDescriptor_length _ _ _ _ _ _ _ _ _ (rootRecOf_len L _ _), terminator_length, zeros_length, pt_length]
    rw [F.iso, F.ptSecs, F.ptJSecs]
    simp only [Proof.Viso.sectorSize_eq]
    omega
  have hdI := dirs_length L false L.isoLBA
  have hdJ := dirs_length L true L.jolietLBA
  rw [hsplit]
  cases joliet with
  | false =>
    simp only [Bool.false_eq_true, if_false]
    rw [slice_append_right _ _ _ _ (by rw [hpre]; rw [Nat.add_mul]; omega)]
    rw [hpre]
    have hoff : (prefixSum (dirSectors L.items false) k + L.isoLBA) * sectorSize - L.isoLBA * sectorSize =
        prefixSum (dirSectors L.items false) k * sectorSize := by rw [Nat.add_mul]; omega
    rw [hoff, slice_append_left _ _ _ _ (by rw [hdI, ← Nat.add_mul]; exact Nat.mul_le_mul_right _ hple)]
    exact dir_in_area L false L.isoLBA k it hk
  | true =>
    simp only [if_true]
    rw [slice_append_right _ _ _ _ (by rw [hpre, F.joliet]; rw [Nat.add_mul, Nat.add_mul]; omega)]
    rw [hpre]
    rw [slice_append_right _ _ _ _ (by rw [hdI, F.joliet]; simp only [Nat.add_mul]; omega)]
    have hoff : (prefixSum (dirSectors L.items true) k + L.jolietLBA) * sectorSize - L.isoLBA * sectorSize -
        (((L.recsOf false L.isoLBA).map encodeRecs).flatten).length = prefixSum (dirSectors L.items true) k * sectorSize := by
      rw [hdI, F.joliet]; simp only [Nat.add_mul]; omega
    rw [hoff]
    exact dir_in_area L true L.jolietLBA k it hk

end Ps3.Proof.BuildWF
