import Ps3.Model.World
import Ps3.Proof.Slice
namespace Ps3.Proof.Content
open Ps3 Ps3.Content Ps3.Proof.Slice

theorem slice_getElem? {α : Type} (l : List α) (off n i : Nat) :
    (slice l off n)[i]? = if i < n then l[off + i]? else none := by
  unfold slice
  rw [List.getElem?_take]
  split
  · rw [List.getElem?_drop]
  · rfl

/-- pointwise description of one overlay splice -/
theorem applyOverlay_getElem? (start : Nat) (base : Bytes) (o : Overlay) (i : Nat) :
    (applyOverlay start base o)[i]? =
      if i < base.length then
        (if o.off ≤ start + i ∧ start + i < o.off + o.data.length then o.data[start + i - o.off]? else base[i]?)
      else none := by
  unfold applyOverlay
  dsimp only
  split
  · rename_i h
    have hL1 : (List.take (max start o.off - start) base).length = max start o.off - start := by
      rw [List.length_take]; omega
    have hL2 : (slice o.data (max start o.off - o.off) (min (start + base.length) (o.off + o.data.length) - max start o.off)).length
        = min (start + base.length) (o.off + o.data.length) - max start o.off := by
      rw [slice_length]; omega
    by_cases hi : i < base.length
    · simp only [hi, if_true]
      by_cases h1 : i < max start o.off - start
      · have hn : ¬ (o.off ≤ start + i ∧ start + i < o.off + o.data.length) := by omega
        rw [List.append_assoc, List.getElem?_append_left (by rw [hL1]; exact h1)]
        simp only [hn, if_false, List.getElem?_take, h1, if_true]
      · by_cases h2 : i < min (start + base.length) (o.off + o.data.length) - start
        · have hy : o.off ≤ start + i ∧ start + i < o.off + o.data.length := by omega
          rw [List.append_assoc, List.getElem?_append_right (by rw [hL1]; omega), hL1,
            List.getElem?_append_left (by rw [hL2]; omega), slice_getElem?]
          simp only [hy, and_self, if_true]
          have : i - (max start o.off - start) < min (start + base.length) (o.off + o.data.length) - max start o.off := by omega
          simp only [this, if_true]
          congr 1; omega
        · have hn : ¬ (o.off ≤ start + i ∧ start + i < o.off + o.data.length) := by omega
          rw [List.getElem?_append_right (by rw [List.length_append, hL1, hL2]; omega), List.length_append, hL1, hL2,
            List.getElem?_drop]
          simp only [hn, if_false]
          congr 1; omega
    · simp only [hi, if_false]
      apply List.getElem?_eq_none
      rw [List.length_append, List.length_append, hL1, hL2, List.length_drop]
      omega
  · rename_i h
    by_cases hi : i < base.length
    · have hn : ¬ (o.off ≤ start + i ∧ start + i < o.off + o.data.length) := by omega
      simp [hi, hn]
    · simp only [hi, if_false]
      exact List.getElem?_eq_none (by omega)

/-- splicing an overlay commutes with taking a window -/
theorem slice_applyOverlay (B : Bytes) (o : Overlay) (off n : Nat) :
    slice (applyOverlay 0 B o) off n = applyOverlay off (slice B off n) o := by
  apply List.ext_getElem?
  intro i
  rw [slice_getElem?, applyOverlay_getElem?, applyOverlay_getElem?, slice_length]
  by_cases hi : i < n
  · simp only [hi, if_true, Nat.zero_add, slice_getElem?]
    by_cases h2 : off + i < B.length
    · have : i < min n (B.length - off) := by omega
      simp only [h2, this, if_true]
    · have : ¬ i < min n (B.length - off) := by omega
      simp only [h2, this, if_false]
  · have : ¬ i < min n (B.length - off) := by omega
    simp only [hi, this, if_false]

theorem slice_foldl_applyOverlay (os : List Overlay) (B : Bytes) (off n : Nat) :
    slice (os.foldl (applyOverlay 0) B) off n = os.foldl (applyOverlay off) (slice B off n) := by
  induction os generalizing B with
  | nil => rfl
  | cons o os ih => simp only [List.foldl_cons]; rw [ih, slice_applyOverlay]

theorem slice_pattern (seed size off n : Nat) :
    slice ((List.range size).map (fun k => patByte seed (0 + k))) off n =
      (List.range (min n (size - off))).map (fun k => patByte seed (off + k)) := by
  apply List.ext_getElem?
  intro i
  rw [slice_getElem?]
  by_cases hi : i < n
  · simp only [hi, if_true, List.getElem?_map, List.getElem?_range']
    by_cases h2 : off + i < size
    · have : i < min n (size - off) := by omega
      simp [List.getElem?_range, h2, this]
    · have : ¬ i < min n (size - off) := by omega
      simp [List.getElem?_range, h2, this]
  · have : ¬ i < min n (size - off) := by omega
    simp [List.getElem?_range, hi, this]

/-- **A read of any range is the corresponding slice of the whole content**: the content is one
    fixed byte string, whatever offsets and lengths it is read with. -/
theorem read_eq_slice_all (c : Content) (off n : Nat) : c.read off n = slice c.all off n := by
  unfold Content.all Content.read
  simp only [Nat.sub_zero, Nat.min_self]
  rw [slice_foldl_applyOverlay, slice_pattern]

theorem all_length (c : Content) : c.all.length = c.size := by
  unfold Content.all; rw [Content.read_length]; simp

end Ps3.Proof.Content
