import Ps3.Model.Crypt
import Ps3.Proof.Slice
namespace Ps3.Proof.Crypt
open Ps3 Ps3.Crypt Ps3.Proof.Slice

theorem sectorSize_eq : sectorSize = 2048 := rfl

/-- number of sectors an image of `size` bytes spans -/
def nSectors (size : Nat) : Nat := (size + 2047) / 2048

/-- the whole decrypted view as one byte string: every sector as `plainSector` renders it -/
def plainAll (D : Nat → Bytes → Bytes) (gs : List Region) (rd : Nat → Nat → Bytes) (size : Nat) : Bytes :=
  ((List.range (nSectors size)).map (fun s => plainSector D gs s (rd (s * sectorSize) sectorSize))).flatten

/-- assumptions about the parameters: `rd` reads a file of `size` bytes, the cipher keeps lengths -/
structure Env (D : Nat → Bytes → Bytes) (rd : Nat → Nat → Bytes) (size : Nat) : Prop where
  rdLen : ∀ off n, (rd off n).length = min n (size - off)
  dLen : ∀ s x, (D s x).length = x.length

theorem plainSector_length {D rd size} (E : Env D rd size) (gs : List Region) (s : Nat) :
    (plainSector D gs s (rd (s * sectorSize) sectorSize)).length = min 2048 (size - s * 2048) := by
  unfold plainSector
  split
  · rw [E.dLen, E.rdLen, sectorSize_eq]
  · rw [E.rdLen, sectorSize_eq]

/-- length of the first `m` sectors of the decrypted string -/
theorem prefix_length {D rd size} (E : Env D rd size) (gs : List Region) (m : Nat) :
    (((List.range m).map (fun s => plainSector D gs s (rd (s * sectorSize) sectorSize))).flatten).length
      = min (m * 2048) size := by
  induction m with
  | zero => simp
  | succ m ih =>
    rw [List.range_succ, List.map_append, List.flatten_append, List.length_append, ih]
    simp only [List.map_cons, List.map_nil, List.flatten_cons, List.flatten_nil, List.append_nil]
    rw [plainSector_length E]
    omega

theorem plainAll_length {D rd size} (E : Env D rd size) (gs : List Region) : (plainAll D gs rd size).length = size := by
  unfold plainAll
  rw [prefix_length E]
  unfold nSectors
  omega

theorem slice_clip {α : Type} (l : List α) (off n : Nat) : slice l off n = slice l off (min n (l.length - off)) := by
  unfold slice
  rw [List.take_eq_take_iff]
  simp only [List.length_drop]
  omega

theorem range_split (n a : Nat) (h : a ≤ n) :
    List.range n = List.range a ++ (List.range (n - a)).map (fun k => a + k) := by
  have : n = a + (n - a) := by omega
  conv => lhs; rw [this]
  rw [List.range_add]

/-- **Position independence of the decrypting view**: any read `(off, n)` is the slice of the one
    decrypted byte string, whatever the alignment of offset and length. -/
theorem readDec_eq_slice {D rd size} (E : Env D rd size) (gs : List Region) (off n : Nat) :
    readDec D gs rd size 0 off n = slice (plainAll D gs rd size) off n := by
  have hall := plainAll_length E gs
  rw [slice_clip, hall]
  unfold readDec
  by_cases hlen : min n (size - off) = 0
  · have h0 : (min n (size - off) == 0) = true := by simpa using hlen
    simp [hlen, slice_zero_len]
  · have h0 : (min n (size - off) == 0) = false := by simpa using hlen
    simp only [h0, Bool.false_eq_true, if_false, Nat.not_lt_zero]
    generalize hL : min n (size - off) = len at *
    have hoff : off + len ≤ size := by omega
    have hpos : 0 < len := by omega
    rw [sectorSize_eq]
    generalize hs0 : off / 2048 = s0
    generalize hs1 : (off + len - 1) / 2048 = s1
    have h01 : s0 ≤ s1 := by omega
    have hN : s1 + 1 ≤ nSectors size := by unfold nSectors; omega
    -- split the whole string into the sectors before s0, the covered sectors, and the rest
    let P : Nat → Bytes := fun s => plainSector D gs s (rd (s * sectorSize) sectorSize)
    have hbody : ((List.range (s1 - s0 + 1)).map (fun k => plainSector D gs (s0 + k) (rd ((s0 + k) * 2048) 2048))).flatten
        = ((List.range (s1 - s0 + 1)).map (fun k => P (s0 + k))).flatten := rfl
    rw [hbody]
    have hsplit1 : List.range (nSectors size) = List.range (s1 + 1) ++ (List.range (nSectors size - (s1 + 1))).map (fun k => s1 + 1 + k) :=
      range_split _ _ hN
    have hsplit2 : List.range (s1 + 1) = List.range s0 ++ (List.range (s1 + 1 - s0)).map (fun k => s0 + k) :=
      range_split _ _ (by omega)
    have hm : s1 + 1 - s0 = s1 - s0 + 1 := by omega
    have hA : plainAll D gs rd size =
        ((List.range s0).map P).flatten ++ ((((List.range (s1 - s0 + 1)).map (fun k => P (s0 + k))).flatten) ++
          (((List.range (nSectors size - (s1 + 1))).map (fun k => P (s1 + 1 + k))).flatten)) := by
      unfold plainAll
      show ((List.range (nSectors size)).map P).flatten = _
      rw [hsplit1, List.map_append, List.flatten_append, hsplit2, List.map_append, List.flatten_append, hm,
        List.map_map, List.map_map, List.append_assoc]
      rfl
    have hAlen : (((List.range s0).map P).flatten).length = s0 * 2048 := by
      have := prefix_length E gs s0
      rw [this]; omega
    have hABlen : (((List.range s0).map P).flatten).length +
        ((((List.range (s1 - s0 + 1)).map (fun k => P (s0 + k))).flatten)).length = min ((s1 + 1) * 2048) size := by
      have := prefix_length E gs (s1 + 1)
      rw [← this]
      show _ = (((List.range (s1 + 1)).map P).flatten).length
      rw [hsplit2, List.map_append, List.flatten_append, List.length_append, hm, List.map_map]
      rfl
    rw [hA, slice_append_right _ _ _ _ (by omega), hAlen, slice_append_left _ _ _ _ (by omega)]

end Ps3.Proof.Crypt
