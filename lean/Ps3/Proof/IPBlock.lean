/-
  C14: a CIDR / netmask block denotes exactly the documented set. Byte-level mask arithmetic
  (AND with a prefix mask floors to a multiple of 2^h, OR with its complement fills the host bits,
  the last-bit tweaks remove network and broadcast address) lifted to 4- and 16-byte addresses.
  The four facts about single bytes are checked by kernel evaluation over all 256 values.
-/
import Ps3.Proof.IPRange
namespace Ps3.Proof.IPBlock
open Ps3 Ps3.IPRange Ps3.Spec.IPRange

theorem and_mask_fin : ∀ n : Fin 9, ∀ a : Fin 256,
    (UInt8.ofNat a.val &&& maskByte n.val).toNat = a.val / 2 ^ (8 - n.val) * 2 ^ (8 - n.val) := by
  decide +kernel

theorem ornot_mask_fin : ∀ n : Fin 9, ∀ a : Fin 256, a.val % 2 ^ (8 - n.val) = 0 →
    (UInt8.ofNat a.val ||| ~~~ maskByte n.val).toNat = a.val + 2 ^ (8 - n.val) - 1 := by
  decide +kernel

theorem setbit_fin : ∀ a : Fin 256, a.val % 2 = 0 → (UInt8.ofNat a.val ||| 1).toNat = a.val + 1 := by
  decide +kernel

theorem clearbit_fin : ∀ a : Fin 256, a.val % 2 = 1 → (UInt8.ofNat a.val &&& 0xfe).toNat = a.val - 1 := by
  decide +kernel

theorem ofNat_toNat (a : UInt8) : UInt8.ofNat a.toNat = a := by simp

theorem and_mask (a : UInt8) (n : Nat) (hn : n ≤ 8) :
    (a &&& maskByte n).toNat = a.toNat / 2 ^ (8 - n) * 2 ^ (8 - n) := by
  have := and_mask_fin ⟨n, by omega⟩ ⟨a.toNat, a.toNat_lt⟩
  simpa [ofNat_toNat] using this

theorem ornot_mask (a : UInt8) (n : Nat) (hn : n ≤ 8) (h : a.toNat % 2 ^ (8 - n) = 0) :
    (a ||| ~~~ maskByte n).toNat = a.toNat + 2 ^ (8 - n) - 1 := by
  have := ornot_mask_fin ⟨n, by omega⟩ ⟨a.toNat, a.toNat_lt⟩ h
  simpa [ofNat_toNat] using this

theorem setbit (a : UInt8) (h : a.toNat % 2 = 0) : (a ||| 1).toNat = a.toNat + 1 := by
  have := setbit_fin ⟨a.toNat, a.toNat_lt⟩ h
  simpa [ofNat_toNat] using this

theorem clearbit (a : UInt8) (h : a.toNat % 2 = 1) : (a &&& 0xfe).toNat = a.toNat - 1 := by
  have := clearbit_fin ⟨a.toNat, a.toNat_lt⟩ h
  simpa [ofNat_toNat] using this

theorem cidrMask_zero (l : Nat) : cidrMask l 0 = List.replicate l 0 := by
  induction l with
  | zero => rfl
  | succ l ih => simp only [cidrMask, List.replicate_succ, ih]; rfl

theorem cidrMask_length (l n : Nat) : (cidrMask l n).length = l := by
  induction l generalizing n with
  | zero => rfl
  | succ l ih => simp only [cidrMask]; split <;> simp [ih]

theorem and_zeros (as : Bytes) : bytesAnd as (List.replicate as.length 0) = List.replicate as.length 0 := by
  induction as with
  | nil => rfl
  | cons a rest ih => simp only [bytesAnd, List.length_cons, List.replicate_succ, List.zipWith_cons_cons] at *; rw [ih]; simp

theorem fromBE_zeros (l : Nat) : fromBE (List.replicate l (0 : UInt8)) = 0 := by
  induction l with
  | zero => rfl
  | succ l ih => rw [List.replicate_succ, Proof.IPRange.fromBE_cons, ih]; simp


theorem div_mul_add (c k R : Nat) : (c * 2 ^ k + R) / 2 ^ k * 2 ^ k = c * 2 ^ k + R / 2 ^ k * 2 ^ k := by
  have hp : 0 < 2 ^ k := Nat.pow_pos (by decide)
  rw [Nat.add_comm, Nat.add_mul_div_right _ _ hp, Nat.add_mul, Nat.add_comm]

theorem div_big (a M R j : Nat) (hR : R < M) :
    (a * M + R) / (2 ^ j * M) * (2 ^ j * M) = a / 2 ^ j * 2 ^ j * M := by
  have hM : 0 < M := by omega
  have h1 : (a * M + R) / (2 ^ j * M) = a / 2 ^ j := by
    rw [Nat.mul_comm (2 ^ j) M, ← Nat.div_div_eq_div_mul]
    congr 1
    rw [Nat.add_comm, Nat.add_mul_div_right _ _ hM, Nat.div_eq_of_lt hR, Nat.zero_add]
  rw [h1, Nat.mul_assoc]

theorem pow256 (l : Nat) : 256 ^ l = 2 ^ (8 * l) := by
  rw [Nat.pow_mul]

theorem bytesAnd_length (a b : Bytes) (h : a.length = b.length) : (bytesAnd a b).length = a.length := by
  simp [bytesAnd, h]

theorem and_ff (a : UInt8) : a &&& 0xff = a := by
  have : ∀ x : Fin 256, UInt8.ofNat x.val &&& 0xff = UInt8.ofNat x.val := by decide +kernel
  have := this ⟨a.toNat, a.toNat_lt⟩
  simpa [ofNat_toNat] using this

/-- masking with a prefix mask floors the address to a multiple of 2^(host bits) -/
theorem and_cidr (as : Bytes) (n : Nat) (hn : n ≤ 8 * as.length) :
    fromBE (bytesAnd as (cidrMask as.length n)) =
      fromBE as / 2 ^ (8 * as.length - n) * 2 ^ (8 * as.length - n) := by
  induction as generalizing n with
  | nil => simp [bytesAnd, cidrMask, fromBE, fromLE]
  | cons a rest ih =>
    simp only [List.length_cons, cidrMask]
    split
    · rename_i h8
      simp only [bytesAnd, List.zipWith_cons_cons]
      rw [and_ff, Proof.IPRange.fromBE_cons, Proof.IPRange.fromBE_cons]
      have hl : (List.zipWith (fun x1 x2 => x1 &&& x2) rest (cidrMask rest.length (n - 8))).length = rest.length := by
        simp [cidrMask_length]
      rw [hl]
      have := ih (n - 8) (by simp only [List.length_cons] at hn; omega)
      simp only [bytesAnd] at this
      rw [this]
      have hk : 8 * (rest.length + 1) - n = 8 * rest.length - (n - 8) := by omega
      rw [hk]
      generalize hkk : 8 * rest.length - (n - 8) = k
      have hk8 : k ≤ 8 * rest.length := by omega
      have hsplit : 256 ^ rest.length = 2 ^ (8 * rest.length - k) * 2 ^ k := by
        rw [pow256, ← Nat.pow_add]; congr 1; omega
      rw [hsplit, ← Nat.mul_assoc, div_mul_add]
    · rename_i h8
      have hn8 : n ≤ 8 := by omega
      simp only [bytesAnd, List.zipWith_cons_cons]
      rw [Proof.IPRange.fromBE_cons, Proof.IPRange.fromBE_cons]
      have hz := and_zeros rest
      simp only [bytesAnd] at hz
      rw [cidrMask_zero, hz, fromBE_zeros, List.length_replicate, and_mask a n hn8, Nat.add_zero]
      have hk : 8 * (rest.length + 1) - n = (8 - n) + 8 * rest.length := by omega
      rw [hk, Nat.pow_add, ← pow256]
      rw [div_big _ _ _ _ (Proof.IPRange.fromBE_lt rest)]

theorem ornot_ff (a : UInt8) : a ||| ~~~ (0xff : UInt8) = a := by
  have : ∀ x : Fin 256, UInt8.ofNat x.val ||| ~~~ (0xff : UInt8) = UInt8.ofNat x.val := by decide +kernel
  have := this ⟨a.toNat, a.toNat_lt⟩
  simpa [ofNat_toNat] using this

theorem ornot_zeros (l : Nat) : bytesOrNot (List.replicate l 0) (List.replicate l 0) = List.replicate l 0xff := by
  induction l with
  | zero => rfl
  | succ l ih => simp only [bytesOrNot, List.replicate_succ, List.zipWith_cons_cons] at *; rw [ih]; rfl

theorem fromBE_ffs (l : Nat) : fromBE (List.replicate l (0xff : UInt8)) = 256 ^ l - 1 := by
  induction l with
  | zero => rfl
  | succ l ih =>
    rw [List.replicate_succ, Proof.IPRange.fromBE_cons, ih, List.length_replicate]
    have : 0 < 256 ^ l := Nat.pow_pos (by decide)
    have h255 : (0xff : UInt8).toNat = 255 := rfl
    rw [h255, Nat.pow_succ]; omega

/-- OR-ing the inverted mask onto the floored address fills the host bits -/
theorem ornot_cidr (as : Bytes) (n : Nat) (hn : n ≤ 8 * as.length) :
    fromBE (bytesOrNot (bytesAnd as (cidrMask as.length n)) (cidrMask as.length n)) =
      fromBE (bytesAnd as (cidrMask as.length n)) + 2 ^ (8 * as.length - n) - 1 := by
  induction as generalizing n with
  | nil => simp [bytesAnd, bytesOrNot, cidrMask, fromBE, fromLE]
  | cons a rest ih =>
    simp only [List.length_cons, cidrMask]
    split
    · rename_i h8
      simp only [bytesAnd, bytesOrNot, List.zipWith_cons_cons]
      rw [and_ff, ornot_ff, Proof.IPRange.fromBE_cons, Proof.IPRange.fromBE_cons]
      have := ih (n - 8) (by simp only [List.length_cons] at hn; omega)
      simp only [bytesAnd, bytesOrNot] at this
      rw [this]
      simp only [List.length_zipWith, cidrMask_length, Nat.min_self]
      have hk : 8 * (rest.length + 1) - n = 8 * rest.length - (n - 8) := by omega
      rw [hk]
      have : 0 < 2 ^ (8 * rest.length - (n - 8)) := Nat.pow_pos (by decide)
      omega
    · rename_i h8
      have hn8 : n ≤ 8 := by omega
      simp only [bytesAnd, bytesOrNot, List.zipWith_cons_cons]
      rw [Proof.IPRange.fromBE_cons, Proof.IPRange.fromBE_cons]
      have hz := and_zeros rest
      simp only [bytesAnd] at hz
      have ho := ornot_zeros rest.length
      simp only [bytesOrNot] at ho
      rw [cidrMask_zero, hz, ho, fromBE_zeros, fromBE_ffs]
      simp only [List.length_replicate]
      have hal : (a &&& maskByte n).toNat % 2 ^ (8 - n) = 0 := by
        rw [and_mask a n hn8]; exact Nat.mul_mod_left _ _
      rw [ornot_mask _ n hn8 hal]
      have hk : 8 * (rest.length + 1) - n = (8 - n) + 8 * rest.length := by omega
      rw [hk, Nat.pow_add, ← pow256]
      have h1 : 0 < 2 ^ (8 - n) := Nat.pow_pos (by decide)
      have h2 : 0 < 256 ^ rest.length := Nat.pow_pos (by decide)
      generalize (a &&& maskByte n).toNat = x
      generalize 2 ^ (8 - n) = J at *
      generalize 256 ^ rest.length = M at *
      have : (x + J - 1) * M = x * M + J * M - M := by
        rw [Nat.sub_mul, Nat.add_mul, Nat.one_mul]
      have hJM : M ≤ J * M := Nat.le_mul_of_pos_left M h1
      omega

theorem fromBE_last (l : Bytes) (x : UInt8) (r : Bytes) (h : l.reverse = x :: r) :
    fromBE l = x.toNat + 256 * fromLE r := by
  simp [fromBE, h, fromLE]

theorem setLastBit_num (l : Bytes) (hne : l ≠ []) (hev : fromBE l % 2 = 0) :
    fromBE (setLastBit l) = fromBE l + 1 ∧ (setLastBit l).length = l.length := by
  unfold setLastBit
  cases h : l.reverse with
  | nil => simp at h; exact absurd h hne
  | cons x r =>
    have hl := fromBE_last l x r h
    have hx : x.toNat % 2 = 0 := by omega
    have hlen : l.length = r.length + 1 := by
      have := congrArg List.length h; simpa using this
    constructor
    · rw [fromBE_last _ (x ||| 1) r (by simp), setbit x hx, hl]; omega
    · simp [hlen]

theorem clearLastBit_num (l : Bytes) (hne : l ≠ []) (hodd : fromBE l % 2 = 1) :
    fromBE (clearLastBit l) = fromBE l - 1 ∧ (clearLastBit l).length = l.length := by
  unfold clearLastBit
  cases h : l.reverse with
  | nil => simp at h; exact absurd h hne
  | cons x r =>
    have hl := fromBE_last l x r h
    have hx : x.toNat % 2 = 1 := by omega
    have hlen : l.length = r.length + 1 := by
      have := congrArg List.length h; simpa using this
    constructor
    · rw [fromBE_last _ (x &&& 0xfe) r (by simp), clearbit x hx, hl]; omega
    · simp [hlen]

/-- **A prefix block denotes exactly the documented set**: for a 4- or 16-byte address and any
    prefix length, the numeric interval `[left, right]` computed by the code is the aligned block of
    2^h addresses around the address, without its network and broadcast addresses when h ≥ 2. -/
theorem blockRange_spec (addr : Bytes) (p : Nat) (hL : addr.length = 4 ∨ addr.length = 16) (hp : p ≤ 8 * addr.length)
    (x : Nat) :
    (fromBE (blockRange addr (cidrMask addr.length p) p).left ≤ x ∧
      x ≤ fromBE (blockRange addr (cidrMask addr.length p) p).right) ↔
      block (fromBE addr) (8 * addr.length - p) x := by
  have hnet := and_cidr addr p hp
  have hbc := ornot_cidr addr p hp
  have hne : bytesAnd addr (cidrMask addr.length p) ≠ [] := by
    intro h; have := congrArg List.length h
    rw [bytesAnd_length _ _ (cidrMask_length _ _).symm] at this
    rcases hL with h4 | h16 <;> simp_all
  have hne2 : bytesOrNot (bytesAnd addr (cidrMask addr.length p)) (cidrMask addr.length p) ≠ [] := by
    intro h; have := congrArg List.length h
    simp only [bytesOrNot, bytesAnd, List.length_zipWith, cidrMask_length, Nat.min_self, List.length_nil] at this
    rcases hL with h4 | h16 <;> omega
  generalize hh : 8 * addr.length - p = h at *
  have hpos : 0 < 2 ^ h := Nat.pow_pos (by decide)
  unfold blockRange block
  dsimp only
  by_cases hc : ((addr.length == 4 && decide (p < 31)) || (addr.length == 16 && decide (p < 127))) = true
  · have h2 : 2 ≤ h := by
      simp only [Bool.or_eq_true, Bool.and_eq_true, beq_iff_eq, decide_eq_true_eq] at hc
      rcases hc with ⟨a, b⟩ | ⟨a, b⟩ <;> omega
    simp only [hc, if_true]
    have h2h : 2 ^ h % 2 = 0 := by
      obtain ⟨k, rfl⟩ : ∃ k, h = k + 1 := ⟨h - 1, by omega⟩
      rw [Nat.pow_succ]; exact Nat.mul_mod_left _ _
    have hev : fromBE (bytesAnd addr (cidrMask addr.length p)) % 2 = 0 := by
      rw [hnet]
      obtain ⟨k, rfl⟩ : ∃ k, h = k + 1 := ⟨h - 1, by omega⟩
      rw [Nat.pow_succ, ← Nat.mul_assoc]; exact Nat.mul_mod_left _ _
    have hodd : fromBE (bytesOrNot (bytesAnd addr (cidrMask addr.length p)) (cidrMask addr.length p)) % 2 = 1 := by
      rw [hbc]; omega
    rw [(setLastBit_num _ hne hev).1, (clearLastBit_num _ hne2 hodd).1, hbc, hnet]
    have h4 : 4 ≤ 2 ^ h := by
      obtain ⟨k, rfl⟩ : ∃ k, h = k + 2 := ⟨h - 2, by omega⟩
      rw [Nat.pow_add]; have : 0 < 2 ^ k := Nat.pow_pos (by decide); omega
    constructor
    · intro ⟨a, b⟩; exact ⟨by omega, by omega, fun _ => ⟨by omega, by omega⟩⟩
    · intro ⟨a, b, c⟩; have := c h2; omega
  · have h2 : h < 2 := by
      simp only [Bool.or_eq_true, Bool.and_eq_true, beq_iff_eq, decide_eq_true_eq, not_or, not_and] at hc
      rcases hL with h4 | h16
      · have := hc.1 h4; omega
      · have := hc.2 h16; omega
    simp only [hc, Bool.false_eq_true, if_false]
    rw [hbc, hnet]
    constructor
    · intro ⟨a, b⟩; exact ⟨a, b, fun h' => by omega⟩
    · intro ⟨a, b, _⟩; exact ⟨a, b⟩

theorem fromBE_append (a b : Bytes) : fromBE (a ++ b) = fromBE a * 256 ^ b.length + fromBE b := by
  induction a with
  | nil => simp [fromBE, fromLE]
  | cons x rest ih =>
    rw [List.cons_append, Proof.IPRange.fromBE_cons, Proof.IPRange.fromBE_cons, ih, List.length_append,
      Nat.pow_add, Nat.add_mul]
    rw [Nat.mul_assoc, Nat.add_assoc]

theorem v4_embed (x : Bytes) (h : x.length = 4) : fromBE (v4InV6Prefix ++ x) = v4Base + fromBE x := by
  rw [fromBE_append, h]
  have : fromBE v4InV6Prefix = 0xffff := by decide
  rw [this]; rfl

theorem blockRange_lengths (addr : Bytes) (p : Nat) (hp : p ≤ 8 * addr.length) (hL : addr.length = 4 ∨ addr.length = 16) :
    (blockRange addr (cidrMask addr.length p) p).left.length = addr.length ∧
    (blockRange addr (cidrMask addr.length p) p).right.length = addr.length := by
  have hnet := and_cidr addr p hp
  have hbc := ornot_cidr addr p hp
  have l1 : (bytesAnd addr (cidrMask addr.length p)).length = addr.length := bytesAnd_length _ _ (cidrMask_length _ _).symm
  have l2 : (bytesOrNot (bytesAnd addr (cidrMask addr.length p)) (cidrMask addr.length p)).length = addr.length := by
    simp [bytesOrNot, bytesAnd, cidrMask_length]
  unfold blockRange
  dsimp only
  split
  · unfold setLastBit clearLastBit
    constructor
    · cases h : (bytesAnd addr (cidrMask addr.length p)).reverse with
      | nil => simp at h; rw [h] at l1; simp at l1; rcases hL with a | a <;> omega
      | cons x r =>
        have := congrArg List.length h; simp at this; simp; omega
    · cases h : (bytesOrNot (bytesAnd addr (cidrMask addr.length p)) (cidrMask addr.length p)).reverse with
      | nil => simp at h; rw [h] at l2; simp at l2; rcases hL with a | a <;> omega
      | cons x r =>
        have := congrArg List.length h; simp at this; simp; omega
  · exact ⟨l1, l2⟩

/-- an IPv6 CIDR: membership of any 16-byte address in the parsed range is exactly membership of its
    128-bit number in the documented block -/
theorem contains_block_v6 (addr : Bytes) (p : Nat) (h16 : addr.length = 16) (hp : p ≤ 128) (ip : Bytes) (hip : ip.length = 16) :
    contains (blockRange addr (cidrMask 16 p) p) ip = true ↔ block (fromBE addr) (128 - p) (addrNat ip) := by
  have hl := blockRange_lengths addr p (by omega) (Or.inr h16)
  rw [h16] at hl
  rw [Proof.IPRange.contains_iff _ _ hl.1 hl.2 hip]
  have := blockRange_spec addr p (Or.inr h16) (by omega) (addrNat ip)
  rw [h16] at this
  exact this

/-- an IPv4 CIDR / netmask block, as stored (bounds widened to the IPv4-mapped form): a 16-byte address
    is a member exactly when it is the mapped form of an IPv4 address in the documented block -/
theorem contains_block_v4 (a4 : Bytes) (p : Nat) (h4 : a4.length = 4) (hp : p ≤ 32) (ip : Bytes) (hip : ip.length = 16) :
    contains ⟨v4InV6Prefix ++ (blockRange a4 (cidrMask 4 p) p).left, v4InV6Prefix ++ (blockRange a4 (cidrMask 4 p) p).right⟩ ip = true ↔
      ∃ y, addrNat ip = v4Base + y ∧ block (fromBE a4) (32 - p) y := by
  have hl := blockRange_lengths a4 p (by omega) (Or.inl h4)
  rw [h4] at hl
  have e1 : (v4InV6Prefix ++ (blockRange a4 (cidrMask 4 p) p).left).length = 16 := by
    rw [List.length_append, hl.1]; rfl
  have e2 : (v4InV6Prefix ++ (blockRange a4 (cidrMask 4 p) p).right).length = 16 := by
    rw [List.length_append, hl.2]; rfl
  rw [Proof.IPRange.contains_iff _ _ e1 e2 hip]
  simp only [range, addrNat, v4_embed _ hl.1, v4_embed _ hl.2]
  have hs := fun y => blockRange_spec a4 p (Or.inl h4) (by omega) y
  rw [h4] at hs
  constructor
  · intro ⟨a, b⟩
    refine ⟨fromBE ip - v4Base, by omega, ?_⟩
    exact (hs _).mp ⟨by omega, by omega⟩
  · intro ⟨y, hy, hb⟩
    have := (hs y).mpr hb
    omega

theorem all_zero_replicate (rest : Bytes) (h : rest.all (· == 0) = true) : rest = List.replicate rest.length 0 := by
  induction rest with
  | nil => rfl
  | cons a r ih =>
    simp only [List.all_cons, Bool.and_eq_true, beq_iff_eq] at h
    rw [List.length_cons, List.replicate_succ, ← ih h.2, h.1]

theorem byteOnes_spec (v : UInt8) (n : Nat) (h : byteOnes v = some n) : v = maskByte n ∧ n ≤ 8 := by
  unfold byteOnes at h
  have hm := List.find?_some h
  have hmem := List.mem_of_find?_eq_some h
  simp only [List.mem_range] at hmem
  simp only [beq_iff_eq] at hm
  exact ⟨hm.symm, by omega⟩

/-- a contiguous netmask is the prefix mask of its length -/
theorem simpleMaskLength_spec (m : Bytes) (ones : Nat) (h : simpleMaskLength m = some ones) :
    m = cidrMask m.length ones ∧ ones ≤ 8 * m.length := by
  induction m generalizing ones with
  | nil => simp [simpleMaskLength] at h; subst h; exact ⟨rfl, by simp⟩
  | cons v rest ih =>
    unfold simpleMaskLength at h
    split at h
    · rename_i hv
      simp only [beq_iff_eq] at hv
      cases hr : simpleMaskLength rest with
      | none => simp [hr] at h
      | some k =>
        simp [hr] at h
        subst h
        obtain ⟨e, b⟩ := ih k hr
        refine ⟨?_, by simp only [List.length_cons]; omega⟩
        simp only [List.length_cons, cidrMask]
        rw [if_pos (by omega), Nat.add_sub_cancel, ← e, hv]
    · rename_i hv
      simp only [beq_iff_eq] at hv
      split at h
      · cases h
      · rename_i n hn
        split at h
        · rename_i hall
          cases h
          obtain ⟨e, b⟩ := byteOnes_spec v ones hn
          have hlt : ones < 8 := by
            rcases Nat.lt_or_ge ones 8 with h | h
            · exact h
            · have : ones = 8 := by omega
              subst this
              exact absurd e hv
          refine ⟨?_, by simp only [List.length_cons]; omega⟩
          simp only [List.length_cons, cidrMask]
          rw [if_neg (by omega), cidrMask_zero, ← all_zero_replicate rest hall, e]
        · cases h

theorem to16_four (x : Bytes) (h : x.length = 4) : to16 x = some (v4InV6Prefix ++ x) := by simp [to16, h]
theorem to16_sixteen (x : Bytes) (h : x.length = 16) : to16 x = some x := by simp [to16, h]

/-- what the parser returns for "a.b.c.d/p" -/
theorem parse_cidr_v4 (s : Bytes) (i : Nat) (addr a4 : Bytes) (p : Nat)
    (hsep : (i == s.length - 1) = false)
    (haddr : parseIP (s.take i) = some addr) (h4 : to4 addr = some a4) (ha4 : a4.length = 4)
    (hnoip : parseIP (s.drop (i + 1)) = none) (hp : prefixLenOf (s.drop (i + 1)) = some (p : Int)) (hp32 : p ≤ 32) :
    parseCIDRorMask s i = some ⟨v4InV6Prefix ++ (blockRange a4 (cidrMask 4 p) p).left,
                                v4InV6Prefix ++ (blockRange a4 (cidrMask 4 p) p).right⟩ := by
  have hl := blockRange_lengths a4 p (by omega) (Or.inl ha4)
  rw [ha4] at hl
  unfold parseCIDRorMask
  have hr : ¬ ((p : Int) < 0 ∨ 32 < (p : Int)) := by omega
  simp [hsep, haddr, h4, hnoip, hp, ha4]
  simp [hr, to16_four _ hl.1, to16_four _ hl.2]

/-- … for "a.b.c.d/m.m.m.m" with a contiguous mask of `ones` leading one bits: the same block -/
theorem parse_mask_v4 (s : Bytes) (i : Nat) (addr a4 m m4 : Bytes) (ones : Nat)
    (hsep : (i == s.length - 1) = false)
    (haddr : parseIP (s.take i) = some addr) (h4 : to4 addr = some a4) (ha4 : a4.length = 4)
    (hm : parseIP (s.drop (i + 1)) = some m) (hm4 : to4 m = some m4) (hml : m4.length = 4)
    (hones : simpleMaskLength m4 = some ones) :
    parseCIDRorMask s i = some ⟨v4InV6Prefix ++ (blockRange a4 (cidrMask 4 ones) ones).left,
                                v4InV6Prefix ++ (blockRange a4 (cidrMask 4 ones) ones).right⟩ := by
  obtain ⟨e, b⟩ := simpleMaskLength_spec m4 ones hones
  rw [hml] at e b
  have hl := blockRange_lengths a4 ones (by omega) (Or.inl ha4)
  rw [ha4] at hl
  unfold parseCIDRorMask
  simp only [hsep, Bool.false_eq_true, if_false, haddr, h4, hm, hm4, ha4, hones]
  rw [← e] at hl ⊢
  simp [to16_four _ hl.1, to16_four _ hl.2]

/-- … and for an IPv6 "addr/p" -/
theorem parse_cidr_v6 (s : Bytes) (i : Nat) (addr : Bytes) (p : Nat)
    (hsep : (i == s.length - 1) = false)
    (haddr : parseIP (s.take i) = some addr) (h4 : to4 addr = none) (h16 : addr.length = 16)
    (hnoip : parseIP (s.drop (i + 1)) = none) (hp : prefixLenOf (s.drop (i + 1)) = some (p : Int)) (hp128 : p ≤ 128) :
    parseCIDRorMask s i = some (blockRange addr (cidrMask 16 p) p) := by
  have hl := blockRange_lengths addr p (by omega) (Or.inr h16)
  rw [h16] at hl
  unfold parseCIDRorMask
  have hr : ¬ ((p : Int) < 0 ∨ 128 < (p : Int)) := by omega
  simp [hsep, haddr, h4, hnoip, hp, h16]
  simp [hr, to16_sixteen _ hl.1, to16_sixteen _ hl.2]

/-- a prefix length outside 0..8·len is rejected -/
theorem bad_prefix_rejected (s : Bytes) (i : Nat) (addr : Bytes) (p : Int)
    (haddr : parseIP (s.take i) = some addr)
    (hnoip : parseIP (s.drop (i + 1)) = none) (hp : prefixLenOf (s.drop (i + 1)) = some p)
    (hbad : p < 0 ∨ p > 8 * (((match to4 addr with | some a => a | none => addr).length : Nat) : Int)) :
    parseCIDRorMask s i = none := by
  unfold parseCIDRorMask
  split
  · rfl
  · simp only [haddr, hnoip, hp]
    cases h4 : to4 addr with
    | none =>
      simp only [h4] at hbad ⊢
      have hb : (decide (p < 0) || decide (p > 8 * ((addr.length : Nat) : Int))) = true := by
        rcases hbad with h | h <;> simp [h]
      rw [if_pos hb]
    | some a4 =>
      simp only [h4] at hbad ⊢
      have hb : (decide (p < 0) || decide (p > 8 * ((a4.length : Nat) : Int))) = true := by
        rcases hbad with h | h <;> simp [h]
      rw [if_pos hb]

/-- a non-contiguous netmask is rejected -/
theorem bad_mask_rejected (s : Bytes) (i : Nat) (addr m m4 : Bytes)
    (haddr : parseIP (s.take i) = some addr)
    (hm : parseIP (s.drop (i + 1)) = some m) (hm4 : to4 m = some m4) (hnone : simpleMaskLength m4 = none) :
    parseCIDRorMask s i = none := by
  unfold parseCIDRorMask
  split
  · rfl
  · simp only [haddr, hm, hm4, hnone]
    have : ∀ (c : Bool), (if c = true then (none : Option (Bytes × Nat)) else none) = none := by intro c; cases c <;> rfl
    simp only [this]

/-- neither a prefix length nor a mask after the slash: rejected -/
theorem bad_tail_rejected (s : Bytes) (i : Nat)
    (hnoip : parseIP (s.drop (i + 1)) = none) (hp : prefixLenOf (s.drop (i + 1)) = none) :
    parseCIDRorMask s i = none := by
  unfold parseCIDRorMask
  split
  · rfl
  · split
    · rfl
    · simp [hnoip, hp]
/-! ### net.ParseIP always yields the 16-byte form -/

theorem v4go_len (s : Bytes) : ∀ (first prevDot : Bool) (val pos digLen : Nat) (acc f : Bytes),
    acc.length = pos → pos ≤ 3 → v4go s first prevDot val pos digLen acc = some f → f.length = 4 := by
  induction s with
  | nil =>
    intro first prevDot val pos digLen acc f ha hp h
    simp only [v4go] at h
    split at h
    · cases h
    · cases h; simp; omega
  | cons c rest ih =>
    intro first prevDot val pos digLen acc f ha hp h
    simp only [v4go] at h
    split at h
    · split at h
      · cases h
      · split at h
        · cases h
        · exact ih _ _ _ _ _ _ _ ha hp h
    · split at h
      · split at h
        · cases h
        · split at h
          · cases h
          · rename_i hp3
            exact ih _ _ _ _ _ _ _ (by simp [ha]) (by simp at hp3; omega) h
      · cases h

theorem parseV4_len (s f : Bytes) (h : parseV4Fields s = some f) : f.length = 4 :=
  v4go_len s true false 0 0 0 [] f rfl (by omega) h

theorem v6loop_len (fuel : Nat) : ∀ (s ip : Bytes) (ell : Option Nat) (ip' : Bytes) (ell' : Option Nat) (rest : Bytes),
    ip.length % 2 = 0 → ip.length ≤ 16 → v6loop fuel s ip ell = some (ip', ell', rest) →
    ip'.length % 2 = 0 ∧ ip'.length ≤ 16 := by
  induction fuel with
  | zero =>
    intro s ip ell ip' ell' rest h2 h16 h
    simp only [v6loop] at h
    cases h; exact ⟨h2, h16⟩
  | succ fuel ih =>
    intro s ip ell ip' ell' rest h2 h16 h
    simp only [v6loop] at h
    split at h
    · cases h; exact ⟨h2, h16⟩
    · rename_i hlt
      split at h
      · cases h
      · split at h
        · cases h
        · split at h
          · -- embedded IPv4
            split at h
            · cases h
            · split at h
              · cases h
              · rename_i hfit
                split at h
                · cases h
                · rename_i f hf
                  cases h
                  have := parseV4_len _ f hf
                  simp only [List.length_append, this]
                  simp at hfit
                  omega
          · cases h
            simp only [List.length_append, List.length_cons, List.length_nil]
            omega
          · have hl : (ip ++ [UInt8.ofNat (‹Nat› / 256), UInt8.ofNat (‹Nat› % 256)]).length = ip.length + 2 := by simp
            split at h
            · cases h
            · split at h
              · cases h
              · split at h
                · cases h
                · split at h
                  · cases h
                    simp only [List.length_append, List.length_cons, List.length_nil]
                    omega
                  · exact ih _ _ _ _ _ _ (by rw [hl]; omega) (by rw [hl]; omega) h
              · exact ih _ _ _ _ _ _ (by rw [hl]; omega) (by rw [hl]; omega) h

theorem zeros16 : (zeros 16).length = 16 := by simp

theorem v6tail_len (s : Bytes) (ell : Option Nat) (a : Bytes)
    (h : (if (ell.isSome && s.isEmpty) = true then some (zeros 16)
      else match v6loop 9 s [] ell with
        | none => none
        | some (ip, ell, rest) =>
          if (!rest.isEmpty) = true then none
          else if ip.length < 16 then
            match ell with
            | none => none
            | some e => some (ip.take e ++ zeros (16 - ip.length) ++ ip.drop e)
          else if ell.isSome = true then none
          else some ip) = some a) : a.length = 16 := by
  split at h
  · cases h; exact zeros16
  · split at h
    · cases h
    · rename_i ip ell' rest hloop
      have hinv := v6loop_len 9 _ [] _ ip ell' rest (by simp) (by simp) hloop
      split at h
      · cases h
      · split at h
        · split at h
          · cases h
          · cases h
            simp only [List.length_append, List.length_take, List.length_drop, zeros_length]
            omega
        · split at h
          · cases h
          · cases h; omega

theorem parseV6_len (s a : Bytes) (h : parseV6 s = some a) : a.length = 16 := by
  unfold parseV6 at h
  split at h
  · cases h
  · split at h
    · rename_i heq
      split at heq
      · cases heq; exact v6tail_len _ _ a h
      · cases heq; exact v6tail_len _ _ a h

/-- net.ParseIP always yields the 16-byte form -/
theorem parseIP_len (s a : Bytes) (h : parseIP s = some a) : a.length = 16 := by
  unfold parseIP at h
  split at h
  · cases hv : parseV4Fields s with
    | none => simp [hv] at h
    | some f =>
      simp [hv] at h
      subst h
      have := parseV4_len s f hv
      simp only [List.length_append, this]; rfl
  · exact parseV6_len s a h
  · cases h

theorem to4_len (a a4 : Bytes) (h16 : a.length = 16) (h : to4 a = some a4) : a4.length = 4 := by
  unfold to4 at h
  split at h
  · rename_i h4; simp at h4; omega
  · split at h
    · cases h; rw [List.length_drop, h16]
    · cases h

end Ps3.Proof.IPBlock
