import Ps3.Model.IPRange
import Ps3.Spec.IPRange
namespace Ps3.Proof.IPRange
open Ps3 Ps3.IPRange Ps3.Spec.IPRange

theorem fromLE_append (x y : Bytes) : fromLE (x ++ y) = fromLE x + 256 ^ x.length * fromLE y := by
  induction x with
  | nil => simp [fromLE]
  | cons a x ih =>
    simp only [List.cons_append, fromLE, ih, List.length_cons, Nat.pow_succ]
    grind

theorem fromBE_cons (a : UInt8) (as : Bytes) :
    fromBE (a :: as) = a.toNat * 256 ^ as.length + fromBE as := by
  simp [fromBE, fromLE_append, fromLE]
  grind

theorem fromLE_lt (x : Bytes) : fromLE x < 256 ^ x.length := by
  induction x with
  | nil => simp [fromLE]
  | cons a x ih =>
    simp only [fromLE, List.length_cons, Nat.pow_succ]
    have : a.toNat < 256 := a.toNat_lt
    omega

theorem fromBE_lt (x : Bytes) : fromBE x < 256 ^ x.length := by
  have := fromLE_lt x.reverse
  simpa [fromBE] using this

theorem cmpBytes_eq_compare (a b : Bytes) (h : a.length = b.length) :
    cmpBytes a b = compare (fromBE a) (fromBE b) := by
  induction a generalizing b with
  | nil =>
    cases b with
    | nil => simp [cmpBytes, fromBE, fromLE]
    | cons _ _ => simp at h
  | cons x xs ih =>
    cases b with
    | nil => simp at h
    | cons y ys =>
      simp only [List.length_cons, Nat.add_right_cancel_iff] at h
      have hx := fromBE_lt xs
      have hy := fromBE_lt ys
      rw [fromBE_cons, fromBE_cons, h]
      simp only [cmpBytes]
      have hpos : 0 < 256 ^ ys.length := Nat.pow_pos (by decide)
      rw [h] at hx
      by_cases hlt : x < y
      · simp only [hlt, if_true]
        have : x.toNat < y.toNat := hlt
        have : (x.toNat + 1) * 256 ^ ys.length ≤ y.toNat * 256 ^ ys.length := Nat.mul_le_mul_right _ this
        rw [Nat.add_mul] at this
        symm; rw [Nat.compare_eq_lt]; omega
      · simp only [hlt, if_false]
        by_cases hgt : y < x
        · simp only [hgt, if_true]
          have : y.toNat < x.toNat := hgt
          have : (y.toNat + 1) * 256 ^ ys.length ≤ x.toNat * 256 ^ ys.length := Nat.mul_le_mul_right _ this
          rw [Nat.add_mul] at this
          symm; rw [Nat.compare_eq_gt]; omega
        · simp only [hgt, if_false]
          have hxy : x.toNat = y.toNat := by
            have h1 : ¬ x.toNat < y.toNat := hlt
            have h2 : ¬ y.toNat < x.toNat := hgt
            omega
          rw [ih ys h, hxy]
          simp [Nat.compare_eq_ite_lt]

theorem contains_iff (r : Range) (ip : Bytes)
    (hl : r.left.length = 16) (hr : r.right.length = 16) (hip : ip.length = 16) :
    contains r ip = true ↔ range (addrNat r.left) (addrNat r.right) (addrNat ip) := by
  simp only [contains, to16, hip]
  simp only [show ((16:Nat) == 4) = false from rfl, show ((16:Nat) == 16) = true from rfl, if_true]
  simp only [Bool.false_eq_true, if_false]
  rw [cmpBytes_eq_compare ip r.left (by omega), cmpBytes_eq_compare ip r.right (by omega)]
  simp only [range, addrNat, Bool.and_eq_true, bne_iff_ne, ne_eq]
  rw [Nat.compare_eq_lt, Nat.compare_eq_gt]
  omega

end Ps3.Proof.IPRange
