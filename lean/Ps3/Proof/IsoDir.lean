/-
  decode ∘ encode = id for directory extents: the generator's writeDirEntries followed by a reader's walk.
-/
import Ps3.Spec.IsoDir
import Ps3.Props.C08
namespace Ps3.Spec.IsoDir
open Ps3 Ps3.Viso

theorem size_bounds (r : DirRec) (h : RecOk r) : 34 ≤ r.size ∧ r.size ≤ 255 := by
  have := h.ident
  unfold DirRec.size
  omega

theorem slice_at {α : Type} (pre x post : List α) (n : Nat) (h : pre.length = n) :
    slice (pre ++ (x ++ post)) n x.length = x := by
  subst h
  simp [slice]

theorem getElem_at {α : Type} (pre : List α) (x : α) (post : List α) (n : Nat) (h : pre.length = n) :
    (pre ++ (x :: post))[n]? = some x := by
  subst h
  simp

theorem drop_leN (w v k : Nat) (h : w ≤ k) : (leN w v).drop k = [] :=
  List.drop_eq_nil_of_le (by simp; exact h)
theorem drop_beN (w v k : Nat) (h : w ≤ k) : (beN w v).drop k = [] :=
  List.drop_eq_nil_of_le (by simp; exact h)
theorem drop_time (t : Bytes) (k : Nat) (ht : t.length = 7) (h : 7 ≤ k) : t.drop k = [] :=
  List.drop_eq_nil_of_le (by omega)

theorem parse_encode (r : DirRec) (h : RecOk r) (more : Bytes) : parseRec (r.encode ++ more) = some r := by
  have hs := size_bounds r h
  have hlen : r.encode.length = r.size := Ps3.Props.C08.record_length r h.time
  have hsz : (UInt8.ofNat r.size).toNat = r.size := by
    rw [UInt8.toNat_ofNat']; omega
  have hil : (UInt8.ofNat r.ident.length).toNat = r.ident.length := by
    rw [UInt8.toNat_ofNat']; have := h.ident; omega
  have hfl : (UInt8.ofNat r.flags).toNat = r.flags := by
    rw [UInt8.toNat_ofNat']; have := h.flags; omega
  -- the whole stream, right-nested
  have hflat : r.encode ++ more = [UInt8.ofNat r.size, 0] ++ (leN 4 r.extLoc ++ (beN 4 r.extLoc ++ (leN 4 r.extLen ++ (beN 4 r.extLen ++
      (r.time ++ ([UInt8.ofNat r.flags] ++ ([0, 0] ++ (lsbmsb 2 1 ++ ([UInt8.ofNat r.ident.length] ++ (r.ident ++
      ((if (r.ident.length + 1) % 2 > 0 then [0] else []) ++ more))))))))))) := by
    simp [DirRec.encode, lsbmsb, List.append_assoc]
  have t7 := h.time
  have f_loc : slice (r.encode ++ more) 2 4 = leN 4 r.extLoc := by
    rw [hflat]; simp [slice, List.drop_append, List.take_append]
  have f_len : slice (r.encode ++ more) 10 4 = leN 4 r.extLen := by
    rw [hflat]; simp [slice, List.drop_append, List.take_append]
  have f_time : slice (r.encode ++ more) 18 7 = r.time := by
    rw [hflat]; simp (disch := omega) [slice, List.drop_append, List.take_append, t7, drop_leN, drop_beN]
  have f_flags : (r.encode ++ more)[25]? = some (UInt8.ofNat r.flags) := by
    rw [hflat]; simp [List.getElem?_append, t7]
  have f_il : (r.encode ++ more)[32]? = some (UInt8.ofNat r.ident.length) := by
    rw [hflat]; simp [List.getElem?_append, t7, lsbmsb]
  have f_id : slice (r.encode ++ more) 33 r.ident.length = r.ident := by
    rw [hflat]; simp (disch := omega) [slice, List.drop_append, List.take_append, t7, lsbmsb, drop_leN, drop_beN, drop_time r.time _ t7]
  have hr : r.encode ++ more = UInt8.ofNat r.size :: ([0] ++ (leN 4 r.extLoc ++ (beN 4 r.extLoc ++ (leN 4 r.extLen ++ (beN 4 r.extLen ++
      (r.time ++ ([UInt8.ofNat r.flags] ++ ([0, 0] ++ (lsbmsb 2 1 ++ ([UInt8.ofNat r.ident.length] ++ (r.ident ++
      ((if (r.ident.length + 1) % 2 > 0 then [0] else []) ++ more)))))))))))) := by rw [hflat]; rfl
  have hl2 : r.size ≤ (r.encode ++ more).length := by rw [List.length_append, hlen]; omega
  generalize hb : r.encode ++ more = b at *
  unfold parseRec
  rw [hr]
  simp only []
  rw [← hr]
  have hnot : ¬ ((UInt8.ofNat r.size).toNat < 34 ∨ b.length < (UInt8.ofNat r.size).toNat ∨
      (UInt8.ofNat r.size).toNat < 33 + (b[32]?.map (·.toNat)).getD 0) := by
    rw [f_il, hsz]; simp only [Option.map_some, Option.getD_some, hil]
    have : r.size = 33 + r.ident.length + (r.ident.length + 1) % 2 := rfl
    omega
  rw [if_neg hnot, f_loc, f_len, f_time, f_flags, f_il]
  simp only [Option.map_some, Option.getD_some, hil, hfl, f_id, fromLE_leN]
  have h1 : r.extLoc % 256 ^ 4 = r.extLoc := Nat.mod_eq_of_lt (by have := h.loc; omega)
  have h2 : r.extLen % 256 ^ 4 = r.extLen := Nat.mod_eq_of_lt (by have := h.len; omega)
  rw [h1, h2]

/-- the records of a directory as they follow each other from position `pos` -/
def encodeFrom (pos : Nat) : List DirRec → Bytes
  | [] => []
  | r :: rest => zeros (recGap pos r) ++ (r.encode ++ encodeFrom (pos + recGap pos r + r.size) rest)

theorem step_rec (r : DirRec) (h : RecOk r) (pos fuel : Nat) (more : Bytes) :
    decodeRecsAux (fuel + 1) pos (r.encode ++ more) = r :: decodeRecsAux fuel (pos + r.size) more := by
  have hs := size_bounds r h
  have hlen : r.encode.length = r.size := Ps3.Props.C08.record_length r h.time
  have hsz : (UInt8.ofNat r.size).toNat = r.size := by rw [UInt8.toNat_ofNat']; omega
  have hhead : ∃ tl, r.encode ++ more = UInt8.ofNat r.size :: tl := ⟨r.encode.tail ++ more, rfl⟩
  obtain ⟨tl, htl⟩ := hhead
  have hp := parse_encode r h more
  have hdrop : (r.encode ++ more).drop r.size = more := by
    rw [← hlen]; simp
  generalize hb : r.encode ++ more = b at *
  conv => lhs; unfold decodeRecsAux
  rw [htl]
  simp only []
  rw [← htl, hsz, hp, hdrop]
  have : r.size ≠ 0 := by omega
  simp [this]

theorem step_gap (pos g fuel : Nat) (X : Bytes) (hg0 : 0 < g) (hg : g = sectorSize - pos % sectorSize) :
    decodeRecsAux (fuel + 1) pos (zeros g ++ X) = decodeRecsAux fuel (pos + g) X := by
  obtain ⟨k, rfl⟩ : ∃ k, g = k + 1 := ⟨g - 1, by omega⟩
  have hz : zeros (k + 1) ++ X = (0 : UInt8) :: (zeros k ++ X) := by simp [zeros, List.replicate_succ]
  have hdrop : ((0 : UInt8) :: (zeros k ++ X)).drop (k + 1) = X := by simp [zeros]
  conv => lhs; unfold decodeRecsAux
  rw [hz]
  simp only []
  rw [← hg, hdrop]
  simp

theorem decode_zeros_tail (pos k fuel : Nat) (hk : k < sectorSize) (hal : (pos + k) % sectorSize = 0) (hf : 2 ≤ fuel) :
    decodeRecsAux fuel pos (zeros k) = [] := by
  obtain ⟨f, rfl⟩ : ∃ f, fuel = f + 1 := ⟨fuel - 1, by omega⟩
  by_cases hk0 : k = 0
  · subst hk0; simp [zeros, decodeRecsAux]
  · have hg : k = sectorSize - pos % sectorSize := by
      rw [Proof.Viso.sectorSize_eq] at *; omega
    have := step_gap pos k f [] (by omega) hg
    simp only [List.append_nil] at this
    rw [this]
    obtain ⟨f', rfl⟩ : ∃ f', f = f' + 1 := ⟨f - 1, by omega⟩
    simp [decodeRecsAux]

theorem recGap_cases (pos : Nat) (r : DirRec) :
    recGap pos r = 0 ∨ (0 < recGap pos r ∧ recGap pos r = sectorSize - pos % sectorSize ∧ recGap (pos + recGap pos r) r = 0 ∨ r.size > sectorSize) := by
  unfold recGap
  rw [Proof.Viso.sectorSize_eq]
  dsimp only
  by_cases h : r.size > 2048 - pos % 2048
  · right
    by_cases hbig : r.size > 2048
    · right; exact hbig
    · left
      simp only [h, if_true]
      refine ⟨by omega, trivial, ?_⟩
      have : (pos + (2048 - pos % 2048)) % 2048 = 0 := by omega
      rw [this]; simp; omega
  · left; simp [h]

/-- **Round trip**: an ISO 9660 reader walking the directory extent recovers exactly the records
    that were written — in order, with their locations, lengths, times, flags and identifiers —
    skipping the unused rest of a sector wherever the writer left one. -/
theorem decode_from (rs : List DirRec) (hok : ∀ r ∈ rs, RecOk r) :
    ∀ (pos fuel k : Nat), 2 * rs.length + 2 ≤ fuel → k < sectorSize →
      (pos + (encodeFrom pos rs).length + k) % sectorSize = 0 →
      decodeRecsAux fuel pos (encodeFrom pos rs ++ zeros k) = rs := by
  induction rs with
  | nil =>
    intro pos fuel k hf hk hal
    simp only [encodeFrom, List.nil_append, List.length_nil, Nat.add_zero] at hal ⊢
    exact decode_zeros_tail pos k fuel hk hal (by simp at hf; omega)
  | cons r rest ih =>
    intro pos fuel k hf hk hal
    have hr : RecOk r := hok r List.mem_cons_self
    have hsz := size_bounds r hr
    have hlen : r.encode.length = r.size := Ps3.Props.C08.record_length r hr.time
    simp only [List.length_cons] at hf
    simp only [encodeFrom, List.append_assoc] at hal ⊢
    simp only [List.length_append, zeros_length, hlen] at hal
    rcases recGap_cases pos r with h0 | ⟨hpos, hg, hnext⟩ | hbig
    · rw [h0] at hal ⊢
      simp only [zeros, List.replicate_zero, List.nil_append, Nat.add_zero] at hal ⊢
      obtain ⟨f, rfl⟩ : ∃ f, fuel = f + 1 := ⟨fuel - 1, by omega⟩
      rw [step_rec r hr pos f]
      congr 1
      exact ih (fun x hx => hok x (List.mem_cons_of_mem _ hx)) _ _ _ (by omega) hk (by simpa [zeros, Nat.add_assoc] using hal)
    · obtain ⟨f, rfl⟩ : ∃ f, fuel = f + 1 := ⟨fuel - 1, by omega⟩
      rw [step_gap pos _ f _ hpos hg]
      obtain ⟨f', rfl⟩ : ∃ f', f = f' + 1 := ⟨f - 1, by omega⟩
      rw [step_rec r hr _ f']
      congr 1
      exact ih (fun x hx => hok x (List.mem_cons_of_mem _ hx)) _ _ _ (by omega) hk (by
        have : pos + recGap pos r + r.size + (encodeFrom (pos + recGap pos r + r.size) rest).length + k =
          pos + (recGap pos r + (r.size + (encodeFrom (pos + recGap pos r + r.size) rest).length)) + k := by omega
        rw [this]; exact hal)
    · rw [Proof.Viso.sectorSize_eq] at hbig; omega

theorem foldl_encodeFrom (rs : List DirRec) (h : ∀ r ∈ rs, r.encode.length = r.size) (acc : Bytes) :
    rs.foldl (fun (acc : Bytes) r => acc ++ zeros (recGap acc.length r) ++ r.encode) acc = acc ++ encodeFrom acc.length rs := by
  induction rs generalizing acc with
  | nil => simp [encodeFrom]
  | cons r rest ih =>
    simp only [List.foldl_cons, encodeFrom]
    rw [ih (fun x hx => h x (List.mem_cons_of_mem _ hx))]
    simp only [List.length_append, zeros_length, h r List.mem_cons_self, List.append_assoc, Nat.add_assoc]

theorem encodeFrom_length_ge (rs : List DirRec) (hok : ∀ r ∈ rs, RecOk r) (pos : Nat) :
    34 * rs.length ≤ (encodeFrom pos rs).length := by
  induction rs generalizing pos with
  | nil => simp [encodeFrom]
  | cons r rest ih =>
    have hr := hok r List.mem_cons_self
    have := size_bounds r hr
    have hlen : r.encode.length = r.size := Ps3.Props.C08.record_length r hr.time
    have := ih (fun x hx => hok x (List.mem_cons_of_mem _ hx)) (pos + recGap pos r + r.size)
    simp only [encodeFrom, List.length_append, zeros_length, hlen, List.length_cons]
    omega

/-- **decode ∘ encode = id for directory extents** (writeDirEntries followed by a reader's walk) -/
theorem decode_encodeRecs (rs : List DirRec) (hok : ∀ r ∈ rs, RecOk r) : decodeRecs (encodeRecs rs) = rs := by
  have henc : ∀ r ∈ rs, r.encode.length = r.size := fun r hr => Ps3.Props.C08.record_length r (hok r hr).time
  have hbody := foldl_encodeFrom rs henc []
  simp only [List.nil_append, List.length_nil] at hbody
  unfold decodeRecs encodeRecs
  simp only [hbody]
  generalize hL : (encodeFrom 0 rs).length = L
  have hge := encodeFrom_length_ge rs hok 0
  rw [hL] at hge
  have hsec := Proof.Viso.sectors_mul_ge L
  have hk : sectors L * sectorSize - L < sectorSize ∧ (L + (sectors L * sectorSize - L)) % sectorSize = 0 := by
    unfold sectors at *
    rw [Proof.Viso.sectorSize_eq] at *
    split <;> omega
  have := decode_from rs hok 0 ((encodeFrom 0 rs ++ zeros (sectors L * sectorSize - L)).length + 2) (sectors L * sectorSize - L)
    (by simp only [List.length_append, zeros_length, hL]; omega) hk.1 (by simpa [hL] using hk.2)
  exact this
/-! ### path tables -/

theorem parsePt_encode (e : PtEntry) (h : PtOk e) (big : Bool) (more : Bytes) :
    parsePt (e.encode big ++ more) big = some (e, (e.encode big).length) := by
  have hil : (UInt8.ofNat e.ident.length).toNat = e.ident.length := by
    rw [UInt8.toNat_ofNat']; have := h.ident; omega
  have hlen : (e.encode big).length = 8 + e.ident.length + e.ident.length % 2 := by
    unfold PtEntry.encode
    cases big <;> simp <;> split <;> simp <;> omega
  have hflat : e.encode big ++ more = [UInt8.ofNat e.ident.length, 0] ++ ((if big then beN 4 e.loc else leN 4 e.loc) ++
      ((if big then beN 2 e.parent else leN 2 e.parent) ++ (e.ident ++ ((if e.ident.length % 2 > 0 then [0] else []) ++ more)))) := by
    simp [PtEntry.encode, List.append_assoc]
  have l4 : (if big then beN 4 e.loc else leN 4 e.loc).length = 4 := by cases big <;> simp
  have l2 : (if big then beN 2 e.parent else leN 2 e.parent).length = 2 := by cases big <;> simp
  have f_loc : slice (e.encode big ++ more) 2 4 = (if big then beN 4 e.loc else leN 4 e.loc) := by
    rw [hflat]; simp [slice, List.take_append, l4]
  have f_par : slice (e.encode big ++ more) 6 2 = (if big then beN 2 e.parent else leN 2 e.parent) := by
    rw [hflat]; simp (disch := omega) [slice, List.drop_append, List.take_append, l4, l2, List.drop_eq_nil_of_le]
  have f_id : slice (e.encode big ++ more) 8 e.ident.length = e.ident := by
    rw [hflat]; simp (disch := omega) [slice, List.drop_append, List.take_append, l4, l2, List.drop_eq_nil_of_le]
  have hr : e.encode big ++ more = UInt8.ofNat e.ident.length :: ((e.encode big).tail ++ more) := by
    unfold PtEntry.encode; rfl
  have hl2 : (e.encode big).length ≤ (e.encode big ++ more).length := by simp
  generalize hb : e.encode big ++ more = b at *
  unfold parsePt
  rw [hr]
  simp only []
  rw [← hr, hil]
  have hnot : ¬ (e.ident.length = 0 ∨ b.length < 8 + e.ident.length + e.ident.length % 2) := by
    have := h.ident; omega
  rw [if_neg hnot, f_loc, f_par, f_id, hlen]
  have h1 : e.loc % 256 ^ 4 = e.loc := Nat.mod_eq_of_lt (by have := h.loc; omega)
  have h2 : e.parent % 256 ^ 2 = e.parent := Nat.mod_eq_of_lt (by have := h.parent; omega)
  cases big <;> simp [fromLE_leN, fromBE_beN, h1, h2]

/-- **decode ∘ encode = id for path tables** (type L and type M), read with the size the descriptor announces -/
theorem decodePt_encodePt (t : List PtEntry) (hok : ∀ e ∈ t, PtOk e) (big : Bool) :
    decodePt (encodePt t big) (t.map (fun e => (e.encode big).length)).sum big = t := by
  unfold decodePt encodePt
  dsimp only
  have hbody : ((t.map (fun e => e.encode big)).flatten).length = (t.map (fun e => (e.encode big).length)).sum := by
    induction t with
    | nil => rfl
    | cons e rest ih => simp [ih (fun x hx => hok x (List.mem_cons_of_mem _ hx))]
  rw [← hbody, List.take_left']
  · generalize hfuel : ((t.map (fun e => e.encode big)).flatten).length + 1 = fuel
    have hf : t.length < fuel := by
      rw [← hfuel, hbody]
      have : ∀ (l : List PtEntry), (∀ e ∈ l, PtOk e) → l.length ≤ (l.map (fun e => (e.encode big).length)).sum := by
        intro l hl
        induction l with
        | nil => simp
        | cons e rest ih =>
          have hlen : 1 ≤ (e.encode big).length := by unfold PtEntry.encode; cases big <;> simp
          have := ih (fun x hx => hl x (List.mem_cons_of_mem _ hx))
          simp only [List.map_cons, List.sum_cons, List.length_cons]; omega
      have := this t hok; omega
    clear hfuel hbody
    induction t generalizing fuel with
    | nil =>
      obtain ⟨f, rfl⟩ : ∃ f, fuel = f + 1 := ⟨fuel - 1, by simp at hf; omega⟩
      simp [decodePtAux, parsePt]
    | cons e rest ih =>
      obtain ⟨f, rfl⟩ : ∃ f, fuel = f + 1 := ⟨fuel - 1, by omega⟩
      simp only [List.map_cons, List.flatten_cons]
      conv => lhs; unfold decodePtAux
      rw [parsePt_encode e (hok e List.mem_cons_self) big]
      simp only [List.drop_left']
      congr 1
      exact ih (fun x hx => hok x (List.mem_cons_of_mem _ hx)) f (by simp at hf; omega)
  · rfl
end Ps3.Spec.IsoDir
