/-
  Helper lemmas for the end-to-end reader theorems of C07 (Props/C07b.lean).
-/
import Ps3.Spec.IsoTree
import Ps3.Props.C07
import Ps3.Props.C08c
namespace Ps3.Proof.IsoTree
open Ps3 Ps3.Viso Ps3.Spec.Viso Ps3.Spec.IsoDir Ps3.Spec.IsoTree Ps3.Props.C08

/-- the base sector of one hierarchy's directory area -/
def dirBase (L : Layout) (joliet : Bool) : Nat := if joliet then L.jolietLBA else L.isoLBA

/-- the records of directory `k` as the layout computed them -/
def recsOfDir (L : Layout) (joliet : Bool) (k : Nat) (it : DirItem) : List DirRec :=
  finalRecs L.items L.rootLen joliet (dirBase L joliet) L.filesLBA k it

/-- every location and length of every record of one hierarchy fits its 32-bit field -/
def Fits (L : Layout) (joliet : Bool) : Prop :=
  ∀ k it, L.items[k]? = some it → ∀ r ∈ recsOfDir L joliet k it, r.extLoc < 2 ^ 32 ∧ r.extLen < 2 ^ 32

theorem lt_length_of_getElem? {α : Type} {l : List α} {k : Nat} {a : α} (h : l[k]? = some a) : k < l.length := by
  rcases Nat.lt_or_ge k l.length with a | a
  · exact a
  · rw [List.getElem?_eq_none a] at h; cases h

/-- a directory extent lies inside the metadata area -/
theorem dir_inside_meta (w : World) (L : Layout) (F : Proof.BuildWF.LayoutFacts w L) (joliet : Bool) (k : Nat)
    (hk : k < L.items.length) :
    dirLoc L.items joliet (dirBase L joliet) k * sectorSize + dirLen L.items joliet k ≤ L.filesLBA * sectorSize := by
  have hklt : k < (dirSectors L.items joliet).length := by simpa [dirSectors] using hk
  have hple := Proof.BuildWF.prefix_plus_le (dirSectors L.items joliet) k hklt
  unfold dirLoc dirLen dirBase
  rw [← Nat.add_mul]
  apply Nat.mul_le_mul_right
  have h1 := F.joliet
  have h2 := F.files
  cases joliet with
  | false =>
    simp only [Bool.false_eq_true, if_false]
    omega
  | true =>
    simp only [if_true]
    omega

/-- inside the metadata area the canonical image *is* the metadata -/
theorem flat_slice_meta (img : Image) (cf : Nat → Content) (off n : Nat) (h : off + n ≤ img.fsBuf.length) :
    slice (flat img cf) off n = slice img.fsBuf off n := by
  unfold flat
  exact slice_append_left _ _ _ _ h

/-- **what a reader decodes at the location of directory `k`** -/
theorem decode_dir (w : World) (root : Path) (ps3 : Bool) (clk : Clock) (filler : Bytes) (L : Layout)
    (hL : layoutOf w root ps3 = some L) (joliet : Bool) (hfit : Fits L joliet) (k : Nat) (it : DirItem)
    (hk : L.items[k]? = some it) (cf : Nat → Content) :
    decodeRecs (slice (flat (imageOf L ps3 clk filler) cf)
      (dirLoc L.items joliet (dirBase L joliet) k * sectorSize) (dirLen L.items joliet k)) = recsOfDir L joliet k it := by
  have F := Proof.BuildWF.layoutOf_facts w root ps3 L hL
  have hin := dir_inside_meta w L F joliet k (lt_length_of_getElem? hk)
  rw [flat_slice_meta _ _ _ _ (by
    show _ ≤ (metaBytes L ps3 clk filler).length
    rw [Proof.BuildWF.metaBytes_length w L F]; exact hin)]
  exact directory_reads_back w root ps3 clk filler L hL joliet k it hk (hfit k it hk)


/-! ### the record list of a directory: '.', '..', file records, child records -/

def fileRecsAll (L : Layout) (joliet : Bool) (it : DirItem) : List DirRec :=
  (it.files.map (fun f => fileRecs f joliet L.filesLBA)).flatten

def childRec (L : Layout) (joliet : Bool) (j : Nat) (c : DirItem) : DirRec :=
  ⟨dirLoc L.items joliet (dirBase L joliet) j, dirLen L.items joliet j, recTime c.mtime, 2, makeIdentifier c.name joliet⟩

def childRecs (L : Layout) (joliet : Bool) (it : DirItem) : List DirRec :=
  (childrenIdx L.items it).filterMap (fun j => L.items[j]?.map (childRec L joliet j))

theorem recsOfDir_drop2 (L : Layout) (joliet : Bool) (k : Nat) (it : DirItem) :
    (recsOfDir L joliet k it).drop 2 = fileRecsAll L joliet it ++ childRecs L joliet it := by
  unfold recsOfDir finalRecs fileRecsAll childRecs
  simp only [List.cons_append, List.nil_append, List.drop_succ_cons, List.drop_zero]
  rfl

/-- the entries a reader sees in directory `k` of a generated image -/
theorem entries_dir (w : World) (root : Path) (ps3 : Bool) (clk : Clock) (filler : Bytes) (L : Layout)
    (hL : layoutOf w root ps3 = some L) (joliet : Bool) (hfit : Fits L joliet) (k : Nat) (it : DirItem)
    (hk : L.items[k]? = some it) (cf : Nat → Content) :
    entries (flat (imageOf L ps3 clk filler) cf) (dirLoc L.items joliet (dirBase L joliet) k) (dirLen L.items joliet k) =
      fileRecsAll L joliet it ++ childRecs L joliet it := by
  unfold entries
  rw [decode_dir w root ps3 clk filler L hL joliet hfit k it hk cf, recsOfDir_drop2]

/-! ### assembling files from their extents -/

theorem sectors_part : sectors multiExtentPart * sectorSize = multiExtentPart := by decide

theorem flag_multi : (Gen.fs_dirFlagMultiExtent / 2 % 2 == 1) = false ∧ (Gen.fs_dirFlagMultiExtent / 128 % 2 == 1) = true := by decide

theorem assemble_dir (b : Bytes) (r : DirRec) (rest : List DirRec) (acc : Bytes) (h : isDirRec r = true) :
    assemble b (r :: rest) acc = assemble b rest [] := by
  rw [assemble]; simp [h]

theorem assemble_multi (b : Bytes) (r : DirRec) (rest : List DirRec) (acc : Bytes) (h1 : isDirRec r = false)
    (h2 : isMulti r = true) : assemble b (r :: rest) acc = assemble b rest (acc ++ extentBytes b r) := by
  rw [assemble]; simp [h1, h2]

theorem assemble_last (b : Bytes) (r : DirRec) (rest : List DirRec) (acc : Bytes) (h1 : isDirRec r = false)
    (h2 : isMulti r = false) : assemble b (r :: rest) acc = (r.ident, acc ++ extentBytes b r) :: assemble b rest [] := by
  rw [assemble]; simp [h1, h2]

/-- the extents of a file larger than 4 GiB − 1, from part `s` on, continue the bytes collected so far -/
theorem assemble_parts (b : Bytes) (base P size : Nat) (tm id : Bytes) (parts : Nat) (g : Nat → DirRec)
    (hP : 0 < P)
    (hg : ∀ i, i < parts → g i =
      if i == parts - 1 then ⟨base + i * sectors P, size - i * P, tm, 0, id⟩
      else ⟨base + i * sectors P, P, tm, Gen.fs_dirFlagMultiExtent, id⟩)
    (hsec : sectors P * sectorSize = P)
    (hlo : (parts - 1) * P < size) (rest : List DirRec) :
    ∀ (n s : Nat) (acc : Bytes), s + n + 1 = parts →
      assemble b ((List.range' s (n + 1)).map g ++ rest) acc =
        (id, acc ++ slice b (base * sectorSize + s * P) (size - s * P)) :: assemble b rest [] := by
  intro n
  induction n with
  | zero =>
    intro s acc hs
    have hlast : (s == parts - 1) = true := by simp; omega
    simp only [List.range', List.map_cons, List.map_nil, List.cons_append, List.nil_append]
    rw [hg s (by omega)]
    simp only [hlast, if_true]
    rw [assemble_last b _ _ _ (by simp [isDirRec]) (by simp [isMulti])]
    simp only [extentBytes]
    have : (base + s * sectors P) * sectorSize = base * sectorSize + s * P := by
      rw [Nat.add_mul, Nat.mul_assoc, hsec]
    rw [this]
  | succ n ih =>
    intro s acc hs
    have hnl : (s == parts - 1) = false := by simp; omega
    rw [List.range'_succ]
    simp only [List.map_cons, List.cons_append]
    rw [hg s (by omega)]
    simp only [hnl, Bool.false_eq_true, if_false]
    rw [assemble_multi b ⟨base + s * sectors P, P, tm, Gen.fs_dirFlagMultiExtent, id⟩ _ _ flag_multi.1 flag_multi.2]
    simp only [extentBytes]
    rw [ih (s + 1) _ (by omega)]
    have hloc : (base + s * sectors P) * sectorSize = base * sectorSize + s * P := by
      rw [Nat.add_mul, Nat.mul_assoc, hsec]
    rw [hloc]
    have hsz : size - s * P = P + (size - (s + 1) * P) := by
      have h1 : (s + 1) * P ≤ (parts - 1) * P := Nat.mul_le_mul_right _ (by omega)
      rw [Nat.add_mul] at h1 ⊢
      omega
    have hoff : base * sectorSize + s * P + P = base * sectorSize + (s + 1) * P := by rw [Nat.add_mul]; omega
    rw [hsz, slice_add, hoff, List.append_assoc]

end Ps3.Proof.IsoTree
