/-
  Helper lemmas for the end-to-end reader theorems of C07 (Props/C07b.lean).
-/
import Ps3.Spec.IsoTree
import Ps3.Props.C07
import Ps3.Props.C08c
namespace Ps3.Proof.IsoTree
open Ps3 Ps3.Viso Ps3.Spec.Viso Ps3.Spec.IsoDir Ps3.Spec.IsoTree Ps3.Props.C08

/-- the base sector of one hierarchy's directory area -/
def dirBase (L : Layout) (joliet : Bool) : Nat := if joliet then L.jolietLBA else L.isoLBA

/-- the records of directory `k` as the layout computed them -/
def recsOfDir (L : Layout) (joliet : Bool) (k : Nat) (it : DirItem) : List DirRec :=
  finalRecs L.items L.rootLen joliet (dirBase L joliet) L.filesLBA k it

/-- every location and length of every record of one hierarchy fits its 32-bit field -/
def Fits (L : Layout) (joliet : Bool) : Prop :=
  ∀ k it, L.items[k]? = some it → ∀ r ∈ recsOfDir L joliet k it, r.extLoc < 2 ^ 32 ∧ r.extLen < 2 ^ 32

theorem lt_length_of_getElem? {α : Type} {l : List α} {k : Nat} {a : α} (h : l[k]? = some a) : k < l.length := by
  rcases Nat.lt_or_ge k l.length with a | a
  · exact a
  · rw [List.getElem?_eq_none a] at h; cases h

/-- a directory extent lies inside the metadata area -/
theorem dir_inside_meta (w : World) (L : Layout) (F : Proof.BuildWF.LayoutFacts w L) (joliet : Bool) (k : Nat)
    (hk : k < L.items.length) :
    dirLoc L.items joliet (dirBase L joliet) k * sectorSize + dirLen L.items joliet k ≤ L.filesLBA * sectorSize := by
  have hklt : k < (dirSectors L.items joliet).length := by simpa [dirSectors] using hk
  have hple := Proof.BuildWF.prefix_plus_le (dirSectors L.items joliet) k hklt
  unfold dirLoc dirLen dirBase
  rw [← Nat.add_mul]
  apply Nat.mul_le_mul_right
  have h1 := F.joliet
  have h2 := F.files
  cases joliet with
  | false =>
    simp only [Bool.false_eq_true, if_false]
    omega
  | true =>
    simp only [if_true]
    omega

/-- inside the metadata area the canonical image *is* the metadata -/
theorem flat_slice_meta (img : Image) (cf : Nat → Content) (off n : Nat) (h : off + n ≤ img.fsBuf.length) :
    slice (flat img cf) off n = slice img.fsBuf off n := by
  unfold flat
  exact slice_append_left _ _ _ _ h

/-- **what a reader decodes at the location of directory `k`** -/
theorem decode_dir (w : World) (root : Path) (ps3 : Bool) (clk : Clock) (filler : Bytes) (L : Layout)
    (hL : layoutOf w root ps3 = some L) (joliet : Bool) (hfit : Fits L joliet) (k : Nat) (it : DirItem)
    (hk : L.items[k]? = some it) (cf : Nat → Content) :
    decodeRecs (slice (flat (imageOf L ps3 clk filler) cf)
      (dirLoc L.items joliet (dirBase L joliet) k * sectorSize) (dirLen L.items joliet k)) = recsOfDir L joliet k it := by
  have F := Proof.BuildWF.layoutOf_facts w root ps3 L hL
  have hin := dir_inside_meta w L F joliet k (lt_length_of_getElem? hk)
  rw [flat_slice_meta _ _ _ _ (by
    show _ ≤ (metaBytes L ps3 clk filler).length
    rw [Proof.BuildWF.metaBytes_length w L F]; exact hin)]
  exact directory_reads_back w root ps3 clk filler L hL joliet k it hk (hfit k it hk)


/-! ### the record list of a directory: '.', '..', file records, child records -/

def fileRecsAll (L : Layout) (joliet : Bool) (it : DirItem) : List DirRec :=
  (it.files.map (fun f => fileRecs f joliet L.filesLBA)).flatten

def childRec (L : Layout) (joliet : Bool) (j : Nat) (c : DirItem) : DirRec :=
  ⟨dirLoc L.items joliet (dirBase L joliet) j, dirLen L.items joliet j, recTime c.mtime, 2, makeIdentifier c.name joliet⟩

def childRecs (L : Layout) (joliet : Bool) (it : DirItem) : List DirRec :=
  (childrenIdx L.items it).filterMap (fun j => L.items[j]?.map (childRec L joliet j))

theorem recsOfDir_drop2 (L : Layout) (joliet : Bool) (k : Nat) (it : DirItem) :
    (recsOfDir L joliet k it).drop 2 = fileRecsAll L joliet it ++ childRecs L joliet it := by
  unfold recsOfDir finalRecs fileRecsAll childRecs
  simp only [List.cons_append, List.nil_append, List.drop_succ_cons, List.drop_zero]
  rfl

/-- the entries a reader sees in directory `k` of a generated image -/
theorem entries_dir (w : World) (root : Path) (ps3 : Bool) (clk : Clock) (filler : Bytes) (L : Layout)
    (hL : layoutOf w root ps3 = some L) (joliet : Bool) (hfit : Fits L joliet) (k : Nat) (it : DirItem)
    (hk : L.items[k]? = some it) (cf : Nat → Content) :
    entries (flat (imageOf L ps3 clk filler) cf) (dirLoc L.items joliet (dirBase L joliet) k) (dirLen L.items joliet k) =
      fileRecsAll L joliet it ++ childRecs L joliet it := by
  unfold entries
  rw [decode_dir w root ps3 clk filler L hL joliet hfit k it hk cf, recsOfDir_drop2]

/-! ### assembling files from their extents -/

theorem sectors_part : sectors multiExtentPart * sectorSize = multiExtentPart := by decide

theorem flag_multi : (Gen.fs_dirFlagMultiExtent / 2 % 2 == 1) = false ∧ (Gen.fs_dirFlagMultiExtent / 128 % 2 == 1) = true := by decide

theorem assemble_dir (b : Bytes) (r : DirRec) (rest : List DirRec) (acc : Bytes) (h : isDirRec r = true) :
    assemble b (r :: rest) acc = assemble b rest [] := by
  rw [assemble]; simp [h]

theorem assemble_multi (b : Bytes) (r : DirRec) (rest : List DirRec) (acc : Bytes) (h1 : isDirRec r = false)
    (h2 : isMulti r = true) : assemble b (r :: rest) acc = assemble b rest (acc ++ extentBytes b r) := by
  rw [assemble]; simp [h1, h2]

theorem assemble_last (b : Bytes) (r : DirRec) (rest : List DirRec) (acc : Bytes) (h1 : isDirRec r = false)
    (h2 : isMulti r = false) : assemble b (r :: rest) acc = (r.ident, acc ++ extentBytes b r) :: assemble b rest [] := by
  rw [assemble]; simp [h1, h2]

/-- the extents of a file larger than 4 GiB − 1, from part `s` on, continue the bytes collected so far -/
theorem assemble_parts (b : Bytes) (base P size : Nat) (tm id : Bytes) (parts : Nat) (g : Nat → DirRec)
    (hP : 0 < P)
    (hg : ∀ i, i < parts → g i =
      if i == parts - 1 then ⟨base + i * sectors P, size - i * P, tm, 0, id⟩
      else ⟨base + i * sectors P, P, tm, Gen.fs_dirFlagMultiExtent, id⟩)
    (hsec : sectors P * sectorSize = P)
    (hlo : (parts - 1) * P < size) (rest : List DirRec) :
    ∀ (n s : Nat) (acc : Bytes), s + n + 1 = parts →
      assemble b ((List.range' s (n + 1)).map g ++ rest) acc =
        (id, acc ++ slice b (base * sectorSize + s * P) (size - s * P)) :: assemble b rest [] := by
  intro n
  induction n with
  | zero =>
    intro s acc hs
    have hlast : (s == parts - 1) = true := by simp; omega
    simp only [List.range', List.map_cons, List.map_nil, List.cons_append, List.nil_append]
    rw [hg s (by omega)]
    simp only [hlast, if_true]
    rw [assemble_last b _ _ _ (by simp [isDirRec]) (by simp [isMulti])]
    simp only [extentBytes]
    have : (base + s * sectors P) * sectorSize = base * sectorSize + s * P := by
      rw [Nat.add_mul, Nat.mul_assoc, hsec]
    rw [this]
  | succ n ih =>
    intro s acc hs
    have hnl : (s == parts - 1) = false := by simp; omega
    rw [List.range'_succ]
    simp only [List.map_cons, List.cons_append]
    rw [hg s (by omega)]
    simp only [hnl, Bool.false_eq_true, if_false]
    rw [assemble_multi b ⟨base + s * sectors P, P, tm, Gen.fs_dirFlagMultiExtent, id⟩ _ _ flag_multi.1 flag_multi.2]
    simp only [extentBytes]
    rw [ih (s + 1) _ (by omega)]
    have hloc : (base + s * sectors P) * sectorSize = base * sectorSize + s * P := by
      rw [Nat.add_mul, Nat.mul_assoc, hsec]
    rw [hloc]
    have hsz : size - s * P = P + (size - (s + 1) * P) := by
      have h1 : (s + 1) * P ≤ (parts - 1) * P := Nat.mul_le_mul_right _ (by omega)
      rw [Nat.add_mul] at h1 ⊢
      omega
    have hoff : base * sectorSize + s * P + P = base * sectorSize + (s + 1) * P := by rw [Nat.add_mul]; omega
    rw [hsz, slice_add, hoff, List.append_assoc]


/-- **one file, whatever its size**: the reader assembles from the record(s) written for it the identifier
    and exactly the `size` bytes that start at the file's first sector -/
theorem assemble_fileRecs (b : Bytes) (f : FileRef) (joliet : Bool) (F : Nat) (rest : List DirRec) :
    assemble b (fileRecs f joliet F ++ rest) [] =
      (makeIdentifier f.name joliet, slice b ((f.rLBA + F) * sectorSize) f.size) :: assemble b rest [] := by
  have hpart : multiExtentPart = 2 ^ 32 - 2048 := by decide
  have hmax : maxPart = 2 ^ 32 - 1 := by decide
  by_cases hbig : f.size > maxPart
  · -- several extents
    have hP : 0 < multiExtentPart := by rw [hpart]; decide
    have htot := Ps3.Props.C07.multi_extent_total f.size multiExtentPart hP
    generalize hparts : f.size / multiExtentPart + (if f.size % multiExtentPart > 0 then 1 else 0) = parts at htot
    have hpos : 0 < f.size := by omega
    have hlo := htot.2 hpos
    have hparts1 : 1 ≤ parts := by
      rcases Nat.eq_zero_or_pos parts with h0 | h0
      · rw [h0] at htot; have := htot.1; omega
      · exact h0
    have hrecs : fileRecs f joliet F = (List.range' 0 (parts - 1 + 1)).map (fun i =>
        if i == parts - 1 then (⟨f.rLBA + F + i * sectors multiExtentPart, f.size - i * multiExtentPart, recTime f.mtime, 0, makeIdentifier f.name joliet⟩ : DirRec)
        else ⟨f.rLBA + F + i * sectors multiExtentPart, multiExtentPart, recTime f.mtime, Gen.fs_dirFlagMultiExtent, makeIdentifier f.name joliet⟩) := by
      unfold fileRecs
      simp only [hbig, if_true]
      rw [hparts, List.range_eq_range', Nat.sub_add_cancel hparts1]
      apply List.map_congr_left
      intro i _
      have : f.rLBA + i * sectors multiExtentPart + F = f.rLBA + F + i * sectors multiExtentPart := by omega
      rw [this]
    rw [hrecs]
    have := assemble_parts b (f.rLBA + F) multiExtentPart f.size (recTime f.mtime) (makeIdentifier f.name joliet) parts _ hP
      (fun i _ => rfl) sectors_part (by have := hlo.2; omega) rest (parts - 1) 0 [] (by omega)
    simpa using this
  · have hrecs : fileRecs f joliet F = [⟨f.rLBA + F, f.size, recTime f.mtime, 0, makeIdentifier f.name joliet⟩] := by
      unfold fileRecs; simp [hbig]
    rw [hrecs]
    simp only [List.cons_append, List.nil_append]
    rw [assemble_last b _ _ _ (by simp [isDirRec]) (by simp [isMulti])]
    simp [extentBytes]

theorem fileRecs_not_dir (f : FileRef) (joliet : Bool) (F : Nat) : ∀ r ∈ fileRecs f joliet F, isDirRec r = false := by
  intro r hr
  unfold fileRecs at hr
  dsimp only at hr
  split at hr
  · rw [List.mem_map] at hr
    obtain ⟨i, _, rfl⟩ := hr
    generalize f.size / multiExtentPart + (if f.size % multiExtentPart > 0 then 1 else 0) = parts
    by_cases hl : (i == parts - 1) = true
    · simp only [hl, if_true]; simp [isDirRec]
    · simp only [hl, Bool.false_eq_true, if_false]; exact flag_multi.1
  · simp only [List.mem_singleton] at hr; subst hr; simp [isDirRec]

theorem assemble_childRecs (b : Bytes) (L : Layout) (joliet : Bool) (l : List Nat) :
    assemble b (l.filterMap (fun j => L.items[j]?.map (childRec L joliet j))) [] = [] := by
  induction l with
  | nil => simp [assemble]
  | cons j rest ih =>
    simp only [List.filterMap_cons]
    cases hj : L.items[j]? with
    | none => simpa [hj] using ih
    | some c =>
      simp only [Option.map_some]
      rw [assemble_dir b _ _ _ (by simp [isDirRec, childRec])]
      exact ih

/-- the files a reader assembles from the entries of a directory of a generated image -/
theorem assemble_dir_entries (b : Bytes) (L : Layout) (joliet : Bool) (it : DirItem) :
    assemble b (fileRecsAll L joliet it ++ childRecs L joliet it) [] =
      it.files.map (fun f => (makeIdentifier f.name joliet, slice b ((f.rLBA + L.filesLBA) * sectorSize) f.size)) := by
  unfold fileRecsAll childRecs
  generalize it.files = fs
  induction fs with
  | nil => simpa using assemble_childRecs b L joliet _
  | cons f rest ih =>
    simp only [List.map_cons, List.flatten_cons, List.append_assoc]
    rw [assemble_fileRecs, ih]


/-! ### what the scan knows about each file and each directory it recorded -/

open Ps3.Props.C07 in
/-- every file record of a directory names an entry of that directory which `stat` says is that very file -/
def FilesStat (w : World) (it : DirItem) : Prop :=
  ∀ f ∈ it.files, ∃ q, w.stat (it.path ++ [f.name]) = some (q, .file f.ino)

theorem scanEntries_stat (w : World) (path : Path) (names : List Name) :
    ∀ (files : List FileRef) (stack : List Path) (s : Nat) (files' : List FileRef) (stack' : List Path) (s' : Nat),
    scanEntries w path names files stack s = some (files', stack', s') →
      (∀ f ∈ files, ∃ q, w.stat (path ++ [f.name]) = some (q, .file f.ino)) →
      ∀ f ∈ files', ∃ q, w.stat (path ++ [f.name]) = some (q, .file f.ino) := by
  induction names with
  | nil =>
    intro files stack s files' stack' s' h h0
    simp [scanEntries] at h
    obtain ⟨rfl, _, _⟩ := h
    exact h0
  | cons n rest ih =>
    intro files stack s files' stack' s' h h0
    unfold scanEntries at h
    split at h
    · cases h
    · exact ih _ _ _ _ _ _ h h0
    · rename_i q i hst
      split at h
      · cases h
      · refine ih _ _ _ _ _ _ h ?_
        intro f hf
        rcases List.mem_append.mp hf with hf | hf
        · exact h0 f hf
        · simp only [List.mem_singleton] at hf
          subst hf
          exact ⟨q, hst⟩
    · cases h

open Ps3.Props.C07 in
/-- the scan invariant: every recorded directory is reachable from the root through directory entries,
    and every file record was obtained by `stat` of an entry of its directory -/
theorem scan_sound (w : World) (root : Path) (fuel : Nat) :
    ∀ (stack : List Path) (acc : List DirItem) (s : Nat) (items : List DirItem) (e : Nat),
    scan w fuel stack acc s = some (items, e) →
      (∀ p ∈ stack, Reach w root p) → (∀ it ∈ acc, Reach w root it.path ∧ FilesStat w it ∧ it.name = it.path.getLast?.getD []) →
      ∀ it ∈ items, Reach w root it.path ∧ FilesStat w it ∧ it.name = it.path.getLast?.getD [] := by
  induction fuel with
  | zero =>
    intro stack acc s items e h _ hacc
    unfold scan at h
    split at h
    · cases h; exact hacc
    · cases h
    · omega
  | succ fuel ih =>
    intro stack acc s items e h hstk hacc
    unfold scan at h
    split at h
    · cases h; exact hacc
    · omega
    · rename_i stack acc s _ _ _ _ fuel' hfu _
      have hf : fuel' = fuel := by omega
      subst hf
      split at h
      · cases h; exact hacc
      · rename_i path hlast
        split at h
        · rename_i q mt hst
          split at h
          · cases h
          · rename_i files stack' s' hse
            obtain ⟨_, hstack', _⟩ := scanEntries_partition w path (dirNames w q) [] _ _ _ _ _ hse
            have hsplit : stack = stack.dropLast ++ [path] := split_last stack path hlast
            have hpath : Reach w root path := hstk path (by rw [hsplit]; simp)
            refine ih _ _ _ _ _ h ?_ ?_
            · intro p hp
              rw [hstack'] at hp
              rcases List.mem_append.mp hp with hp | hp
              · exact hstk p (by rw [hsplit]; exact List.mem_append_left _ hp)
              · obtain ⟨n, hn, rfl⟩ := List.mem_map.mp hp
                rw [List.mem_filter] at hn
                exact Reach.child path q mt n hpath hst hn.1 hn.2
            · intro it hit
              rcases List.mem_append.mp hit with hit | hit
              · exact hacc it hit
              · simp only [List.mem_singleton] at hit
                subst hit
                exact ⟨hpath, scanEntries_stat w path _ _ _ _ _ _ _ hse (by simp), rfl⟩
        · cases h


open Ps3.Props.C07 in
/-- the first directory of every image is the root itself -/
theorem scan_head (w : World) (root : Path) (items : List DirItem) (e : Nat)
    (h : scan w scanFuel [root] [] 0 = some (items, e)) : ∃ it, items[0]? = some it ∧ it.path = root := by
  have hf : scanFuel = 99999 + 1 := rfl
  rw [hf] at h
  unfold scan at h
  split at h
  · rename_i hlast; simp at hlast
  · rename_i path hlast
    have hp : path = root := by simpa using hlast.symm
    subst hp
    split at h
    · rename_i q mt hst
      split at h
      · cases h
      · rename_i files _ _ _
        obtain ⟨⟨tail, htail⟩, _, _⟩ := scan_visits w _ _ _ _ _ _ h
        refine ⟨⟨path, path.getLast?.getD [], mt, files⟩, ?_, rfl⟩
        rw [htail]; simp
    · cases h

open Ps3.Props.C07 in
theorem reach_extends (w : World) (root p : Path) (h : Reach w root p) : ∃ rel, p = root ++ rel := by
  induction h with
  | root => exact ⟨[], by simp⟩
  | child p q mt n _ _ _ _ ih =>
    obtain ⟨rel, rfl⟩ := ih
    exact ⟨rel ++ [n], by simp⟩

open Ps3.Props.C07 in
/-- everything `layoutOf` establishes about the directory list, in one place -/
structure TreeFacts (w : World) (root : Path) (L : Layout) : Prop where
  head : ∃ it, L.items[0]? = some it ∧ it.path = root
  rootLen : L.rootLen = root.length
  complete : ∀ p, Reach w root p → p ∈ L.items.map (·.path)
  itemOk : ∀ it ∈ L.items, ItemOk w L.items it
  sound : ∀ it ∈ L.items, Reach w root it.path ∧ FilesStat w it ∧ it.name = it.path.getLast?.getD []

open Ps3.Props.C07 in
theorem layoutOf_tree (w : World) (root : Path) (ps3 : Bool) (L : Layout) (h : layoutOf w root ps3 = some L) :
    TreeFacts w root L := by
  have h := (layoutOf_some h).1
  unfold layoutRaw at h
  split at h
  · split at h
    · cases h
    · split at h
      · cases h
      · rename_i items fsec hscan
        cases h
        obtain ⟨hc, hok⟩ := scan_complete w root items fsec hscan
        exact ⟨scan_head w root items fsec hscan, rfl, hc, hok,
          scan_sound w root scanFuel [root] [] 0 items fsec hscan (by intro p hp; simp at hp; subst hp; exact Reach.root)
            (by intro it hit; cases hit)⟩
  · cases h


/-! ### the bytes of every file -/

open Ps3.Proof.BuildWF in
theorem runOk_sizes (w : World) : ∀ (fs : List FileRef) (s e : Nat), runOk w s fs e →
    ∀ f ∈ fs, (cfOf w f.ino).size = f.size := by
  intro fs
  induction fs with
  | nil => intro _ _ _ f hf; cases hf
  | cons g rest ih =>
    intro s e h f hf
    obtain ⟨_, ⟨i, hi, hsz⟩, hrest⟩ := h
    rcases List.mem_cons.mp hf with rfl | hf
    · simp [cfOf, hi, hsz]
    · exact ih _ _ hrest f hf

open Ps3.Proof.BuildWF in
/-- **the extent of every file of every directory holds exactly the file's bytes** — empty files,
    sizes that are not a multiple of the sector size, files of more than 4 GiB alike -/
theorem file_bytes (w : World) (root : Path) (ps3 : Bool) (clk : Clock) (filler : Bytes) (L : Layout)
    (hL : layoutOf w root ps3 = some L) (it : DirItem) (hit : it ∈ L.items) (f : FileRef) (hf : f ∈ it.files) :
    slice (flat (imageOf L ps3 clk filler) (cfOf w)) ((f.rLBA + L.filesLBA) * sectorSize) f.size = (cfOf w f.ino).all := by
  have F := layoutOf_facts w root ps3 L hL
  obtain ⟨e, hrun, _⟩ := F.run
  have hall : f ∈ allFiles L.items := by
    unfold allFiles
    rw [List.mem_flatten]
    exact ⟨it.files, List.mem_map.mpr ⟨it, hit, rfl⟩, hf⟩
  have hsz := runOk_sizes w _ _ _ hrun f hall
  by_cases h0 : f.size = 0
  · have hlen : (cfOf w f.ino).all.length = 0 := by rw [Proof.Content.all_length, hsz, h0]
    rw [h0, Proof.Slice.slice_zero_len]
    exact (List.eq_nil_of_length_eq_zero hlen).symm
  · have himg : build w root ps3 clk filler = some (imageOf L ps3 clk filler) := by simp [build, hL]
    have hwf := build_wf w root ps3 clk filler _ himg
    have hmem : (⟨f.ino, f.size, f.rLBA + L.filesLBA⟩ : FileExt) ∈ (imageOf L ps3 clk filler).files := by
      show _ ∈ L.files
      unfold Layout.files
      rw [List.mem_map]
      exact ⟨f, List.mem_filter.mpr ⟨hall, by simpa using h0⟩, rfl⟩
    exact (Ps3.Props.C07.extent_content _ _ hwf ⟨f.ino, f.size, f.rLBA + L.filesLBA⟩ hmem).1


/-! ### `Fits` reduced to: no directory holds 4 GiB of records -/

/-- the only thing about a generated image that could fail to fit a 32-bit field -/
def DirLensFit (L : Layout) (joliet : Bool) : Prop := ∀ j, j < L.items.length → dirLen L.items joliet j < 2 ^ 32

open Ps3.Proof.BuildWF in
theorem runOk_bounds (w : World) : ∀ (fs : List FileRef) (s e : Nat), runOk w s fs e →
    s ≤ e ∧ ∀ f ∈ fs, f.rLBA + sectors f.size ≤ e := by
  intro fs
  induction fs with
  | nil => intro s e h; exact ⟨Nat.le_of_eq h, fun f hf => by cases hf⟩
  | cons g rest ih =>
    intro s e h
    obtain ⟨h1, _, hrest⟩ := h
    obtain ⟨hle, hall⟩ := ih _ _ hrest
    refine ⟨by omega, ?_⟩
    intro f hf
    rcases List.mem_cons.mp hf with rfl | hf
    · omega
    · exact hall f hf

/-- every extent of a file starts inside the file's own sector run -/
theorem fileRecs_loc (f : FileRef) (joliet : Bool) (F : Nat) : ∀ r ∈ fileRecs f joliet F,
    r.extLoc ≤ f.rLBA + sectors f.size + F := by
  intro r hr
  have hpart : multiExtentPart = 2 ^ 32 - 2048 := by decide
  unfold fileRecs at hr
  dsimp only at hr
  split at hr
  · rw [List.mem_map] at hr
    obtain ⟨i, hi, hr⟩ := hr
    rw [List.mem_range] at hi
    have hP : 0 < multiExtentPart := by rw [hpart]; decide
    have htot := Ps3.Props.C07.multi_extent_total f.size multiExtentPart hP
    generalize f.size / multiExtentPart + (if f.size % multiExtentPart > 0 then 1 else 0) = parts at hi htot hr
    have hlo := (htot.2 (by omega)).2
    -- i * sectors P ≤ (parts-1) * sectors P < sectors size
    have h1 : i * sectors multiExtentPart ≤ (parts - 1) * sectors multiExtentPart := Nat.mul_le_mul_right _ (by omega)
    have h2 : (parts - 1) * sectors multiExtentPart * sectorSize < sectors f.size * sectorSize := by
      rw [Nat.mul_assoc, sectors_part]
      have := Proof.Viso.sectors_mul_ge f.size
      omega
    have h3 := Nat.lt_of_mul_lt_mul_right h2
    have hloc : r.extLoc = f.rLBA + i * sectors multiExtentPart + F := by
      rw [← hr]; split <;> rfl
    rw [hloc]; omega
  · simp only [List.mem_singleton] at hr
    subst hr
    show f.rLBA + F ≤ _
    omega

open Ps3.Proof.BuildWF in
/-- **`Fits` holds for every generated image in which no single directory extent reaches 4 GiB**: sector
    numbers are below 2^31 (the tree would have been refused otherwise), file extent lengths are cut to fit -/
theorem fits_of_dirLens (w : World) (root : Path) (ps3 : Bool) (L : Layout) (hL : layoutOf w root ps3 = some L)
    (joliet : Bool) (h : DirLensFit L joliet) : Fits L joliet := by
  have F := layoutOf_facts w root ps3 L hL
  have hv := volume_fits w root ps3 L hL
  have hmax : maxSector = 2 ^ 31 - 1 := rfl
  have hs : sectorSize = 2048 := rfl
  obtain ⟨e, hrun, hvol⟩ := F.run
  -- a directory location is a sector of the metadata area
  have hloc : ∀ j, j < L.items.length → dirLoc L.items joliet (dirBase L joliet) j < 2 ^ 32 := by
    intro j hj
    have := dir_inside_meta w L F joliet j hj
    rw [hs] at this
    omega
  intro k it hk r hr
  have hklt := lt_length_of_getElem? hk
  unfold recsOfDir finalRecs at hr
  simp only [List.mem_append, List.mem_cons, List.mem_flatten, List.mem_map, List.mem_filterMap] at hr
  rcases hr with ((rfl | rfl | hnil) | ⟨l, ⟨f, hf, rfl⟩, hr⟩) | ⟨j, hj, hjr⟩
  · exact ⟨hloc k hklt, h k hklt⟩
  · cases hp : parentIdx L.items it L.rootLen with
    | none => simp only []; exact ⟨hloc k hklt, h k hklt⟩
    | some p =>
      have hplt : p < L.items.length := by
        unfold parentIdx at hp
        split at hp
        · cases hp
        · exact (List.findIdx?_eq_some_iff_getElem.mp hp).1
      simp only []
      exact ⟨hloc p hplt, h p hplt⟩
  · cases hnil
  · refine ⟨?_, Ps3.Props.C07.extent_len_fits f joliet L.filesLBA r hr⟩
    have hall : f ∈ allFiles L.items := by
      unfold allFiles
      rw [List.mem_flatten]
      exact ⟨it.files, List.mem_map.mpr ⟨it, List.mem_of_getElem? hk, rfl⟩, hf⟩
    have hb := (runOk_bounds w _ _ _ hrun).2 f hall
    have := fileRecs_loc f joliet L.filesLBA r hr
    omega
  · unfold childrenIdx at hj
    rw [List.mem_filter, List.mem_range] at hj
    cases hc : L.items[j]? with
    | none => simp [hc] at hjr
    | some c =>
      simp only [hc, Option.map_some, Option.some.injEq] at hjr
      subst hjr
      exact ⟨hloc j hj.1, h j hj.1⟩

end Ps3.Proof.IsoTree
