import Ps3.Model.Conn
import Ps3.Spec.Proto
namespace Ps3.Proof.Proto
open Ps3 Ps3.Conn Ps3.Proto Ps3.Spec.Proto

theorem fromBE_beN_lt (w v : Nat) (h : v < 256 ^ w) : fromBE (beN w v) = v := by
  rw [fromBE_beN, Nat.mod_eq_of_lt h]

theorem take_beN (n w v : Nat) (h : w ≤ n) : List.take n (beN w v) = beN w v :=
  List.take_of_length_le (by simpa using h)
theorem drop_beN (n w v : Nat) (h : w ≤ n) : List.drop n (beN w v) = [] :=
  List.drop_eq_nil_of_le (by simpa using h)
theorem take_zeros (n w : Nat) (h : w ≤ n) : List.take n (zeros w) = zeros w :=
  List.take_of_length_le (by simpa using h)
theorem drop_zeros (n w : Nat) (h : w ≤ n) : List.drop n (zeros w) = [] :=
  List.drop_eq_nil_of_le (by simpa using h)

/-- the tactic that evaluates `decode` on a spec-encoded request -/
macro "decode_simp" "[" extra:Lean.Parser.Tactic.simpLemma,* "]" : tactic =>
  `(tactic| simp [cmdSize, Layout.size, Gen.proto_layout_Command, getField, Layout.field, Layout.field.go, slice,
      List.take_append, List.drop_append, take_beN, drop_beN, take_zeros, drop_zeros,
      Gen.proto_CmdStatFile, Gen.proto_CmdOpenDir, Gen.proto_CmdReadDir, Gen.proto_CmdReadDirEntry,
      Gen.proto_CmdReadDirEntryV2, Gen.proto_CmdOpenFile, Gen.proto_CmdReadFile, Gen.proto_CmdReadFileCritical,
      Gen.proto_CmdReadCD2048Critical, Gen.proto_CmdCreateFile, Gen.proto_CmdWriteFile, Gen.proto_CmdDeleteFile,
      Gen.proto_CmdMkdir, Gen.proto_CmdRmdir, Gen.proto_CmdGetDirSize,
      Gen.proto_layout_ReadFileCommand, Gen.proto_layout_StatFileCommand, Gen.proto_layout_OpenDirCommand,
      Gen.proto_layout_CreateFileCommand, Gen.proto_layout_DeleteFileCommand, Gen.proto_layout_MkdirCommand,
      Gen.proto_layout_RmdirCommand, Gen.proto_layout_GetDirSizeCommand, Gen.proto_layout_WriteFileCommand,
      Gen.proto_layout_ReadCD2048CriticalCommand, $extra,*])

theorem op_roundtrip : ∀ op ∈ [4644, 4645, 4646, 4647, 4648, 4649, 4650, 4651, 4652, 4653, 4654, 4655, 4656, 4657, 4658],
    fromBE (beN 2 op) = op := by decide

theorem decode_readFile (limit off : Nat) (rest : Bytes) (hl : limit < 2 ^ 32) (ho : off < 2 ^ 64) :
    decode (encReadReq Gen.proto_CmdReadFile limit off ++ rest) = .req (.readFile limit off) rest := by
  unfold decode encReadReq
  have hop : fromBE (beN 2 4647) = 4647 := by decide
  have h1 : fromBE (beN 4 limit) = limit := fromBE_beN_lt 4 _ (by simpa using hl)
  have h2 : fromBE (beN 8 off) = off := fromBE_beN_lt 8 _ (by simpa using ho)
  decode_simp [hop, h1, h2]
  omega

theorem decode_readFileCritical (limit off : Nat) (rest : Bytes) (hl : limit < 2 ^ 32) (ho : off < 2 ^ 64) :
    decode (encReadReq Gen.proto_CmdReadFileCritical limit off ++ rest) = .req (.readFileCritical limit off) rest := by
  unfold decode encReadReq
  have hop : fromBE (beN 2 4645) = 4645 := by decide
  have h1 : fromBE (beN 4 limit) = limit := fromBE_beN_lt 4 _ (by simpa using hl)
  have h2 : fromBE (beN 8 off) = off := fromBE_beN_lt 8 _ (by simpa using ho)
  decode_simp [hop, h1, h2]
  omega

theorem decode_readCD (start count : Nat) (rest : Bytes) (hs : start < 2 ^ 32) (hc : count < 2 ^ 32) :
    decode (encReadCDReq Gen.proto_CmdReadCD2048Critical start count ++ rest) = .req (.readCD start count) rest := by
  unfold decode encReadCDReq
  have hop : fromBE (beN 2 4646) = 4646 := by decide
  have h1 : fromBE (beN 4 start) = start := fromBE_beN_lt 4 _ (by simpa using hs)
  have h2 : fromBE (beN 4 count) = count := fromBE_beN_lt 4 _ (by simpa using hc)
  decode_simp [hop, h1, h2]
  omega


theorem decode_openDir (p rest : Bytes) (hp : p.length < 65536) :
    decode (encPathReq Gen.proto_CmdOpenDir p ++ rest) = .req (.openDir p) rest := by
  unfold decode encPathReq
  have hop : fromBE (beN 2 4650) = 4650 := by decide
  have hlen : fromBE (beN 2 p.length) = p.length := fromBE_beN_lt 2 _ (by simpa using hp)
  decode_simp [hop, hlen]
  (repeat' split) <;> first | rfl | omega

theorem decode_statFile (p rest : Bytes) (hp : p.length < 65536) :
    decode (encPathReq Gen.proto_CmdStatFile p ++ rest) = .req (.statFile p) rest := by
  unfold decode encPathReq
  have hop : fromBE (beN 2 4656) = 4656 := by decide
  have hlen : fromBE (beN 2 p.length) = p.length := fromBE_beN_lt 2 _ (by simpa using hp)
  decode_simp [hop, hlen]
  (repeat' split) <;> first | rfl | omega

theorem decode_openFile (p rest : Bytes) (hp : p.length < 65536) :
    decode (encPathReq Gen.proto_CmdOpenFile p ++ rest) = .req (.openFile p) rest := by
  unfold decode encPathReq
  have hop : fromBE (beN 2 4644) = 4644 := by decide
  have hlen : fromBE (beN 2 p.length) = p.length := fromBE_beN_lt 2 _ (by simpa using hp)
  decode_simp [hop, hlen]
  (repeat' split) <;> first | rfl | omega

theorem decode_createFile (p rest : Bytes) (hp : p.length < 65536) :
    decode (encPathReq Gen.proto_CmdCreateFile p ++ rest) = .req (.createFile p) rest := by
  unfold decode encPathReq
  have hop : fromBE (beN 2 4648) = 4648 := by decide
  have hlen : fromBE (beN 2 p.length) = p.length := fromBE_beN_lt 2 _ (by simpa using hp)
  decode_simp [hop, hlen]
  (repeat' split) <;> first | rfl | omega

theorem decode_deleteFile (p rest : Bytes) (hp : p.length < 65536) :
    decode (encPathReq Gen.proto_CmdDeleteFile p ++ rest) = .req (.deleteFile p) rest := by
  unfold decode encPathReq
  have hop : fromBE (beN 2 4652) = 4652 := by decide
  have hlen : fromBE (beN 2 p.length) = p.length := fromBE_beN_lt 2 _ (by simpa using hp)
  decode_simp [hop, hlen]
  (repeat' split) <;> first | rfl | omega

theorem decode_mkdir (p rest : Bytes) (hp : p.length < 65536) :
    decode (encPathReq Gen.proto_CmdMkdir p ++ rest) = .req (.mkdir p) rest := by
  unfold decode encPathReq
  have hop : fromBE (beN 2 4653) = 4653 := by decide
  have hlen : fromBE (beN 2 p.length) = p.length := fromBE_beN_lt 2 _ (by simpa using hp)
  decode_simp [hop, hlen]
  (repeat' split) <;> first | rfl | omega

theorem decode_rmdir (p rest : Bytes) (hp : p.length < 65536) :
    decode (encPathReq Gen.proto_CmdRmdir p ++ rest) = .req (.rmdir p) rest := by
  unfold decode encPathReq
  have hop : fromBE (beN 2 4654) = 4654 := by decide
  have hlen : fromBE (beN 2 p.length) = p.length := fromBE_beN_lt 2 _ (by simpa using hp)
  decode_simp [hop, hlen]
  (repeat' split) <;> first | rfl | omega

theorem decode_getDirSize (p rest : Bytes) (hp : p.length < 65536) :
    decode (encPathReq Gen.proto_CmdGetDirSize p ++ rest) = .req (.getDirSize p) rest := by
  unfold decode encPathReq
  have hop : fromBE (beN 2 4657) = 4657 := by decide
  have hlen : fromBE (beN 2 p.length) = p.length := fromBE_beN_lt 2 _ (by simpa using hp)
  decode_simp [hop, hlen]
  (repeat' split) <;> first | rfl | omega

theorem decode_readDir (rest : Bytes) :
    decode (encBareReq Gen.proto_CmdReadDir ++ rest) = .req .readDir rest := by
  unfold decode encBareReq
  have hop : fromBE (beN 2 4658) = 4658 := by decide
  decode_simp [hop]
  omega

theorem decode_readDirEntry (rest : Bytes) :
    decode (encBareReq Gen.proto_CmdReadDirEntry ++ rest) = .req .readDirEntry rest := by
  unfold decode encBareReq
  have hop : fromBE (beN 2 4651) = 4651 := by decide
  decode_simp [hop]
  omega

theorem decode_readDirEntryV2 (rest : Bytes) :
    decode (encBareReq Gen.proto_CmdReadDirEntryV2 ++ rest) = .req .readDirEntryV2 rest := by
  unfold decode encBareReq
  have hop : fromBE (beN 2 4655) = 4655 := by decide
  decode_simp [hop]
  omega

theorem decode_writeFile (payload rest : Bytes) (hp : payload.length < 2 ^ 32) :
    decode (encWriteReq Gen.proto_CmdWriteFile payload ++ rest) = .req (.writeFile payload.length payload) rest := by
  unfold decode encWriteReq
  have hop : fromBE (beN 2 4649) = 4649 := by decide
  have hlen : fromBE (beN 4 payload.length) = payload.length := fromBE_beN_lt 4 _ (by simpa using hp)
  decode_simp [hop, hlen]
  (repeat' split) <;> first | rfl | omega

end Ps3.Proof.Proto
