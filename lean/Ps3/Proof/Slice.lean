import Ps3.Base.Bytes
namespace Ps3.Proof.Slice
open Ps3

theorem slice_nil {α : Type} (off n : Nat) : slice ([] : List α) off n = [] := by simp [slice]

theorem slice_zero_len {α : Type} (l : List α) (off : Nat) : slice l off 0 = [] := by simp [slice]

theorem slice_beyond {α : Type} (l : List α) (off n : Nat) (h : l.length ≤ off) : slice l off n = [] := by
  simp [slice, List.drop_eq_nil_of_le h]

/-- general splitting of a slice over an append -/
theorem slice_append {α : Type} (a b : List α) (off n : Nat) :
    slice (a ++ b) off n = slice a off n ++ slice b (off - a.length) (n - (slice a off n).length) := by
  unfold slice
  rw [List.drop_append, List.take_append]
  simp only [List.length_take, List.length_drop]
  congr 2
  omega

theorem slice_zeros (m p k : Nat) : slice (zeros m) p k = zeros (min k (m - p)) := by
  simp [slice, zeros, List.take_replicate, List.drop_replicate]

theorem slice_slice_zero {α : Type} (l : List α) (n : Nat) : slice l 0 n = l.take n := by simp [slice]

theorem slice_length_le {α : Type} (l : List α) (off n : Nat) : (slice l off n).length ≤ n := by
  simp [slice_length]; omega

end Ps3.Proof.Slice
