import Ps3.Spec.Viso
import Ps3.Proof.Content
namespace Ps3.Proof.Viso
open Ps3 Ps3.Viso Ps3.Spec.Viso Ps3.Proof.Slice Ps3.Proof.Content

theorem sectorSize_eq : sectorSize = 2048 := rfl

theorem sectors_mul_ge (b : Nat) : b ≤ sectors b * sectorSize := by
  unfold sectors; rw [sectorSize_eq]
  split <;> omega

theorem sectors_mul_eq_of_dvd (b : Nat) (h : b % sectorSize = 0) : sectors b * sectorSize = b := by
  unfold sectors; rw [sectorSize_eq] at *
  simp [h]; omega

theorem fileBytes_length (cf : Nat → Content) (f : FileExt) (hs : (cf f.ino).size = f.size) :
    (fileBytes cf f).length = padded f := by
  unfold fileBytes padded
  rw [List.length_append, Content.read_length, zeros_length, hs]
  have := sectors_mul_ge f.size
  simp; omega

/-- one file: content part ++ zero part = window of the file's padded bytes -/
theorem readFiles_step (cf : Nat → Content) (f : FileExt) (hs : (cf f.ino).size = f.size) (fo remain : Nat) :
    let A := (cf f.ino).read 0 f.size
    let data := if fo < f.size then (cf f.ino).read fo (min remain (f.size - fo)) else []
    data = slice A fo remain := by
  intro A data
  have hA : A = (cf f.ino).all := by simp [A, Content.all, hs]
  have hlen : A.length = f.size := by rw [hA, all_length, hs]
  simp only [data]
  split
  · rw [read_eq_slice_all, hA]
    unfold slice
    rw [List.take_eq_take_iff]
    rw [List.length_drop, all_length, hs]
    omega
  · rw [slice_beyond _ _ _ (by omega)]

theorem readFiles_eq (cf : Nat → Content) :
    ∀ (fs : List FileExt) (start off remain : Nat), Consec start fs → (∀ f ∈ fs, (cf f.ino).size = f.size) →
      start ≤ off → readFiles cf fs off remain = slice (flatFiles cf fs) (off - start) remain := by
  intro fs
  induction fs with
  | nil => intro start off remain _ _ _; simp [readFiles, flatFiles, slice_nil]
  | cons f rest ih =>
    intro start off remain hc hsz hle
    obtain ⟨hstart, hrest⟩ := hc
    have hs : (cf f.ino).size = f.size := hsz f List.mem_cons_self
    have hszr : ∀ g ∈ rest, (cf g.ino).size = g.size := fun g hg => hsz g (List.mem_cons_of_mem _ hg)
    unfold readFiles
    by_cases hr : remain = 0
    · subst hr; simp [slice_zero_len]
    · have hr' : (remain == 0) = false := by simpa using hr
      simp only [hr', Bool.false_eq_true, if_false]
      rw [hstart]
      have hdata := readFiles_step cf f hs (off - start) remain
      simp only at hdata
      rw [hdata]
      -- abbreviations
      generalize hA : (cf f.ino).read 0 f.size = A
      have hAlen : A.length = f.size := by rw [← hA, Content.read_length, hs]; simp
      have hpad := sectors_mul_ge f.size
      have hflat : flatFiles cf (f :: rest) = (A ++ zeros (sectors f.size * sectorSize - f.size)) ++ flatFiles cf rest := by
        simp [flatFiles, fileBytes, padded, hA]
      have hdl : (slice A (off - start) remain).length = min remain (f.size - (off - start)) := by
        rw [slice_length, hAlen]
      generalize hD : slice A (off - start) remain = D at hdl ⊢
      -- the zero part
      have hz : (if f.size % sectorSize > 0 ∧ remain - D.length > 0
            then min (start + sectors f.size * sectorSize - (off + D.length)) (remain - D.length) else 0)
          = min (remain - D.length) (sectors f.size * sectorSize - f.size - (off - start - f.size)) := by
        rw [hdl]
        by_cases hm : f.size % sectorSize > 0
        · by_cases hrem : remain - min remain (f.size - (off - start)) > 0
          · simp only [hm, hrem, and_self, if_true]; omega
          · simp only [hrem, and_false, if_false]; omega
        · have : sectors f.size * sectorSize = f.size := sectors_mul_eq_of_dvd _ (by omega)
          simp only [hm, false_and, if_false]; omega
      rw [hz]
      generalize hZ : min (remain - D.length) (sectors f.size * sectorSize - f.size - (off - start - f.size)) = Z
      have hlenAZ : (A ++ zeros (sectors f.size * sectorSize - f.size)).length = sectors f.size * sectorSize := by
        rw [List.length_append, hAlen, zeros_length]; omega
      -- right-hand side
      have hrhs : slice (flatFiles cf (f :: rest)) (off - start) remain =
          (D ++ zeros Z) ++ slice (flatFiles cf rest) (off - start - sectors f.size * sectorSize) (remain - (D.length + Z)) := by
        rw [hflat, slice_append (A ++ zeros _), slice_append A, hD, slice_zeros, hAlen, hZ, hlenAZ,
          List.length_append, zeros_length]
      rw [hrhs]
      congr 1
      -- the rest of the files
      have hih := ih (start + padded f) (off + D.length + Z) (remain - D.length - Z) hrest hszr
      unfold padded at hih
      by_cases hbig : remain ≤ sectors f.size * sectorSize - (off - start)
      · have h0 : remain - D.length - Z = 0 := by omega
        have h0' : remain - (D.length + Z) = 0 := by omega
        rw [h0, h0', slice_zero_len]
        cases rest <;> simp [readFiles]
      · have hoff : off + D.length + Z = max off (start + sectors f.size * sectorSize) := by omega
        rw [hoff] at hih ⊢
        rw [hih (by omega)]
        congr 1 <;> omega


theorem flatFiles_cons (cf : Nat → Content) (f : FileExt) (rest : List FileExt) :
    flatFiles cf (f :: rest) = fileBytes cf f ++ flatFiles cf rest := by simp [flatFiles]

/-- the sector lookup of filesToRead: dropping the files that end at or before `off` does not
    change the window, and the first file kept starts at or before `off` -/
theorem dropWhile_spec (cf : Nat → Content) (off rem : Nat) :
    ∀ (fs : List FileExt) (start : Nat), Consec start fs → (∀ f ∈ fs, (cf f.ino).size = f.size) → start ≤ off →
      ∃ start', Consec start' (fs.dropWhile (fun f => decide (off / sectorSize ≥ f.lba + sectors f.size))) ∧
        start' ≤ off ∧
        slice (flatFiles cf fs) (off - start) rem =
          slice (flatFiles cf (fs.dropWhile (fun f => decide (off / sectorSize ≥ f.lba + sectors f.size)))) (off - start') rem := by
  intro fs
  induction fs with
  | nil => intro start _ _ hle; exact ⟨start, trivial, hle, rfl⟩
  | cons f rest ih =>
    intro start hc hsz hle
    obtain ⟨hstart, hrest⟩ := hc
    have hs : (cf f.ino).size = f.size := hsz f List.mem_cons_self
    have hszr : ∀ g ∈ rest, (cf g.ino).size = g.size := fun g hg => hsz g (List.mem_cons_of_mem _ hg)
    by_cases hd : off / sectorSize ≥ f.lba + sectors f.size
    · -- dropped: off lies at or after the end of this file
      have hend : start + padded f ≤ off := by
        unfold padded
        have h1 : (f.lba + sectors f.size) * sectorSize ≤ off / sectorSize * sectorSize := Nat.mul_le_mul_right _ hd
        have h2 : off / sectorSize * sectorSize ≤ off := Nat.div_mul_le_self _ _
        rw [Nat.add_mul, hstart] at h1
        omega
      obtain ⟨s', hc', hle', heq⟩ := ih (start + padded f) hrest hszr hend
      refine ⟨s', ?_, hle', ?_⟩
      · simpa [List.dropWhile_cons, hd] using hc'
      · rw [List.dropWhile_cons]
        simp only [hd, decide_true, if_true]
        rw [← heq, flatFiles_cons, slice_append, slice_beyond _ _ _ (by rw [fileBytes_length cf f hs]; omega),
          fileBytes_length cf f hs]
        simp only [List.nil_append, List.length_nil, Nat.sub_zero]
        congr 1; omega
    · refine ⟨start, ?_, hle, ?_⟩
      · simp only [List.dropWhile_cons, hd, decide_false, Bool.false_eq_true, if_false]
        exact ⟨hstart, hrest⟩
      · simp only [List.dropWhile_cons, hd, decide_false, Bool.false_eq_true, if_false]

theorem flatFiles_length (cf : Nat → Content) (fs : List FileExt) (hsz : ∀ f ∈ fs, (cf f.ino).size = f.size) :
    (flatFiles cf fs).length = (fs.map padded).sum := by
  induction fs with
  | nil => rfl
  | cons f rest ih =>
    rw [flatFiles_cons, List.length_append, fileBytes_length cf f (hsz f List.mem_cons_self),
      ih (fun g hg => hsz g (List.mem_cons_of_mem _ hg))]
    simp

theorem flat_length (img : Image) (cf : Nat → Content) (h : WF img cf) : (flat img cf).length = img.totalSize := by
  unfold flat
  rw [List.length_append, List.length_append, zeros_length, h.total, h.padStart, flatFiles_length cf _ h.sizes]
  omega

/-- **C09 core**: any read of a well-formed generated image, at any offset and with any buffer
    size, returns exactly the corresponding slice of the one canonical byte string. -/
theorem read_eq_slice (img : Image) (cf : Nat → Content) (h : WF img cf) (off n : Nat) :
    img.read cf off n = slice (flat img cf) off n := by
  have hlen := flat_length img cf h
  unfold Image.read
  by_cases h0 : off ≥ img.totalSize ∨ (n == 0) = true
  · simp only [h0, if_true]
    rcases h0 with h0 | h0
    · rw [slice_beyond _ _ _ (by omega)]
    · have : n = 0 := by simpa using h0
      subst this; rw [slice_zero_len]
  · simp only [h0, if_false]
    have hoff : off < img.totalSize := by omega
    have hn : n ≠ 0 := by intro hn; apply h0; right; simp [hn]
    -- part 1
    have hp1 : (if off < img.fsBuf.length then slice img.fsBuf off n else []) = slice img.fsBuf off n := by
      split
      · rfl
      · rw [slice_beyond _ _ _ (by omega)]
    rw [hp1]
    generalize hP1 : slice img.fsBuf off n = P1
    have hP1len : P1.length = min n (img.fsBuf.length - off) := by rw [← hP1, slice_length]
    have hF : img.padAreaStart = img.fsBuf.length + (flatFiles cf img.files).length := by
      rw [flatFiles_length cf _ h.sizes]; exact h.padStart
    have hT := h.total
    generalize hFl : flatFiles cf img.files = F at hF
    have hflat : flat img cf = img.fsBuf ++ (F ++ zeros img.padAreaSize) := by unfold flat; rw [hFl]
    rw [hflat, slice_append, hP1]
    by_cases h1 : off + P1.length ≥ img.totalSize ∨ (n - P1.length == 0) = true
    · simp only [h1, if_true]
      have : slice (F ++ zeros img.padAreaSize) (off - img.fsBuf.length) (n - P1.length) = [] := by
        rcases h1 with h1 | h1
        · apply slice_beyond
          rw [List.length_append, zeros_length]; omega
        · have : n - P1.length = 0 := by simpa using h1
          rw [this, slice_zero_len]
      rw [this, List.append_nil]
    · simp only [h1, if_false]
      have hr1 : n - P1.length ≠ 0 := by intro hh; apply h1; right; simp [hh]
      have hoff1 : off + P1.length < img.totalSize := by omega
      have hge : img.fsBuf.length ≤ off + P1.length := by omega
      have hsub : off - img.fsBuf.length = off + P1.length - img.fsBuf.length := by omega
      rw [hsub]
      generalize hO1 : off + P1.length = off1 at *
      generalize hR1 : n - P1.length = rem1 at *
      -- part 2
      have hp2 : (if off1 < img.padAreaStart then
            if (img.files.dropWhile (fun f => decide (off1 / sectorSize ≥ f.lba + sectors f.size))).isEmpty = true then []
            else if off1 / sectorSize <
                (((img.files.dropWhile (fun f => decide (off1 / sectorSize ≥ f.lba + sectors f.size))).head?.map (·.lba)).getD 0) then []
            else readFiles cf (img.files.dropWhile (fun f => decide (off1 / sectorSize ≥ f.lba + sectors f.size))) off1 rem1
          else []) = slice F (off1 - img.fsBuf.length) rem1 := by
        split
        · obtain ⟨s', hc', hle', heq⟩ := dropWhile_spec cf off1 rem1 img.files img.fsBuf.length h.consec h.sizes hge
          rw [hFl] at heq
          rw [heq]
          have hsub : ∀ f ∈ img.files.dropWhile (fun f => decide (off1 / sectorSize ≥ f.lba + sectors f.size)), (cf f.ino).size = f.size :=
            fun f hf => h.sizes f ((List.dropWhile_sublist _).subset hf)
          generalize img.files.dropWhile (fun f => decide (off1 / sectorSize ≥ f.lba + sectors f.size)) = dw at hc' hsub ⊢
          cases dw with
          | nil => simp [flatFiles, slice_nil]
          | cons g rest =>
            have hg : g.lba * sectorSize = s' := hc'.1
            have : ¬ off1 / sectorSize < g.lba := by
              intro hlt
              have : (off1 / sectorSize + 1) * sectorSize ≤ g.lba * sectorSize := Nat.mul_le_mul_right _ hlt
              have h2 : off1 < (off1 / sectorSize + 1) * sectorSize := by
                rw [sectorSize_eq]; omega
              omega
            simp only [List.isEmpty_cons, Bool.false_eq_true, if_false, List.head?_cons, Option.map_some, Option.getD_some, this]
            exact readFiles_eq cf (g :: rest) s' off1 rem1 hc' hsub hle'
        · rw [slice_beyond _ _ _ (by omega)]
      rw [hp2]
      generalize hP2 : slice F (off1 - img.fsBuf.length) rem1 = P2
      have hP2len : P2.length = min rem1 (F.length - (off1 - img.fsBuf.length)) := by rw [← hP2, slice_length]
      rw [slice_append, hP2, slice_zeros]
      -- part 3
      have hp3 : (if off1 + P2.length ≥ img.padAreaStart ∧ off1 + P2.length < img.totalSize then
            zeros (min (img.padAreaSize - (off1 + P2.length - img.padAreaStart)) (rem1 - P2.length)) else [])
          = zeros (min (rem1 - P2.length) (img.padAreaSize - (off1 - img.fsBuf.length - F.length))) := by
        split
        · congr 1; omega
        · have : min (rem1 - P2.length) (img.padAreaSize - (off1 - img.fsBuf.length - F.length)) = 0 := by omega
          rw [this]; rfl
      rw [hp3, List.append_assoc]

end Ps3.Proof.Viso
