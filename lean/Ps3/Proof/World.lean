import Ps3.Model.World
namespace Ps3.Proof.World
open Ps3 Ps3.Content

theorem ofBytes_all (b : Bytes) : (Content.ofBytes b).all = b := by
  unfold Content.all Content.read Content.ofBytes
  simp only [List.foldl_cons, List.foldl_nil, Nat.sub_zero, Nat.min_self]
  unfold applyOverlay
  simp only [Nat.zero_add, List.length_map, List.length_range, Nat.max_self, Nat.min_self, Nat.sub_zero]
  split
  · simp [slice]
  · rename_i h
    have : b.length = 0 := by omega
    have hb : b = [] := List.length_eq_zero_iff.mp this
    subst hb; rfl

theorem inode?_setInode (w : World) (i : Nat) (n : Inode) (h : i < w.inodes.length) :
    (w.setInode i n).inode? i = some n := by
  simp [World.setInode, World.inode?, h]

theorem inode?_some_lt (w : World) (i : Nat) (f : Inode) (h : w.inode? i = some f) : i < w.inodes.length := by
  unfold World.inode? at h
  exact (List.getElem?_eq_some_iff.mp h).1

end Ps3.Proof.World
