/-
  C01 — Root confinement: no request reaches outside the served root.
-/
import Ps3.Model.Conn
namespace Ps3.Props.C01
open Ps3 Ps3.Conn Ps3.Proto Ps3.PathStr

/-- For **every** byte string a client can put into any path-carrying request, what the server
    hands to the filesystem layer consists of normal components only: no "..", no ".", no empty
    component, no separator inside a component. (All eight opcodes go through `cleanRequest`;
    that they do is the F-shape fact `server_paths_cleaned`, and the model's `step` below.) -/
theorem request_path_normal (p : Bytes) : ∀ c ∈ cleanRequest p, normal c = true :=
  cleanRequest_normal p

theorem request_path_no_dotdot (p : Bytes) : [dot, dot] ∉ cleanRequest p := by
  intro h
  have := cleanRequest_normal p _ h
  simp [normal, isDotDot] at this

/-- The OS path the base filesystem resolves a request path to: `Clean(Join(root, "/" ++ p'))`
    with `p' = cleanRequest p`, in components. -/
def realPath (root : List Bytes) (p : Bytes) : List Bytes := root ++ cleanRequest p

/-- … is the root or lies below it, whatever the client sent and whatever the root is
    (absolute, relative, ".", with trailing slash — after kong's `filepath.Abs` it is a clean
    rooted path, `cleanRooted [] (splitSlash root)` in this model). -/
theorem realPath_within (root : List Bytes) (p : Bytes) : within root (realPath root p) = true := by
  simp [within, realPath]

/-- and it only ever *extends* the root by normal components: no step of the resolution can rise
    above the root, so the OS resolves it below the root (symlinks apart, which are the operator's). -/
theorem realPath_extends_normally (root : List Bytes) (p : Bytes) :
    ∃ ext, realPath root p = root ++ ext ∧ ∀ c ∈ ext, normal c = true :=
  ⟨cleanRequest p, rfl, cleanRequest_normal p⟩

/-- The classic escapes are clamped inside the root (they used to reach a sibling directory whose
    name has the root's name as a prefix). "/../games-other/secret" and "../games-other/secret": -/
theorem sibling_escape_clamped :
    cleanRequest [47, 46, 46, 47, 103, 97, 109, 101, 115, 45, 111, 116, 104, 101, 114, 47, 115, 101, 99, 114, 101, 116]
      = [[103, 97, 109, 101, 115, 45, 111, 116, 104, 101, 114], [115, 101, 99, 114, 101, 116]] ∧
    cleanRequest [46, 46, 47, 103, 97, 109, 101, 115, 45, 111, 116, 104, 101, 114, 47, 115, 101, 99, 114, 101, 116]
      = [[103, 97, 109, 101, 115, 45, 111, 116, 104, 101, 114], [115, 101, 99, 114, 101, 116]] := by
  decide

/-- Paths derived from a request path stay confined: appending a directory-entry name the OS
    returned (never "." / ".." / containing '/'), replacing a component by a normal one (REDKEY),
    or re-rooting below the virtual prefix all preserve normality. -/
theorem derived_append (p : Path) (n : Name) (hp : ∀ c ∈ p, normal c = true) (hn : normal n = true) :
    ∀ c ∈ p ++ [n], normal c = true := by
  intro c hc
  rcases List.mem_append.mp hc with h | h
  · exact hp c h
  · simp at h; subst h; exact hn

theorem derived_set (p : Path) (i : Nat) (n : Name) (hp : ∀ c ∈ p, normal c = true) (hn : normal n = true) :
    ∀ c ∈ p.set i n, normal c = true := by
  intro c hc
  rcases List.mem_or_eq_of_mem_set hc with h | h
  · exact hp c h
  · subst h; exact hn

theorem derived_drop (p : Path) (k : Nat) (hp : ∀ c ∈ p, normal c = true) : ∀ c ∈ p.drop k, normal c = true :=
  fun c hc => hp c (List.mem_of_mem_drop hc)

/-- "REDKEY", "PS3_GAME" and "PARAM.SFO" are normal components -/
theorem fixed_components_normal :
    normal Gen.fs_redkeyDir = true ∧ normal [80, 83, 51, 95, 71, 65, 77, 69] = true ∧
    normal [80, 65, 82, 65, 77, 46, 83, 70, 79] = true := by decide

/-- In the model every access to the world made on behalf of a request goes through
    `cleanRequest`: responses are a function of the world *inside* the root only (the model has no
    other world), and a request whose cleaned path names nothing is answered as "not found". -/
theorem stat_depends_on_clean_path_only (cfg : Cfg) (w : World) (st : State) (p p' : Bytes)
    (h : cleanRequest p = cleanRequest p') :
    step cfg w st (.statFile p) = step cfg w st (.statFile p') := by
  simp [step, h]

theorem all_path_ops_depend_on_clean_path_only (cfg : Cfg) (w : World) (st : State) (p p' : Bytes)
    (h : cleanRequest p = cleanRequest p') :
    step cfg w st (.openDir p) = step cfg w st (.openDir p') ∧
    step cfg w st (.openFile p) = step cfg w st (.openFile p') ∧
    step cfg w st (.createFile p) = step cfg w st (.createFile p') ∧
    step cfg w st (.deleteFile p) = step cfg w st (.deleteFile p') ∧
    step cfg w st (.mkdir p) = step cfg w st (.mkdir p') ∧
    step cfg w st (.rmdir p) = step cfg w st (.rmdir p') ∧
    step cfg w st (.getDirSize p) = step cfg w st (.getDirSize p') := by
  refine ⟨?_, ?_, ?_, ?_, ?_, ?_, ?_⟩ <;> simp only [step, h]

/-- The served root directory itself is never removed, whatever spelling of it a client sends
    ("/", "", "/..", "/x/../.." all clean to the root): RMDIR answers the failure code and nothing changes.
    (Removing it would change the root's parent directory, which lies outside the root.) -/
theorem root_never_removed (cfg : Cfg) (w : World) (st : State) (raw : Bytes)
    (hroot : cleanRequest raw = []) :
    step cfg w st (.rmdir raw) = (w, st, ⟨rmdirResult false, false⟩) := by
  simp only [step, hroot]
  cases cfg.allowWrite <;> simp

end Ps3.Props.C01
