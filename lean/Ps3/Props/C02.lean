/-
  C02 — Served bytes equal stored bytes for every offset and length.
-/
import Ps3.Model.Conn
import Ps3.Proof.World
import Ps3.Proof.Content
namespace Ps3.Props.C02
open Ps3 Ps3.Conn Ps3.Proto

/-- reading `img` from `off` with an arbitrary schedule of chunk sizes (LimitReader + ReadFrom /
    CopyBuffer loops: whatever the sizes of the individual reads) -/
def readChunks (img : Bytes) : Nat → List Nat → Bytes
  | _, [] => []
  | off, c :: cs => slice img off c ++ readChunks img (off + c) cs

/-- Any chunk schedule accumulates to exactly one slice of the stored bytes. -/
theorem readChunks_eq_slice (img : Bytes) (off : Nat) (cs : List Nat) :
    readChunks img off cs = slice img off cs.sum := by
  induction cs generalizing off with
  | nil => simp [readChunks, slice]
  | cons c cs ih => simp only [readChunks, List.sum_cons, ih, slice_add]

/-- The ordinary read announces exactly the number of bytes in `[off, min(off+limit, size))`
    and then sends exactly those bytes; the connection stays open. -/
theorem readFile_exact (cfg : Cfg) (w : World) (st : State) (ino : Nat) (f : Inode)
    (hro : st.ro = some (.plain ino)) (hf : w.inode? ino = some f) (limit off : Nat) (hoff : off ≤ osSeekMax)
    (hl : limit < 2 ^ 31) :
    step cfg w st (.readFile limit off) =
      (w, st, ⟨readFileResultHdr (min limit (f.content.size - off)) ++ f.content.read off limit, false⟩) := by
  have hlen := Content.read_length f.content off limit
  have h63 : off < 2 ^ 63 := by unfold osSeekMax at hoff; omega
  have hcap : min limit maxAnnounce = limit := by unfold maxAnnounce; omega
  by_cases hend : f.content.size ≤ off
  · -- at or after the end: the empty answer, which is what the rule says as well
    have h0 : f.content.read off limit = [] := List.eq_nil_of_length_eq_zero (by rw [hlen]; omega)
    have hm : min limit (f.content.size - off) = 0 := by omega
    simp [step, hro, hf, roSize, RO.isDir, hend, h0, hm]
  · simp [step, hro, hf, roSize, roSeekOk, roRead, RO.isDir, hlen, Nat.not_le.mpr h63, hoff, hend, hcap]

/-- **Served bytes are stored bytes**: what a read of `(off, limit)` delivers is the slice
    `[off, min(off+limit, size))` of the file's one fixed content — for every size, offset and limit. -/
theorem read_is_slice_of_content (c : Content) (off limit : Nat) : c.read off limit = slice c.all off limit :=
  Proof.Content.read_eq_slice_all c off limit

/-- consequently two reads that overlap agree on the overlap, and consecutive reads concatenate -/
theorem reads_concatenate (c : Content) (off a b : Nat) : c.read off (a + b) = c.read off a ++ c.read (off + a) b := by
  simp only [read_is_slice_of_content, slice_add]

/-- The announced count is a 4-byte big-endian integer. -/
theorem readFile_header (n : Nat) : readFileResultHdr n = beN 4 n := by
  simp [readFileResultHdr, encodeStruct, Gen.proto_layout_ReadFileResult]

/-- The critical read sends the same bytes raw, and ends the connection exactly when it could not
    be satisfied in full — after a correct prefix. -/
theorem readCrit_exact (cfg : Cfg) (w : World) (st : State) (ino : Nat) (f : Inode)
    (hro : st.ro = some (.plain ino)) (hf : w.inode? ino = some f) (limit off : Nat) (hoff : off ≤ osSeekMax) :
    step cfg w st (.readFileCritical limit off) =
      (w, st, ⟨f.content.read off limit, decide (min limit (f.content.size - off) < limit)⟩) := by
  have hlen := Content.read_length f.content off limit
  have h63 : off < 2 ^ 63 := by unfold osSeekMax at hoff; omega
  simp [step, hro, hf, roSeekOk, roRead, hlen, Nat.not_le.mpr h63, hoff]

/-- Reads through a generated image or a decrypting view obey the same rule with the view's bytes. -/
theorem readFile_view (cfg : Cfg) (w : World) (st : State) (v : StaticView)
    (hro : st.ro = some (.static v)) (limit off : Nat) (hoff : off < 2 ^ 63) (hseek : v.seekOk off = true)
    (hend : v.size ≤ off → v.read off limit = []) (hl : limit < 2 ^ 31) :
    step cfg w st (.readFile limit off) =
      (w, st, ⟨readFileResultHdr (v.read off limit).length ++ v.read off limit, false⟩) := by
  have hcap : min limit maxAnnounce = limit := by unfold maxAnnounce; omega
  by_cases he : v.size ≤ off
  · simp [step, hro, roSize, RO.isDir, he, hend he]
  · simp [step, hro, roSize, roSeekOk, roRead, RO.isDir, hseek, Nat.not_le.mpr hoff, he, hcap]

/-- A request for 2 GiB or more (outside what the 32-bit answer can announce) is served as a request
    for 2^31−1 bytes: still announced-then-sent, never a negative count. -/
theorem readFile_capped (cfg : Cfg) (w : World) (st : State) (limit off : Nat) (hl : limit ≥ 2 ^ 31) :
    step cfg w st (.readFile limit off) = step cfg w st (.readFile (2 ^ 31 - 1) off) := by
  have h1 : min limit maxAnnounce = maxAnnounce := by unfold maxAnnounce; omega
  have h2 : min (2 ^ 31 - 1) maxAnnounce = maxAnnounce := by unfold maxAnnounce; omega
  simp only [step, h1, h2]

/-- **At or after the end every kind of object answers the empty read** — plain file, generated image,
    decrypting view — for every offset a client can send (also ≥ 2^63 or beyond what the filesystem
    can seek to): 4 bytes announcing 0, the connection stays open. -/
theorem readFile_beyond_end (cfg : Cfg) (w : World) (st : State) (ro : RO) (hro : st.ro = some ro)
    (hd : ro.isDir = false) (limit off : Nat) (hoff : roSize w ro ≤ off) :
    step cfg w st (.readFile limit off) = (w, st, ⟨readFileResultHdr 0, false⟩) := by
  simp [step, hro, hd, hoff]

/-- Without an open file the ordinary read is answered with −1 (the connection goes on) and the
    critical read, which has no way to say so, ends the connection: the client never receives
    unannounced data. -/
theorem read_without_file (cfg : Cfg) (w : World) (st : State) (hro : st.ro = none) (limit off : Nat) :
    (step cfg w st (.readFile limit off)).2.2 = ⟨readFileResultHdr (neg1 4), false⟩ ∧
    (step cfg w st (.readFileCritical limit off)).2.2 = ⟨[], true⟩ := by
  simp [step, hro]

/-- Announced size and modification time are the file's. -/
theorem open_announces (cfg : Cfg) (w : World) (st : State) (raw : Bytes) (ino : Nat) (f : Inode)
    (hname : PathStr.cleanRequest raw ≠ [closeFileName])
    (hopen : openRO cfg w (PathStr.cleanRequest raw) = some (.plain ino)) (hf : w.inode? ino = some f) :
    (step cfg w st (.openFile raw)).2.2 = ⟨openFileResult (some (f.content.size, f.mtime)), false⟩ := by
  simp [step, hname, hopen, hf, roSize]

/-- … encoded as two 8-byte big-endian integers. -/
theorem open_layout (sz mt : Nat) : openFileResult (some (sz, mt)) = beN 8 sz ++ beN 8 mt := by
  simp [openFileResult, encodeStruct, Gen.proto_layout_OpenFileResult]

/-- Interleaving: no request other than OPEN_FILE changes which object the connection reads from. -/
theorem ro_frame (cfg : Cfg) (w : World) (st : State) (r : Req)
    (hr : match r with | .openFile _ => False | _ => True) :
    (step cfg w st r).2.1.ro = st.ro := by
  cases r <;> simp at hr <;> simp only [step]
  all_goals (repeat' split) <;> try rfl

/-- non-vacuity: a 3000-byte file read at offset 2047 for 2 bytes -/
example : (Content.mk 3000 7 []).read 2047 2 = [patByte 7 2047, patByte 7 2048] := by decide

end Ps3.Props.C02
