/-
  C03 — Request/response framing and the per-connection state machine.
-/
import Ps3.Proof.Proto
namespace Ps3.Props.C03
open Ps3 Ps3.Conn Ps3.Proto Ps3.Spec.Proto

/-! ### the server consumes exactly the bytes of each request

For every request, encoded as the protocol documents it (`Spec.Proto`), followed by **any** further
bytes, the decoder (generic over the struct layouts regenerated from pkg/proto/types.go) returns
that request and exactly the further bytes. -/

theorem consumes_openDir (p rest : Bytes) (hp : p.length < 65536) :
    decode (encPathReq Gen.proto_CmdOpenDir p ++ rest) = .req (.openDir p) rest := Proof.Proto.decode_openDir p rest hp
theorem consumes_statFile (p rest : Bytes) (hp : p.length < 65536) :
    decode (encPathReq Gen.proto_CmdStatFile p ++ rest) = .req (.statFile p) rest := Proof.Proto.decode_statFile p rest hp
theorem consumes_openFile (p rest : Bytes) (hp : p.length < 65536) :
    decode (encPathReq Gen.proto_CmdOpenFile p ++ rest) = .req (.openFile p) rest := Proof.Proto.decode_openFile p rest hp
theorem consumes_createFile (p rest : Bytes) (hp : p.length < 65536) :
    decode (encPathReq Gen.proto_CmdCreateFile p ++ rest) = .req (.createFile p) rest := Proof.Proto.decode_createFile p rest hp
theorem consumes_deleteFile (p rest : Bytes) (hp : p.length < 65536) :
    decode (encPathReq Gen.proto_CmdDeleteFile p ++ rest) = .req (.deleteFile p) rest := Proof.Proto.decode_deleteFile p rest hp
theorem consumes_mkdir (p rest : Bytes) (hp : p.length < 65536) :
    decode (encPathReq Gen.proto_CmdMkdir p ++ rest) = .req (.mkdir p) rest := Proof.Proto.decode_mkdir p rest hp
theorem consumes_rmdir (p rest : Bytes) (hp : p.length < 65536) :
    decode (encPathReq Gen.proto_CmdRmdir p ++ rest) = .req (.rmdir p) rest := Proof.Proto.decode_rmdir p rest hp
theorem consumes_getDirSize (p rest : Bytes) (hp : p.length < 65536) :
    decode (encPathReq Gen.proto_CmdGetDirSize p ++ rest) = .req (.getDirSize p) rest := Proof.Proto.decode_getDirSize p rest hp
theorem consumes_readFile (limit off : Nat) (rest : Bytes) (hl : limit < 2 ^ 32) (ho : off < 2 ^ 64) :
    decode (encReadReq Gen.proto_CmdReadFile limit off ++ rest) = .req (.readFile limit off) rest :=
  Proof.Proto.decode_readFile limit off rest hl ho
theorem consumes_readFileCritical (limit off : Nat) (rest : Bytes) (hl : limit < 2 ^ 32) (ho : off < 2 ^ 64) :
    decode (encReadReq Gen.proto_CmdReadFileCritical limit off ++ rest) = .req (.readFileCritical limit off) rest :=
  Proof.Proto.decode_readFileCritical limit off rest hl ho
/-- start sector first, sector count second — the order the handler receives them in -/
theorem consumes_readCD (start count : Nat) (rest : Bytes) (hs : start < 2 ^ 32) (hc : count < 2 ^ 32) :
    decode (encReadCDReq Gen.proto_CmdReadCD2048Critical start count ++ rest) = .req (.readCD start count) rest :=
  Proof.Proto.decode_readCD start count rest hs hc
theorem consumes_writeFile (payload rest : Bytes) (hp : payload.length < 2 ^ 32) :
    decode (encWriteReq Gen.proto_CmdWriteFile payload ++ rest) = .req (.writeFile payload.length payload) rest :=
  Proof.Proto.decode_writeFile payload rest hp
theorem consumes_readDir (rest : Bytes) : decode (encBareReq Gen.proto_CmdReadDir ++ rest) = .req .readDir rest :=
  Proof.Proto.decode_readDir rest
theorem consumes_readDirEntry (rest : Bytes) : decode (encBareReq Gen.proto_CmdReadDirEntry ++ rest) = .req .readDirEntry rest :=
  Proof.Proto.decode_readDirEntry rest
theorem consumes_readDirEntryV2 (rest : Bytes) : decode (encBareReq Gen.proto_CmdReadDirEntryV2 ++ rest) = .req .readDirEntryV2 rest :=
  Proof.Proto.decode_readDirEntryV2 rest

/-! ### exactly one response per request, in order, nothing after the end -/

/-- One iteration of the serve loop: the response of the first request is appended, and the loop
    continues with exactly the remaining bytes — unless the handler ends the connection, in which
    case nothing at all follows. -/
theorem serve_one (cfg : Cfg) (fuel : Nat) (w : World) (st : State) (input acc : Bytes) (used : Nat)
    (r : Req) (rest : Bytes) (hd : decode input = .req r rest) :
    serve cfg (fuel + 1) w st input acc used =
      (if (step cfg w st r).2.2.close then
        ((step cfg w st r).1, (step cfg w st r).2.1, acc ++ (step cfg w st r).2.2.bytes, used + (input.length - rest.length))
      else serve cfg fuel (step cfg w st r).1 (step cfg w st r).2.1 rest (acc ++ (step cfg w st r).2.2.bytes)
        (used + (input.length - rest.length))) := by
  simp only [serve, hd]

/-- An opcode outside the protocol ends the connection without a single byte. -/
theorem unknown_closes (cfg : Cfg) (fuel : Nat) (w : World) (st : State) (input acc : Bytes) (used op : Nat)
    (hd : decode input = .unknown op) :
    serve cfg (fuel + 1) w st input acc used = (w, st, acc, used + cmdSize) := by
  simp only [serve, hd]

/-- A truncated request (fewer bytes than the command or its announced path needs) only ends the
    connection: nothing is sent and nothing changes. -/
theorem truncated_closes (cfg : Cfg) (fuel : Nat) (w : World) (st : State) (input acc : Bytes) (used : Nat)
    (hd : decode input = .incomplete) :
    serve cfg (fuel + 1) w st input acc used = (w, st, acc, used + input.length) := by
  simp only [serve, hd]

/-- fewer than 16 bytes never form a command -/
theorem short_is_incomplete (s : Bytes) (h : s.length < 16) : decode s = .incomplete := by
  unfold decode
  have : cmdSize = 16 := by decide
  simp [this, h]

/-- a path announced longer than what follows never forms a request (here: STAT) -/
theorem short_path_is_incomplete (n : Nat) (partialPath : Bytes) (hn : n < 65536) (h : partialPath.length < n) :
    decode (beN 2 Gen.proto_CmdStatFile ++ (beN 2 n ++ (zeros 12 ++ partialPath))) = .incomplete := by
  unfold decode
  have hop : fromBE (beN 2 4656) = 4656 := by decide
  have hlen : fromBE (beN 2 n) = n := Proof.Proto.fromBE_beN_lt 2 _ (by simpa using hn)
  decode_simp [hop, hlen]
  omega

/-! ### response layouts (re-elaborated against the regenerated struct layouts) -/

theorem len_openDir (ok : Bool) : (openDirResult ok).length = 4 := by cases ok <;> decide
theorem len_result32 (ok : Bool) : (createFileResult ok).length = 4 ∧ (deleteFileResult ok).length = 4 ∧
    (mkdirResult ok).length = 4 ∧ (rmdirResult ok).length = 4 := by cases ok <;> decide
theorem len_write (n : Option Nat) : (writeFileResult n).length = 4 := by
  simp [writeFileResult, encodeStruct_length, Layout.size, Gen.proto_layout_WriteFileResult]
theorem len_getDirSize (n : Nat) : (getDirSizeResult n).length = 8 := by
  simp [getDirSizeResult, encodeStruct_length, Layout.size, Gen.proto_layout_GetDirSizeResult]
theorem len_openFile (r : Option (Nat × Nat)) : (openFileResult r).length = 16 := by
  cases r <;> simp [openFileResult, encodeStruct_length, Layout.size, Gen.proto_layout_OpenFileResult]
theorem len_stat (r : Option Info) : (statFileResult r).length = 33 := by
  cases r <;> simp [statFileResult, encodeStruct_length, Layout.size, Gen.proto_layout_StatFileResult]
theorem len_dirEntry (i : Info) : (dirEntry i).length = 529 := by
  simp [dirEntry, encodeStruct_length, Layout.size, Gen.proto_layout_DirEntry]
theorem len_readFileHdr (n : Nat) : (readFileResultHdr n).length = 4 := by
  simp [readFileResultHdr, encodeStruct_length, Layout.size, Gen.proto_layout_ReadFileResult]
theorem len_entry_end : (readDirEntryResult none).length = 11 ∧ (readDirEntryV2Result none).length = 35 := by decide
theorem len_entry (i : Info) (h : i.name.length < 65536) :
    (readDirEntryResult (some i)).length = 11 + i.name.length ∧
    (readDirEntryV2Result (some i)).length = 35 + i.name.length := by
  have hm : i.name.length % 65536 = i.name.length := Nat.mod_eq_of_lt h
  by_cases h0 : i.name.length = 0
  · simp [readDirEntryResult, readDirEntryV2Result, encodeStruct_length, Layout.size,
      Gen.proto_layout_ReadDirEntryResult, Gen.proto_layout_ReadDirEntryV2Result, h0]
  · have : 0 < i.name.length % 65536 := by omega
    simp [readDirEntryResult, readDirEntryV2Result, encodeStruct_length, Layout.size,
      Gen.proto_layout_ReadDirEntryResult, Gen.proto_layout_ReadDirEntryV2Result, this]

theorem len_entries (es : List Info) : ((es.map dirEntry).flatten).length = 529 * es.length := by
  induction es with
  | nil => rfl
  | cons e es ih =>
    simp only [List.map_cons, List.flatten_cons, List.length_append, List.length_cons, len_dirEntry, ih]
    omega

/-- the bulk listing is its 8-byte count followed by exactly that many 529-byte entries -/
theorem len_readDir (es : List Info) : (readDirResult es).length = 8 + 529 * es.length := by
  unfold readDirResult
  rw [List.length_append, len_entries]
  simp [encodeStruct_length, Layout.size, Gen.proto_layout_ReadDirResult]

/-- non-vacuity: a whole two-request stream through the loop -/
example : (decode (encBareReq Gen.proto_CmdReadDir ++ encPathReq Gen.proto_CmdStatFile [47])) =
    .req .readDir (encPathReq Gen.proto_CmdStatFile [47]) := consumes_readDir _

end Ps3.Props.C03
