/-
  C03 — Request/response framing and the per-connection state machine.
-/
import Ps3.Proof.Proto
namespace Ps3.Props.C03
open Ps3 Ps3.Conn Ps3.Proto Ps3.Spec.Proto

/-! ### the server consumes exactly the bytes of each request

For every request, encoded as the protocol documents it (`Spec.Proto`), followed by **any** further
bytes, the decoder (generic over the struct layouts regenerated from pkg/proto/types.go) returns
that request and exactly the further bytes. -/

theorem consumes_openDir (p rest : Bytes) (hp : p.length < 65536) :
    decode (encPathReq Gen.proto_CmdOpenDir p ++ rest) = .req (.openDir p) rest := Proof.Proto.decode_openDir p rest hp
theorem consumes_statFile (p rest : Bytes) (hp : p.length < 65536) :
    decode (encPathReq Gen.proto_CmdStatFile p ++ rest) = .req (.statFile p) rest := Proof.Proto.decode_statFile p rest hp
theorem consumes_openFile (p rest : Bytes) (hp : p.length < 65536) :
    decode (encPathReq Gen.proto_CmdOpenFile p ++ rest) = .req (.openFile p) rest := Proof.Proto.decode_openFile p rest hp
theorem consumes_createFile (p rest : Bytes) (hp : p.length < 65536) :
    decode (encPathReq Gen.proto_CmdCreateFile p ++ rest) = .req (.createFile p) rest := Proof.Proto.decode_createFile p rest hp
theorem consumes_deleteFile (p rest : Bytes) (hp : p.length < 65536) :
    decode (encPathReq Gen.proto_CmdDeleteFile p ++ rest) = .req (.deleteFile p) rest := Proof.Proto.decode_deleteFile p rest hp
theorem consumes_mkdir (p rest : Bytes) (hp : p.length < 65536) :
    decode (encPathReq Gen.proto_CmdMkdir p ++ rest) = .req (.mkdir p) rest := Proof.Proto.decode_mkdir p rest hp
theorem consumes_rmdir (p rest : Bytes) (hp : p.length < 65536) :
    decode (encPathReq Gen.proto_CmdRmdir p ++ rest) = .req (.rmdir p) rest := Proof.Proto.decode_rmdir p rest hp
theorem consumes_getDirSize (p rest : Bytes) (hp : p.length < 65536) :
    decode (encPathReq Gen.proto_CmdGetDirSize p ++ rest) = .req (.getDirSize p) rest := Proof.Proto.decode_getDirSize p rest hp
theorem consumes_readFile (limit off : Nat) (rest : Bytes) (hl : limit < 2 ^ 32) (ho : off < 2 ^ 64) :
    decode (encReadReq Gen.proto_CmdReadFile limit off ++ rest) = .req (.readFile limit off) rest :=
  Proof.Proto.decode_readFile limit off rest hl ho
theorem consumes_readFileCritical (limit off : Nat) (rest : Bytes) (hl : limit < 2 ^ 32) (ho : off < 2 ^ 64) :
    decode (encReadReq Gen.proto_CmdReadFileCritical limit off ++ rest) = .req (.readFileCritical limit off) rest :=
  Proof.Proto.decode_readFileCritical limit off rest hl ho
/-- start sector first, sector count second — the order the handler receives them in -/
theorem consumes_readCD (start count : Nat) (rest : Bytes) (hs : start < 2 ^ 32) (hc : count < 2 ^ 32) :
    decode (encReadCDReq Gen.proto_CmdReadCD2048Critical start count ++ rest) = .req (.readCD start count) rest :=
  Proof.Proto.decode_readCD start count rest hs hc
theorem consumes_writeFile (payload rest : Bytes) (hp : payload.length < 2 ^ 32) :
    decode (encWriteReq Gen.proto_CmdWriteFile payload ++ rest) = .req (.writeFile payload.length payload) rest :=
  Proof.Proto.decode_writeFile payload rest hp
theorem consumes_readDir (rest : Bytes) : decode (encBareReq Gen.proto_CmdReadDir ++ rest) = .req .readDir rest :=
  Proof.Proto.decode_readDir rest
theorem consumes_readDirEntry (rest : Bytes) : decode (encBareReq Gen.proto_CmdReadDirEntry ++ rest) = .req .readDirEntry rest :=
  Proof.Proto.decode_readDirEntry rest
theorem consumes_readDirEntryV2 (rest : Bytes) : decode (encBareReq Gen.proto_CmdReadDirEntryV2 ++ rest) = .req .readDirEntryV2 rest :=
  Proof.Proto.decode_readDirEntryV2 rest

/-! ### exactly one response per request, in order, nothing after the end -/

/-- One iteration of the serve loop: the response of the first request is appended, and the loop
    continues with exactly the remaining bytes — unless the handler ends the connection, in which
    case nothing at all follows. -/
theorem serve_one (cfg : Cfg) (fuel : Nat) (w : World) (st : State) (input acc : Bytes) (used : Nat)
    (r : Req) (rest : Bytes) (hd : decode input = .req r rest) :
    serve cfg (fuel + 1) w st input acc used =
      (if (step cfg w st r).2.2.close then
        ((step cfg w st r).1, (step cfg w st r).2.1, acc ++ (step cfg w st r).2.2.bytes, used + (input.length - rest.length))
      else serve cfg fuel (step cfg w st r).1 (step cfg w st r).2.1 rest (acc ++ (step cfg w st r).2.2.bytes)
        (used + (input.length - rest.length))) := by
  simp only [serve, hd]

/-- An opcode outside the protocol ends the connection without a single byte. -/
theorem unknown_closes (cfg : Cfg) (fuel : Nat) (w : World) (st : State) (input acc : Bytes) (used op : Nat)
    (hd : decode input = .unknown op) :
    serve cfg (fuel + 1) w st input acc used = (w, st, acc, used + cmdSize) := by
  simp only [serve, hd]

/-- A truncated request (fewer bytes than the command, its announced path or its announced payload
    needs) only ends the connection: nothing is sent, the state is untouched, and the only thing that
    can have changed is the file being uploaded (the part of a WRITE_FILE payload that did arrive). -/
theorem truncated_closes (cfg : Cfg) (fuel : Nat) (w : World) (st : State) (input acc : Bytes) (used : Nat)
    (hd : decode input = .incomplete) :
    serve cfg (fuel + 1) w st input acc used = (partialWrite cfg w st input, st, acc, used + input.length) := by
  simp only [serve, hd]

/-- … and nothing at all changes unless it is a WRITE_FILE with writing enabled and a file being written -/
theorem truncated_changes_nothing (cfg : Cfg) (w : World) (st : State) (input : Bytes)
    (h : truncatedWrite input = none ∨ cfg.allowWrite = false ∨ st.wo = none) :
    partialWrite cfg w st input = w := by
  unfold partialWrite
  rcases h with h | h | h
  · simp [h]
  · cases truncatedWrite input with
    | none => rfl
    | some p => simp [h]
  · cases truncatedWrite input with
    | none => rfl
    | some p => simp only [h]; split <;> rfl

/-- fewer than 16 bytes never form a command -/
theorem short_is_incomplete (s : Bytes) (h : s.length < 16) : decode s = .incomplete := by
  unfold decode
  have : cmdSize = 16 := by decide
  simp [this, h]

/-- a path announced longer than what follows never forms a request (here: STAT) -/
theorem short_path_is_incomplete (n : Nat) (partialPath : Bytes) (hn : n < 65536) (h : partialPath.length < n) :
    decode (beN 2 Gen.proto_CmdStatFile ++ (beN 2 n ++ (zeros 12 ++ partialPath))) = .incomplete := by
  unfold decode
  have hop : fromBE (beN 2 4656) = 4656 := by decide
  have hlen : fromBE (beN 2 n) = n := Proof.Proto.fromBE_beN_lt 2 _ (by simpa using hn)
  decode_simp [hop, hlen]
  omega

/-! ### response layouts (re-elaborated against the regenerated struct layouts) -/

theorem len_openDir (ok : Bool) : (openDirResult ok).length = 4 := by cases ok <;> decide
theorem len_result32 (ok : Bool) : (createFileResult ok).length = 4 ∧ (deleteFileResult ok).length = 4 ∧
    (mkdirResult ok).length = 4 ∧ (rmdirResult ok).length = 4 := by cases ok <;> decide
theorem len_write (n : Option Nat) : (writeFileResult n).length = 4 := by
  simp [writeFileResult, encodeStruct_length, Layout.size, Gen.proto_layout_WriteFileResult]
theorem len_getDirSize (n : Nat) : (getDirSizeResult n).length = 8 := by
  simp [getDirSizeResult, encodeStruct_length, Layout.size, Gen.proto_layout_GetDirSizeResult]
theorem len_openFile (r : Option (Nat × Nat)) : (openFileResult r).length = 16 := by
  cases r <;> simp [openFileResult, encodeStruct_length, Layout.size, Gen.proto_layout_OpenFileResult]
theorem len_stat (r : Option Info) : (statFileResult r).length = 33 := by
  cases r <;> simp [statFileResult, encodeStruct_length, Layout.size, Gen.proto_layout_StatFileResult]
theorem len_dirEntry (i : Info) : (dirEntry i).length = 529 := by
  simp [dirEntry, encodeStruct_length, Layout.size, Gen.proto_layout_DirEntry]
theorem len_readFileHdr (n : Nat) : (readFileResultHdr n).length = 4 := by
  simp [readFileResultHdr, encodeStruct_length, Layout.size, Gen.proto_layout_ReadFileResult]
theorem len_entry_end : (readDirEntryResult none).length = 11 ∧ (readDirEntryV2Result none).length = 35 := by decide
theorem len_entry (i : Info) (h : i.name.length < 65536) :
    (readDirEntryResult (some i)).length = 11 + i.name.length ∧
    (readDirEntryV2Result (some i)).length = 35 + i.name.length := by
  have hm : i.name.length % 65536 = i.name.length := Nat.mod_eq_of_lt h
  by_cases h0 : i.name.length = 0
  · simp [readDirEntryResult, readDirEntryV2Result, encodeStruct_length, Layout.size,
      Gen.proto_layout_ReadDirEntryResult, Gen.proto_layout_ReadDirEntryV2Result, h0]
  · have : 0 < i.name.length % 65536 := by omega
    simp [readDirEntryResult, readDirEntryV2Result, encodeStruct_length, Layout.size,
      Gen.proto_layout_ReadDirEntryResult, Gen.proto_layout_ReadDirEntryV2Result, this]

theorem len_entries (es : List Info) : ((es.map dirEntry).flatten).length = 529 * es.length := by
  induction es with
  | nil => rfl
  | cons e es ih =>
    simp only [List.map_cons, List.flatten_cons, List.length_append, List.length_cons, len_dirEntry, ih]
    omega

/-- the bulk listing is its 8-byte count followed by exactly that many 529-byte entries -/
theorem len_readDir (es : List Info) : (readDirResult es).length = 8 + 529 * es.length := by
  unfold readDirResult
  rw [List.length_append, len_entries]
  simp [encodeStruct_length, Layout.size, Gen.proto_layout_ReadDirResult]

/-- non-vacuity: a whole two-request stream through the loop -/
example : (decode (encBareReq Gen.proto_CmdReadDir ++ encPathReq Gen.proto_CmdStatFile [47])) =
    .req .readDir (encPathReq Gen.proto_CmdStatFile [47]) := consumes_readDir _

/-- OPEN_DIR closes the active directory whether or not the new one can be opened: after a refused
    OPEN_DIR no directory is active, so a following enumeration answers the end marker. -/
theorem failed_openDir_leaves_no_dir (cfg : Cfg) (w : World) (st : State) (raw : Bytes)
    (h : (step cfg w st (.openDir raw)).2.2.bytes = openDirResult false) :
    (step cfg w st (.openDir raw)).2.1.cwd = none := by
  simp only [step] at h ⊢
  cases ho : openRO cfg w (PathStr.cleanRequest raw) with
  | none => simp
  | some ro =>
    cases ro with
    | dir q =>
      rw [ho] at h
      simp only at h
      have : openDirResult true ≠ openDirResult false := by decide
      exact absurd h this
    | plain i => simp
    | static v => simp

/-! ### synchronisation over whole request sequences -/

/-- a request as the protocol documents it on the wire -/
def encReq : Req → Bytes
  | .openDir p => encPathReq Gen.proto_CmdOpenDir p
  | .readDir => encBareReq Gen.proto_CmdReadDir
  | .readDirEntry => encBareReq Gen.proto_CmdReadDirEntry
  | .readDirEntryV2 => encBareReq Gen.proto_CmdReadDirEntryV2
  | .statFile p => encPathReq Gen.proto_CmdStatFile p
  | .openFile p => encPathReq Gen.proto_CmdOpenFile p
  | .readFile l o => encReadReq Gen.proto_CmdReadFile l o
  | .readFileCritical l o => encReadReq Gen.proto_CmdReadFileCritical l o
  | .readCD s c => encReadCDReq Gen.proto_CmdReadCD2048Critical s c
  | .createFile p => encPathReq Gen.proto_CmdCreateFile p
  | .writeFile _ payload => encWriteReq Gen.proto_CmdWriteFile payload
  | .deleteFile p => encPathReq Gen.proto_CmdDeleteFile p
  | .mkdir p => encPathReq Gen.proto_CmdMkdir p
  | .rmdir p => encPathReq Gen.proto_CmdRmdir p
  | .getDirSize p => encPathReq Gen.proto_CmdGetDirSize p

/-- the field widths of the wire format -/
def ReqWF : Req → Prop
  | .openDir p | .statFile p | .openFile p | .createFile p | .deleteFile p | .mkdir p | .rmdir p | .getDirSize p =>
      p.length < 65536
  | .readFile l o | .readFileCritical l o => l < 2 ^ 32 ∧ o < 2 ^ 64
  | .readCD s c => s < 2 ^ 32 ∧ c < 2 ^ 32
  | .writeFile a payload => a = payload.length ∧ payload.length < 2 ^ 32
  | .readDir | .readDirEntry | .readDirEntryV2 => True

/-- decoding is a left inverse of encoding, whatever follows on the stream -/
theorem decode_encReq (r : Req) (h : ReqWF r) (rest : Bytes) : decode (encReq r ++ rest) = .req r rest := by
  cases r <;> simp only [encReq, ReqWF] at h ⊢
  case openDir p => exact consumes_openDir p rest h
  case readDir => exact consumes_readDir rest
  case readDirEntry => exact consumes_readDirEntry rest
  case readDirEntryV2 => exact consumes_readDirEntryV2 rest
  case statFile p => exact consumes_statFile p rest h
  case openFile p => exact consumes_openFile p rest h
  case readFile l o => exact consumes_readFile l o rest h.1 h.2
  case readFileCritical l o => exact consumes_readFileCritical l o rest h.1 h.2
  case readCD s c => exact consumes_readCD s c rest h.1 h.2
  case createFile p => exact consumes_createFile p rest h
  case writeFile a payload => rw [h.1]; exact consumes_writeFile payload rest h.2
  case deleteFile p => exact consumes_deleteFile p rest h
  case mkdir p => exact consumes_mkdir p rest h
  case rmdir p => exact consumes_rmdir p rest h
  case getDirSize p => exact consumes_getDirSize p rest h

/-- the abstract machine: requests handled one after the other until one ends the connection -/
def runSteps (cfg : Cfg) : World → State → List Req → Bytes → Nat → World × State × Bytes × Nat
  | w, st, [], acc, used => (w, st, acc, used)
  | w, st, r :: rest, acc, used =>
    let o := step cfg w st r
    if o.2.2.close then (o.1, o.2.1, acc ++ o.2.2.bytes, used + (encReq r).length)
    else runSteps cfg o.1 o.2.1 rest (acc ++ o.2.2.bytes) (used + (encReq r).length)

/-- **Client and server never lose synchronisation**: for every sequence of requests, sent back to
    back as one byte stream, the serve loop handles exactly those requests in order — each decoded
    from exactly its own bytes, each answered by exactly its handler's response — and stops only
    where a handler ends the connection; the bytes consumed are exactly the requests handled. -/
theorem serve_sync (cfg : Cfg) (rs : List Req) (hwf : ∀ r ∈ rs, ReqWF r) :
    ∀ (fuel : Nat) (w : World) (st : State) (acc : Bytes) (used : Nat), rs.length < fuel →
      serve cfg fuel w st (rs.map encReq).flatten acc used = runSteps cfg w st rs acc used := by
  induction rs with
  | nil =>
    intro fuel w st acc used hf
    obtain ⟨f, rfl⟩ : ∃ f, fuel = f + 1 := ⟨fuel - 1, by simp at hf; omega⟩
    have := truncated_closes cfg f w st [] acc used (short_is_incomplete [] (by simp))
    have hp : partialWrite cfg w st [] = w := truncated_changes_nothing cfg w st [] (Or.inl (by decide))
    rw [hp] at this
    simpa [runSteps] using this
  | cons r rest ih =>
    intro fuel w st acc used hf
    obtain ⟨f, rfl⟩ : ∃ f, fuel = f + 1 := ⟨fuel - 1, by simp at hf; omega⟩
    simp only [List.map_cons, List.flatten_cons]
    rw [serve_one cfg f w st _ acc used r _ (decode_encReq r (hwf r List.mem_cons_self) _)]
    have hlen : (encReq r ++ (rest.map encReq).flatten).length - ((rest.map encReq).flatten).length = (encReq r).length := by
      rw [List.length_append]; omega
    rw [hlen]
    simp only [runSteps]
    split
    · rfl
    · exact ih (fun x hx => hwf x (List.mem_cons_of_mem _ hx)) f _ _ _ _ (by simp at hf; omega)

end Ps3.Props.C03
