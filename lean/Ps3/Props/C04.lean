/-
  C04 — No client input and no on-disk content can crash the server.

  What a theorem can carry here: panic-freedom of the index/slice arithmetic that runs on
  attacker-chosen offsets, lengths and file contents (`Model/Checked.lean`: the Go code transcribed
  over Int with the runtime's bounds checks made explicit), boundedness of the count-driven
  allocation, and the guards in front of the fixed-width encoders. What it cannot carry — process
  survival, accepting, other connections, memory — is observed on the real binary by the stream.
-/
import Ps3.Model.Checked
import Ps3.Props.C08
namespace Ps3.Props.C04
open Ps3 Ps3.Viso Ps3.Checked

theorem sliceOk_iff (len lo hi : Int) : sliceOk len lo hi = true ↔ 0 ≤ lo ∧ lo ≤ hi ∧ hi ≤ len := by
  simp [sliceOk, and_assoc]

theorem loopOk_iff (len lo hi : Int) : loopOk len lo hi = true ↔ hi ≤ lo ∨ (0 ≤ lo ∧ hi ≤ len) := by
  simp [loopOk]

theorem size_le_padded (n : Nat) : (n : Int) ≤ (sectors n : Int) * S := by
  have : n ≤ sectors n * 2048 := by
    unfold sectors sectorSize
    have : Gen.fs_sectorSize = 2048 := rfl
    rw [this]
    split <;> omega
  unfold S; omega

theorem dataPart_spec (cf : Nat → Content) (f : FileExt) (s : RS) (start : Int) (hr : 0 ≤ s.remain) :
    ∃ r, dataPartC cf f s start = .ok r ∧ 0 ≤ r.1.remain ∧ r.1.offset ≤ max s.offset (start + f.size) := by
  unfold dataPartC
  by_cases hfo : s.offset - start < f.size
  · have h1 : sliceOk s.remain 0 (min s.remain ((f.size : Int) - (s.offset - start))) = true := by
      rw [sliceOk_iff]; omega
    have h2 : sliceOk s.remain (min s.remain ((f.size : Int) - (s.offset - start))) s.remain = true := by
      rw [sliceOk_iff]; omega
    simp only [hfo, if_true, h1, h2, Bool.not_true, Bool.false_eq_true, if_false]
    by_cases hshort : ((((cf f.ino).read (s.offset - start).toNat (min s.remain ((f.size : Int) - (s.offset - start))).toNat).length : Nat) : Int) < min s.remain ((f.size : Int) - (s.offset - start))
    · simp only [hshort, if_true]; exact ⟨_, rfl, hr, by dsimp only; omega⟩
    · simp only [hshort, if_false]; refine ⟨_, rfl, ?_, ?_⟩ <;> dsimp only <;> omega
  · simp only [hfo, if_false]; exact ⟨_, rfl, hr, by dsimp only; omega⟩

theorem padPart_spec (f : FileExt) (s : RS) (fileEnd : Int) (hr : 0 ≤ s.remain) (ho : s.offset ≤ fileEnd) :
    ∃ r, padPartC f s fileEnd = .ok r ∧ 0 ≤ r.1.remain := by
  unfold padPartC
  by_cases hc : f.size % sectorSize > 0 ∧ s.remain > 0
  · have h1 : loopOk s.remain 0 (if s.remain < fileEnd - s.offset then s.remain else fileEnd - s.offset) = true := by
      rw [loopOk_iff]; split <;> omega
    have h2 : sliceOk s.remain (if s.remain < fileEnd - s.offset then s.remain else fileEnd - s.offset) s.remain = true := by
      rw [sliceOk_iff]; split <;> omega
    simp only [hc, if_true, h1, h2, Bool.not_true, Bool.false_eq_true, if_false, and_self]
    refine ⟨_, rfl, ?_⟩; dsimp only; split <;> omega
  · simp only [hc, if_false]; exact ⟨_, rfl, hr⟩

theorem fileStep_spec (cf : Nat → Content) (f : FileExt) (s : RS) (hr : 0 ≤ s.remain) :
    ∃ r, fileStepC cf f s = .ok r ∧ 0 ≤ r.1.remain := by
  unfold fileStepC
  by_cases h1 : s.offset < (f.lba : Int) * S
  · simp only [h1, if_true]; exact ⟨_, rfl, hr⟩
  by_cases h2 : s.offset ≥ (f.lba : Int) * S + (sectors f.size : Int) * S
  · simp only [h1, h2, if_true, if_false]; exact ⟨_, rfl, hr⟩
  simp only [h1, h2, if_false]
  obtain ⟨⟨s1, b⟩, hd, hr1, ho1⟩ := dataPart_spec cf f s ((f.lba : Int) * S) hr
  rw [hd]
  cases b with
  | true => exact ⟨_, rfl, hr1⟩
  | false =>
    have := size_le_padded f.size
    exact padPart_spec f s1 _ hr1 (by dsimp only at ho1; omega)

theorem filesLoop_spec (cf : Nat → Content) (fs : List FileExt) (s : RS) (hr : 0 ≤ s.remain) :
    ∃ r, filesLoopC cf fs s = .ok r ∧ 0 ≤ r.1.remain := by
  induction fs generalizing s with
  | nil => exact ⟨_, rfl, hr⟩
  | cons f rest ih =>
    unfold filesLoopC
    by_cases h0 : s.remain ≤ 0
    · simp only [h0, if_true]; exact ⟨_, rfl, hr⟩
    simp only [h0, if_false]
    obtain ⟨⟨s1, b⟩, hd, hr1⟩ := fileStep_spec cf f s hr
    rw [hd]
    cases b with
    | true => exact ⟨_, rfl, hr1⟩
    | false => exact ih s1 hr1
theorem headPart_spec (img : Image) (off : Int) (n : Nat) (ho : 0 ≤ off) :
    ∃ s, headPartC img off n = .ok s ∧ 0 ≤ s.remain := by
  unfold headPartC
  by_cases h : off < (img.fsBuf.length : Int)
  · have h1 : sliceOk img.fsBuf.length off (min (off + n) img.fsBuf.length) = true := by rw [sliceOk_iff]; omega
    have h2 : sliceOk n (min (n : Int) (min (off + n) img.fsBuf.length - off)) n = true := by rw [sliceOk_iff]; omega
    simp only [h, if_true, h1, h2, Bool.not_true, Bool.false_eq_true, if_false]
    refine ⟨_, rfl, ?_⟩; dsimp only; omega
  · simp only [h, if_false]; exact ⟨_, rfl, by dsimp only; omega⟩

theorem filesPart_spec (img : Image) (cf : Nat → Content) (s : RS) (hr : 0 ≤ s.remain) :
    ∃ r, filesPartC img cf s = .ok r ∧ 0 ≤ r.1.remain := by
  unfold filesPartC
  by_cases h : s.offset < (img.padAreaStart : Int)
  · simp only [h, if_true]
    split
    · exact ⟨_, rfl, hr⟩
    split
    · exact ⟨_, rfl, hr⟩
    · exact filesLoop_spec cf _ s hr
  · simp only [h, if_false]; exact ⟨_, rfl, hr⟩

theorem tailPart_spec (img : Image) (s : RS) : ∃ r, tailPartC img s = .ok r := by
  unfold tailPartC
  by_cases h : s.offset ≥ (img.padAreaStart : Int) ∧ s.offset < (img.totalSize : Int)
  · simp only [h, and_self, if_true]
    by_cases h0 : ((img.padAreaSize : Int) - (s.offset - img.padAreaStart) == 0) = true
    · simp only [h0, if_true]; exact ⟨_, rfl⟩
    · have h1 : loopOk s.remain 0 (if (img.padAreaSize : Int) - (s.offset - img.padAreaStart) > s.remain then s.remain
          else (img.padAreaSize : Int) - (s.offset - img.padAreaStart)) = true := by
        rw [loopOk_iff]; split <;> omega
      simp only [h0, h1, Bool.not_true, Bool.false_eq_true, if_false]; exact ⟨_, rfl⟩
  · simp only [h, if_false]; exact ⟨_, rfl⟩

/-- **VirtualISO.read never panics**: for every image (well-formed or not), every content of the
    member files, every non-negative offset and every buffer length no slice or index expression
    of the function is out of range. -/
theorem read_never_faults (img : Image) (cf : Nat → Content) (off : Int) (n : Nat) (ho : 0 ≤ off) :
    ∃ r, readC img cf off n = .ok r := by
  unfold readC
  by_cases h0 : off ≥ (img.totalSize : Int) ∨ (n == 0) = true
  · simp only [h0, if_true]; exact ⟨_, rfl⟩
  simp only [h0, if_false]
  obtain ⟨s1, hh, hr1⟩ := headPart_spec img off n ho
  rw [hh]; dsimp only
  by_cases h1 : s1.offset ≥ (img.totalSize : Int) ∨ (s1.remain == 0) = true
  · simp only [h1, if_true]; exact ⟨_, rfl⟩
  simp only [h1, if_false]
  obtain ⟨⟨s2, b⟩, hf, _⟩ := filesPart_spec img cf s1 hr1
  rw [hf]
  cases b with
  | true => exact ⟨_, rfl⟩
  | false => exact tailPart_spec img s2

/-- **ReadAt never panics, for any offset at all** (negative ones are refused before `read`; `Read`
    only ever passes the cursor, which `Seek` keeps non-negative). -/
theorem readAt_never_faults (img : Image) (cf : Nat → Content) (off : Int) (n : Nat) :
    ∃ r, readAtC img cf off n = .ok r := by
  unfold readAtC
  by_cases h : off < 0
  · simp only [h, if_true]; exact ⟨_, rfl⟩
  · simp only [h, if_false]; exact read_never_faults img cf off n (by omega)

/-! ### in-place transformations -/

theorem clearRegions_never_faults (hdr start len : Int) (clear : Bool) :
    clearRegionsC hdr start len clear = .ok () := by
  unfold clearRegionsC
  split
  · rfl
  · have : loopOk len 0 (min (hdr - start) len) = true := by rw [loopOk_iff]; omega
    simp [this]

/-- every sector decryptData visits, for every read position, length and region -/
theorem decrypt_never_faults (start len rs re i : Int) (hl : 0 ≤ len)
    (hlo : (decryptRange start len rs re).1 ≤ i) (hhi : i < (decryptRange start len rs re).2) :
    decryptSectorC start len i = .ok () := by
  unfold decryptRange S at hlo hhi
  simp only at hlo hhi
  unfold decryptSectorC S
  dsimp only
  split
  · have : sliceOk len (i * 2048 - start) ((i + 1) * 2048 - start) = true := by rw [sliceOk_iff]; omega
    simp [this]
  · have h1 : sliceOk len (max (i * 2048) start - start) (min ((i + 1) * 2048) (start + len) - start) = true := by
      rw [sliceOk_iff]; omega
    have h2 : sliceOk 2048 (max (i * 2048) start - i * 2048) (min ((i + 1) * 2048) (start + len) - i * 2048) = true := by
      rw [sliceOk_iff]; omega
    simp [h1, h2]

theorem clear3k3y_never_faults (b e start len : Int) :
    clear3k3yC b e start len = .ok () := by
  unfold clear3k3yC
  dsimp only
  split
  · rfl
  · have : loopOk len (max b start - start) (min e (start + len) - start) = true := by rw [loopOk_iff]; omega
    simp [this]


/-! ### count-driven allocation and guarded indexing (NewEncryptedISO) -/

/-- the region table's `make` is bounded by what fits one sector, whatever count the file declares -/
theorem table_alloc_bounded (rd : Nat → Nat → Bytes) (regs : List Crypt.Region) (h : Crypt.decodeTable rd = some regs) :
    regs.length ≤ 255 := by
  unfold Crypt.decodeTable at h
  simp only at h
  split at h
  · cases h
  split at h
  · cases h
  split at h
  · cases h
  · rename_i hc _
    cases h
    simp only [List.length_map, List.length_range]
    have : Crypt.maxRegions = 255 := by decide
    omega

/-- `unencryptedRegions[0]` is only evaluated on a non-empty table -/
theorem index0_guarded (regs : List Crypt.Region) (h : Crypt.validRegs regs = true) : regs ≠ [] := by
  intro he; subst he; simp [Crypt.validRegs] at h

/-! ### fixed-width encoders: the `panic("encoded data too large" / "size mismatch")` guards -/

/-- pathTableEntry.size() computes with `byte(len(identifier))`; encodeOrdered writes `len` bytes -/
def ptEntrySizeGo (idLen : Nat) : Nat := 8 + idLen % 256 + (idLen % 256) % 2
def ptEntryEncodedLen (idLen : Nat) : Nat := 8 + idLen + idLen % 2

/-- … they agree (no "path table entry size mismatch") for every identifier the generator makes -/
theorem pt_entry_size_consistent (name : Bytes) (joliet : Bool) :
    ptEntrySizeGo (makeIdentifier name joliet).length = ptEntryEncodedLen (makeIdentifier name joliet).length := by
  have := C08.identifier_fits name joliet
  unfold ptEntrySizeGo ptEntryEncodedLen
  rw [Nat.mod_eq_of_lt (by omega)]

/-- the record-length byte never wraps and the record is what `size()` says -/
theorem dir_record_consistent (r : DirRec) (ht : r.time.length = 7) (name : Bytes) (joliet : Bool)
    (hid : r.ident = makeIdentifier name joliet) : r.encode.length = r.size ∧ r.ident.length < 256 := by
  have := C08.identifier_fits name joliet
  exact ⟨C08.record_length r ht, by rw [hid]; omega⟩

/-- the volume identifier handed to the 32-byte field fits, for every directory name -/
theorem volume_id_fits (set name : Bytes) (joliet : Bool) : ((mangleUpper set name joliet).take 32).length ≤ 32 := by
  simp [List.length_take]; omega

/-- `gameCode[:4]` and the 32-byte product-id field: only evaluated for a TITLE_ID of 4..31 bytes,
    whatever PARAM.SFO contains -/
theorem product_id_guarded (w : World) (root : Path) (c : Bytes) (h : gameCodeOf w root true = some c) :
    4 ≤ c.length ∧ (c.take 4 ++ [45] ++ c.drop 4).length ≤ 32 := by
  unfold gameCodeOf at h
  simp only [if_true] at h
  split at h
  · split at h
    · split at h
      · split at h
        · cases h
        · rename_i hb
          cases h
          simp at hb
          refine ⟨by omega, ?_⟩
          simp [List.length_append, List.length_take, List.length_drop]; omega
      · cases h
    · cases h
  · cases h

/-! ### HandleReadCD2048Critical: no int64 overflow for any start sector, count and sector size -/

theorem readcd_offsets_fit : readCDMaxOffset 24 2448 < 2 ^ 63 := by decide

/-- non-vacuity: an in-range and a hostile geometry both run to completion -/
example : (readC ⟨[1, 2, 3], [], 2048, 4096, 6144⟩ (fun _ => ⟨0, 0, []⟩) 1 10000).isOk = true ∧
          (readC ⟨[1, 2, 3], [⟨0, 5, 9⟩], 2048, 1, 100000⟩ (fun _ => ⟨0, 0, []⟩) 2 99999).isOk = true := by
  decide

/-- a PARAM.SFO key is read through a 512-byte window: whatever the file holds, no key longer than
    that is ever built in memory -/
theorem sfo_key_bounded (b : Bytes) (off : Nat) (k : Bytes) (h : cstrAt b off = some k) : k.length < Gen.fs_sfoMaxKeyLen := by
  unfold cstrAt at h
  simp only at h
  split at h
  · rename_i hc
    simp only [Option.some.injEq] at h
    subst h
    -- takeWhile of a list that contains 0 is strictly shorter than the list
    generalize hl : (b.drop off).take Gen.fs_sfoMaxKeyLen = l at hc
    have hlen : l.length ≤ Gen.fs_sfoMaxKeyLen := by rw [← hl]; simp [List.length_take]; omega
    have : (l.takeWhile (· != 0)).length < l.length := by
      clear hl hlen
      induction l with
      | nil => simp at hc
      | cons a t ih =>
        by_cases ha : a = 0
        · simp [List.takeWhile, ha]
        · have hc' : t.contains 0 = true := by
            simp only [List.contains_cons, Bool.or_eq_true, beq_iff_eq] at hc
            rcases hc with h | h
            · exact absurd h.symm ha
            · exact h
          have := ih hc'
          have hne : (a != 0) = true := by simpa using ha
          simp only [List.takeWhile, hne, List.length_cons]; omega
    omega
  · cases h

/-- **The value length a PARAM.SFO declares never drives memory use**: whatever the file declares and
    however large it is, the value `sfoField` returns is at most `sfoMaxValueLen` (64 KiB) long -/
theorem sfo_value_bounded (b field v : Bytes) (h : sfoField b field = some v) : v.length ≤ Gen.fs_sfoMaxValueLen := by
  unfold sfoField at h
  split at h
  · cases h
  · split at h
    · cases h
    · split at h
      · split at h
        · cases h
        · cases h
        · rename_i dl dof nt _
          split at h
          · cases h
          · rename_i hle
            cases nt with
            | true =>
              simp only [if_true] at h
              split at h
              · rename_i hv
                simp only [Option.some.injEq] at h; subst h
                have hv' := eq_of_beq hv
                omega
              · cases h
            | false =>
              simp only [Bool.false_eq_true, if_false] at h
              split at h
              · rename_i hv
                simp only [Option.some.injEq] at h; subst h
                have hv' := eq_of_beq hv
                omega
              · cases h
      · cases h

end Ps3.Props.C04
