/-
  C05 — Write gating: read-only by default; uploads exact when enabled.
-/
import Ps3.Model.Conn
import Ps3.Proof.World
namespace Ps3.Props.C05
open Ps3 Ps3.Conn Ps3.Proto

/-- With writing disabled no single request changes anything under the root
    (files, contents, directories, timestamps) — for every request, state and world. -/
theorem readonly_step (cfg : Cfg) (h : cfg.allowWrite = false) (w : World) (st : State) (r : Req) :
    (step cfg w st r).1 = w := by
  cases r <;> simp [step, h]
  all_goals (repeat' split) <;> try rfl

/-- … and therefore no request *sequence*, complete or truncated, well-formed or not, does:
    the world after `serveConn` returns is the world before, for every byte stream. -/
theorem readonly_serve (cfg : Cfg) (h : cfg.allowWrite = false) :
    ∀ (fuel : Nat) (w : World) (st : State) (input acc : Bytes) (used : Nat),
      (serve cfg fuel w st input acc used).1 = w := by
  intro fuel
  induction fuel with
  | zero => intros; rfl
  | succ n ih =>
    intro w st input acc used
    unfold serve
    split
    · -- a truncated request: `partialWrite` needs writing to be enabled
      unfold partialWrite
      cases truncatedWrite input with
      | none => rfl
      | some p => simp [h]
    · rfl
    · rename_i r rest _
      have hw := readonly_step cfg h w st r
      generalize hs : step cfg w st r = res at hw
      obtain ⟨w', st', out⟩ := res
      simp only at hw
      subst hw
      dsimp only
      split
      · rfl
      · exact ih _ _ _ _ _

/-- Every mutating request is refused with the protocol's failure code when writing is disabled. -/
theorem create_refused (cfg : Cfg) (h : cfg.allowWrite = false) (w : World) (st : State) (p : Bytes) :
    (step cfg w st (.createFile p)).2.2.bytes = createFileResult false := by simp [step, h]

theorem write_refused (cfg : Cfg) (h : cfg.allowWrite = false) (w : World) (st : State) (n : Nat) (pl : Bytes) :
    (step cfg w st (.writeFile n pl)).2.2.bytes = writeFileResult none := by simp [step, h]

theorem delete_refused (cfg : Cfg) (h : cfg.allowWrite = false) (w : World) (st : State) (p : Bytes) :
    (step cfg w st (.deleteFile p)).2.2.bytes = deleteFileResult false := by simp [step, h]

theorem mkdir_refused (cfg : Cfg) (h : cfg.allowWrite = false) (w : World) (st : State) (p : Bytes) :
    (step cfg w st (.mkdir p)).2.2.bytes = mkdirResult false := by simp [step, h]

theorem rmdir_refused (cfg : Cfg) (h : cfg.allowWrite = false) (w : World) (st : State) (p : Bytes) :
    (step cfg w st (.rmdir p)).2.2.bytes = rmdirResult false := by simp [step, h]

/-- the failure code is the 4 bytes ff ff ff ff (−1), the success code 00 00 00 00 -/
theorem failure_code : createFileResult false = [0xff, 0xff, 0xff, 0xff] ∧ createFileResult true = [0, 0, 0, 0] := by
  decide

/-- A refused request never ends the connection (the client stays in sync and may go on reading). -/
theorem refused_keeps_connection (cfg : Cfg) (h : cfg.allowWrite = false) (w : World) (st : State) (r : Req)
    (hm : match r with | .createFile _ | .writeFile _ _ | .deleteFile _ | .mkdir _ | .rmdir _ => True | _ => False) :
    (step cfg w st r).2.2.close = false := by
  cases r <;> simp at hm <;> simp [step, h]

/-- In either mode a generated image can never be written through: creating a file below a
    virtual-image prefix leaves the world unchanged (and is refused unless the path names an
    existing directory, for which CREATE is a no-op by protocol). -/
theorem create_virtual_noop (cfg : Cfg) (w : World) (st : State) (p : Bytes)
    (hv : isVirtual (PathStr.cleanRequest p) = true) :
    (step cfg w st (.createFile p)).1 = w := by
  simp only [step]
  split
  · rfl
  · split
    · rfl
    · simp [hv]

/-- With writing enabled, a WRITE_FILE appends exactly the payload to the file being written
    (whatever its previous content) and reports exactly the payload's length. -/
theorem write_appends (cfg : Cfg) (h : cfg.allowWrite = true) (w : World) (st : State) (ino : Nat) (f : Inode)
    (hwo : st.wo = some ⟨ino⟩) (hf : w.inode? ino = some f) (n : Nat) (pl : Bytes) (hn : n ≤ maxAnnounce) :
    ((step cfg w st (.writeFile n pl)).1.inode? ino).map (·.content.all) = some (f.content.all ++ pl)
    ∧ (step cfg w st (.writeFile n pl)).2.2.bytes = writeFileResult (some pl.length) := by
  have hlt := Proof.World.inode?_some_lt w ino f hf
  have hn' : ¬ (n > maxAnnounce) := by omega
  simp [step, h, hwo, hf, hn', Proof.World.inode?_setInode _ _ _ hlt, Proof.World.ofBytes_all]

/-- A payload whose length the 32-bit answer could not report (2 GiB or more) is refused as a whole:
    nothing is written and the failure code is answered, in either mode. -/
theorem write_too_big_refused (cfg : Cfg) (w : World) (st : State) (n : Nat) (pl : Bytes) (hn : n > maxAnnounce) :
    (step cfg w st (.writeFile n pl)).1 = w ∧ (step cfg w st (.writeFile n pl)).2.1 = st ∧
      (step cfg w st (.writeFile n pl)).2.2.bytes = writeFileResult none := by
  simp [step, hn]

/-- Upload exactness: after CREATE opened inode `ino` empty, any sequence of WRITE_FILE payloads
    (any chunking, including empty chunks) leaves exactly their concatenation in the file. -/
theorem upload_exact (cfg : Cfg) (h : cfg.allowWrite = true) (ino : Nat) :
    ∀ (chunks : List Bytes) (w : World) (st : State) (f : Inode),
      (∀ pl ∈ chunks, pl.length ≤ maxAnnounce) →
      st.wo = some ⟨ino⟩ → w.inode? ino = some f →
      let fin := chunks.foldl (fun (ws : World × State) pl =>
        let r := step cfg ws.1 ws.2 (.writeFile pl.length pl); (r.1, r.2.1)) (w, st)
      (fin.1.inode? ino).map (·.content.all) = some (f.content.all ++ chunks.flatten) := by
  intro chunks
  induction chunks with
  | nil => intro w st f _ _ hf; simp [hf]
  | cons pl rest ih =>
    intro w st f hsz hwo hf
    simp only [List.foldl_cons, List.flatten_cons]
    have hpl : ¬ (pl.length > maxAnnounce) := by have := hsz pl (by simp); omega
    have hlt := Proof.World.inode?_some_lt w ino f hf
    have hst : (step cfg w st (.writeFile pl.length pl)).2.1 = st := by simp [step, h, hwo, hf, hpl]
    have hino : (step cfg w st (.writeFile pl.length pl)).1.inode? ino
        = some ⟨Content.ofBytes (f.content.all ++ pl), if pl.isEmpty then f.mtime else recent⟩ := by
      simp [step, h, hwo, hf, hpl, Proof.World.inode?_setInode _ _ _ hlt]
    have := ih (step cfg w st (.writeFile pl.length pl)).1 (step cfg w st (.writeFile pl.length pl)).2.1 _
      (fun q hq => hsz q (by simp [hq])) (by rw [hst]; exact hwo) hino
    simp only [Proof.World.ofBytes_all, List.append_assoc] at this
    exact this

end Ps3.Props.C05
