/-
  C06 — Directory listing, stat and dir-size report the true tree.
-/
import Ps3.Model.Conn
namespace Ps3.Props.C06
open Ps3 Ps3.Conn Ps3.Proto

/-- what an enumeration of directory `named` must report: every name whose Stat succeeds
    (symlinks resolved, dangling ones omitted), each with its resolved kind, size and mtime -/
def listing (w : World) (named : Path) (names : List Name) : List Info :=
  names.filterMap (fun n => statInfo w (named ++ [n]))

/-- OPEN_DIR succeeds exactly for existing directories. -/
theorem opendir_iff_dir (cfg : Cfg) (w : World) (st : State) (raw : Bytes) :
    (step cfg w st (.openDir raw)).2.2.bytes = openDirResult true ↔
      ∃ q, openRO cfg w (PathStr.cleanRequest raw) = some (.dir q) := by
  simp only [step]
  have hne : openDirResult false ≠ openDirResult true := by decide
  split
  · simp_all
  · simp_all
  · rename_i x hx heq
    constructor
    · intro h; exact absurd h hne
    · rintro ⟨q, hq⟩
      rw [hq] at heq
      exact absurd (Option.some.inj heq).symm (hx q)

/-- a successful OPEN_DIR starts a fresh enumeration of that directory -/
theorem opendir_fresh (cfg : Cfg) (w : World) (st : State) (raw : Bytes) (q : Path)
    (h : openRO cfg w (PathStr.cleanRequest raw) = some (.dir q)) :
    ((step cfg w st (.openDir raw)).2.1.cwd.map (fun h => (h.real, h.named, h.remaining))) =
      some (q, PathStr.cleanRequest raw, none) := by
  simp [step, h]

theorem nextEntry_none (w : World) (named : Path) (names : List Name) :
    nextEntry w named names = none ↔ listing w named names = [] := by
  induction names with
  | nil => simp [nextEntry, listing]
  | cons n rest ih =>
    unfold nextEntry listing
    cases h : statInfo w (named ++ [n]) with
    | none => simp only [List.filterMap_cons, h]; exact ih
    | some i => simp [List.filterMap_cons, h]

theorem nextEntry_some (w : World) (named : Path) (names : List Name) (i : Info) (rest : List Name)
    (h : nextEntry w named names = some (i, rest)) :
    listing w named names = i :: listing w named rest := by
  induction names with
  | nil => simp [nextEntry] at h
  | cons n tl ih =>
    unfold nextEntry at h
    unfold listing
    cases hs : statInfo w (named ++ [n]) with
    | none => rw [hs] at h; simp only [List.filterMap_cons, hs]; exact ih h
    | some j => rw [hs] at h; simp only [Option.some.injEq, Prod.mk.injEq] at h; obtain ⟨rfl, rfl⟩ := h
                simp [List.filterMap_cons, hs, listing]

/-- One step of the entry-by-entry enumeration (either command): if entries remain to be reported,
    the next one — and only it — is sent and removed from the cursor; otherwise the end marker is
    sent and the directory is closed. -/
theorem enumerate_step (cfg : Cfg) (w : World) (st : State) (h : DirHandle) (hc : st.cwd = some h) (v2 : Bool) :
    let names := h.remaining.getD (dirNames w h.real)
    let r := step cfg w st (if v2 then .readDirEntryV2 else .readDirEntry)
    let enc := if v2 then readDirEntryV2Result else readDirEntryResult
    (listing w h.named names = [] → r.2.2.bytes = enc none ∧ r.2.1.cwd = none) ∧
    (∀ i tl, listing w h.named names = i :: tl →
      r.2.2.bytes = enc (some i) ∧
      ∃ h', r.2.1.cwd = some h' ∧ h'.named = h.named ∧ h'.real = h.real ∧
        listing w h'.named (h'.remaining.getD (dirNames w h'.real)) = tl) := by
  intro names r enc
  cases v2 <;> simp only [r, enc, names, step, hc, Bool.false_eq_true, if_false, if_true]
  all_goals
    cases hn : nextEntry w h.named (h.remaining.getD (dirNames w h.real)) with
    | none =>
      have := (nextEntry_none w h.named _).mp hn
      simp [this]
    | some p =>
      obtain ⟨i, rest⟩ := p
      have := nextEntry_some w h.named _ i rest hn
      simp [this]

/-- After the end marker the enumeration stays at the end marker. -/
theorem enumerate_after_end (cfg : Cfg) (w : World) (st : State) (hc : st.cwd = none) :
    (step cfg w st .readDirEntry).2.2.bytes = readDirEntryResult none ∧
    (step cfg w st .readDirEntryV2).2.2.bytes = readDirEntryV2Result none ∧
    (step cfg w st .readDirEntry).2.1.cwd = none ∧ (step cfg w st .readDirEntryV2).2.1.cwd = none := by
  simp [step, hc]

/-- The bulk listing reports exactly the not-yet-enumerated entries of the open directory. -/
theorem readdir_exact (cfg : Cfg) (w : World) (st : State) (h : DirHandle) (hc : st.cwd = some h) :
    (step cfg w st .readDir).2.2.bytes =
      readDirResult (listing w h.named (h.remaining.getD (dirNames w h.real))) := by
  simp [step, hc, listing]

/-- Every reported entry carries the true kind, size (0 for directories) and mtime of the object
    the name resolves to. -/
theorem info_true (w : World) (p : Path) (i : Info) (h : statInfo w p = some i) :
    ∃ q n, w.stat p = some (q, n) ∧
      match n with
      | .file ino => ∃ f, w.inode? ino = some f ∧ i.isDir = false ∧ i.size = f.content.size ∧ i.mtime = f.mtime
      | .dir mt => i.isDir = true ∧ i.size = 0 ∧ i.mtime = mt
      | _ => False := by
  unfold statInfo at h
  split at h
  · simp at h
  · split at h
    · simp at h
    · rename_i q n hst
      refine ⟨_, n, hst, ?_⟩
      cases n with
      | file ino =>
        simp only [infoOf, Option.map_eq_some_iff] at h
        obtain ⟨f, hf, rfl⟩ := h
        exact ⟨f, hf, rfl, rfl, rfl⟩
      | dir mt => simp only [infoOf, Option.some.injEq] at h; subst h; exact ⟨rfl, rfl, rfl⟩
      | link t => simp [infoOf] at h
      | linkOut => simp [infoOf] at h

/-- STAT answers −1 exactly when the path does not resolve. -/
theorem stat_exact (cfg : Cfg) (w : World) (st : State) (raw : Bytes) :
    (step cfg w st (.statFile raw)).2.2.bytes = statFileResult (statInfo w (PathStr.cleanRequest raw)) := by
  simp [step]

/-- Dir-size of a regular file is its size; of a directory, the sum over its entries (recursively). -/
theorem dirsize_unfold (w : World) (fuel : Nat) (p : Path) :
    walkSize w (fuel + 1) p =
      match w.stat p with
      | none => 0
      | some (_, .file i) => ((w.inode? i).map (·.content.size)).getD 0
      | some (q, .dir _) => ((dirNames w q).map (fun n => walkSize w fuel (p ++ [n]))).sum
      | some _ => 0 := by
  simp only [walkSize]
  split <;> simp_all

/-- Dir-size of an existing directory is the total size of the regular files beneath it … -/
theorem dirsize_exact (cfg : Cfg) (w : World) (st : State) (raw : Bytes) (q : Path) (mt : Nat)
    (hn : (PathStr.cleanRequest raw).all nameOk = true)
    (hd : w.stat (PathStr.cleanRequest raw) = some (q, .dir mt)) :
    (step cfg w st (.getDirSize raw)).2.2.bytes =
      getDirSizeResult (walkSize w dirSizeFuel (PathStr.cleanRequest raw)) := by
  simp [step, hn, hd]

/-- … and −1 for a path that does not exist or is not a directory (never 0, never a file's size). -/
theorem dirsize_missing (cfg : Cfg) (w : World) (st : State) (raw : Bytes)
    (h : w.stat (PathStr.cleanRequest raw) = none) :
    (step cfg w st (.getDirSize raw)).2.2.bytes = getDirSizeResult (neg1 8) ∧
      (step cfg w st (.getDirSize raw)).2.2.close = false := by
  simp only [step]
  split <;> simp_all

theorem dirsize_of_file (cfg : Cfg) (w : World) (st : State) (raw : Bytes) (q : Path) (i : Nat)
    (h : w.stat (PathStr.cleanRequest raw) = some (q, .file i)) :
    (step cfg w st (.getDirSize raw)).2.2.bytes = getDirSizeResult (neg1 8) := by
  simp only [step]
  split <;> simp_all

end Ps3.Props.C06
