/-
  C07 — Generated ISO contains exactly the source tree, byte for byte.
-/
import Ps3.Proof.Viso
import Ps3.Proof.BuildWF
namespace Ps3.Props.C07
open Ps3 Ps3.Viso Ps3.Spec.Viso Ps3.Proof.Viso Ps3.Proof.Slice

/-- where a file's bytes sit inside the file zone -/
theorem file_position (cf : Nat → Content) :
    ∀ (fs : List FileExt) (start : Nat), Consec start fs → (∀ f ∈ fs, (cf f.ino).size = f.size) →
      ∀ f ∈ fs, ∃ pre post : Bytes, flatFiles cf fs = pre ++ (fileBytes cf f ++ post) ∧
        start + pre.length = f.lba * sectorSize := by
  intro fs
  induction fs with
  | nil => intro _ _ _ f hf; simp at hf
  | cons g rest ih =>
    intro start hc hsz f hf
    obtain ⟨hstart, hrest⟩ := hc
    rcases List.mem_cons.mp hf with rfl | hmem
    · exact ⟨[], flatFiles cf rest, by simp [flatFiles_cons], by simpa using hstart.symm⟩
    · obtain ⟨pre, post, heq, hpos⟩ := ih (start + padded g) hrest (fun x hx => hsz x (List.mem_cons_of_mem _ hx)) f hmem
      refine ⟨fileBytes cf g ++ pre, post, by rw [flatFiles_cons, heq, List.append_assoc], ?_⟩
      rw [List.length_append, fileBytes_length cf g (hsz g List.mem_cons_self)]
      omega

/-- **Extent content**: in a well-formed image, the extent recorded for a file — `size` bytes at
    sector `lba` — holds exactly that file's bytes; the rest of its last sector is zero. Holds for
    every file of every tree, whatever the sizes (not a multiple of 2048, larger than 4 GiB …). -/
theorem extent_content (img : Image) (cf : Nat → Content) (h : WF img cf) (f : FileExt) (hf : f ∈ img.files) :
    slice (flat img cf) (f.lba * sectorSize) f.size = (cf f.ino).all ∧
    slice (flat img cf) (f.lba * sectorSize + f.size) (padded f - f.size) = zeros (padded f - f.size) := by
  obtain ⟨pre, post, heq, hpos⟩ := file_position cf img.files img.fsBuf.length h.consec h.sizes f hf
  have hs := h.sizes f hf
  have hfl : flat img cf = (img.fsBuf ++ pre) ++ ((cf f.ino).all ++ (zeros (padded f - f.size) ++ (post ++ zeros img.padAreaSize))) := by
    unfold flat; rw [heq]; simp [fileBytes, Content.all, hs, List.append_assoc]
  have hlen : (img.fsBuf ++ pre).length = f.lba * sectorSize := by rw [List.length_append]; exact hpos
  have hall : (cf f.ino).all.length = f.size := by rw [Proof.Content.all_length, hs]
  constructor
  · rw [hfl, slice_append_right _ _ _ _ (by omega), hlen, Nat.sub_self, slice_append_left _ _ _ _ (by omega)]
    exact slice_zero_all _ _ (by omega)
  · rw [hfl, slice_append_right _ _ _ _ (by omega), hlen,
      slice_append_right _ _ _ _ (by omega), hall]
    have : f.lba * sectorSize + f.size - f.lba * sectorSize - f.size = 0 := by omega
    rw [this, slice_append_left _ _ _ _ (by simp)]
    exact slice_zero_all _ _ (by simp)

/-- … and reading that extent through the image (library view, network, make-iso) returns them. -/
theorem read_extent (img : Image) (cf : Nat → Content) (h : WF img cf) (f : FileExt) (hf : f ∈ img.files) :
    img.read cf (f.lba * sectorSize) f.size = (cf f.ino).all := by
  rw [read_eq_slice img cf h]; exact (extent_content img cf h f hf).1

/-- Unconditionally, for every tree: each non-empty file of the image `build` produces is stored,
    byte for byte and zero-padded, in the extent its record names. -/
theorem built_extent_content (w : World) (root : Path) (ps3 : Bool) (clk : Clock) (filler : Bytes) (img : Image)
    (h : build w root ps3 clk filler = some img) (f : FileExt) (hf : f ∈ img.files) :
    img.read (Proof.BuildWF.cfOf w) (f.lba * sectorSize) f.size = (Proof.BuildWF.cfOf w f.ino).all :=
  read_extent img _ (Proof.BuildWF.build_wf w root ps3 clk filler img h) f hf

/-- A file that fits 32 bits gets one record carrying its exact size (0 for an empty file). -/
theorem single_extent (f : FileRef) (joliet : Bool) (base : Nat) (h : f.size ≤ maxPart) :
    (fileRecs f joliet base).map (fun r => (r.extLoc, r.extLen, r.flags)) = [(f.rLBA + base, f.size, 0)] := by
  unfold fileRecs
  have : ¬ f.size > maxPart := by omega
  simp [this]


/-- A larger file is split into extents of 0xFFFFF800 bytes (all flagged multi-extent) plus a last,
    unflagged one holding the remainder; the extents are contiguous on disc. -/
theorem multi_extent_shape (f : FileRef) (joliet : Bool) (base : Nat) (h : f.size > maxPart) (i : Nat)
    (hi : i < f.size / multiExtentPart + (if f.size % multiExtentPart > 0 then 1 else 0)) :
    ((fileRecs f joliet base)[i]?.map (fun r => (r.extLoc, r.extLen, r.flags))) =
      some (f.rLBA + i * sectors multiExtentPart + base,
            if i = f.size / multiExtentPart + (if f.size % multiExtentPart > 0 then 1 else 0) - 1
              then f.size - i * multiExtentPart else multiExtentPart,
            if i = f.size / multiExtentPart + (if f.size % multiExtentPart > 0 then 1 else 0) - 1
              then 0 else Gen.fs_dirFlagMultiExtent) := by
  unfold fileRecs
  simp only [h, if_true]
  generalize f.size / multiExtentPart + (if f.size % multiExtentPart > 0 then 1 else 0) = parts at hi ⊢
  rw [List.getElem?_map, List.getElem?_range hi]
  simp only [Option.map_some]
  by_cases hl : i = parts - 1
  · simp [hl]
  · have : (i == parts - 1) = false := by simpa using hl
    simp [this, hl]

/-- … and their lengths add up to exactly the file's size. -/
theorem multi_extent_total (size P : Nat) (hP : 0 < P) :
    let parts := size / P + (if size % P > 0 then 1 else 0)
    (parts - 1) * P + (size - (parts - 1) * P) = size ∧ (0 < size → size - (parts - 1) * P ≤ P ∧ 0 < size - (parts - 1) * P) := by
  intro parts
  have hdm := Nat.div_add_mod size P
  have hmod := Nat.mod_lt size hP
  constructor
  · simp only [parts]
    split
    · have : (size / P + 1 - 1) * P = P * (size / P) := by rw [Nat.add_sub_cancel, Nat.mul_comm]
      rw [this]; omega
    · have hz : size % P = 0 := by omega
      by_cases hq : size / P = 0
      · simp [hq]
      · have hle : (size / P - 1) * P ≤ size := by
          calc (size / P - 1) * P ≤ (size / P) * P := Nat.mul_le_mul_right _ (Nat.sub_le _ _)
            _ ≤ size := Nat.div_mul_le_self _ _
        simp only [Nat.add_zero]; omega
  · intro hpos
    simp only [parts]
    split
    · have : (size / P + 1 - 1) * P = P * (size / P) := by rw [Nat.add_sub_cancel, Nat.mul_comm]
      rw [this]; omega
    · have hz : size % P = 0 := by omega
      have hq : 0 < size / P := by
        rcases Nat.eq_zero_or_pos (size / P) with h0 | h0
        · simp only [h0, Nat.mul_zero, Nat.zero_add] at hdm; omega
        · exact h0
      have : (size / P + 0 - 1) * P = P * (size / P) - P := by
        rw [Nat.add_zero, Nat.sub_mul, Nat.one_mul, Nat.mul_comm]
      rw [this]
      have : P ≤ P * (size / P) := Nat.le_mul_of_pos_right _ hq
      omega

/-- ASCII strings decode to their own bytes -/
theorem runes_ascii (s : Bytes) (h : ∀ c ∈ s, c.toNat < 128) : Text.runes s = s.map (·.toNat) := by
  unfold Text.runes
  suffices ∀ (fuel : Nat) (s : Bytes), s.length ≤ fuel → (∀ c ∈ s, c.toNat < 128) → Text.runesAux fuel s = s.map (·.toNat) from
    this _ _ (Nat.le_refl _) h
  intro fuel
  induction fuel with
  | zero => intro s hl _; have : s = [] := List.length_eq_zero_iff.mp (by omega); subst this; rfl
  | succ k ih =>
    intro s hl hs
    cases s with
    | nil => rfl
    | cons b rest =>
      have hb : b.toNat < 128 := hs b List.mem_cons_self
      simp only [Text.runesAux, hb, if_true, List.map_cons]
      rw [ih rest (by simpa using hl) (fun c hc => hs c (List.mem_cons_of_mem _ hc))]

/-- Names made only of portable characters (here: any d1-characters) and short enough are preserved
    in the Joliet hierarchy (as UCS-2) … -/
theorem identifier_portable_joliet (name : Bytes) (hlen : name.length ≤ 110)
    (hset : ∀ c ∈ name, c.toNat < 128 ∧ Gen.fs_d1Characters.contains c = true) :
    makeIdentifier name true = utf16be name := by
  unfold makeIdentifier
  have h2 : Gen.fs_maxJolietIdentifierChars = 110 := rfl
  rw [runes_ascii name (fun c hc => (hset c hc).1)]
  simp only [if_true, h2]
  rw [List.take_of_length_le (by simpa using hlen)]
  congr 1
  unfold mangleD1
  rw [List.map_map]
  conv => rhs; rw [← List.map_id name]
  apply List.map_congr_left
  intro c hc
  obtain ⟨h1, h3⟩ := hset c hc
  have : UInt8.ofNat c.toNat = c := by simp
  have h3' := List.contains_iff_mem.mp h3
  simp [inSet, h1, this, h3']

/-- … and in the primary hierarchy when they are already upper case (lower-case letters are upper-cased). -/
theorem identifier_portable_primary (name : Bytes) (hlen : name.length ≤ 221)
    (hset : ∀ c ∈ name, c.toNat < 128 ∧ Gen.fs_d1Characters.contains c = true ∧ ¬ (97 ≤ c.toNat ∧ c.toNat ≤ 122)) :
    makeIdentifier name false = name := by
  unfold makeIdentifier
  have h1 : Gen.fs_maxIdentifierChars = 221 := rfl
  rw [runes_ascii name (fun c hc => (hset c hc).1)]
  simp only [Bool.false_eq_true, if_false, h1, List.map_map]
  rw [List.take_of_length_le (by simpa using hlen)]
  unfold mangleD1
  rw [List.map_map]
  conv => rhs; rw [← List.map_id name]
  apply List.map_congr_left
  intro c hc
  obtain ⟨h1, h3, h4⟩ := hset c hc
  have hu : Text.toUpperRune c.toNat = c.toNat := by
    unfold Text.toUpperRune
    split
    · exact absurd ‹_› h4
    · split
      · rename_i hh; simp at hh; omega
      · split
        · rename_i hh; simp at hh; omega
        · rfl
  have : UInt8.ofNat c.toNat = c := by simp
  have h3' := List.contains_iff_mem.mp h3
  simp [inSet, hu, h1, this, h3']

/-- **Every extent length fits the 32-bit field of a directory record**, for every file size: a
    file up to 2^32−1 bytes is one extent, a larger one is cut into parts of 0xFFFFF800 bytes, so the
    both-endian length field never wraps and the size an ISO reader decodes is the file's. -/
theorem extent_len_fits (f : FileRef) (joliet : Bool) (base : Nat) :
    ∀ r ∈ fileRecs f joliet base, r.extLen < 2 ^ 32 := by
  intro r hr
  have hmax : maxPart = 2 ^ 32 - 1 := by decide
  have hpart : multiExtentPart = 2 ^ 32 - 2048 := by decide
  unfold fileRecs at hr
  dsimp only at hr
  split at hr
  · rw [List.mem_map] at hr
    obtain ⟨i, hi, rfl⟩ := hr
    rw [List.mem_range] at hi
    have htot := (multi_extent_total f.size multiExtentPart (by rw [hpart]; decide)).2 (by omega)
    generalize f.size / multiExtentPart + (if f.size % multiExtentPart > 0 then 1 else 0) = parts at hi htot ⊢
    by_cases hl : (i == parts - 1) = true
    · simp only [hl, if_true]
      simp only [beq_iff_eq] at hl
      rw [← hl] at htot
      omega
    · simp only [hl, Bool.false_eq_true, if_false]
      rw [hpart]; decide
  · simp only [List.mem_singleton] at hr
    subst hr
    show f.size < 2 ^ 32
    omega

/-! ### the scan covers exactly the tree -/

def isFileAt (w : World) (path : Path) (n : Name) : Bool :=
  match w.stat (path ++ [n]) with
  | some (_, .file _) => true
  | _ => false

def isDirAt (w : World) (path : Path) (n : Name) : Bool :=
  match w.stat (path ++ [n]) with
  | some (_, .dir _) => true
  | _ => false

/-- one directory is scanned completely: every name becomes either a file record of this directory
    or a pushed sub-directory, in enumeration order, nothing is dropped and nothing invented -/
theorem scanEntries_partition (w : World) (path : Path) (names : List Name) :
    ∀ (files : List FileRef) (stack : List Path) (s : Nat) (files' : List FileRef) (stack' : List Path) (s' : Nat),
    scanEntries w path names files stack s = some (files', stack', s') →
      files'.map (·.name) = files.map (·.name) ++ names.filter (isFileAt w path) ∧
      stack' = stack ++ (names.filter (isDirAt w path)).map (fun n => path ++ [n]) ∧
      ∀ n ∈ names, isFileAt w path n = true ∨ isDirAt w path n = true := by
  induction names with
  | nil =>
    intro files stack s files' stack' s' h
    simp [scanEntries] at h
    obtain ⟨rfl, rfl, _⟩ := h
    simp
  | cons n rest ih =>
    intro files stack s files' stack' s' h
    unfold scanEntries at h
    split at h
    · cases h
    · rename_i q mt hst
      obtain ⟨a, b, c⟩ := ih _ _ _ _ _ _ h
      have hd : isDirAt w path n = true := by simp [isDirAt, hst]
      have hf : isFileAt w path n = false := by simp [isFileAt, hst]
      refine ⟨?_, ?_, ?_⟩
      · simp [hf, a]
      · simp [hd, b]
      · intro x hx; rcases List.mem_cons.mp hx with rfl | hx
        · exact Or.inr hd
        · exact c x hx
    · rename_i q i hst
      split at h
      · cases h
      · obtain ⟨a, b, c⟩ := ih _ _ _ _ _ _ h
        have hd : isDirAt w path n = false := by simp [isDirAt, hst]
        have hf : isFileAt w path n = true := by simp [isFileAt, hst]
        refine ⟨?_, ?_, ?_⟩
        · simp [hf, a]
        · simp [hd, b]
        · intro x hx; rcases List.mem_cons.mp hx with rfl | hx
          · exact Or.inl hf
          · exact c x hx
    · cases h

theorem split_last {α : Type} (l : List α) (a : α) (h : l.getLast? = some a) : l = l.dropLast ++ [a] := by
  have hne : l ≠ [] := by intro e; simp [e] at h
  have h1 := List.dropLast_concat_getLast hne
  have h2 : l.getLast hne = a := by
    have := List.getLast?_eq_some_getLast hne
    rw [this] at h; exact Option.some.inj h
  rw [h2] at h1; exact h1.symm

/-- directory `it` of the image was scanned completely and all its sub-directories are in the image too -/
def ItemOk (w : World) (items : List DirItem) (it : DirItem) : Prop :=
  ∃ q mt, w.stat it.path = some (q, .dir mt) ∧ it.mtime = mt ∧
    it.files.map (·.name) = (dirNames w q).filter (isFileAt w it.path) ∧
    (∀ n ∈ dirNames w q, isFileAt w it.path n = true ∨ isDirAt w it.path n = true) ∧
    ∀ n ∈ (dirNames w q).filter (isDirAt w it.path), (it.path ++ [n]) ∈ items.map (·.path)

theorem scan_visits (w : World) (fuel : Nat) :
    ∀ (stack : List Path) (acc : List DirItem) (s : Nat) (items : List DirItem) (e : Nat),
    scan w fuel stack acc s = some (items, e) →
      (∃ tail, items = acc ++ tail) ∧ (∀ p ∈ stack, p ∈ items.map (·.path)) ∧
      (∀ it ∈ items, it ∈ acc ∨ ItemOk w items it) := by
  induction fuel with
  | zero =>
    intro stack acc s items e h
    unfold scan at h
    split at h
    · cases h; exact ⟨⟨[], by simp⟩, by simp, fun it hit => Or.inl hit⟩
    · cases h
    · omega
  | succ fuel ih =>
    intro stack acc s items e h
    unfold scan at h
    split at h
    · cases h; exact ⟨⟨[], by simp⟩, by simp, fun it hit => Or.inl hit⟩
    · omega
    · rename_i stack acc s _ _ _ _ fuel' hfu _
      have hf : fuel' = fuel := by omega
      subst hf
      split at h
      · rename_i hlast
        cases h
        have : stack = [] := by simpa using hlast
        subst this
        exact ⟨⟨[], by simp⟩, by simp, fun it hit => Or.inl hit⟩
      · rename_i path hlast
        split at h
        · rename_i q mt hst
          split at h
          · cases h
          · rename_i files stack' s' hse
            obtain ⟨hpre, hstk, hall⟩ := ih _ _ _ _ _ h
            obtain ⟨hnames, hstack', hkinds⟩ := scanEntries_partition w path (dirNames w q) [] _ _ _ _ _ hse
            obtain ⟨tail, htail⟩ := hpre
            have hitem_in : (⟨path, path.getLast?.getD [], mt, files⟩ : DirItem) ∈ items := by
              rw [htail]; simp
            have hsplit : stack = stack.dropLast ++ [path] := split_last stack path hlast
            refine ⟨⟨[⟨path, path.getLast?.getD [], mt, files⟩] ++ tail, by rw [htail]; simp⟩, ?_, ?_⟩
            · intro p hp
              rw [hsplit] at hp
              rcases List.mem_append.mp hp with hp | hp
              · exact hstk p (by rw [hstack']; exact List.mem_append_left _ hp)
              · simp only [List.mem_singleton] at hp
                subst hp
                exact List.mem_map.mpr ⟨_, hitem_in, rfl⟩
            · intro it hit
              rcases hall it hit with hacc | hok
              · rcases List.mem_append.mp hacc with ha | ha
                · exact Or.inl ha
                · simp only [List.mem_singleton] at ha
                  subst ha
                  refine Or.inr ⟨q, mt, hst, rfl, by simpa using hnames, hkinds, ?_⟩
                  intro n hn
                  apply hstk
                  rw [hstack']
                  exact List.mem_append_right _ (List.mem_map.mpr ⟨n, hn, rfl⟩)
              · exact Or.inr hok
        · cases h

/-- directories reachable from the image root through directory entries (symlinks to directories
    included, as `stat` follows them) -/
inductive Reach (w : World) (root : Path) : Path → Prop
  | root : Reach w root root
  | child (p q : Path) (mt : Nat) (n : Name) : Reach w root p → w.stat p = some (q, .dir mt) →
      n ∈ dirNames w q → isDirAt w p n = true → Reach w root (p ++ [n])

/-- **The scan is complete**: every directory reachable from the root is a directory of the image,
    and every directory of the image lists exactly its file entries (in enumeration order) and has
    all its sub-directories in the image — nothing under the root is left out and nothing is invented. -/
theorem scan_complete (w : World) (root : Path) (items : List DirItem) (e : Nat)
    (h : scan w scanFuel [root] [] 0 = some (items, e)) :
    (∀ p, Reach w root p → p ∈ items.map (·.path)) ∧ ∀ it ∈ items, ItemOk w items it := by
  obtain ⟨_, hstk, hall⟩ := scan_visits w scanFuel [root] [] 0 items e h
  have hok : ∀ it ∈ items, ItemOk w items it := by
    intro it hit
    rcases hall it hit with h0 | h1
    · cases h0
    · exact h1
  refine ⟨?_, hok⟩
  intro p hp
  induction hp with
  | root => exact hstk root (by simp)
  | child p q mt n _ hst hn hd ih =>
    obtain ⟨it, hit, hpath⟩ := List.mem_map.mp ih
    obtain ⟨q', mt', hst', _, _, _, hsub⟩ := hok it hit
    rw [hpath, hst] at hst'
    cases hst'
    have := hsub n (by rw [List.mem_filter]; exact ⟨hn, by rw [hpath]; exact hd⟩)
    rw [hpath] at this
    exact this

/-- … for the layout every generated image is built from -/
theorem layout_tree_complete (w : World) (root : Path) (ps3 : Bool) (L : Layout) (h : layoutOf w root ps3 = some L) :
    (∀ p, Reach w root p → p ∈ L.items.map (·.path)) ∧ ∀ it ∈ L.items, ItemOk w L.items it := by
  have h := (layoutOf_some h).1
  unfold layoutRaw at h
  split at h
  · split at h
    · cases h
    · split at h
      · cases h
      · rename_i items fsec hscan
        cases h
        exact scan_complete w root items fsec hscan
  · cases h

/-- **From a directory record to the file's bytes.** For every tree and both hierarchies: a non-empty
    file `f` of directory `k` that fits one extent has, among the records of that directory, one with
    the file's mapped identifier and exact size, and reading the image at the location that record names
    returns exactly the file's content. -/
theorem file_reachable_through_image (w : World) (root : Path) (ps3 : Bool) (clk : Clock) (filler : Bytes) (L : Layout)
    (hL : layoutOf w root ps3 = some L) (joliet : Bool) (dirLBA k : Nat) (it : DirItem) (hk : L.items[k]? = some it)
    (f : FileRef) (hf : f ∈ it.files) (hpos : f.size ≠ 0) (hone : f.size ≤ maxPart) :
    ∃ r ∈ finalRecs L.items L.rootLen joliet dirLBA L.filesLBA k it,
      r.ident = makeIdentifier f.name joliet ∧ r.extLen = f.size ∧ r.flags = 0 ∧
      (imageOf L ps3 clk filler).read (Proof.BuildWF.cfOf w) (r.extLoc * sectorSize) f.size = (Proof.BuildWF.cfOf w f.ino).all := by
  have himg : build w root ps3 clk filler = some (imageOf L ps3 clk filler) := by simp [build, hL]
  have hrecs : fileRecs f joliet L.filesLBA = [⟨f.rLBA + L.filesLBA, f.size, recTime f.mtime, 0, makeIdentifier f.name joliet⟩] := by
    unfold fileRecs
    have : ¬ f.size > maxPart := by omega
    simp [this]
  refine ⟨⟨f.rLBA + L.filesLBA, f.size, recTime f.mtime, 0, makeIdentifier f.name joliet⟩, ?_, rfl, rfl, rfl, ?_⟩
  · unfold finalRecs
    simp only [List.mem_append, List.mem_flatten, List.mem_map]
    left; right
    exact ⟨_, ⟨f, hf, rfl⟩, by rw [hrecs]; simp⟩
  · have hmem : (⟨f.ino, f.size, f.rLBA + L.filesLBA⟩ : FileExt) ∈ (imageOf L ps3 clk filler).files := by
      show _ ∈ L.files
      unfold Layout.files
      rw [List.mem_map]
      refine ⟨f, ?_, rfl⟩
      rw [List.mem_filter]
      refine ⟨?_, by simpa using hpos⟩
      rw [List.mem_flatten]
      exact ⟨it.files, List.mem_map.mpr ⟨it, List.mem_of_getElem? hk, rfl⟩, hf⟩
    exact built_extent_content w root ps3 clk filler _ himg ⟨f.ino, f.size, f.rLBA + L.filesLBA⟩ hmem

end Ps3.Props.C07
