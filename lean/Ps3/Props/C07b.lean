/-
  C07 (second part) — **end to end**: what an independent ISO 9660 reader finds in a generated image is
  exactly the source tree. The reader is `Spec/IsoTree.lean` (written from ECMA-119: root record in the
  volume descriptor, directory extents, file flags, multi-extent files); the image is the canonical byte
  string `flat` of the image `build` produces (C09: every read of the served image, the network view and
  make-iso's output are slices of that string).

  Hypothesis `Fits`: every location and length of one hierarchy fits its 32-bit field. Locations always do
  (C08 `volume_fits`), file extent lengths always do (`extent_len_fits`); what remains is "no single
  directory holds 4 GiB of records" (about 10^8 entries in one directory).
-/
import Ps3.Proof.IsoTree
namespace Ps3.Props.C07
open Ps3 Ps3.Viso Ps3.Spec.Viso Ps3.Spec.IsoDir Ps3.Spec.IsoTree Ps3.Proof.IsoTree Ps3.Proof.BuildWF Ps3.Props.C08

/-- the identifiers under which a reader sees the path `rel` (relative to the image root) -/
def idsOf (joliet : Bool) (rel : Path) : List Bytes := rel.map (fun n => makeIdentifier n joliet)

/-- the image as one byte string -/
def imageBytes (w : World) (L : Layout) (ps3 : Bool) (clk : Clock) (filler : Bytes) : Bytes :=
  flat (imageOf L ps3 clk filler) (cfOf w)

/-- where directory `k` of one hierarchy is, as the generator computed it -/
def locOf (L : Layout) (joliet : Bool) (k : Nat) : Nat := dirLoc L.items joliet (dirBase L joliet) k
def lenOf (L : Layout) (joliet : Bool) (k : Nat) : Nat := dirLen L.items joliet k

/-- **The volume descriptor leads to the root directory**: the root directory record a reader parses out
    of sector 16 (primary) or 17 (Joliet) names the extent of directory 0 — the image root. -/
theorem reader_finds_root (w : World) (root : Path) (ps3 : Bool) (clk : Clock) (filler : Bytes) (L : Layout)
    (hL : layoutOf w root ps3 = some L) (joliet : Bool) (hfit : Fits L joliet) :
    ∃ r, rootRecord (imageBytes w L ps3 clk filler) joliet = some r ∧
      r.extLoc = locOf L joliet 0 ∧ r.extLen = lenOf L joliet 0 := by
  have F := layoutOf_facts w root ps3 L hL
  obtain ⟨it0, h0, _⟩ := (layoutOf_tree w root ps3 L hL).head
  have hpt := descriptors_point_to_root L clk it0 h0
  have hsys := sysArea_length L ps3 filler F.game
  have hpvd : (pvdOf L clk).length = sectorSize := volumeDescriptor_length _ _ _ _ _ _ _ _ _ (rootRecOf_len L _ _)
  have hsvd : (svdOf L clk).length = sectorSize := volumeDescriptor_length _ _ _ _ _ _ _ _ _ (rootRecOf_len L _ _)
  have hmeta : (metaBytes L ps3 clk filler).length = L.filesLBA * sectorSize := metaBytes_length w L F ps3 clk filler
  have hF : 18 ≤ L.filesLBA := by have := F.iso; have := F.joliet; have := F.files; omega
  -- the record and its well-formedness
  let r : DirRec := ⟨locOf L joliet 0, lenOf L joliet 0, recTime it0.mtime, 2, [0]⟩
  have hmem : r ∈ recsOfDir L joliet 0 it0 := by
    unfold recsOfDir finalRecs
    simp only [List.cons_append, List.mem_cons]
    left; rfl
  have hok : RecOk r := ⟨recTime_length _, by show (1 : Nat) ≤ 221; omega, (hfit 0 it0 h0 r hmem).1, (hfit 0 it0 h0 r hmem).2,
    by show (2 : Nat) < 256; omega⟩
  refine ⟨r, ?_, rfl, rfl⟩
  unfold rootRecord imageBytes
  have hs : sectorSize = 2048 := rfl
  rw [flat_slice_meta _ _ _ _ (by
    show _ ≤ (metaBytes L ps3 clk filler).length
    rw [hmeta, hs]; cases joliet <;> simp <;> omega)]
  show parseRec (slice (metaBytes L ps3 clk filler) _ 34) = some r
  have hsplit : metaBytes L ps3 clk filler =
      sysArea L ps3 filler ++ (pvdOf L clk ++ (svdOf L clk ++ (terminatorDescriptor ++ zeros sectorSize ++ tablesAndDirs L))) := by
    unfold metaBytes; simp only [List.append_assoc]
  rw [hsplit]
  cases joliet with
  | false =>
    simp only [Bool.false_eq_true, if_false]
    rw [slice_append_right _ _ _ _ (by rw [hsys, hs]; omega), hsys]
    have : 16 * sectorSize + 156 - 16 * sectorSize = 156 := by omega
    rw [this, slice_append_left _ _ _ _ (by rw [hpvd, hs]; omega), hpt.1]
    have := parse_encode r hok []
    simpa [r, locOf, lenOf, dirBase] using this
  | true =>
    simp only [if_true]
    rw [slice_append_right _ _ _ _ (by rw [hsys, hs]; omega), hsys]
    rw [slice_append_right _ _ _ _ (by rw [hpvd, hs]; omega), hpvd]
    have : 17 * sectorSize + 156 - 16 * sectorSize - sectorSize = 156 := by rw [hs]
    rw [this, slice_append_left _ _ _ _ (by rw [hsvd, hs]; decide), hpt.2]
    have := parse_encode r hok []
    simpa [r, locOf, lenOf, dirBase] using this


/-- what a reader sees in directory `k` of a generated image: the file records, then the sub-directories -/
theorem dir_entries (w : World) (root : Path) (ps3 : Bool) (clk : Clock) (filler : Bytes) (L : Layout)
    (hL : layoutOf w root ps3 = some L) (joliet : Bool) (hfit : Fits L joliet) (k : Nat) (it : DirItem)
    (hk : L.items[k]? = some it) :
    entries (imageBytes w L ps3 clk filler) (locOf L joliet k) (lenOf L joliet k) =
      fileRecsAll L joliet it ++ childRecs L joliet it :=
  entries_dir w root ps3 clk filler L hL joliet hfit k it hk (cfOf w)

theorem idsOf_snoc (joliet : Bool) (rel : Path) (n : Name) :
    idsOf joliet (rel ++ [n]) = idsOf joliet rel ++ [makeIdentifier n joliet] := by
  simp [idsOf]

theorem path_snoc {α : Type} (l m : List α) (d : α) (h1 : l.dropLast = m) (h2 : l.length = m.length + 1) :
    l = m ++ [l.getLast?.getD d] := by
  have hne : l ≠ [] := by intro e; simp [e] at h2
  have := List.dropLast_concat_getLast hne
  rw [h1] at this
  rw [List.getLast?_eq_some_getLast hne]
  simpa using this.symm

/-- **Completeness — every directory of the source tree is in the image, under its mapped name.**
    For every directory `p` reachable from the image root in the source tree (through directory entries,
    links to directories included), a reader that starts at the root extent and follows directory records
    arrives — along exactly the identifiers the names of `p` map to — at the extent of a directory of the
    image whose source path is `p`. -/
theorem reader_reaches_every_directory (w : World) (root : Path) (ps3 : Bool) (clk : Clock) (filler : Bytes) (L : Layout)
    (hL : layoutOf w root ps3 = some L) (joliet : Bool) (hfit : Fits L joliet) (p : Path) (hp : Reach w root p) :
    ∃ k it rel, L.items[k]? = some it ∧ it.path = p ∧ p = root ++ rel ∧
      ReadsDir (imageBytes w L ps3 clk filler) (locOf L joliet 0) (lenOf L joliet 0) (idsOf joliet rel)
        (locOf L joliet k) (lenOf L joliet k) := by
  have T := layoutOf_tree w root ps3 L hL
  obtain ⟨it0, h0, hroot⟩ := T.head
  induction hp with
  | root => exact ⟨0, it0, [], h0, hroot, by simp, ReadsDir.root⟩
  | child p q mt n hp' hst hn hd ih =>
    obtain ⟨k, it, rel, hk, hpath, hrel, hreads⟩ := ih
    have hin := T.complete (p ++ [n]) (Reach.child p q mt n hp' hst hn hd)
    obtain ⟨c, hc, hcp⟩ := List.mem_map.mp hin
    obtain ⟨j, hj⟩ := List.getElem?_of_mem hc
    have hjlt := lt_length_of_getElem? hj
    have hname : c.name = n := by
      rw [(T.sound c hc).2.2, hcp]; simp
    -- j is a child index of directory k
    have hj1 : j ≥ 1 := by
      rcases Nat.eq_zero_or_pos j with h | h
      · subst h
        rw [h0] at hj; cases hj
        have : (p ++ [n]).length = root.length := by rw [← hcp, hroot]
        rw [hrel] at this; simp at this
      · exact h
    have hchild : j ∈ childrenIdx L.items it := by
      unfold childrenIdx
      rw [List.mem_filter, List.mem_range]
      refine ⟨hjlt, ?_⟩
      simp only [hj, Bool.and_eq_true, decide_eq_true_eq, beq_iff_eq]
      refine ⟨hj1, ?_, ?_⟩
      · rw [hcp, hpath]; simp
      · rw [hcp, hpath]; simp
    have hrec : childRec L joliet j c ∈ entries (imageBytes w L ps3 clk filler) (locOf L joliet k) (lenOf L joliet k) := by
      rw [dir_entries w root ps3 clk filler L hL joliet hfit k it hk]
      apply List.mem_append_right
      unfold childRecs
      rw [List.mem_filterMap]
      exact ⟨j, hchild, by simp [hj]⟩
    have hstep := ReadsDir.child _ _ _ (childRec L joliet j c) hreads hrec (by simp [isDirRec, childRec])
    refine ⟨j, c, rel ++ [n], hj, hcp, by rw [hrel]; simp, ?_⟩
    rw [idsOf_snoc, ← hname]
    exact hstep

/-- **Soundness — the image contains no directory that is not in the source tree.** Whatever directory a
    reader reaches from the root extent by following directory records is a directory of the image whose
    source path lies under the root, is reachable in the source tree, and is spelled by exactly the
    identifiers its names map to. -/
theorem reader_reaches_only_source_directories (w : World) (root : Path) (ps3 : Bool) (clk : Clock) (filler : Bytes)
    (L : Layout) (hL : layoutOf w root ps3 = some L) (joliet : Bool) (hfit : Fits L joliet)
    (ids : List Bytes) (loc len : Nat)
    (h : ReadsDir (imageBytes w L ps3 clk filler) (locOf L joliet 0) (lenOf L joliet 0) ids loc len) :
    ∃ k it rel, L.items[k]? = some it ∧ it.path = root ++ rel ∧ Reach w root it.path ∧ ids = idsOf joliet rel ∧
      loc = locOf L joliet k ∧ len = lenOf L joliet k := by
  have T := layoutOf_tree w root ps3 L hL
  obtain ⟨it0, h0, hroot⟩ := T.head
  induction h with
  | root => exact ⟨0, it0, [], h0, by simp [hroot], (T.sound it0 (List.mem_of_getElem? h0)).1, rfl, rfl, rfl⟩
  | child ids loc len r _ hr hdir ih =>
    obtain ⟨k, it, rel, hk, hpath, _, hids, hloc, hlen⟩ := ih
    rw [hloc, hlen, dir_entries w root ps3 clk filler L hL joliet hfit k it hk] at hr
    rcases List.mem_append.mp hr with hr | hr
    · -- a file record is never flagged as a directory
      exfalso
      unfold fileRecsAll at hr
      rw [List.mem_flatten] at hr
      obtain ⟨l, hl, hrl⟩ := hr
      obtain ⟨f, _, rfl⟩ := List.mem_map.mp hl
      rw [fileRecs_not_dir f joliet L.filesLBA _ hrl] at hdir
      cases hdir
    · unfold childRecs at hr
      rw [List.mem_filterMap] at hr
      obtain ⟨j, hj, hjr⟩ := hr
      cases hc : L.items[j]? with
      | none => simp [hc] at hjr
      | some c =>
        simp only [hc, Option.map_some, Option.some.injEq] at hjr
        subst hjr
        unfold childrenIdx at hj
        rw [List.mem_filter] at hj
        have hj2 := hj.2
        simp only [hc, Bool.and_eq_true, decide_eq_true_eq, beq_iff_eq] at hj2
        have hcm := List.mem_of_getElem? hc
        have hcp : c.path = it.path ++ [c.name] := by
          rw [(T.sound c hcm).2.2]
          exact path_snoc c.path it.path [] hj2.2.1 hj2.2.2
        refine ⟨j, c, rel ++ [c.name], hc, by rw [hcp, hpath]; simp, (T.sound c hcm).1, ?_, rfl, rfl⟩
        rw [idsOf_snoc, hids]
        rfl

/-- **Every file, byte for byte.** In each directory of the image, the files a reader assembles (joining the
    extents of a multi-extent file) are, in directory order, exactly the files the scan recorded for that
    directory: each under its mapped identifier, each with exactly the bytes of the file that the entry
    named — empty files, sizes that are not a multiple of 2048, and files beyond 4 GiB included. -/
theorem reader_reads_every_file (w : World) (root : Path) (ps3 : Bool) (clk : Clock) (filler : Bytes) (L : Layout)
    (hL : layoutOf w root ps3 = some L) (joliet : Bool) (hfit : Fits L joliet) (k : Nat) (it : DirItem)
    (hk : L.items[k]? = some it) :
    filesOf (imageBytes w L ps3 clk filler) (locOf L joliet k) (lenOf L joliet k) =
      it.files.map (fun f => (makeIdentifier f.name joliet, (cfOf w f.ino).all)) := by
  unfold filesOf
  rw [dir_entries w root ps3 clk filler L hL joliet hfit k it hk, assemble_dir_entries]
  apply List.map_congr_left
  intro f hf
  have := file_bytes w root ps3 clk filler L hL it (List.mem_of_getElem? hk) f hf
  unfold imageBytes
  rw [this]

/-- … and those file records are the directory's file entries in the source tree: the names are exactly
    the entries of the directory that `stat` says are regular files (in enumeration order, nothing dropped,
    nothing invented), and each record's bytes come from the very file its entry names. -/
theorem files_are_the_source_files (w : World) (root : Path) (ps3 : Bool) (L : Layout)
    (hL : layoutOf w root ps3 = some L) (it : DirItem) (hit : it ∈ L.items) :
    (∃ q mt, w.stat it.path = some (q, .dir mt) ∧
      it.files.map (·.name) = (dirNames w q).filter (isFileAt w it.path)) ∧
    (∀ f ∈ it.files, ∃ q, w.stat (it.path ++ [f.name]) = some (q, .file f.ino)) ∧
    (∀ f ∈ it.files, (cfOf w f.ino).all.length = f.size) := by
  have T := layoutOf_tree w root ps3 L hL
  obtain ⟨q, mt, hst, _, hnames, _, _⟩ := T.itemOk it hit
  refine ⟨⟨q, mt, hst, hnames⟩, (T.sound it hit).2.1, ?_⟩
  intro f hf
  have F := layoutOf_facts w root ps3 L hL
  obtain ⟨e, hrun, _⟩ := F.run
  have hall : f ∈ allFiles L.items := by
    unfold allFiles
    rw [List.mem_flatten]
    exact ⟨it.files, List.mem_map.mpr ⟨it, hit, rfl⟩, hf⟩
  rw [Proof.Content.all_length, runOk_sizes w _ _ _ hrun f hall]


/-- `Fits` is implied by: no single directory extent reaches 4 GiB. Sector numbers always fit (a tree whose
    volume would pass sector 2^31−1 is refused at open, C08 `volume_fits`); file extent lengths always fit
    (`extent_len_fits`). -/
theorem fits_unless_huge_directory (w : World) (root : Path) (ps3 : Bool) (L : Layout) (hL : layoutOf w root ps3 = some L)
    (joliet : Bool) (h : DirLensFit L joliet) : Fits L joliet :=
  fits_of_dirLens w root ps3 L hL joliet h

/-- **decode ∘ build = the source tree** (both hierarchies, every tree, every clock and filler): in the
    image generated for `root`, an ISO 9660 reader
    (1) finds the root directory from the volume descriptor,
    (2) reaches every directory of the source tree, along exactly its mapped identifiers,
    (3) reaches nothing that is not a directory of the source tree,
    (4) assembles in each directory exactly the recorded files, each with exactly its bytes, and
    (5) those records are the regular-file entries of that source directory, each stat'ed to the inode
        whose bytes are stored.
    Only hypothesis: no directory extent of 4 GiB (`DirLensFit`). -/
theorem image_is_the_tree (w : World) (root : Path) (ps3 : Bool) (clk : Clock) (filler : Bytes) (L : Layout)
    (hL : layoutOf w root ps3 = some L) (joliet : Bool) (h : DirLensFit L joliet) :
    let B := imageBytes w L ps3 clk filler
    (∃ r, rootRecord B joliet = some r ∧ r.extLoc = locOf L joliet 0 ∧ r.extLen = lenOf L joliet 0) ∧
    (∀ p, Reach w root p → ∃ k it rel, L.items[k]? = some it ∧ it.path = p ∧ p = root ++ rel ∧
      ReadsDir B (locOf L joliet 0) (lenOf L joliet 0) (idsOf joliet rel) (locOf L joliet k) (lenOf L joliet k)) ∧
    (∀ ids loc len, ReadsDir B (locOf L joliet 0) (lenOf L joliet 0) ids loc len →
      ∃ k it rel, L.items[k]? = some it ∧ it.path = root ++ rel ∧ Reach w root it.path ∧ ids = idsOf joliet rel ∧
        loc = locOf L joliet k ∧ len = lenOf L joliet k) ∧
    (∀ k it, L.items[k]? = some it →
      filesOf B (locOf L joliet k) (lenOf L joliet k) = it.files.map (fun f => (makeIdentifier f.name joliet, (cfOf w f.ino).all))) ∧
    (∀ it ∈ L.items, (∃ q mt, w.stat it.path = some (q, .dir mt) ∧
        it.files.map (·.name) = (dirNames w q).filter (isFileAt w it.path)) ∧
      (∀ f ∈ it.files, ∃ q, w.stat (it.path ++ [f.name]) = some (q, .file f.ino)) ∧
      (∀ f ∈ it.files, (cfOf w f.ino).all.length = f.size)) := by
  intro B
  have hfit := fits_of_dirLens w root ps3 L hL joliet h
  exact ⟨reader_finds_root w root ps3 clk filler L hL joliet hfit,
    fun p hp => reader_reaches_every_directory w root ps3 clk filler L hL joliet hfit p hp,
    fun ids loc len hr => reader_reaches_only_source_directories w root ps3 clk filler L hL joliet hfit ids loc len hr,
    fun k it hk => reader_reads_every_file w root ps3 clk filler L hL joliet hfit k it hk,
    fun it hit => files_are_the_source_files w root ps3 L hL it hit⟩

/-! non-vacuity: a concrete tree (file `A` of 5 bytes, directory `D` holding the empty file `B`) is accepted by
    `layoutOf`, has two directories, and satisfies `DirLensFit` in both hierarchies (kernel evaluation) -/

def exampleWorld : World :=
  { entries := [⟨[[65]], .file 0⟩, ⟨[[68]], .dir 7⟩, ⟨[[68], [66]], .file 1⟩],
    inodes := [⟨⟨5, 1, []⟩, 3⟩, ⟨⟨0, 1, []⟩, 4⟩] }

instance (L : Layout) (j : Bool) : Decidable (DirLensFit L j) := by unfold DirLensFit; infer_instance

set_option maxRecDepth 100000 in
example : (match layoutOf exampleWorld [] false with
    | some L => L.items.length == 2 && decide (DirLensFit L false) && decide (DirLensFit L true)
    | none => false) = true := by decide

end Ps3.Props.C07
