/-
  C08 — Generated ISO is a structurally valid ISO 9660 + Joliet (+PS3) volume.
-/
import Ps3.Proof.Viso
namespace Ps3.Props.C08
open Ps3 Ps3.Viso Ps3.Spec.Viso

/-- The image size is a whole number of 2048-byte sectors: exactly the layout's volume size. -/
theorem size_is_sectors (w : World) (root : Path) (ps3 : Bool) (clk : Clock) (fl : Bytes) (img : Image)
    (h : build w root ps3 clk fl = some img) :
    ∃ L, layoutOf w root ps3 = some L ∧ img.totalSize = L.volSectors * 2048 ∧ img.totalSize % 2048 = 0 ∧
      img.padAreaStart + img.padAreaSize = img.totalSize := by
  unfold build at h
  cases hL : layoutOf w root ps3 with
  | none => simp [hL] at h
  | some L =>
    simp only [hL, Option.map_some, Option.some.injEq] at h
    subst h
    refine ⟨L, rfl, rfl, by simp [imageOf, Proof.Viso.sectorSize_eq], ?_⟩
    have hv : L.volSectors = L.volumeSize + L.padSectors := by
      have hL := (layoutOf_some hL).1
      unfold layoutRaw at hL
      split at hL
      · split at hL
        · simp at hL
        · split at hL
          · simp at hL
          · simp only [Option.some.injEq] at hL; subst hL; rfl
      · simp at hL
    simp only [imageOf, hv, Nat.add_mul]

/-- Padding rule: the volume ends on a 0x20-sector granule and carries at least one full granule of
    zero padding (and less than two). -/
theorem pad_rule (v : Nat) : (v + padSectorsFor v) % 32 = 0 ∧ 32 ≤ padSectorsFor v ∧ padSectorsFor v < 64 := by
  unfold padSectorsFor
  have : Gen.fs_basePadSectors = 32 := rfl
  rw [this]
  split <;> omega

/-- Every both-endian field decodes to the same value both ways, for every value and width. -/
theorem both_endian_agree (w v : Nat) : fromLE ((lsbmsb w v).take w) = fromBE ((lsbmsb w v).drop w) :=
  lsbmsb_agree w v

/-- A directory record is exactly as long as its size says … -/
theorem record_length (r : DirRec) (ht : r.time.length = 7) : r.encode.length = r.size := by
  unfold DirRec.encode DirRec.size
  simp only [List.length_append, List.length_cons, List.length_nil, lsbmsb_length, ht]
  split <;> simp only [List.length_cons, List.length_nil] <;> omega

/-- … its first byte is that size and the identifier-length byte is the identifier's length,
    whenever the identifier fits (≤ 221 bytes, which `makeIdentifier` guarantees below). -/
theorem record_len_byte (r : DirRec) (h : r.ident.length ≤ 221) :
    r.encode.head? = some (UInt8.ofNat r.size) ∧ r.size ≤ 255 ∧ (UInt8.ofNat r.size).toNat = r.size := by
  have hs : r.size ≤ 255 := by unfold DirRec.size; omega
  refine ⟨by simp [DirRec.encode], hs, ?_⟩
  simp [UInt8.toNat_ofNat']; omega

/-- identifiers are cut so that a record always fits its one-byte length:
    at most 221 bytes in the primary hierarchy, at most 220 (110 UCS-2 characters) in Joliet -/
theorem identifier_fits (name : Bytes) (joliet : Bool) : (makeIdentifier name joliet).length ≤ 221 := by
  unfold makeIdentifier
  have h1 : Gen.fs_maxIdentifierChars = 221 := rfl
  have h2 : Gen.fs_maxJolietIdentifierChars = 110 := rfl
  cases joliet
  · simp only [Bool.false_eq_true, if_false, mangleD1, List.length_map, List.length_take, h1]; omega
  · simp only [if_true, utf16be, mangleD1, h2]
    have : ∀ (l : Bytes), ((l.map (fun c => [0, c])).flatten).length = 2 * l.length := by
      intro l; induction l with
      | nil => rfl
      | cons a t ih => simp only [List.map_cons, List.flatten_cons, List.length_append, ih, List.length_cons, List.length_nil]; omega
    rw [this, List.length_map, List.length_take]; omega

/-- No directory record crosses a sector boundary: the gap inserted before a record moves it to the
    next sector whenever it would not fit into the rest of the current one. -/
theorem no_straddle (pos : Nat) (r : DirRec) (hs : 0 < r.size) (hle : r.size ≤ 2048) :
    (pos + recGap pos r) / 2048 = (pos + recGap pos r + r.size - 1) / 2048 := by
  unfold recGap
  rw [Proof.Viso.sectorSize_eq]
  dsimp only
  split <;> omega

/-- the gap itself is only ever the unused rest of a sector -/
theorem gap_is_sector_rest (pos : Nat) (r : DirRec) : recGap pos r = 0 ∨ (pos + recGap pos r) % 2048 = 0 := by
  unfold recGap
  rw [Proof.Viso.sectorSize_eq]
  dsimp only
  split <;> omega

/-- every directory occupies a whole number of sectors -/
theorem dir_extent_sectors (rs : List DirRec) : (encodeRecs rs).length % 2048 = 0 := by
  unfold encodeRecs
  dsimp only
  generalize (rs.foldl (fun (acc : Bytes) r => acc ++ zeros (recGap acc.length r) ++ r.encode) []) = body
  rw [List.length_append, zeros_length]
  have := Proof.Viso.sectors_mul_ge body.length
  rw [Proof.Viso.sectorSize_eq] at *
  have h2 : body.length + (sectors body.length * 2048 - body.length) = sectors body.length * 2048 := by omega
  rw [h2]; exact Nat.mul_mod_left _ _

/-- L and M path table entries are the same entry in opposite byte orders: identical length byte,
    identifier and padding; location and parent number decode to the same values. -/
theorem path_table_entries_agree (e : PtEntry) :
    ∃ hd tl : Bytes,
      e.encode false = hd ++ (leN 4 e.loc ++ (leN 2 e.parent ++ tl)) ∧
      e.encode true = hd ++ (beN 4 e.loc ++ (beN 2 e.parent ++ tl)) ∧
      fromLE (leN 4 e.loc) = fromBE (beN 4 e.loc) ∧ fromLE (leN 2 e.parent) = fromBE (beN 2 e.parent) := by
  refine ⟨[UInt8.ofNat e.ident.length, 0], e.ident ++ (if e.ident.length % 2 > 0 then [0] else []), ?_, ?_, ?_, ?_⟩
  · simp [PtEntry.encode]
  · simp [PtEntry.encode]
  · rw [fromLE_leN, fromBE_beN]
  · rw [fromLE_leN, fromBE_beN]

/-- The descriptors are in place: type 1 / 2 / 255, "CD001", version 1. -/
theorem descriptor_headers (L : Layout) (clk : Clock) :
    (pvdOf L clk).take 7 = [1, 67, 68, 48, 48, 49, 1] ∧ (svdOf L clk).take 7 = [2, 67, 68, 48, 48, 49, 1] ∧
    terminatorDescriptor.take 7 = [255, 67, 68, 48, 48, 49, 1] := by
  refine ⟨?_, ?_, ?_⟩
  · simp [pvdOf, volumeDescriptor, descHeader, Gen.fs_standardIdentifierBytes, List.take_append]
  · simp [svdOf, volumeDescriptor, descHeader, Gen.fs_standardIdentifierBytes, List.take_append]
  · simp [terminatorDescriptor, Gen.fs_standardIdentifierBytes, List.take_append]

/-- PS3 sector 1 carries "PlayStation3" and the product code XXXX-YYYYY derived from TITLE_ID. -/
theorem ps3_info_head (L : Layout) :
    ∃ rest : Bytes, infoHead L = Gen.fs_consoleID ++ [32, 32, 32, 32] ++ (L.gameCode.take 4 ++ [45] ++ L.gameCode.drop 4) ++ rest ∧
    Gen.fs_consoleID = [80, 108, 97, 121, 83, 116, 97, 116, 105, 111, 110, 51] := by
  refine ⟨List.replicate (32 - (L.gameCode.take 4 ++ [45] ++ L.gameCode.drop 4).length) 32 ++ zeros 16, ?_, rfl⟩
  have hc : Gen.fs_consoleID.length = 12 := rfl
  simp [infoHead, padTo, hc]

end Ps3.Props.C08
