/-
  C08 (second part) — link consistency and extent placement; needs `build_wf`, which itself uses the
  record-size theorems of Props/C08.lean, hence a separate module.
-/
import Ps3.Proof.BuildWF
namespace Ps3.Props.C08
open Ps3 Ps3.Viso Ps3.Spec.Viso


/-- location and length (in bytes) of directory `j` of one hierarchy -/
def dirLoc (items : List DirItem) (joliet : Bool) (dirLBA j : Nat) : Nat := prefixSum (dirSectors items joliet) j + dirLBA
def dirLen (items : List DirItem) (joliet : Bool) (j : Nat) : Nat := ((dirSectors items joliet)[j]?.getD 0) * sectorSize

/-- the "." record of every directory names the directory's own extent -/
theorem dot_points_to_self (items : List DirItem) (rootLen : Nat) (joliet : Bool) (dirLBA filesLBA k : Nat) (it : DirItem) :
    (finalRecs items rootLen joliet dirLBA filesLBA k it).head? =
      some ⟨dirLoc items joliet dirLBA k, dirLen items joliet k, recTime it.mtime, 2, [0]⟩ := by
  simp [finalRecs, dirLoc, dirLen]

/-- the ".." record names the parent's extent (the root's own for the root) -/
theorem dotdot_points_to_parent (items : List DirItem) (rootLen : Nat) (joliet : Bool) (dirLBA filesLBA k : Nat) (it : DirItem) :
    ((finalRecs items rootLen joliet dirLBA filesLBA k it)[1]?.map (fun r => (r.extLoc, r.extLen, r.ident))) =
      some (match parentIdx items it rootLen with
        | some p => (dirLoc items joliet dirLBA p, dirLen items joliet p, ([1] : Bytes))
        | none => (dirLoc items joliet dirLBA k, dirLen items joliet k, ([1] : Bytes))) := by
  simp only [finalRecs, dirLoc, dirLen, List.cons_append, List.getElem?_cons_succ, List.getElem?_cons_zero, Option.map_some]
  cases parentIdx items it rootLen <;> rfl

/-- a parent's record for child `j` carries exactly the location and length that child's own "."
    record carries: the two always agree -/
theorem child_record_matches_child_dot (items : List DirItem) (rootLen : Nat) (joliet : Bool) (dirLBA filesLBA k j : Nat)
    (it c : DirItem) (hj : j ∈ childrenIdx items it) (hc : items[j]? = some c) :
    ∃ r ∈ finalRecs items rootLen joliet dirLBA filesLBA k it,
      r.ident = makeIdentifier c.name joliet ∧ r.flags = 2 ∧
      (finalRecs items rootLen joliet dirLBA filesLBA j c).head?.map (fun d => (d.extLoc, d.extLen)) = some (r.extLoc, r.extLen) := by
  refine ⟨⟨dirLoc items joliet dirLBA j, dirLen items joliet j, recTime c.mtime, 2, makeIdentifier c.name joliet⟩, ?_, rfl, rfl, ?_⟩
  · simp only [finalRecs, List.mem_append, List.mem_filterMap]
    right
    exact ⟨j, hj, by simp [hc, dirLoc, dirLen]⟩
  · rw [dot_points_to_self]; rfl

/-- the path table entry of directory `i` points at that directory's extent -/
theorem path_table_points_to_dirs (items : List DirItem) (rootLen : Nat) (joliet : Bool) (dirLBA : Nat) :
    ∀ e ∈ pathTable items rootLen joliet dirLBA, ∃ i, i < items.length ∧ e.loc = dirLoc items joliet dirLBA i := by
  intro e he
  unfold pathTable at he
  simp only [List.mem_filterMap] at he
  obtain ⟨i, hi, hit⟩ := he
  cases h : items[i]? with
  | none => simp [h] at hit
  | some it =>
    simp [h] at hit
    subst hit
    have hlt : i < items.length := by
      rcases Nat.lt_or_ge i items.length with a | a
      · exact a
      · rw [List.getElem?_eq_none a] at h; cases h
    exact ⟨i, hlt, rfl⟩

/-- directories of one hierarchy lie back to back: each starts where the previous one ends -/
theorem dir_extents_consecutive (items : List DirItem) (joliet : Bool) (dirLBA j : Nat) (hj : j < items.length) :
    dirLoc items joliet dirLBA (j + 1) = dirLoc items joliet dirLBA j + (dirSectors items joliet)[j]?.getD 0 := by
  unfold dirLoc prefixSum
  have hl : (dirSectors items joliet).length = items.length := by simp [dirSectors]
  have : j < (dirSectors items joliet).length := by omega
  rw [List.take_add_one, List.sum_append]
  simp [List.getElem?_eq_getElem this]
  omega

theorem consec_bounds (fs : List FileExt) (start : Nat) (h : Consec start fs) :
    ∀ f ∈ fs, start ≤ f.lba * sectorSize ∧ f.lba * sectorSize + padded f ≤ start + (fs.map padded).sum := by
  induction fs generalizing start with
  | nil => intro f hf; cases hf
  | cons g rest ih =>
    obtain ⟨hg, hrest⟩ := h
    intro f hf
    simp only [List.map_cons, List.sum_cons]
    rcases List.mem_cons.mp hf with rfl | hf
    · omega
    · have := ih _ hrest f hf
      omega

theorem consec_disjoint (fs : List FileExt) (start : Nat) (h : Consec start fs) :
    fs.Pairwise (fun a b => a.lba * sectorSize + padded a ≤ b.lba * sectorSize) := by
  induction fs generalizing start with
  | nil => exact List.Pairwise.nil
  | cons g rest ih =>
    obtain ⟨hg, hrest⟩ := h
    refine List.Pairwise.cons ?_ (ih _ hrest)
    intro b hb
    have := (consec_bounds rest _ hrest b hb).1
    omega

/-- **All file extents of a built image lie inside the file zone — behind the metadata, before the
    pad area — and do not overlap**, for every tree. -/
theorem file_extents_inside_and_disjoint (w : World) (root : Path) (ps3 : Bool) (clk : Clock) (filler : Bytes) (img : Image)
    (h : build w root ps3 clk filler = some img) :
    (∀ f ∈ img.files, img.fsBuf.length ≤ f.lba * sectorSize ∧ f.lba * sectorSize + padded f ≤ img.padAreaStart) ∧
    img.files.Pairwise (fun a b => a.lba * sectorSize + padded a ≤ b.lba * sectorSize) ∧
    img.padAreaStart + img.padAreaSize = img.totalSize := by
  have wf := Proof.BuildWF.build_wf w root ps3 clk filler img h
  refine ⟨?_, consec_disjoint _ _ wf.consec, wf.total.symm⟩
  intro f hf
  have := consec_bounds _ _ wf.consec f hf
  rw [wf.padStart]
  exact this


/-- **Every sector number of a generated image fits the 32-bit fields that carry it** (and the
    server's int32 arithmetic): for every tree the server accepts, the volume — metadata, files and
    padding — ends at or below sector 2^31−1; a tree that would not fit is refused at open. -/
theorem volume_fits (w : World) (root : Path) (ps3 : Bool) (L : Layout) (h : layoutOf w root ps3 = some L) :
    L.volSectors ≤ maxSector ∧ L.filesLBA ≤ L.volumeSize ∧ L.volumeSize < L.volSectors ∧ maxSector < 2 ^ 32 := by
  have F := Proof.BuildWF.layoutOf_facts w root ps3 L h
  have hp := pad_rule L.volumeSize
  have hb : Gen.fs_basePadSectors = 32 := rfl
  have hfit := F.fits
  obtain ⟨e, _, hv⟩ := F.run
  rw [hb] at hfit
  refine ⟨?_, by omega, ?_, by decide⟩
  · rw [F.vol, F.pad]; omega
  · rw [F.vol, F.pad]; omega

/-- **Every directory of an accepted tree has a path-table number**: a tree with more directories
    than the 16-bit numbering of the path table reaches is refused at open (the table used to stop at
    65536 entries silently, leaving the remaining directories out of all four tables). -/
theorem directory_numbers_fit (w : World) (root : Path) (ps3 : Bool) (L : Layout) (h : layoutOf w root ps3 = some L) :
    L.items.length ≤ 65536 := by
  have F := Proof.BuildWF.layoutOf_facts w root ps3 L h
  have : Gen.fs_pathTableItemsLimit = 65536 := rfl
  rw [← this]; exact F.dirs

end Ps3.Props.C08
