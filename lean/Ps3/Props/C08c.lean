/-
  C08 (third part) — a reader's walk over a directory extent returns exactly the records written.
-/
import Ps3.Proof.IsoDir
import Ps3.Model.Crypt
import Ps3.Proof.Proto
import Ps3.Props.C08b
namespace Ps3.Props.C08
open Ps3 Ps3.Viso Ps3.Spec.IsoDir

/-- **decode ∘ encode = id**: whatever list of records the generator writes into a directory extent
    (with the sector-gap rule and the zero padding of the last sector), an ISO 9660 reader walking that
    extent gets back exactly those records — same order, locations, lengths, times, flags, identifiers. -/
theorem records_roundtrip (rs : List DirRec) (hok : ∀ r ∈ rs, RecOk r) : decodeRecs (encodeRecs rs) = rs :=
  decode_encodeRecs rs hok

theorem fileRecs_flags (f : FileRef) (joliet : Bool) (F : Nat) : ∀ r ∈ fileRecs f joliet F,
    r.flags < 256 ∧ r.ident = makeIdentifier f.name joliet := by
  intro r hr
  unfold fileRecs at hr
  dsimp only at hr
  split at hr
  · rw [List.mem_map] at hr
    obtain ⟨i, _, rfl⟩ := hr
    generalize f.size / multiExtentPart + (if f.size % multiExtentPart > 0 then 1 else 0) = parts
    by_cases hl : (i == parts - 1) = true
    · simp only [hl, if_true]; exact ⟨by omega, trivial⟩
    · simp only [hl, Bool.false_eq_true, if_false]
      exact ⟨by show Gen.fs_dirFlagMultiExtent < 256; decide, trivial⟩
  · simp only [List.mem_singleton] at hr; subst hr; exact ⟨by show (0 : Nat) < 256; omega, rfl⟩

/-- the records of every directory of a generated image are within what a record can carry, as long
    as locations and lengths fit 32 bits (an image below 8 TiB) -/
theorem finalRecs_ok (items : List DirItem) (rootLen : Nat) (joliet : Bool) (dirLBA filesLBA k : Nat) (it : DirItem)
    (hfit : ∀ r ∈ finalRecs items rootLen joliet dirLBA filesLBA k it, r.extLoc < 2 ^ 32 ∧ r.extLen < 2 ^ 32) :
    ∀ r ∈ finalRecs items rootLen joliet dirLBA filesLBA k it, RecOk r := by
  intro r hr
  have ht := Proof.BuildWF.finalRecs_time items rootLen joliet dirLBA filesLBA k it r hr
  have hf := hfit r hr
  refine ⟨ht, ?_, hf.1, hf.2, ?_⟩
  all_goals
    unfold finalRecs at hr
    simp only [List.mem_append, List.mem_cons, List.mem_flatten, List.mem_map, List.mem_filterMap] at hr
    rcases hr with ((rfl | rfl | h) | ⟨l, ⟨f, _, rfl⟩, hr⟩) | ⟨j, _, hj⟩
  · simp
  · cases parentIdx items it rootLen <;> simp
  · cases h
  · rw [(fileRecs_flags f joliet filesLBA r hr).2]; exact identifier_fits _ _
  · cases hi : items[j]? with
    | none => simp [hi] at hj
    | some c => simp [hi] at hj; subst hj; exact identifier_fits _ _
  · show (2 : Nat) < 256; omega
  · cases parentIdx items it rootLen <;> (show (2 : Nat) < 256; omega)
  · cases h
  · exact (fileRecs_flags f joliet filesLBA r hr).1
  · cases hi : items[j]? with
    | none => simp [hi] at hj
    | some c => simp [hi] at hj; subst hj; show (2 : Nat) < 256; omega

/-- hence every directory extent of a generated image (below 8 TiB) reads back as exactly the records
    the layout computed for it: '.', '..', the files with all their extents, the sub-directories -/
theorem dir_extent_roundtrip (items : List DirItem) (rootLen : Nat) (joliet : Bool) (dirLBA filesLBA k : Nat) (it : DirItem)
    (hfit : ∀ r ∈ finalRecs items rootLen joliet dirLBA filesLBA k it, r.extLoc < 2 ^ 32 ∧ r.extLen < 2 ^ 32) :
    decodeRecs (encodeRecs (finalRecs items rootLen joliet dirLBA filesLBA k it)) = finalRecs items rootLen joliet dirLBA filesLBA k it :=
  records_roundtrip _ (finalRecs_ok items rootLen joliet dirLBA filesLBA k it hfit)
/-- **decode ∘ encode = id for path tables**, both byte orders: read with the size the volume descriptor
    announces, a path table yields exactly the entries (location, parent number, identifier) written. -/
theorem path_table_roundtrip (t : List PtEntry) (hok : ∀ e ∈ t, PtOk e) (big : Bool) :
    decodePt (encodePt t big) (t.map (fun e => (e.encode big).length)).sum big = t :=
  decodePt_encodePt t hok big

/-- **A reader that follows a directory's location reads that directory's records.** For every tree, mode
    and hierarchy: take the sector number and length that the records of directory `k` carry for it
    (`dirLoc`, `dirLen` — its own '.', its parent's entry for it, its path table entry: all equal by the
    link theorems), cut that extent out of the generated image and walk it as an ISO 9660 reader does:
    the result is exactly the record list the layout computed for directory `k` — '.', '..', every file
    with all its extents, every sub-directory. (Locations and lengths must fit 32 bits: image below 8 TiB.) -/
theorem directory_reads_back (w : World) (root : Path) (ps3 : Bool) (clk : Clock) (filler : Bytes) (L : Layout)
    (hL : layoutOf w root ps3 = some L) (joliet : Bool) (k : Nat) (it : DirItem) (hk : L.items[k]? = some it)
    (hfit : ∀ r ∈ finalRecs L.items L.rootLen joliet (if joliet then L.jolietLBA else L.isoLBA) L.filesLBA k it,
      r.extLoc < 2 ^ 32 ∧ r.extLen < 2 ^ 32) :
    decodeRecs (slice (metaBytes L ps3 clk filler)
        (dirLoc L.items joliet (if joliet then L.jolietLBA else L.isoLBA) k * sectorSize) (dirLen L.items joliet k)) =
      finalRecs L.items L.rootLen joliet (if joliet then L.jolietLBA else L.isoLBA) L.filesLBA k it := by
  have F := Proof.BuildWF.layoutOf_facts w root ps3 L hL
  unfold dirLoc dirLen
  rw [Proof.BuildWF.dir_at_its_location w L F ps3 clk filler joliet k it hk]
  exact dir_extent_roundtrip _ _ _ _ _ _ _ hfit

theorem rootRecOf_eq (L : Layout) (joliet : Bool) (D : Nat) (it : DirItem) (h0 : L.items[0]? = some it) :
    rootRecOf (L.recsOf joliet D) = ⟨dirLoc L.items joliet D 0, dirLen L.items joliet 0, recTime it.mtime, 2, [0]⟩ := by
  have hrec : L.recsOf joliet D = L.items.zipIdx.map (fun p => finalRecs L.items L.rootLen joliet D L.filesLBA p.2 p.1) := by
    unfold Layout.recsOf
    exact Proof.BuildWF.range_filterMap_getElem (fun k it => finalRecs L.items L.rootLen joliet D L.filesLBA k it) L.items
  unfold rootRecOf
  rw [hrec]
  cases hi : L.items with
  | nil => rw [hi] at h0; simp at h0
  | cons a rest =>
    rw [hi] at h0
    simp at h0; subst h0
    simp [finalRecs, dirLoc, dirLen]

/-- **The volume descriptor's root directory record (bytes 156..189) is the '.' record of the root
    directory**: it names the sector where the root directory really is (`dirLoc 0`), its length, and
    parses back to exactly that record. -/
theorem descriptor_root_record (typ : Nat) (joliet : Bool) (volumeName : Bytes) (volSectors ptBytes lLoc mLoc : Nat)
    (rootRec : DirRec) (clk : Clock) (hr : rootRec.encode.length = 34) :
    slice (volumeDescriptor typ joliet volumeName volSectors ptBytes lLoc mLoc rootRec clk) 156 34 = rootRec.encode := by
  have hv : ((mangleUpper Gen.fs_dCharacters volumeName joliet).take 32).length ≤ 32 := by
    simp [List.length_take]; omega
  have hlin := Proof.BuildWF.linux_len joliet
  have hj : (if joliet then ([37, 47, 64] : Bytes) else []).length ≤ 32 := by cases joliet <;> simp
  have hroot : padTo rootRec.encode 34 0 = rootRec.encode := by simp [padTo, hr]
  -- the descriptor as  pre ++ (root record ++ post)  with 156 bytes in front
  have hsplit : ∃ pre post : Bytes, pre.length = 156 ∧
      volumeDescriptor typ joliet volumeName volSectors ptBytes lLoc mLoc rootRec clk = pre ++ (rootRec.encode ++ post) := by
    refine ⟨descHeader typ ++ ([0] ++ padTo (mangleUpper Gen.fs_aCharacters [108, 105, 110, 117, 120] joliet) 32 32 ++
        padTo ((mangleUpper Gen.fs_dCharacters volumeName joliet).take 32) 32 32 ++ zeros 8 ++ lsbmsb 4 volSectors ++
        padTo (if joliet then [37, 47, 64] else []) 32 0 ++
        lsbmsb 2 1 ++ lsbmsb 2 1 ++ lsbmsb 2 sectorSize ++ lsbmsb 4 ptBytes ++
        leN 4 lLoc ++ leN 4 0 ++ beN 4 mLoc ++ beN 4 0), ?_, ?_, ?_⟩
    rotate_left
    · simp only [List.length_append, Proof.BuildWF.descHeader_length, List.length_cons, List.length_nil, zeros_length,
        lsbmsb_length, leN_length, beN_length, Proof.BuildWF.padTo_length _ _ _ hlin, Proof.BuildWF.padTo_length _ _ _ hv,
        Proof.BuildWF.padTo_length _ _ _ hj]
    · unfold volumeDescriptor descBodyPre
      rw [hroot]
      unfold padTo
      simp only [List.append_assoc]
      rfl
  obtain ⟨pre, post, hpre, heq⟩ := hsplit
  rw [heq, ← hr]
  exact slice_at pre rootRec.encode post 156 hpre

/-- … and for the descriptors of a generated image that record is the '.' record of directory 0 of the
    respective hierarchy: a reader starting from sector 16 / 17 is sent to where the root directory is -/
theorem descriptors_point_to_root (L : Layout) (clk : Clock) (it : DirItem) (h0 : L.items[0]? = some it) :
    slice (pvdOf L clk) 156 34 = (DirRec.encode ⟨dirLoc L.items false L.isoLBA 0, dirLen L.items false 0, recTime it.mtime, 2, [0]⟩) ∧
    slice (svdOf L clk) 156 34 = (DirRec.encode ⟨dirLoc L.items true L.jolietLBA 0, dirLen L.items true 0, recTime it.mtime, 2, [0]⟩) := by
  have e1 := rootRecOf_eq L false L.isoLBA it h0
  have e2 := rootRecOf_eq L true L.jolietLBA it h0
  unfold pvdOf svdOf
  rw [e1, e2]
  exact ⟨descriptor_root_record _ _ _ _ _ _ _ _ _ (Proof.BuildWF.dot_encode_len _ _ _ _),
         descriptor_root_record _ _ _ _ _ _ _ _ _ (Proof.BuildWF.dot_encode_len _ _ _ _)⟩

/-- **The writer and the reader of region tables agree**: the table a generated PS3 image carries in
    sector 0, decoded by the decrypting reader's own table decoder, is ONE plain region from sector 0
    to the volume's LAST sector — under the reader's (inclusive) reading of `End` exactly the whole
    volume. (With the exclusive reading the reader used to have, the image's last sector would have
    counted as lying outside every plain region.) -/
theorem ranges_sector_decodes (L : Layout) (hv : L.volSectors - 1 < 2 ^ 32) :
    Crypt.decodeTable (fun off n => slice (rangesSector L) off n) = some [⟨0, L.volSectors - 1⟩] := by
  have hr : ∃ pad, rangesSector L = (beN 4 1 ++ zeros 4 ++ beN 4 0 ++ beN 4 (L.volSectors - 1)) ++ pad := ⟨_, rfl⟩
  obtain ⟨pad, hr⟩ := hr
  have tk8 (x : Nat) : (beN 4 x).take 8 = beN 4 x := List.take_of_length_le (by simp)
  have tk4 (x : Nat) : (beN 4 x).take 4 = beN 4 x := List.take_of_length_le (by simp)
  have dr8 (x : Nat) : (beN 4 x).drop 8 = [] := List.drop_of_length_le (by simp)
  have dr4 (x : Nat) : (beN 4 x).drop 4 = [] := List.drop_of_length_le (by simp)
  have hlen : (beN 4 1 ++ zeros 4 ++ beN 4 0 ++ beN 4 (L.volSectors - 1)).length = 16 := by simp [zeros]
  have h8 : slice (rangesSector L) 0 8 = beN 4 1 ++ zeros 4 := by
    rw [hr, slice_append_left _ _ _ _ (by omega)]
    simp [slice, zeros, List.take_append, beN_length, tk8]
  have h16 : slice (rangesSector L) 8 8 = beN 4 0 ++ beN 4 (L.volSectors - 1) := by
    rw [hr, slice_append_left _ _ _ _ (by omega)]
    simp [slice, zeros, List.take_append, List.drop_append, beN_length, tk8, tk4, dr8]
  have hc : fromBE (beN 4 1) = 1 := by decide
  have h0 : fromBE (beN 4 0) = 0 := by decide
  have hv' : fromBE (beN 4 (L.volSectors - 1)) = L.volSectors - 1 := Proof.Proto.fromBE_beN_lt 4 _ (by simpa using hv)
  have hm : Crypt.maxRegions = 255 := rfl
  have t4 : (beN 4 1 ++ zeros 4).take 4 = beN 4 1 := by simp [List.take_append, beN_length]
  have hcount : fromBE ((slice (rangesSector L) 0 8).take 4) = 1 := by rw [h8, t4]; exact hc
  have hl8 : (slice (rangesSector L) 0 8).length = 8 := by rw [h8]; simp [zeros]
  have hl16 : (slice (rangesSector L) 8 8).length = 8 := by rw [h16]; simp
  have ha : slice (slice (rangesSector L) 8 8) 0 4 = beN 4 0 := by
    rw [h16]; simp [slice, List.take_append, beN_length, tk4]
  have hb : slice (slice (rangesSector L) 8 8) 4 4 = beN 4 (L.volSectors - 1) := by
    rw [h16]; simp [slice, List.take_append, List.drop_append, beN_length, tk4, dr4]
  simp only [Crypt.decodeTable, hl8, hcount, hm, Nat.mul_one, hl16, bne_self_eq_false, Bool.false_eq_true, if_false,
    show ¬ (1 > 255) by omega, List.range_one, List.map_cons, List.map_nil, Nat.mul_zero, Nat.zero_add, ha, hb, h0, hv']

end Ps3.Props.C08
