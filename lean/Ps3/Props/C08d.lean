/-
  C08 (fourth part) — the four path tables sit where the layout says, inside the generated image, and a
  reader gets back exactly the entries written: one per directory, pointing at that directory's extent.
-/
import Ps3.Props.C07b
namespace Ps3.Props.C08
open Ps3 Ps3.Viso Ps3.Spec.Viso Ps3.Spec.IsoDir Ps3.Proof.IsoTree Ps3.Proof.BuildWF Ps3.Props.C07

/-- first sector of a path table: after the three descriptors and the blank sector come the primary L and M
    tables, then the Joliet L and M tables -/
def ptLoc (L : Layout) (joliet big : Bool) : Nat :=
  ptL + (if joliet then 2 * L.ptSecs else 0) + (if big then (if joliet then L.ptJSecs else L.ptSecs) else 0)

def ptSecsOf (L : Layout) (joliet : Bool) : Nat := if joliet then L.ptJSecs else L.ptSecs

/-- the table of one hierarchy as the layout computed it -/
def tableOf (L : Layout) (joliet : Bool) : List PtEntry := pathTable L.items L.rootLen joliet (dirBase L joliet)

/-- **Each of the four path tables occupies exactly its sectors of the image**: the bytes at `ptLoc` are
    the encoding of the hierarchy's table in the respective byte order. -/
theorem path_table_at_its_location (w : World) (root : Path) (ps3 : Bool) (clk : Clock) (filler : Bytes) (L : Layout)
    (hL : layoutOf w root ps3 = some L) (joliet big : Bool) :
    slice (imageBytes w L ps3 clk filler) (ptLoc L joliet big * sectorSize) (ptSecsOf L joliet * sectorSize) =
      encodePt (tableOf L joliet) big := by
  have F := layoutOf_facts w root ps3 L hL
  have hs : sectorSize = 2048 := rfl
  have hsys := sysArea_length L ps3 filler F.game
  have hpvd : (pvdOf L clk).length = sectorSize := volumeDescriptor_length _ _ _ _ _ _ _ _ _ (rootRecOf_len L _ _)
  have hsvd : (svdOf L clk).length = sectorSize := volumeDescriptor_length _ _ _ _ _ _ _ _ _ (rootRecOf_len L _ _)
  have hterm := terminator_length
  have hmeta : (metaBytes L ps3 clk filler).length = L.filesLBA * sectorSize := metaBytes_length w L F ps3 clk filler
  have h1 : ∀ b, (encodePt (pathTable L.items L.rootLen false L.isoLBA) b).length = L.ptSecs * sectorSize := by
    intro b; rw [pt_length, F.ptSecs]
  have h2 : ∀ b, (encodePt (pathTable L.items L.rootLen true L.jolietLBA) b).length = L.ptJSecs * sectorSize := by
    intro b; rw [pt_length, F.ptJSecs]
  have hF : 20 + 2 * L.ptSecs + 2 * L.ptJSecs ≤ L.filesLBA := by
    have := F.iso; have := F.joliet; have := F.files; omega
  unfold imageBytes
  rw [flat_slice_meta _ _ _ _ (by
    show _ ≤ (metaBytes L ps3 clk filler).length
    rw [hmeta, ← Nat.add_mul]
    apply Nat.mul_le_mul_right
    unfold ptLoc ptSecsOf ptL
    cases joliet <;> cases big <;> simp <;> omega)]
  show slice (metaBytes L ps3 clk filler) _ _ = _
  have hsplit : metaBytes L ps3 clk filler =
      (sysArea L ps3 filler ++ pvdOf L clk ++ svdOf L clk ++ terminatorDescriptor ++ zeros sectorSize) ++
      (encodePt (pathTable L.items L.rootLen false L.isoLBA) false ++ (encodePt (pathTable L.items L.rootLen false L.isoLBA) true ++
       (encodePt (pathTable L.items L.rootLen true L.jolietLBA) false ++ (encodePt (pathTable L.items L.rootLen true L.jolietLBA) true ++
        (((L.recsOf false L.isoLBA).map encodeRecs).flatten ++ ((L.recsOf true L.jolietLBA).map encodeRecs).flatten))))) := by
    unfold metaBytes tablesAndDirs
    simp only [List.append_assoc]
  have hpre : (sysArea L ps3 filler ++ pvdOf L clk ++ svdOf L clk ++ terminatorDescriptor ++ zeros sectorSize).length = 20 * sectorSize := by
    simp only [List.length_append, hsys, hpvd, hsvd, hterm, zeros_length]; omega
  rw [hsplit, slice_append_right _ _ _ _ (by rw [hpre]; unfold ptLoc ptL; apply Nat.mul_le_mul_right; omega), hpre]
  unfold ptLoc ptSecsOf tableOf dirBase ptL
  cases joliet <;> cases big <;> simp only [Bool.false_eq_true, if_false, if_true, Nat.add_zero]
  · -- primary L table
    have : (16 + 3 + 1) * sectorSize - 20 * sectorSize = 0 := by omega
    rw [this, slice_append_left _ _ _ _ (by rw [h1]; omega), ← h1 false]
    exact slice_zero_all _ _ (Nat.le_refl _)
  · -- primary M table
    have : (16 + 3 + 1 + L.ptSecs) * sectorSize - 20 * sectorSize = L.ptSecs * sectorSize := by rw [hs]; omega
    rw [this, slice_append_right _ _ _ _ (by rw [h1]; omega), h1, Nat.sub_self,
      slice_append_left _ _ _ _ (by rw [h1]; omega), ← h1 true]
    exact slice_zero_all _ _ (Nat.le_refl _)
  · -- Joliet L table
    have : (16 + 3 + 1 + 2 * L.ptSecs) * sectorSize - 20 * sectorSize = L.ptSecs * sectorSize + L.ptSecs * sectorSize := by
      rw [hs]; omega
    rw [this, slice_append_right _ _ _ _ (by rw [h1]; omega), h1,
      slice_append_right _ _ _ _ (by rw [h1]; omega), h1]
    have : L.ptSecs * sectorSize + L.ptSecs * sectorSize - L.ptSecs * sectorSize - L.ptSecs * sectorSize = 0 := by omega
    rw [this, slice_append_left _ _ _ _ (by rw [h2]; omega), ← h2 false]
    exact slice_zero_all _ _ (Nat.le_refl _)
  · -- Joliet M table
    have : (16 + 3 + 1 + 2 * L.ptSecs + L.ptJSecs) * sectorSize - 20 * sectorSize =
        L.ptSecs * sectorSize + L.ptSecs * sectorSize + L.ptJSecs * sectorSize := by
      rw [hs]; omega
    rw [this, slice_append_right _ _ _ _ (by rw [h1]; omega), h1,
      slice_append_right _ _ _ _ (by rw [h1]; omega), h1,
      slice_append_right _ _ _ _ (by rw [h2]; omega), h2]
    have : L.ptSecs * sectorSize + L.ptSecs * sectorSize + L.ptJSecs * sectorSize - L.ptSecs * sectorSize -
        L.ptSecs * sectorSize - L.ptJSecs * sectorSize = 0 := by omega
    rw [this, slice_append_left _ _ _ _ (by rw [h2]; omega), ← h2 true]
    exact slice_zero_all _ _ (Nat.le_refl _)

/-- **A reader of a path table gets back exactly the table**: read with the size the descriptor announces,
    each of the four tables of a generated image decodes to the hierarchy's entries — one per directory of
    the image, in directory order, each pointing at that directory's extent (where, by C07's
    `reader_reaches_every_directory`, following the directory records arrives too). Hypothesis: every entry
    is representable (`PtOk`: identifier of 1..255 bytes, i.e. no directory with an empty name; location below
    2^32; parent number below 2^16 — the latter two always hold for an accepted tree). -/
theorem path_table_reads_back (w : World) (root : Path) (ps3 : Bool) (clk : Clock) (filler : Bytes) (L : Layout)
    (hL : layoutOf w root ps3 = some L) (joliet big : Bool) (hok : ∀ e ∈ tableOf L joliet, PtOk e) :
    decodePt (slice (imageBytes w L ps3 clk filler) (ptLoc L joliet big * sectorSize) (ptSecsOf L joliet * sectorSize))
      (ptSize (tableOf L joliet)) big = tableOf L joliet ∧
    ∀ e ∈ tableOf L joliet, ∃ i, i < L.items.length ∧ e.loc = locOf L joliet i := by
  refine ⟨?_, fun e he => path_table_points_to_dirs _ _ _ _ e he⟩
  rw [path_table_at_its_location w root ps3 clk filler L hL joliet big]
  have hb := pt_body_length (tableOf L joliet) big (fun e he => by have := (hok e he).ident; omega)
  have := path_table_roundtrip (tableOf L joliet) hok big
  rw [← hb, List.length_flatten, List.map_map]
  exact this


/-- **The descriptor announces its path tables truthfully**: bytes 132..139 carry the table size (both byte
    orders), bytes 140..143 the location of the L table (little endian), bytes 148..151 the location of the
    M table (big endian) — exactly the values the tables were laid out with. -/
theorem descriptor_path_table_fields (typ : Nat) (joliet : Bool) (volumeName : Bytes) (volSectors ptBytes lLoc mLoc : Nat)
    (rootRec : DirRec) (clk : Clock) :
    let d := volumeDescriptor typ joliet volumeName volSectors ptBytes lLoc mLoc rootRec clk
    slice d 132 8 = lsbmsb 4 ptBytes ∧ slice d 140 4 = leN 4 lLoc ∧ slice d 148 4 = beN 4 mLoc := by
  intro d
  have hv : ((mangleUpper Gen.fs_dCharacters volumeName joliet).take 32).length ≤ 32 := by
    simp [List.length_take]; omega
  have hlin := linux_len joliet
  have hj : (if joliet then ([37, 47, 64] : Bytes) else []).length ≤ 32 := by cases joliet <;> simp
  -- the descriptor as  pre ++ (size ++ (lLoc ++ (0 ++ (mLoc ++ post))))  with 132 bytes in front
  have hsplit : ∃ pre post : Bytes, pre.length = 132 ∧
      d = pre ++ (lsbmsb 4 ptBytes ++ (leN 4 lLoc ++ (leN 4 0 ++ (beN 4 mLoc ++ post)))) := by
    refine ⟨descHeader typ ++ ([0] ++ padTo (mangleUpper Gen.fs_aCharacters [108, 105, 110, 117, 120] joliet) 32 32 ++
        padTo ((mangleUpper Gen.fs_dCharacters volumeName joliet).take 32) 32 32 ++ zeros 8 ++ lsbmsb 4 volSectors ++
        padTo (if joliet then [37, 47, 64] else []) 32 0 ++
        lsbmsb 2 1 ++ lsbmsb 2 1 ++ lsbmsb 2 sectorSize), ?_, ?_, ?_⟩
    rotate_left
    · simp only [List.length_append, descHeader_length, List.length_cons, List.length_nil, zeros_length,
        lsbmsb_length, padTo_length _ _ _ hlin, padTo_length _ _ _ hv, padTo_length _ _ _ hj]
    · show volumeDescriptor typ joliet volumeName volSectors ptBytes lLoc mLoc rootRec clk = _
      unfold volumeDescriptor descBodyPre
      unfold padTo
      simp only [List.append_assoc]
      rfl
  obtain ⟨pre, post, hpre, heq⟩ := hsplit
  rw [heq]
  refine ⟨?_, ?_, ?_⟩
  · have := Spec.IsoDir.slice_at pre (lsbmsb 4 ptBytes) (leN 4 lLoc ++ (leN 4 0 ++ (beN 4 mLoc ++ post))) 132 hpre
    simpa using this
  · have h := Spec.IsoDir.slice_at (pre ++ lsbmsb 4 ptBytes) (leN 4 lLoc) (leN 4 0 ++ (beN 4 mLoc ++ post)) 140 (by simp [hpre])
    simpa [List.append_assoc] using h
  · have h := Spec.IsoDir.slice_at (pre ++ lsbmsb 4 ptBytes ++ leN 4 lLoc ++ leN 4 0) (beN 4 mLoc) post 148 (by simp [hpre])
    simpa [List.append_assoc] using h

/-- … for the descriptors of a generated image these are `ptLoc` of the respective table -/
theorem descriptors_announce_path_tables (L : Layout) (clk : Clock) :
    slice (pvdOf L clk) 140 4 = leN 4 (ptLoc L false false) ∧ slice (pvdOf L clk) 148 4 = beN 4 (ptLoc L false true) ∧
    slice (svdOf L clk) 140 4 = leN 4 (ptLoc L true false) ∧ slice (svdOf L clk) 148 4 = beN 4 (ptLoc L true true) := by
  unfold pvdOf svdOf
  refine ⟨(descriptor_path_table_fields _ _ _ _ _ _ _ _ _).2.1, ?_, ?_, ?_⟩
  · have := (descriptor_path_table_fields 1 false L.volumeName L.volSectors (ptSize (pathTable L.items L.rootLen false 0)) ptL
      (ptL + L.ptSecs) (rootRecOf (L.recsOf false L.isoLBA)) clk).2.2
    simpa [ptLoc] using this
  · have := (descriptor_path_table_fields 2 true L.volumeName L.volSectors (ptSize (pathTable L.items L.rootLen true 0))
      (ptL + 2 * L.ptSecs) (ptL + 2 * L.ptSecs + L.ptJSecs) (rootRecOf (L.recsOf true L.jolietLBA)) clk).2.1
    simpa [ptLoc] using this
  · have := (descriptor_path_table_fields 2 true L.volumeName L.volSectors (ptSize (pathTable L.items L.rootLen true 0))
      (ptL + 2 * L.ptSecs) (ptL + 2 * L.ptSecs + L.ptJSecs) (rootRecOf (L.recsOf true L.jolietLBA)) clk).2.2
    simpa [ptLoc] using this

end Ps3.Props.C08
