/-
  C09 — Generated ISO reads are position-independent (one fixed byte string).
-/
import Ps3.Proof.Viso
import Ps3.Proof.BuildWF
namespace Ps3.Props.C09
open Ps3 Ps3.Viso Ps3.Spec.Viso

/-- A well-formed generated image behaves as ONE fixed byte string (`flat`: metadata, every
    non-empty file padded to a sector, zero pad area): a read at **any** offset with **any** buffer
    size — aligned or not, crossing the boundaries between metadata, files, inter-file padding and
    trailing padding — returns exactly the corresponding slice. No bound on sizes or counts. -/
theorem read_eq_slice (img : Image) (cf : Nat → Content) (h : WF img cf) (off n : Nat) :
    img.read cf off n = slice (flat img cf) off n := Proof.Viso.read_eq_slice img cf h off n

/-- the canonical string has exactly the announced size -/
theorem flat_length (img : Image) (cf : Nat → Content) (h : WF img cf) : (flat img cf).length = img.totalSize :=
  Proof.Viso.flat_length img cf h

/-- Progress: inside the image a non-empty buffer always receives min(n, size − off) ≥ 1 bytes;
    at or after the end nothing is returned (the call reports end-of-file). -/
theorem read_progress (img : Image) (cf : Nat → Content) (h : WF img cf) (off n : Nat) :
    (img.read cf off n).length = min n (img.totalSize - off) := by
  rw [read_eq_slice img cf h, slice_length, flat_length img cf h]

theorem read_at_end (img : Image) (cf : Nat → Content) (off n : Nat) (h : off ≥ img.totalSize) :
    img.read cf off n = [] := by
  simp [Image.read, h]

/-- Any sequence of Read / Seek(start|current|end) / ReadAt observes on the image exactly what the
    same sequence observes on the canonical byte string (cursor simulation), for every start cursor. -/
theorem ops_eq_spec (img : Image) (cf : Nat → Content) (h : WF img cf) (ops : List Op) (cur : Nat) :
    runOps (img.read cf) img.totalSize cur ops = runOps (slice (flat img cf)) img.totalSize cur ops := by
  have : img.read cf = slice (flat img cf) := by
    funext off n; exact read_eq_slice img cf h off n
  rw [this]

/-- Sequential reads with any chunk sizes reassemble the canonical string (what io.Copy sees). -/
theorem sequential_reads (img : Image) (cf : Nat → Content) (h : WF img cf) (off a b : Nat) :
    img.read cf off (a + b) = img.read cf off a ++ img.read cf (off + a) b := by
  simp only [read_eq_slice img cf h, slice_add]

/-- Seek relative to the end: Seek(0, End) is the size, Seek(−k, End) is size − k. -/
theorem seek_end (rd : Nat → Nat → Bytes) (total cur k : Nat) (hk : k ≤ total) :
    stepOp rd total cur (.seek (-(k : Int)) 2) = (total - k, .pos (total - k)) := by
  simp only [stepOp]
  have h1 : ¬ ((total : Int) + -(k : Int) < 0 ∨ (total : Int) + -(k : Int) > total) := by omega
  have h2 : ((total : Int) + -(k : Int)).toNat = total - k := by omega
  simp [h1, h2]

/-- Seeking past the end or before the start is refused and leaves the cursor alone. -/
theorem seek_out_of_range (rd : Nat → Nat → Bytes) (total cur : Nat) (off : Int) (h : off < 0 ∨ off > total) :
    stepOp rd total cur (.seek off 0) = (cur, .err) := by
  simp [stepOp, h]

/-- The executable well-formedness check the differential run evaluates for every generated image
    is sound for `WF` (so each explored tree satisfies the hypothesis of the theorems above). -/
theorem wf_check_sound (img : Image) (cf : Nat → Content) (h : wfB img cf = true) : WF img cf :=
  wfB_sound img cf h

/-- **Every image `build` produces is well-formed** — for every world (tree shape, names, sizes,
    symlinks), every root and both modes: the metadata area is exactly as long as the layout
    arithmetic assumed (descriptors, four path tables, both directory hierarchies), the member files
    occupy consecutive sector runs in scan order right behind it with their inodes' sizes, then the
    pad area. The hypothesis `WF` of the theorems above is therefore always met by the code's images. -/
theorem build_wf (w : World) (root : Path) (ps3 : Bool) (clk : Clock) (filler : Bytes) (img : Image)
    (h : build w root ps3 clk filler = some img) : WF img (Proof.BuildWF.cfOf w) :=
  Proof.BuildWF.build_wf w root ps3 clk filler img h

/-- … hence, unconditionally: any read of any generated image is a slice of its one canonical string. -/
theorem built_read_eq_slice (w : World) (root : Path) (ps3 : Bool) (clk : Clock) (filler : Bytes) (img : Image)
    (h : build w root ps3 clk filler = some img) (off n : Nat) :
    img.read (Proof.BuildWF.cfOf w) off n = slice (flat img (Proof.BuildWF.cfOf w)) off n :=
  read_eq_slice img _ (build_wf w root ps3 clk filler img h) off n

theorem built_ops_eq_spec (w : World) (root : Path) (ps3 : Bool) (clk : Clock) (filler : Bytes) (img : Image)
    (h : build w root ps3 clk filler = some img) (ops : List Op) (cur : Nat) :
    runOps (img.read (Proof.BuildWF.cfOf w)) img.totalSize cur ops =
      runOps (slice (flat img (Proof.BuildWF.cfOf w))) img.totalSize cur ops :=
  ops_eq_spec img _ (build_wf w root ps3 clk filler img h) ops cur

/-- the announced size is a whole number of sectors and is the length of the canonical string -/
theorem built_size (w : World) (root : Path) (ps3 : Bool) (clk : Clock) (filler : Bytes) (img : Image)
    (h : build w root ps3 clk filler = some img) :
    (flat img (Proof.BuildWF.cfOf w)).length = img.totalSize :=
  flat_length img _ (build_wf w root ps3 clk filler img h)

/-- non-vacuity: a concrete image (one 3-byte file in the first sector, then the pad area) is
    well-formed, and a read crossing file data → padding is the slice -/
example :
    let img : Image := ⟨[], [⟨0, 3, 0⟩], 2048, 2048, 4096⟩
    let cf : Nat → Content := fun _ => Content.ofBytes [7, 8, 9]
    wfB img cf = true ∧ img.read cf 1 4 = [8, 9, 0, 0] := by
  set_option maxRecDepth 100000 in decide

end Ps3.Props.C09
