/-
  C10 — On-the-fly decryption equals the reference plaintext for any access pattern.
  The block-level cipher is a parameter `D : sector → 2048 bytes → 2048 bytes`; the driver
  instantiates it with AES-128-CBC (key derived from the disc key, IV = sector number).
-/
import Ps3.Proof.Crypt
import Ps3.Proof.Content
namespace Ps3.Props.C10
open Ps3 Ps3.Crypt Ps3.Proof.Crypt

/-- Reference plaintext, sector by sector: stored bytes outside the gaps, `D` of the stored sector
    inside a gap (for complete sectors). -/
theorem sector_rule (D : Nat → Bytes → Bytes) (gs : List Region) (s : Nat) (stored : Bytes) :
    (inGap gs s = false → plainSector D gs s stored = stored) ∧
    (inGap gs s = true → stored.length = sectorSize → plainSector D gs s stored = D s stored) ∧
    (stored.length ≠ sectorSize → plainSector D gs s stored = stored) := by
  refine ⟨?_, ?_, ?_⟩
  · intro h; simp [plainSector, h]
  · intro h hl; simp [plainSector, h, hl]
  · intro hl; simp [plainSector, hl]

/-- **For every key (every `D`), every region table, every image content and every read —
    any offset, any length, aligned to sectors or not — the view returns exactly the slice of the
    reference plaintext.** Hence any sequence of Read/Seek/ReadAt with any cut of the underlying
    reads observes the same bytes: they are slices of one fixed string. -/
theorem view_eq_plain {D : Nat → Bytes → Bytes} {rd : Nat → Nat → Bytes} {size : Nat} (E : Env D rd size)
    (gs : List Region) (off n : Nat) :
    readDec D gs rd size 0 off n = slice (plainAll D gs rd size) off n :=
  readDec_eq_slice E gs off n

/-- the reference plaintext has exactly the size of the stored image -/
theorem plain_size {D : Nat → Bytes → Bytes} {rd : Nat → Nat → Bytes} {size : Nat} (E : Env D rd size) (gs : List Region) :
    (plainAll D gs rd size).length = size := plainAll_length E gs

/-- a stored file is such a byte source (so the theorem applies to every file content) -/
theorem file_env (D : Nat → Bytes → Bytes) (hD : ∀ s x, (D s x).length = x.length) (c : Content) :
    Env D (fun off n => c.read off n) c.size :=
  ⟨fun off n => Content.read_length c off n, hD⟩

/-- consecutive reads with any chunking concatenate to one read -/
theorem chunked {D : Nat → Bytes → Bytes} {rd : Nat → Nat → Bytes} {size : Nat} (E : Env D rd size)
    (gs : List Region) (off a b : Nat) :
    readDec D gs rd size 0 off (a + b) = readDec D gs rd size 0 off a ++ readDec D gs rd size 0 (off + a) b := by
  simp only [view_eq_plain E, slice_add]

/-- The encrypted sectors are exactly the sectors strictly between consecutive plain regions: after
    the LAST sector of one (its `stop`, inclusive) and before the first of the next. -/
theorem gaps_spec (a b : Region) (rest : List Region) (s : Nat) :
    inGap (gaps (a :: b :: rest)) s = ((a.stop < s && s < b.start) || inGap (gaps (b :: rest)) s) := by
  simp [gaps, inGap, Nat.succ_le_iff]

/-- in particular the last sector of a plain region is plain, whatever follows it in the table
    (it used to be decrypted as if it belonged to the next encrypted region) -/
theorem last_plain_sector_is_plain (a b : Region) : inGap (gaps [a, b]) a.stop = false := by
  simp only [gaps, inGap, List.any_cons, List.any_nil, Bool.or_false, Bool.and_eq_false_iff, decide_eq_false_iff_not]
  left; omega

/-- Region tables are accepted exactly when they pass the documented sanity checks … -/
theorem accept_iff_valid (rd : Nat → Nat → Bytes) (regs : List Region) (h : decodeTable rd = some regs) :
    (parseTable rd = some regs ↔ validRegs regs = true) ∧ (parseTable rd = none ↔ validRegs regs = false) := by
  unfold parseTable
  rw [h]
  cases hv : validRegs regs <;> simp [hv]

/-- … which are: at least two and at most 255 regions, the first starting at sector 0, no region
    ending before it starts, and every region starting after the last sector of the previous one. -/
theorem valid_spec (r0 : Region) (rest : List Region) :
    validRegs (r0 :: rest) = true ↔
      (1 ≤ rest.length ∧ rest.length + 1 ≤ 255 ∧ r0.start = 0 ∧ bordersOk (r0 :: rest) none = true) := by
  have : maxRegions = 255 := rfl
  simp only [validRegs, this, List.length_cons, List.head?_cons, Option.map_some, Bool.and_eq_true, decide_eq_true_eq, beq_iff_eq,
    Option.some.injEq]
  constructor
  · rintro ⟨⟨⟨h1, h2⟩, h3⟩, h4⟩; exact ⟨by omega, by omega, h3, h4⟩
  · rintro ⟨h1, h2, h3, h4⟩; exact ⟨⟨⟨by omega, by omega⟩, h3⟩, h4⟩

theorem borders_first (r : Region) (rest : List Region) :
    bordersOk (r :: rest) none = true ↔ (r.start ≤ r.stop ∧ bordersOk rest (some r.stop) = true) := by
  simp only [bordersOk]
  split
  · constructor
    · intro h; exact absurd h (by simp)
    · rintro ⟨h1, _⟩; omega
  · simp only [Bool.false_eq_true, if_false]
    constructor
    · intro h; exact ⟨by omega, h⟩
    · rintro ⟨_, h⟩; exact h

theorem borders_spec (r : Region) (rest : List Region) (prevEnd : Nat) :
    bordersOk (r :: rest) (some prevEnd) = true ↔
      (r.start ≤ r.stop ∧ prevEnd < r.start ∧ bordersOk rest (some r.stop) = true) := by
  simp only [bordersOk]
  split
  · constructor
    · intro h; exact absurd h (by simp)
    · rintro ⟨h1, _, _⟩; omega
  · by_cases hp : r.start ≤ prevEnd
    · simp only [hp, decide_true, if_true]
      constructor
      · intro h; exact absurd h (by simp)
      · rintro ⟨_, h2, _⟩; omega
    · simp only [hp, decide_false, Bool.false_eq_true, if_false]
      constructor
      · intro h; exact ⟨by omega, by omega, h⟩
      · rintro ⟨_, _, h3⟩; exact h3

/-- sector `s` lies in one of the plain regions (both ends inclusive) -/
def inPlain (regs : List Region) (s : Nat) : Bool := regs.any (fun r => r.start ≤ s && s ≤ r.stop)

theorem borders_any (r : Region) (rest : List Region) (prev : Option Nat)
    (h : bordersOk (r :: rest) prev = true) : r.start ≤ r.stop ∧ bordersOk rest (some r.stop) = true := by
  cases prev with
  | none => exact (borders_first r rest).mp h
  | some e => have := (borders_spec r rest e).mp h; exact ⟨this.1, this.2.2⟩

/-- every region and every gap of a table that continues after sector `e` lies beyond `e` -/
theorem later_beyond (b : Region) (rest : List Region) (e : Nat)
    (h : bordersOk (b :: rest) (some e) = true) (s : Nat) (hs : s ≤ e) :
    inPlain (b :: rest) s = false ∧ inGap (gaps (b :: rest)) s = false := by
  induction rest generalizing b e with
  | nil =>
    obtain ⟨_, h2, _⟩ := (borders_spec b [] e).mp h
    constructor
    · simp [inPlain]; intro _; omega
    · simp [gaps, inGap]
  | cons c rest ih =>
    obtain ⟨h1, h2, h3⟩ := (borders_spec b (c :: rest) e).mp h
    obtain ⟨ip, ig⟩ := ih c b.stop h3 (by omega)
    constructor
    · simp only [inPlain, List.any_cons] at ip ⊢
      rw [ip]; simp; intro _; omega
    · simp only [gaps, inGap, List.any_cons] at ig ⊢
      rw [ig]; simp; intro _; omega

/-- **A valid table partitions the disc**: every sector from the first region's start up to the last
    region's last sector lies either in a plain region or in the gap between two of them — never in
    both, never in neither. So "stored bytes in plain regions, decrypted sectors in encrypted regions"
    assigns exactly one treatment to every sector of the image. -/
theorem plain_xor_gap (r : Region) (rest : List Region) (prev : Option Nat)
    (h : bordersOk (r :: rest) prev = true) (s : Nat) (hlo : r.start ≤ s)
    (hhi : s ≤ ((r :: rest).getLast (by simp)).stop) :
    inPlain (r :: rest) s = !inGap (gaps (r :: rest)) s := by
  induction rest generalizing r prev with
  | nil =>
    simp only [List.getLast_singleton] at hhi
    simp [inPlain, gaps, inGap, hlo, hhi]
  | cons b rest ih =>
    obtain ⟨h1, h3⟩ := borders_any r (b :: rest) prev h
    obtain ⟨hb1, h2, hb3⟩ := (borders_spec b rest r.stop).mp h3
    have hlast : ((r :: b :: rest).getLast (by simp)) = ((b :: rest).getLast (by simp)) := by
      simp [List.getLast_cons]
    rw [hlast] at hhi
    by_cases hs : s ≤ r.stop
    · obtain ⟨_, ig⟩ := later_beyond b rest r.stop h3 s hs
      have e1 : (decide (r.start ≤ s) && decide (s ≤ r.stop)) = true := by simp [hlo, hs]
      have e2 : (decide (r.stop + 1 ≤ s) && decide (s < b.start)) = false := by simp; intro _; omega
      simp only [inPlain, List.any_cons, gaps, inGap, e1, e2, Bool.true_or, Bool.false_or]
      simp only [inGap] at ig
      rw [ig]; rfl
    · by_cases hg : s < b.start
      · have hb' : bordersOk (b :: rest) (some (b.start - 1)) = true :=
          (borders_spec b rest (b.start - 1)).mpr ⟨hb1, by omega, hb3⟩
        have ip := (later_beyond b rest (b.start - 1) hb' s (by omega)).1
        have e1 : (decide (r.start ≤ s) && decide (s ≤ r.stop)) = false := by simp; intro _; omega
        have e2 : (decide (r.stop + 1 ≤ s) && decide (s < b.start)) = true := by simp; omega
        simp only [inPlain, List.any_cons] at ip
        simp only [inPlain, List.any_cons, gaps, inGap, e1, e2, Bool.false_or, Bool.true_or, ip]
        rfl
      · have := ih b (some r.stop) h3 (by omega) hhi
        have e1 : (decide (r.start ≤ s) && decide (s ≤ r.stop)) = false := by simp; intro _; omega
        have e2 : (decide (r.stop + 1 ≤ s) && decide (s < b.start)) = false := by simp; intro _; omega
        simp only [inPlain, List.any_cons, gaps, inGap] at this ⊢
        simp only [e1, e2, Bool.false_or]
        exact this

/-- a table that is too short for the count it announces, or announces more regions than fit a
    sector, is rejected — whatever follows -/
theorem short_table_rejected (rd : Nat → Nat → Bytes) (h : decodeTable rd = none) : parseTable rd = none := by
  simp [parseTable, h]

theorem huge_count_rejected (rd : Nat → Nat → Bytes) (h8 : (rd 0 8).length = 8)
    (hc : fromBE ((rd 0 8).take 4) > 255) : parseTable rd = none := by
  have : maxRegions = 255 := rfl
  simp [parseTable, decodeTable, h8, this, hc]

/-- Header clearing (the offline decrypt tool): exactly the first `h` bytes read as zero, nothing else changes. -/
theorem clear_header (D : Nat → Bytes → Bytes) (gs : List Region) (rd : Nat → Nat → Bytes) (size h off n : Nat) :
    readDec D gs rd size h off n =
      (if off < h then
        zeros (min (h - off) (readDec D gs rd size 0 off n).length) ++ (readDec D gs rd size 0 off n).drop (h - off)
       else readDec D gs rd size 0 off n) := by
  unfold readDec
  by_cases hl : (min n (size - off) == 0) = true
  · simp [hl, zeros]
  · simp [hl]

/-- IV rule and key-derivation constants (psdevwiki: Bluray disc encryption) -/
theorem constants :
    Gen.fs_keyData1 = [0x38, 0x0b, 0xcf, 0x0b, 0x53, 0x45, 0x5b, 0x3c, 0x78, 0x17, 0xab, 0x4f, 0xa3, 0xba, 0x90, 0xed] ∧
    Gen.fs_ivData1 = [0x69, 0x47, 0x47, 0x72, 0xaf, 0x6f, 0xda, 0xb3, 0x42, 0x74, 0x3a, 0xef, 0xaa, 0x18, 0x62, 0x87] ∧
    Gen.fs_encryptionKeySize = 16 ∧ sectorSize = 2048 := by decide

/-- The server keeps sector numbers as int32 and clamps table borders to 2^31−1 (`regionBorder`). -/
def clampBorder (v : Nat) : Nat := min v (2 ^ 31 - 1)
def clampGaps (gs : List Region) : List Region := gs.map (fun g => ⟨clampBorder g.start, clampBorder g.stop⟩)

/-- Clamping is unobservable: for every sector a file can have (below 2^31−1, i.e. files under 4 TiB)
    membership in the encrypted gaps is the same with clamped and with exact borders. -/
theorem clamp_unobservable (gs : List Region) (s : Nat) (hs : s < 2 ^ 31 - 1) :
    inGap (clampGaps gs) s = inGap gs s := by
  induction gs with
  | nil => rfl
  | cons g rest ih =>
    have ih' : (clampGaps rest).any (fun g => decide (g.start ≤ s) && decide (s < g.stop)) =
        rest.any (fun g => decide (g.start ≤ s) && decide (s < g.stop)) := ih
    simp only [inGap, clampGaps, List.map_cons, List.any_cons] at ih ⊢
    have h1 : (decide (clampBorder g.start ≤ s) && decide (s < clampBorder g.stop)) =
        (decide (g.start ≤ s) && decide (s < g.stop)) := by
      unfold clampBorder
      by_cases ha : g.start ≤ s <;> by_cases hb : s < g.stop <;> simp [ha, hb] <;> omega
    rw [h1]
    congr 1

/-- non-vacuity: a valid three-region table and its two gaps -/
example : validRegs [⟨0, 2⟩, ⟨5, 7⟩, ⟨8, 9⟩] = true ∧ gaps [⟨0, 2⟩, ⟨5, 7⟩, ⟨8, 9⟩] = [⟨3, 5⟩, ⟨8, 8⟩] ∧
    inGap (gaps [⟨0, 2⟩, ⟨5, 7⟩, ⟨8, 9⟩]) 4 = true ∧ inGap (gaps [⟨0, 2⟩, ⟨5, 7⟩, ⟨8, 9⟩]) 2 = false ∧
    inGap (gaps [⟨0, 2⟩, ⟨5, 7⟩, ⟨8, 9⟩]) 7 = false ∧
    validRegs [⟨0, 2⟩, ⟨2, 9⟩] = false ∧ validRegs [⟨0, 0⟩, ⟨1, 1⟩] = true := by decide

/-! ### the table as written by a dumper is the table read -/

/-- the region table as the disc format writes it: count, 4 pad bytes, big-endian (first, end) pairs -/
def encodeTable (regs : List Region) : Bytes :=
  beN 4 regs.length ++ zeros 4 ++ (regs.map (fun r => beN 4 r.start ++ beN 4 r.stop)).flatten

def fileRd (b : Bytes) : Nat → Nat → Bytes := fun off n => slice b off n

theorem pairs_length (regs : List Region) : ((regs.map (fun r => beN 4 r.start ++ beN 4 r.stop)).flatten).length = 8 * regs.length := by
  induction regs with
  | nil => rfl
  | cons r rest ih => simp [ih]; omega

theorem pair_at (regs : List Region) (i : Nat) (r : Region) (h : regs[i]? = some r) (more : Bytes) :
    slice ((regs.map (fun r => beN 4 r.start ++ beN 4 r.stop)).flatten ++ more) (8 * i) 4 = beN 4 r.start ∧
    slice ((regs.map (fun r => beN 4 r.start ++ beN 4 r.stop)).flatten ++ more) (8 * i + 4) 4 = beN 4 r.stop := by
  induction regs generalizing i with
  | nil => simp at h
  | cons q rest ih =>
    cases i with
    | zero =>
      simp at h; subst h
      simp [slice, List.take_append, List.drop_append]
    | succ i =>
      simp only [List.getElem?_cons_succ] at h
      obtain ⟨a, b⟩ := ih i h
      simp only [List.map_cons, List.flatten_cons, List.append_assoc]
      constructor
      · rw [slice_append_right _ _ _ _ (by simp; omega)]
        have : 8 * (i + 1) - (beN 4 q.start).length = 4 + 8 * i := by simp only [beN_length]; omega
        rw [this, slice_append_right _ _ _ _ (by simp)]
        have : 4 + 8 * i - (beN 4 q.stop).length = 8 * i := by simp
        rw [this]; exact a
      · rw [slice_append_right _ _ _ _ (by simp)]
        have : 8 * (i + 1) + 4 - (beN 4 q.start).length = 4 + (8 * i + 4) := by simp only [beN_length]; omega
        rw [this, slice_append_right _ _ _ _ (by simp)]
        have : 4 + (8 * i + 4) - (beN 4 q.stop).length = 8 * i + 4 := by simp
        rw [this]; exact b

/-- **decode ∘ encode = id for the region table**: a table of up to 255 regions with 32-bit borders,
    followed by any image content, is read back exactly -/
theorem table_roundtrip (regs : List Region) (hn : regs.length ≤ maxRegions)
    (hb : ∀ r ∈ regs, r.start < 2 ^ 32 ∧ r.stop < 2 ^ 32) (rest : Bytes) :
    decodeTable (fileRd (encodeTable regs ++ rest)) = some regs := by
  have hmax : maxRegions = 255 := by decide
  have hlen := pairs_length regs
  unfold decodeTable fileRd encodeTable
  simp only
  have h8 : (slice (beN 4 regs.length ++ zeros 4 ++ (regs.map (fun r => beN 4 r.start ++ beN 4 r.stop)).flatten ++ rest) 0 8) =
      beN 4 regs.length ++ zeros 4 := by
    have t8 : (beN 4 regs.length).take 8 = beN 4 regs.length := List.take_of_length_le (by simp)
    simp [slice, List.take_append, t8]
  rw [h8]
  have hc : fromBE ((beN 4 regs.length ++ zeros 4).take 4) = regs.length := by
    have t4 : (beN 4 regs.length ++ zeros 4).take 4 = beN 4 regs.length := by
      rw [List.take_append_of_le_length (by simp)]; exact List.take_of_length_le (by simp)
    rw [t4, fromBE_beN]
    exact Nat.mod_eq_of_lt (by omega)
  simp only [hc]
  have hraw : slice (beN 4 regs.length ++ zeros 4 ++ (regs.map (fun r => beN 4 r.start ++ beN 4 r.stop)).flatten ++ rest) 8 (8 * regs.length) =
      (regs.map (fun r => beN 4 r.start ++ beN 4 r.stop)).flatten := by
    rw [List.append_assoc, slice_append_right _ _ _ _ (by simp)]
    simp only [List.length_append, beN_length, zeros_length, Nat.sub_self]
    rw [← hlen]; simp [slice]
  rw [hraw]
  simp only [List.length_append, beN_length, zeros_length, hlen]
  have hnot : ¬ regs.length > maxRegions := by omega
  simp only [bne_self_eq_false, Bool.false_eq_true, if_false, hnot]
  congr 1
  apply List.ext_getElem?
  intro i
  by_cases hi : i < regs.length
  · have hr : regs[i]? = some regs[i] := List.getElem?_eq_getElem hi
    obtain ⟨a, b⟩ := pair_at regs i regs[i] hr []
    simp only [List.append_nil] at a b
    simp only [List.getElem?_map, List.getElem?_range hi, Option.map_some, hr, a, b, fromBE_beN]
    have := hb regs[i] (List.getElem_mem hi)
    rw [Nat.mod_eq_of_lt (by omega), Nat.mod_eq_of_lt (by omega)]
  · simp [List.getElem?_eq_none (Nat.le_of_not_lt hi), hi]

end Ps3.Props.C10
