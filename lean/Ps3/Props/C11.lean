/-
  C11 — Image-kind detection and key discovery pick the documented source.
-/
import Ps3.Model.FSWrap
import Ps3.Proof.Content
namespace Ps3.Props.C11
open Ps3 Ps3.FSWrap Ps3.Crypt Ps3.Conn

/-- A file whose extension is not `.iso` (in any case) never gets a key looked up. -/
theorem not_iso_no_key (w : World) (p : Path) (name : Name) (hl : p.getLast? = some name)
    (h : lowerBytes (extOf name) ≠ lowerBytes Gen.fs_isoExt) : redumpKey w p = .notFound := by
  simp [redumpKey, hl, h]

/-- Nor does a file that is not below a `ps3iso` element (in any case). -/
theorem not_below_ps3iso_no_key (w : World) (p : Path)
    (h : p.findIdx? (fun c => lowerBytes c == lowerBytes Gen.fs_ps3isoDir) = none) : redumpKey w p = .notFound := by
  unfold redumpKey
  cases p.getLast? with
  | none => rfl
  | some name => simp only; split <;> simp [h]

/-- The key file beside the image wins over the REDKEY one, whatever the latter contains;
    a malformed adjacent key makes the open fail — there is no fallback. -/
theorem adjacent_wins (w : World) (p : Path) (name : Name) (idx : Nat) (r : KeyLookup)
    (hl : p.getLast? = some name) (he : lowerBytes (extOf name) = lowerBytes Gen.fs_isoExt)
    (hi : p.findIdx? (fun c => lowerBytes c == lowerBytes Gen.fs_ps3isoDir) = some idx)
    (hk : keyAt w (p.dropLast ++ [dkeyName name]) = some r) : redumpKey w p = r := by
  simp [redumpKey, hl, he, hi, hk]

/-- Without an adjacent key file, the one in the parallel REDKEY directory is used. -/
theorem redkey_fallback (w : World) (p : Path) (name : Name) (idx : Nat) (r : KeyLookup)
    (hl : p.getLast? = some name) (he : lowerBytes (extOf name) = lowerBytes Gen.fs_isoExt)
    (hi : p.findIdx? (fun c => lowerBytes c == lowerBytes Gen.fs_ps3isoDir) = some idx)
    (hk : keyAt w (p.dropLast ++ [dkeyName name]) = none)
    (hr : keyAt w ((p.set idx Gen.fs_redkeyDir).dropLast ++ [dkeyName name]) = some r) : redumpKey w p = r := by
  simp [redumpKey, hl, he, hi, hk, hr]

theorem no_key_anywhere (w : World) (p : Path) (name : Name) (idx : Nat)
    (hl : p.getLast? = some name) (he : lowerBytes (extOf name) = lowerBytes Gen.fs_isoExt)
    (hi : p.findIdx? (fun c => lowerBytes c == lowerBytes Gen.fs_ps3isoDir) = some idx)
    (hk : keyAt w (p.dropLast ++ [dkeyName name]) = none)
    (hr : keyAt w ((p.set idx Gen.fs_redkeyDir).dropLast ++ [dkeyName name]) = none) : redumpKey w p = .notFound := by
  simp [redumpKey, hl, he, hi, hk, hr]

/-- A key file is 32 hex digits (either case); anything else is malformed. -/
theorem key_file_malformed_fails (w : World) (p : Path) (q : Path) (i : Nat) (f : Inode)
    (hs : w.stat p = some (q, .file i)) (hf : w.inode? i = some f) (hbad : readKeyFile f.content.all = none) :
    keyAt w p = some .failed := by
  simp [keyAt, hs, hf, hbad]

/-- case-insensitivity is Go's `strings.ToLower` equality; all spellings of the names concerned: -/
example : lowerBytes [80, 83, 51, 73, 83, 79] = lowerBytes Gen.fs_ps3isoDir ∧       -- "PS3ISO"
    lowerBytes [80, 115, 51, 73, 115, 79] = lowerBytes Gen.fs_ps3isoDir ∧             -- "Ps3IsO"
    lowerBytes [46, 73, 83, 79] = lowerBytes Gen.fs_isoExt ∧                          -- ".ISO"
    lowerBytes [46, 73, 115, 79] = lowerBytes Gen.fs_isoExt ∧                         -- ".IsO"
    lowerBytes [80, 83, 51, 73, 83, 79, 50] ≠ lowerBytes Gen.fs_ps3isoDir := by decide -- "PS3ISO2"

/-- extension = from the last dot of the file name -/
example : extOf [97, 46, 98, 46, 105, 115, 111] = [46, 105, 115, 111] ∧ extOf [97, 98] = [] ∧
    dkeyName [71, 46, 105, 115, 111] = [71, 46, 100, 107, 101, 121] := by decide

/-- the watermark test: encrypted watermark ⇒ the 16 bytes after it are the key; decrypted
    watermark ⇒ masked pass-through; anything else ⇒ not 3k3y. A file that ends inside the area is
    still recognised as long as it holds the watermark (and, for the encrypted form, the key); one that
    ends before the watermark is complete is not. -/
theorem short_file_not_3k3y (rd : Nat → Nat → Bytes) (h : (rd maskBegin Gen.fs__3k3yMaskedDataSize).length < 16) :
    test3k3y rd = .no := by
  simp [test3k3y, h]

theorem watermark_in_short_file (rd : Nat → Nat → Bytes)
    (hl : 16 ≤ (rd maskBegin Gen.fs__3k3yMaskedDataSize).length)
    (hw : (rd maskBegin Gen.fs__3k3yMaskedDataSize).take 16 = Gen.fs__3k3yDecWatermark.map UInt8.ofNat) :
    test3k3y rd = .dec := by
  have hne : Gen.fs__3k3yDecWatermark.map UInt8.ofNat ≠ Gen.fs__3k3yEncWatermark.map UInt8.ofNat := by decide
  have hl' : ¬ ((rd maskBegin Gen.fs__3k3yMaskedDataSize).length < 16) := by omega
  simp [test3k3y, hl', hw, hne]

theorem watermarks : Gen.fs__3k3yEncWatermark = [0x44, 0x6E, 0x63, 0x72, 0x79, 0x70, 0x74, 0x65, 0x64, 0x20, 0x33, 0x4B, 0x20, 0x42, 0x4C, 0x44] ∧
    Gen.fs__3k3yDecWatermark = [0x45, 0x6E, 0x63, 0x72, 0x79, 0x70, 0x74, 0x65, 0x64, 0x20, 0x33, 0x4B, 0x20, 0x42, 0x4C, 0x44] ∧
    maskBegin = 0xF70 ∧ maskEnd = 0x1070 := by decide

/-- **The mask is exact**: through the 3k3y view, any read of any range returns the underlying
    bytes with exactly the positions `[0xF70, 0x1070)` zeroed — also when the read starts inside the area. -/
theorem mask_exact (data : Bytes) (off i : Nat) :
    (mask3k3y data off)[i]? =
      if i < data.length then (if 0xF70 ≤ off + i ∧ off + i < 0x1070 then some 0 else data[i]?) else none := by
  have hb : maskBegin = 0xF70 := rfl
  have he : maskEnd = 0x1070 := rfl
  unfold mask3k3y
  rw [hb, he]
  dsimp only
  split
  · rename_i h
    have hL1 : (List.take (max 3952 off - off) data).length = max 3952 off - off := by rw [List.length_take]; omega
    by_cases hi : i < data.length
    · simp only [hi, if_true]
      by_cases h1 : i < max 3952 off - off
      · have hn : ¬ (3952 ≤ off + i ∧ off + i < 4208) := by omega
        rw [List.append_assoc, List.getElem?_append_left (by rw [hL1]; exact h1)]
        simp only [hn, if_false, List.getElem?_take, h1, if_true]
      · by_cases h2 : i < min 4208 (off + data.length) - off
        · have hy : 3952 ≤ off + i ∧ off + i < 4208 := by omega
          rw [List.append_assoc, List.getElem?_append_right (by rw [hL1]; omega), hL1,
            List.getElem?_append_left (by rw [zeros_length]; omega)]
          simp only [hy, and_self, if_true, zeros]
          rw [List.getElem?_replicate]
          have : i - (max 3952 off - off) < min 4208 (off + data.length) - max 3952 off := by omega
          simp [this]
        · have hn : ¬ (3952 ≤ off + i ∧ off + i < 4208) := by omega
          rw [List.getElem?_append_right (by rw [List.length_append, hL1, zeros_length]; omega), List.length_append, hL1,
            zeros_length, List.getElem?_drop]
          simp only [hn, if_false]
          congr 1; omega
    · simp only [hi, if_false]
      apply List.getElem?_eq_none
      rw [List.length_append, List.length_append, hL1, zeros_length, List.length_drop]
      omega
  · rename_i h
    by_cases hi : i < data.length
    · have hn : ¬ (3952 ≤ off + i ∧ off + i < 4208) := by omega
      simp [hi, hn]
    · simp only [hi, if_false]
      exact List.getElem?_eq_none (by omega)

/-- Every other file is passed through byte-identically: no wrapper at all is selected when no key
    applies and no watermark is present. -/
theorem plain_passthrough (w : World) (p q : Path) (i : Nat) (f : Inode)
    (hs : w.stat p = some (q, .file i)) (hf : w.inode? i = some f)
    (hk : redumpKey w p = .notFound) (hm : test3k3y (fileRd f) = .no) : wrapFile w p = none := by
  simp [wrapFile, hs, hf, hk, hm]

/-- Directories never get a wrapper. -/
theorem dir_passthrough (w : World) (p q : Path) (mt : Nat) (hs : w.stat p = some (q, .dir mt)) : wrapFile w p = none := by
  simp [wrapFile, hs]

/-- A file opened for writing never goes through the wrapper selection: CREATE_FILE does not
    consult `cfg.wrap` at all (two configurations that differ only in `wrap` behave alike). -/
theorem write_open_ignores_wrappers (aw : Bool) (wrap1 wrap2 : World → Path → Option (Option StaticView))
    (w : World) (st : State) (raw : Bytes) :
    (step ⟨aw, wrap1⟩ w st (.createFile raw)).1 = (step ⟨aw, wrap2⟩ w st (.createFile raw)).1 ∧
    (step ⟨aw, wrap1⟩ w st (.createFile raw)).2.2.bytes = (step ⟨aw, wrap2⟩ w st (.createFile raw)).2.2.bytes := by
  constructor <;> simp only [step] <;> rfl

/-- An invalid region table, with a key that applies, makes the open fail (never a garbled view). -/
theorem bad_table_open_fails (w : World) (p q : Path) (i : Nat) (f : Inode) (k : Bytes)
    (hs : w.stat p = some (q, .file i)) (hf : w.inode? i = some f)
    (hk : redumpKey w p = .key k) (ht : parseTable (fileRd f) = none) : wrapFile w p = some none := by
  simp [wrapFile, hs, hf, hk, ht]

end Ps3.Props.C11
