/-
  C12 — Connections are isolated from each other under concurrency.
  What is proved: there is no *logical* sharing between connections in the model (request-level
  interleavings). Freedom from data races in Go's memory model is observed (race detector, parallel
  sessions against the sequential prediction), not proved.
-/
import Ps3.Model.Multi
import Ps3.Props.C05
namespace Ps3.Props.C12
open Ps3 Ps3.Conn Ps3.Proto Ps3.Multi

/-- a step of connection `j` leaves every other connection's state alone -/
theorem other_state_untouched (cfg : Cfg) (s : Sys) (i j : Nat) (r : Req) (h : i ≠ j) :
    (stepConn cfg s j r).1.sts[i]? = s.sts[i]? := by
  unfold stepConn
  cases hj : s.sts[j]? with
  | none => rfl
  | some st => simp only; rw [List.getElem?_set_ne (Ne.symm h)]

/-- **Non-interference**: with writing disabled (the default), for any number of connections and
    ANY interleaving of their requests, every connection receives exactly the responses it would
    receive if it were alone on the same world: open files, open directory, sector size of one
    connection never influence another. -/
theorem noninterference_readonly (cfg : Cfg) (hro : cfg.allowWrite = false) (i : Nat) :
    ∀ (sched : List (Nat × Req)) (s : Sys) (st : State), s.sts[i]? = some st →
      project i (runSched cfg s sched) = runAlone cfg s.w st (project i sched) := by
  intro sched
  induction sched with
  | nil => intro s st _; rfl
  | cons hd rest ih =>
    intro s st hst
    obtain ⟨j, r⟩ := hd
    simp only [runSched]
    by_cases hji : j = i
    · subst hji
      have hw : (step cfg s.w st r).1 = s.w := Props.C05.readonly_step cfg hro s.w st r
      have hstep : stepConn cfg s j r = ({ w := (step cfg s.w st r).1, sts := s.sts.set j (step cfg s.w st r).2.1 }, some (step cfg s.w st r).2.2) := by
        simp [stepConn, hst]
      rw [hstep]
      simp only [project, List.filterMap_cons, if_true]
      have hlen : j < s.sts.length := by
        rcases Nat.lt_or_ge j s.sts.length with h | h
        · exact h
        · rw [List.getElem?_eq_none h] at hst; cases hst
      have := ih { w := (step cfg s.w st r).1, sts := s.sts.set j (step cfg s.w st r).2.1 } (step cfg s.w st r).2.1
        (by simp [List.getElem?_set_self hlen])
      simp only [project] at this
      rw [this]
      simp only [runAlone, hw]
    · have hother := other_state_untouched cfg s i j r (Ne.symm hji)
      have hw : (stepConn cfg s j r).1.w = s.w := by
        unfold stepConn
        cases hj : s.sts[j]? with
        | none => rfl
        | some stj => exact Props.C05.readonly_step cfg hro s.w stj r
      have hrec := ih (stepConn cfg s j r).1 st (by rw [hother]; exact hst)
      rw [hw] at hrec
      cases hout : (stepConn cfg s j r).2 with
      | none => simp only [project, List.filterMap_cons, hji, if_false] at hrec ⊢; exact hrec
      | some o => simp only [project, List.filterMap_cons, hji, if_false] at hrec ⊢; exact hrec

/-- in particular the responses of a connection do not depend on what the others send, nor on how
    their requests are interleaved with its own -/
theorem independent_of_others (cfg : Cfg) (hro : cfg.allowWrite = false) (i : Nat)
    (sched1 sched2 : List (Nat × Req)) (s : Sys) (st : State) (hst : s.sts[i]? = some st)
    (hsame : project i sched1 = project i sched2) :
    project i (runSched cfg s sched1) = project i (runSched cfg s sched2) := by
  rw [noninterference_readonly cfg hro i sched1 s st hst, noninterference_readonly cfg hro i sched2 s st hst, hsame]

/-- requests that can change something under the root -/
def mutating : Req → Bool
  | .createFile _ | .writeFile _ _ | .deleteFile _ | .mkdir _ | .rmdir _ => true
  | _ => false

/-- a non-mutating request leaves the world alone, whether writing is enabled or not -/
theorem read_step_frame (cfg : Cfg) (w : World) (st : State) (r : Req) (h : mutating r = false) :
    (step cfg w st r).1 = w := by
  cases r <;> simp [mutating] at h <;> simp [step]
  all_goals (repeat' split) <;> try rfl

/-- Non-interference from any frame condition: if every request of the schedule satisfies `P` and
    `P`-requests leave the world unchanged, each connection sees what it would see alone. -/
theorem noninterference_of_frame (cfg : Cfg) (P : Req → Prop)
    (hframe : ∀ w st r, P r → (step cfg w st r).1 = w) (i : Nat) :
    ∀ (sched : List (Nat × Req)) (s : Sys) (st : State), (∀ p ∈ sched, P p.2) → s.sts[i]? = some st →
      project i (runSched cfg s sched) = runAlone cfg s.w st (project i sched) := by
  intro sched
  induction sched with
  | nil => intro s st _ _; rfl
  | cons hd rest ih =>
    intro s st hP hst
    obtain ⟨j, r⟩ := hd
    have hPr : P r := hP (j, r) List.mem_cons_self
    have hPrest : ∀ p ∈ rest, P p.2 := fun p hp => hP p (List.mem_cons_of_mem _ hp)
    simp only [runSched]
    by_cases hji : j = i
    · subst hji
      have hw : (step cfg s.w st r).1 = s.w := hframe s.w st r hPr
      have hstep : stepConn cfg s j r = ({ w := (step cfg s.w st r).1, sts := s.sts.set j (step cfg s.w st r).2.1 }, some (step cfg s.w st r).2.2) := by
        simp [stepConn, hst]
      rw [hstep]
      simp only [project, List.filterMap_cons, if_true]
      have hlen : j < s.sts.length := by
        rcases Nat.lt_or_ge j s.sts.length with h | h
        · exact h
        · rw [List.getElem?_eq_none h] at hst; cases hst
      have := ih { w := (step cfg s.w st r).1, sts := s.sts.set j (step cfg s.w st r).2.1 } (step cfg s.w st r).2.1
        hPrest (by simp [List.getElem?_set_self hlen])
      simp only [project] at this
      rw [this]
      simp only [runAlone, hw]
    · have hother := other_state_untouched cfg s i j r (Ne.symm hji)
      have hw : (stepConn cfg s j r).1.w = s.w := by
        unfold stepConn
        cases hj : s.sts[j]? with
        | none => rfl
        | some stj => exact hframe s.w stj r hPr
      have hrec := ih (stepConn cfg s j r).1 st hPrest (by rw [hother]; exact hst)
      rw [hw] at hrec
      cases hout : (stepConn cfg s j r).2 with
      | none => simp only [project, List.filterMap_cons, hji, if_false] at hrec ⊢; exact hrec
      | some o => simp only [project, List.filterMap_cons, hji, if_false] at hrec ⊢; exact hrec

/-- **Readers never disturb each other, also on a server with writing enabled**: for any number of
    connections and any interleaving of open / stat / list / read / dir-size requests, every
    connection receives exactly the responses it would receive alone. -/
theorem noninterference_readers (cfg : Cfg) (i : Nat) (sched : List (Nat × Req)) (s : Sys) (st : State)
    (hread : ∀ p ∈ sched, mutating p.2 = false) (hst : s.sts[i]? = some st) :
    project i (runSched cfg s sched) = runAlone cfg s.w st (project i sched) :=
  noninterference_of_frame cfg (fun r => mutating r = false) (read_step_frame cfg) i sched s st hread hst

/-- every new connection starts from the empty state: nothing of an earlier or parallel connection
    (open files, directory cursor, sector size) is inherited -/
theorem fresh_connection_state : ({} : State).cwd.isNone ∧ ({} : State).ro.isNone ∧ ({} : State).wo.isNone ∧
    ({} : State).cdSectorSize = 0 := by decide

/-- The shared buffer pool hands every buffer to at most one connection at a time, under every
    interleaving of get/put events of any number of connections. -/
theorem pool_exclusive (p : Pool) (h : p.Inv) (e : PoolEv) : (p.step e).Inv := by
  obtain ⟨hnd, hlt⟩ := h
  cases e with
  | get c =>
    simp only [Pool.step]
    cases hf : p.free with
    | nil =>
      rw [hf] at hnd hlt
      simp only [List.nil_append] at hnd hlt
      refine ⟨?_, ?_⟩
      · show (([] : List Nat) ++ ((c, p.next) :: p.held).map (fun x => x.2)).Nodup
        simp only [List.nil_append, List.map_cons]
        refine List.nodup_cons.mpr ⟨?_, hnd⟩
        intro hm; exact absurd (hlt _ hm) (Nat.lt_irrefl _)
      · intro b hb
        show b < p.next + 1
        have hb' : b ∈ ((c, p.next) :: p.held).map (fun x => x.2) := by simpa using hb
        simp only [List.map_cons, List.mem_cons] at hb'
        rcases hb' with rfl | hb'
        · omega
        · have := hlt b hb'; omega
    | cons b rest =>
      rw [hf] at hnd hlt
      refine ⟨?_, ?_⟩
      · show (rest ++ ((c, b) :: p.held).map (fun x => x.2)).Nodup
        simp only [List.map_cons]
        have hp : (b :: rest ++ p.held.map (·.2)).Perm (rest ++ b :: p.held.map (·.2)) := by
          simpa using List.perm_middle.symm
        exact hp.nodup_iff.mp hnd
      · intro x hx
        show x < p.next
        apply hlt
        have hx' : x ∈ rest ++ ((c, b) :: p.held).map (fun x => x.2) := hx
        simp only [List.map_cons, List.mem_append, List.mem_cons] at hx' ⊢
        rcases hx' with h1 | h1 | h1
        · exact Or.inl (Or.inr h1)
        · exact Or.inl (Or.inl h1)
        · exact Or.inr h1
  | put c =>
    simp only [Pool.step]
    cases hfind : p.held.find? (fun h => h.1 == c) with
    | none => exact ⟨hnd, hlt⟩
    | some hb =>
      have hmem : hb ∈ p.held := List.mem_of_find?_eq_some hfind
      have hperm : (p.held).Perm (hb :: p.held.erase hb) := List.perm_cons_erase hmem
      have hmap : (p.held.map (·.2)).Perm (hb.2 :: (p.held.erase hb).map (·.2)) := by
        simpa using hperm.map (·.2)
      have hperm2 : (p.free ++ p.held.map (·.2)).Perm (hb.2 :: p.free ++ (p.held.erase hb).map (·.2)) := by
        have h1 : (p.free ++ p.held.map (·.2)).Perm (p.free ++ (hb.2 :: (p.held.erase hb).map (·.2))) :=
          List.Perm.append_left _ hmap
        have h2 : (p.free ++ (hb.2 :: (p.held.erase hb).map (·.2))).Perm (hb.2 :: p.free ++ (p.held.erase hb).map (·.2)) := by
          simpa using List.perm_middle
        exact h1.trans h2
      refine ⟨?_, ?_⟩
      · show ((hb.2 :: p.free) ++ (p.held.erase hb).map (fun x => x.2)).Nodup
        exact hperm2.nodup_iff.mp hnd
      · intro x hx
        show x < p.next
        exact hlt x (hperm2.mem_iff.mpr hx)

/-- the empty pool satisfies the invariant, so it holds in every reachable pool state -/
theorem pool_init : (⟨[], [], 0⟩ : Pool).Inv := by simp [Pool.Inv]

end Ps3.Props.C12
