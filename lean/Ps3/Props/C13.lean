/-
  C13 — Handles are always released; I/O faults never produce wrong data.
  The logic (slot bookkeeping, the judgement of fault outcomes) is proved here; that the real code's
  ledger drains and that real faults stay within the judgement is observed by the fault enumeration.
-/
import Ps3.Model.Conn
import Ps3.Spec.C13
import Ps3.Model.FSWrap
namespace Ps3.Props.C13
open Ps3 Ps3.Conn Ps3.Proto Ps3.Spec.C13

/-- However a connection ends, the deferred State.Close leaves no handle behind. -/
theorem close_releases_all (st : State) : handles st.close = 0 := rfl

/-- a connection never owns more than one handle per slot -/
theorem at_most_three (st : State) : handles st ≤ 3 := by
  unfold handles; cases st.cwd.isSome <;> cases st.ro.isSome <;> cases st.wo.isSome <;> simp

/-- requests that never touch the connection's handles -/
theorem state_unchanged (cfg : Cfg) (w : World) (st : State) (r : Req)
    (hr : match r with
      | .statFile _ | .readFile _ _ | .readFileCritical _ _ | .readCD _ _ | .getDirSize _
      | .writeFile _ _ | .deleteFile _ | .mkdir _ | .rmdir _ => True
      | _ => False) : (step cfg w st r).2.1 = st := by
  cases r <;> simp at hr <;> simp only [step]
  all_goals (repeat' split) <;> rfl

theorem create_keeps_other_slots (cfg : Cfg) (w : World) (st : State) (p : Bytes) :
    (step cfg w st (.createFile p)).2.1.cwd = st.cwd ∧ (step cfg w st (.createFile p)).2.1.ro = st.ro := by
  simp only [step]
  constructor <;> (repeat' split) <;> rfl

/-- **Ledger bookkeeping**: for every request, in every state and world, the handles owned afterwards
    are exactly those owned before, plus those opened, minus those closed — a replaced or exhausted
    handle is always closed, a failed open never leaves one behind. -/
theorem ledger_step (cfg : Cfg) (w : World) (st : State) (r : Req) :
    handles (step cfg w st r).2.1 + (ledgerEv cfg w st r).2 = handles st + (ledgerEv cfg w st r).1 := by
  cases r with
  | openDir p =>
    simp only [step, ledgerEv, handles]
    cases openRO cfg w (PathStr.cleanRequest p) with
    | none => simp; omega
    | some ro => cases ro <;> simp <;> (cases st.cwd <;> simp <;> omega)
  | readDir =>
    simp only [step, ledgerEv, handles]
    cases h : st.cwd <;> simp [h]
  | readDirEntry =>
    simp only [step, ledgerEv, handles]
    cases h : st.cwd with
    | none => simp [h]
    | some hd =>
      simp only [h]
      cases nextEntry w hd.named (hd.remaining.getD (dirNames w hd.real)) <;> simp <;> omega
  | readDirEntryV2 =>
    simp only [step, ledgerEv, handles]
    cases h : st.cwd with
    | none => simp [h]
    | some hd =>
      simp only [h]
      cases nextEntry w hd.named (hd.remaining.getD (dirNames w hd.real)) <;> simp <;> omega
  | openFile p =>
    simp only [step, ledgerEv, handles]
    split
    · cases st.ro <;> simp <;> omega
    · cases openRO cfg w (PathStr.cleanRequest p) <;> cases st.ro <;> simp <;> omega
  | createFile p =>
    have ⟨h1, h2⟩ := create_keeps_other_slots cfg w st p
    by_cases haw : cfg.allowWrite = true
    · simp only [ledgerEv, mayWrite_create, haw, Bool.not_true, Bool.false_eq_true, if_false, handles, h1, h2]
      split <;> rename_i hw <;> simp [hw] <;> omega
    · have haw' : cfg.allowWrite = false := by simpa using haw
      have : (step cfg w st (.createFile p)).2.1 = st := by simp [step, haw']
      simp [ledgerEv, haw', this]
  | statFile p => rw [state_unchanged cfg w st _ trivial]; simp [ledgerEv]
  | readFile l o => rw [state_unchanged cfg w st _ trivial]; simp [ledgerEv]
  | readFileCritical l o => rw [state_unchanged cfg w st _ trivial]; simp [ledgerEv]
  | readCD s c => rw [state_unchanged cfg w st _ trivial]; simp [ledgerEv]
  | writeFile n pl => rw [state_unchanged cfg w st _ trivial]; simp [ledgerEv]
  | deleteFile p => rw [state_unchanged cfg w st _ trivial]; simp [ledgerEv]
  | mkdir p => rw [state_unchanged cfg w st _ trivial]; simp [ledgerEv]
  | rmdir p => rw [state_unchanged cfg w st _ trivial]; simp [ledgerEv]
  | getDirSize p => rw [state_unchanged cfg w st _ trivial]; simp [ledgerEv]

/-- over a whole session: opened = closed + still owned; after the final Close: opened = closed -/
theorem ledger_session (cfg : Cfg) :
    ∀ (rs : List Req) (w : World) (st : State),
      let fin := rs.foldl (fun (acc : World × State × Nat × Nat) r =>
        let s := step cfg acc.1 acc.2.1 r
        let e := ledgerEv cfg acc.1 acc.2.1 r
        (s.1, s.2.1, acc.2.2.1 + e.1, acc.2.2.2 + e.2)) (w, st, 0, 0)
      handles fin.2.1 + fin.2.2.2 = handles st + fin.2.2.1 := by
  intro rs
  suffices h : ∀ (rs : List Req) (w : World) (st : State) (o c : Nat) (st0 : State),
      handles st + c = handles st0 + o →
      let fin := rs.foldl (fun (acc : World × State × Nat × Nat) r =>
        let s := step cfg acc.1 acc.2.1 r
        let e := ledgerEv cfg acc.1 acc.2.1 r
        (s.1, s.2.1, acc.2.2.1 + e.1, acc.2.2.2 + e.2)) (w, st, o, c)
      handles fin.2.1 + fin.2.2.2 = handles st0 + fin.2.2.1 from
    fun w st => h rs w st 0 0 st (by omega)
  intro rs
  induction rs with
  | nil => intro w st o c st0 h; simpa using h
  | cons r rest ih =>
    intro w st o c st0 h
    simp only [List.foldl_cons]
    apply ih
    have := ledger_step cfg w st r
    omega

/-- enumeration always makes progress: every answered entry shortens the list of names still to be
    read, so the end marker (and the closing of the directory) is reached after finitely many requests -/
theorem enumeration_progress (w : World) (named : Path) (names : List Name) (i : Info) (rest : List Name)
    (h : nextEntry w named names = some (i, rest)) : rest.length < names.length := by
  induction names with
  | nil => simp [nextEntry] at h
  | cons n tl ih =>
    unfold nextEntry at h
    split at h
    · simp only [Option.some.injEq, Prod.mk.injEq] at h
      obtain ⟨_, rfl⟩ := h; simp
    · have := ih h; simp; omega

/-! ### the judgement used by the fault enumeration -/

/-- the fault-free observation is accepted -/
theorem judge_accepts_identical (allOps ops : List Nat) (allBase base : List Tok) (sr : Bool) (i : Nat)
    (hall : ∀ t ∈ base, ∃ b, t = .resp b) :
    judgeFrom sr allOps allBase i ops base base = .ok ∨ ops.length < base.length := by
  induction base generalizing ops i with
  | nil => left; cases ops <;> rfl
  | cons t ts ih =>
    cases ops with
    | nil => right; simp
    | cons o os =>
      obtain ⟨b, rfl⟩ := hall _ List.mem_cons_self
      rcases ih os (i + 1) (fun t ht => hall t (List.mem_cons_of_mem _ ht)) with h | h
      · left; simp [judgeFrom, h]
      · right; simp; omega

/-- a leaked handle, or a server that stopped serving, is always a violation -/
theorem judge_rejects_leak (ops : List Nat) (sr : Bool) (base got : List Tok) (leak : Nat) (alive ended : Bool)
    (h : leak ≠ 0) : judge ops sr base got leak alive ended ≠ .ok := by
  simp [judge, h]

theorem judge_rejects_dead_server (ops : List Nat) (sr : Bool) (base got : List Tok) (ended : Bool) :
    judge ops sr base got 0 false ended ≠ .ok := by
  simp [judge]

/-- a connection the server never ends after the client finished is always a violation -/
theorem judge_rejects_unclosed_end (ops : List Nat) (sr : Bool) (base got : List Tok) (leak : Nat) (alive ended : Bool) :
    judgeEnd true ops sr base got leak alive ended ≠ .ok := by
  simp [judgeEnd]

/-- a hang is never acceptable -/
theorem timeout_never_allowed (op : Nat) (base : Tok) (b : Bytes) (ops : List Nat) (all : List Tok) :
    allowedDeviation op base (.timeout b) ops all = false := rfl

/-- a closed connection is acceptable only after a correct prefix of the fault-free answer -/
theorem closed_needs_prefix (op : Nat) (base : Tok) (b : Bytes) (ops : List Nat) (all : List Tok) :
    allowedDeviation op base (.closed b) ops all = true ↔ b.isPrefixOf base.bytes = true := by
  simp [allowedDeviation]

/-- altered file data is never acceptable: a complete answer of a read command that differs from the
    fault-free one is rejected — the critical reads have no failure code at all, the ordinary read only
    its 4-byte −1 -/
theorem read_data_never_altered (base : Tok) (b : Bytes) (ops : List Nat) (all : List Tok) :
    (allowedDeviation Gen.proto_CmdReadFile base (.resp b) ops all = true → b = neg 4) ∧
    allowedDeviation Gen.proto_CmdReadFileCritical base (.resp b) ops all = false ∧
    allowedDeviation Gen.proto_CmdReadCD2048Critical base (.resp b) ops all = false := by
  refine ⟨?_, ?_, ?_⟩
  · intro h
    simp [allowedDeviation, failureResp, knownEntry, entryKey, Gen.proto_CmdReadFile, Gen.proto_CmdReadFileCritical,
      Gen.proto_CmdReadCD2048Critical, Gen.proto_CmdOpenDir, Gen.proto_CmdCreateFile, Gen.proto_CmdWriteFile,
      Gen.proto_CmdDeleteFile, Gen.proto_CmdMkdir, Gen.proto_CmdRmdir, Gen.proto_CmdOpenFile, Gen.proto_CmdStatFile,
      Gen.proto_CmdGetDirSize, Gen.proto_CmdReadDirEntry, Gen.proto_CmdReadDirEntryV2, Gen.proto_CmdReadDir] at h
    exact h.symm
  all_goals
    simp [allowedDeviation, failureResp, knownEntry, entryKey, Gen.proto_CmdReadFile, Gen.proto_CmdReadFileCritical,
      Gen.proto_CmdReadCD2048Critical, Gen.proto_CmdOpenDir, Gen.proto_CmdCreateFile, Gen.proto_CmdWriteFile,
      Gen.proto_CmdDeleteFile, Gen.proto_CmdMkdir, Gen.proto_CmdRmdir, Gen.proto_CmdOpenFile, Gen.proto_CmdStatFile,
      Gen.proto_CmdGetDirSize, Gen.proto_CmdReadDirEntry, Gen.proto_CmdReadDirEntryV2, Gen.proto_CmdReadDir]

/-- with a short read injected, any visible difference is rejected -/
theorem short_read_must_be_invisible (allOps : List Nat) (allBase : List Tok) (i op : Nat) (ops : List Nat)
    (b g : Tok) (bs gs : List Tok) (h : g ≠ b) :
    judgeFrom true allOps allBase i (op :: ops) (b :: bs) (g :: gs) ≠ .ok := by
  have : (g == b) = false := by simpa using h
  simp [judgeFrom, this]

/-- an OPEN_FILE answered with the failure code has opened nothing: data served by a READ_FILE that
    follows it directly is rejected (the file used to stay open when the handler's own Stat failed) -/
theorem data_after_failed_open_rejected (allOps : List Nat) (allBase : List Tok) (i : Nat) (ops : List Nat)
    (b : Tok) (bs gs : List Tok) (data : Bytes)
    (hb : b ≠ .resp (neg 8 ++ zeros 8)) (hd : data ≠ neg 4) :
    judgeFrom false allOps allBase i (Gen.proto_CmdOpenFile :: Gen.proto_CmdReadFile :: ops) (b :: bs)
      (.resp (neg 8 ++ zeros 8) :: .resp data :: gs) ≠ .ok := by
  have h1 : ((Tok.resp (neg 8 ++ zeros 8)) == b) = false := by
    simp only [beq_eq_false_iff_ne, ne_eq]; exact fun h => hb h.symm
  have hf : failureResp Gen.proto_CmdOpenFile = some (neg 8 ++ zeros 8) := by decide
  have hdev : allowedDeviation Gen.proto_CmdOpenFile b (.resp (neg 8 ++ zeros 8)) allOps allBase = true := by
    simp [allowedDeviation, hf]
  have h2 : ((Tok.resp data) == Tok.resp (neg 4)) = false := by
    simp only [beq_eq_false_iff_ne, ne_eq, Tok.resp.injEq]; exact hd
  simp [judgeFrom, h1, hdev, hf, Tok.bytes, h2]

/-! ### key lookup under faults -/
section KeyLookup
open Ps3.FSWrap

/-- **A failing open of the adjacent key never falls back** to the REDKEY key and never yields a
    keyless (ciphertext) view: the open fails. -/
theorem adjacent_error_never_falls_back (red : OpenRes) : keyDecision .ioerr red = .failed := rfl

theorem redkey_error_fails (red : OpenRes) (h : red = .ioerr) : keyDecision .absent red = .failed := by
  subst h; rfl

/-- the key that is used is the first one present: the adjacent one, or — only when that is truly
    absent — the REDKEY one -/
theorem key_used_is_first_present (adj red : OpenRes) (k : Bytes) (h : keyDecision adj red = .key k) :
    adj = .opened (.key k) ∨ (adj = .absent ∧ red = .opened (.key k)) := by
  cases adj with
  | opened r => left; simp [keyDecision] at h; rw [h]
  | ioerr => simp [keyDecision] at h
  | absent =>
    right
    cases red with
    | opened r => simp [keyDecision] at h; simp [h]
    | ioerr => simp [keyDecision] at h
    | absent => simp [keyDecision] at h

/-- an image is served keyless only when no candidate was there at all (no fault is taken for absence) -/
theorem keyless_only_if_absent (adj red : OpenRes) (h : keyDecision adj red = .notFound)
    (ha : adj ≠ .opened .notFound) (hr : red ≠ .opened .notFound) : adj = .absent ∧ red = .absent := by
  cases adj with
  | opened r => simp [keyDecision] at h; exact absurd (by rw [h]) ha
  | ioerr => simp [keyDecision] at h
  | absent =>
    cases red with
    | opened r => simp [keyDecision] at h; exact absurd (by rw [h]) hr
    | ioerr => simp [keyDecision] at h
    | absent => exact ⟨rfl, rfl⟩

/-- without faults the decision is the modelled lookup (`redumpKey`, the function the differential ties
    to the code): the two candidates are the key beside the image and the one under REDKEY -/
theorem redumpKey_is_decision (w : World) (p : Path) (name : Bytes) (idx : Nat)
    (hl : p.getLast? = some name) (he : lowerBytes (extOf name) = lowerBytes Gen.fs_isoExt)
    (hi : p.findIdx? (fun c => lowerBytes c == lowerBytes Gen.fs_ps3isoDir) = some idx) :
    redumpKey w p = keyDecision (OpenRes.ofStat (keyAt w (p.dropLast ++ [dkeyName name])))
      (OpenRes.ofStat (keyAt w ((p.set idx Gen.fs_redkeyDir).dropLast ++ [dkeyName name]))) := by
  simp only [redumpKey, hl, he, hi, bne_self_eq_false, Bool.false_eq_true, if_false]
  cases keyAt w (p.dropLast ++ [dkeyName name]) with
  | some r => simp [keyDecision, OpenRes.ofStat]
  | none =>
    cases keyAt w ((p.set idx Gen.fs_redkeyDir).dropLast ++ [dkeyName name]) <;> simp [keyDecision, OpenRes.ofStat]

end KeyLookup

end Ps3.Props.C13
