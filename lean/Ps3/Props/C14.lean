/-
  C14 — IP range specifications denote exactly the documented address set.
  Property theorems only; helper lemmas live in Ps3/Proof/IPRange.lean.
-/
import Ps3.Proof.IPRange
import Ps3.Proof.IPBlock
namespace Ps3.Props.C14
open Ps3 Ps3.IPRange Ps3.Spec.IPRange

/-- `bytes.Compare` on equal-length big-endian byte strings is numeric comparison. -/
theorem cmpBytes_numeric (a b : Bytes) (h : a.length = b.length) :
    cmpBytes a b = compare (fromBE a) (fromBE b) := Proof.IPRange.cmpBytes_eq_compare a b h

/-- Membership is exactly "numerically between the bounds" for every well-formed range and
    every 16-byte address. -/
theorem contains_iff_between (r : Range) (ip : Bytes)
    (hl : r.left.length = 16) (hr : r.right.length = 16) (hip : ip.length = 16) :
    contains r ip = true ↔ range (addrNat r.left) (addrNat r.right) (addrNat ip) :=
  Proof.IPRange.contains_iff r ip hl hr hip

/-- An IPv4 address and its IPv4-mapped IPv6 form are treated alike, for every range. -/
theorem v4_mapped_alike (r : Range) (ip4 : Bytes) (h : ip4.length = 4) :
    contains r ip4 = contains r (v4InV6Prefix ++ ip4) := by
  simp [contains, to16, h, v4InV6Prefix]

/-- A reversed range is rejected, whatever the addresses. -/
theorem reversed_rejected (s : Bytes) (i : Nat) (l r : Bytes)
    (hl : parseIP (s.take i) = some l) (hr : parseIP (s.drop (i + 1)) = some r)
    (hgt : cmpBytes l r = .gt) : parseTwo s i = none := by
  unfold parseTwo
  split
  · rfl
  · simp [hl, hr, hgt]

/-- Mixed-family bounds are rejected. -/
theorem mixed_family_rejected (s : Bytes) (i : Nat) (l r : Bytes)
    (hl : parseIP (s.take i) = some l) (hr : parseIP (s.drop (i + 1)) = some r)
    (hmix : (to4 l).isSome ≠ (to4 r).isSome) : parseTwo s i = none := by
  unfold parseTwo
  split
  · rfl
  · simp [hl, hr, hmix]

/-- A bound that is not an address makes the whole range specification invalid. -/
theorem bad_bound_rejected (s : Bytes) (i : Nat)
    (h : parseIP (s.take i) = none ∨ parseIP (s.drop (i + 1)) = none) : parseTwo s i = none := by
  unfold parseTwo
  split
  · rfl
  · rcases h with h | h
    · simp [h]
    · cases hh : parseIP (s.take i) <;> simp [h]

/-! ### CIDR and netmask blocks denote exactly the documented set -/

/-- The numeric interval the code computes for an address and a prefix length **is** the documented
    block: the aligned 2^h addresses around the address (host bits of the base address ignored),
    without network and broadcast address when the block has more than two addresses (h ≥ 2), with
    both when h ≤ 1 — for IPv4 (32 bits) and IPv6 (128 bits), every address, every prefix length. -/
theorem block_denotes (addr : Bytes) (p : Nat) (hL : addr.length = 4 ∨ addr.length = 16) (hp : p ≤ 8 * addr.length)
    (x : Nat) :
    (fromBE (blockRange addr (cidrMask addr.length p) p).left ≤ x ∧
      x ≤ fromBE (blockRange addr (cidrMask addr.length p) p).right) ↔
      block (fromBE addr) (8 * addr.length - p) x :=
  Proof.IPBlock.blockRange_spec addr p hL hp x

/-- "a.b.c.d/p" is accepted for every p ≤ 32 and stored as that block in IPv4-mapped form … -/
theorem cidr_v4_parsed (s : Bytes) (i : Nat) (addr a4 : Bytes) (p : Nat)
    (hsep : (i == s.length - 1) = false)
    (haddr : parseIP (s.take i) = some addr) (h4 : to4 addr = some a4)
    (hnoip : parseIP (s.drop (i + 1)) = none) (hp : prefixLenOf (s.drop (i + 1)) = some (p : Int)) (hp32 : p ≤ 32) :
    parseCIDRorMask s i = some ⟨v4InV6Prefix ++ (blockRange a4 (cidrMask 4 p) p).left,
                                v4InV6Prefix ++ (blockRange a4 (cidrMask 4 p) p).right⟩ :=
  Proof.IPBlock.parse_cidr_v4 s i addr a4 p hsep haddr h4
    (Proof.IPBlock.to4_len addr a4 (Proof.IPBlock.parseIP_len _ addr haddr) h4) hnoip hp hp32

/-- … a contiguous netmask with `ones` leading one bits yields exactly the same block as "/ones" … -/
theorem mask_v4_parsed (s : Bytes) (i : Nat) (addr a4 m m4 : Bytes) (ones : Nat)
    (hsep : (i == s.length - 1) = false)
    (haddr : parseIP (s.take i) = some addr) (h4 : to4 addr = some a4)
    (hm : parseIP (s.drop (i + 1)) = some m) (hm4 : to4 m = some m4)
    (hones : simpleMaskLength m4 = some ones) :
    parseCIDRorMask s i = some ⟨v4InV6Prefix ++ (blockRange a4 (cidrMask 4 ones) ones).left,
                                v4InV6Prefix ++ (blockRange a4 (cidrMask 4 ones) ones).right⟩ :=
  Proof.IPBlock.parse_mask_v4 s i addr a4 m m4 ones hsep haddr h4
    (Proof.IPBlock.to4_len addr a4 (Proof.IPBlock.parseIP_len _ addr haddr) h4) hm hm4
    (Proof.IPBlock.to4_len m m4 (Proof.IPBlock.parseIP_len _ m hm) hm4) hones

/-- … and membership in it, for any 16-byte address, is membership of the corresponding IPv4
    address in the documented block (no IPv6 address outside ::ffff:0:0/96 is ever a member). -/
theorem cidr_v4_membership (a4 : Bytes) (p : Nat) (h4 : a4.length = 4) (hp : p ≤ 32) (ip : Bytes) (hip : ip.length = 16) :
    contains ⟨v4InV6Prefix ++ (blockRange a4 (cidrMask 4 p) p).left, v4InV6Prefix ++ (blockRange a4 (cidrMask 4 p) p).right⟩ ip = true ↔
      ∃ y, addrNat ip = v4Base + y ∧ block (fromBE a4) (32 - p) y :=
  Proof.IPBlock.contains_block_v4 a4 p h4 hp ip hip

/-- IPv6 "addr/p" -/
theorem cidr_v6_parsed (s : Bytes) (i : Nat) (addr : Bytes) (p : Nat)
    (hsep : (i == s.length - 1) = false)
    (haddr : parseIP (s.take i) = some addr) (h4 : to4 addr = none)
    (hnoip : parseIP (s.drop (i + 1)) = none) (hp : prefixLenOf (s.drop (i + 1)) = some (p : Int)) (hp128 : p ≤ 128) :
    parseCIDRorMask s i = some (blockRange addr (cidrMask 16 p) p) :=
  Proof.IPBlock.parse_cidr_v6 s i addr p hsep haddr h4 (Proof.IPBlock.parseIP_len _ addr haddr) hnoip hp hp128

theorem cidr_v6_membership (addr : Bytes) (p : Nat) (h16 : addr.length = 16) (hp : p ≤ 128) (ip : Bytes) (hip : ip.length = 16) :
    contains (blockRange addr (cidrMask 16 p) p) ip = true ↔ block (fromBE addr) (128 - p) (addrNat ip) :=
  Proof.IPBlock.contains_block_v6 addr p h16 hp ip hip

/-- the textual address parser (model of net.ParseIP) always yields the 16-byte form, so every
    accepted bound is a 128-bit number and `contains_iff_between` applies to every parsed range -/
theorem parsed_address_is_16_bytes (s a : Bytes) (h : parseIP s = some a) : a.length = 16 :=
  Proof.IPBlock.parseIP_len s a h

/-- a contiguous mask is the prefix mask of its length (so the two notations cannot disagree) -/
theorem contiguous_mask_is_prefix (m : Bytes) (ones : Nat) (h : simpleMaskLength m = some ones) :
    m = cidrMask m.length ones ∧ ones ≤ 8 * m.length :=
  Proof.IPBlock.simpleMaskLength_spec m ones h

/-- Out-of-range prefix lengths, non-contiguous masks and tails that are neither are rejected. -/
theorem bad_prefix_rejected (s : Bytes) (i : Nat) (addr : Bytes) (p : Int)
    (haddr : parseIP (s.take i) = some addr)
    (hnoip : parseIP (s.drop (i + 1)) = none) (hp : prefixLenOf (s.drop (i + 1)) = some p)
    (hbad : p < 0 ∨ p > 8 * (((match to4 addr with | some a => a | none => addr).length : Nat) : Int)) :
    parseCIDRorMask s i = none :=
  Proof.IPBlock.bad_prefix_rejected s i addr p haddr hnoip hp hbad

theorem bad_mask_rejected (s : Bytes) (i : Nat) (addr m m4 : Bytes)
    (haddr : parseIP (s.take i) = some addr)
    (hm : parseIP (s.drop (i + 1)) = some m) (hm4 : to4 m = some m4) (hnone : simpleMaskLength m4 = none) :
    parseCIDRorMask s i = none :=
  Proof.IPBlock.bad_mask_rejected s i addr m m4 haddr hm hm4 hnone

theorem bad_tail_rejected (s : Bytes) (i : Nat)
    (hnoip : parseIP (s.drop (i + 1)) = none) (hp : prefixLenOf (s.drop (i + 1)) = none) :
    parseCIDRorMask s i = none :=
  Proof.IPBlock.bad_tail_rejected s i hnoip hp

/-- a signed number after the slash (plus 8, minus 0) is not a prefix length: rejected like any other tail
    that is neither a number nor a mask (net.ParseCIDR does the same) -/
theorem signed_prefix_rejected (s : Bytes) (i : Nat) (sign : UInt8) (rest : Bytes)
    (hsign : sign = 43 ∨ sign = 45) (htail : s.drop (i + 1) = sign :: rest)
    (hnoip : parseIP (s.drop (i + 1)) = none) : parseCIDRorMask s i = none := by
  apply Proof.IPBlock.bad_tail_rejected s i hnoip
  rw [htail]
  rcases hsign with rfl | rfl <;> rfl

/-- non-vacuity: 192.0.2.77/24 is [192.0.2.1, 192.0.2.254]; /31 keeps both addresses -/
example : block (192 * 2 ^ 24 + 2 * 2 ^ 8 + 77) 8 (192 * 2 ^ 24 + 2 * 2 ^ 8 + 1) ∧
          ¬ block (192 * 2 ^ 24 + 2 * 2 ^ 8 + 77) 8 (192 * 2 ^ 24 + 2 * 2 ^ 8 + 255) ∧
          block 10 1 11 ∧ block 10 1 10 := by
  simp [block]

/-- "192.0.2.10-192.0.2.0" -/
example : parseIPRange [49, 57, 50, 46, 48, 46, 50, 46, 49, 48, 45, 49, 57, 50, 46, 48, 46, 50, 46, 48] = none := by decide
/-- "192.0.2.0/24" -/
example : (parseIPRange [49, 57, 50, 46, 48, 46, 50, 46, 48, 47, 50, 52]).isSome = true := by decide

end Ps3.Props.C14
