/-
  C14 — IP range specifications denote exactly the documented address set.
  Property theorems only; helper lemmas live in Ps3/Proof/IPRange.lean.
-/
import Ps3.Proof.IPRange
namespace Ps3.Props.C14
open Ps3 Ps3.IPRange Ps3.Spec.IPRange

/-- `bytes.Compare` on equal-length big-endian byte strings is numeric comparison. -/
theorem cmpBytes_numeric (a b : Bytes) (h : a.length = b.length) :
    cmpBytes a b = compare (fromBE a) (fromBE b) := Proof.IPRange.cmpBytes_eq_compare a b h

/-- Membership is exactly "numerically between the bounds" for every well-formed range and
    every 16-byte address. -/
theorem contains_iff_between (r : Range) (ip : Bytes)
    (hl : r.left.length = 16) (hr : r.right.length = 16) (hip : ip.length = 16) :
    contains r ip = true ↔ range (addrNat r.left) (addrNat r.right) (addrNat ip) :=
  Proof.IPRange.contains_iff r ip hl hr hip

/-- An IPv4 address and its IPv4-mapped IPv6 form are treated alike, for every range. -/
theorem v4_mapped_alike (r : Range) (ip4 : Bytes) (h : ip4.length = 4) :
    contains r ip4 = contains r (v4InV6Prefix ++ ip4) := by
  simp [contains, to16, h, v4InV6Prefix]

/-- A reversed range is rejected, whatever the addresses. -/
theorem reversed_rejected (s : Bytes) (i : Nat) (l r : Bytes)
    (hl : parseIP (s.take i) = some l) (hr : parseIP (s.drop (i + 1)) = some r)
    (hgt : cmpBytes l r = .gt) : parseTwo s i = none := by
  unfold parseTwo
  split
  · rfl
  · simp [hl, hr, hgt]

/-- Mixed-family bounds are rejected. -/
theorem mixed_family_rejected (s : Bytes) (i : Nat) (l r : Bytes)
    (hl : parseIP (s.take i) = some l) (hr : parseIP (s.drop (i + 1)) = some r)
    (hmix : (to4 l).isSome ≠ (to4 r).isSome) : parseTwo s i = none := by
  unfold parseTwo
  split
  · rfl
  · simp [hl, hr, hmix]

/-- A bound that is not an address makes the whole range specification invalid. -/
theorem bad_bound_rejected (s : Bytes) (i : Nat)
    (h : parseIP (s.take i) = none ∨ parseIP (s.drop (i + 1)) = none) : parseTwo s i = none := by
  unfold parseTwo
  split
  · rfl
  · rcases h with h | h
    · simp [h]
    · cases hh : parseIP (s.take i) <;> simp [h]

/-- "192.0.2.10-192.0.2.0" -/
example : parseIPRange [49, 57, 50, 46, 48, 46, 50, 46, 49, 48, 45, 49, 57, 50, 46, 48, 46, 50, 46, 48] = none := by decide
/-- "192.0.2.0/24" -/
example : (parseIPRange [49, 57, 50, 46, 48, 46, 50, 46, 48, 47, 50, 52]).isSome = true := by decide

end Ps3.Props.C14
