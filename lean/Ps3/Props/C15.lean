/-
  C15 — Admission control: whitelist and client limit are enforced, capacity recovers.
  (Membership in the whitelist is C14's; kernel backlog behaviour and timing are observed, not proved.)
-/
import Ps3.Model.Admission
namespace Ps3.Props.C15
open Ps3 Ps3.Admission

/-- the accept loop never hands out more slots than the limit -/
theorem drain_bounded (fuel : Nat) (s : St) (h : s.served.length ≤ s.cap) :
    (drain fuel s).served.length ≤ (drain fuel s).cap ∧ (drain fuel s).cap = s.cap := by
  induction fuel generalizing s with
  | zero => exact ⟨h, rfl⟩
  | succ n ih =>
    unfold drain
    split
    · rename_i hlt
      split
      · exact ⟨h, rfl⟩
      · rename_i p rest _
        split
        · exact ih _ (by simpa using h)
        · split
          · exact ih _ (by simpa using h)
          · have := ih { s with queue := rest, served := s.served ++ [p.id], everServed := s.everServed ++ [p.id] }
              (by simp; omega)
            simpa using this
    · exact ⟨h, rfl⟩

/-- **At most N connections are served at any moment**, for every sequence of arrivals (whitelisted
    or not) and departures, in any order. -/
theorem at_most_N (s : St) (h : s.served.length ≤ s.cap) (e : Ev) :
    (step s e).served.length ≤ (step s e).cap ∧ (step s e).cap = s.cap := by
  cases e with
  | arrive id inside =>
    simp only [step]
    exact drain_bounded _ _ (by simpa using h)
  | depart id =>
    simp only [step]
    split
    · refine drain_bounded _ _ ?_
      have := List.length_filter_le (fun x => x != id) s.served
      simp only
      split <;> omega
    · exact ⟨h, rfl⟩

theorem at_most_N_run (cap : Nat) (es : List Ev) : ∀ s ∈ run (init cap) es, s.served.length ≤ cap := by
  suffices h : ∀ (es : List Ev) (s0 : St), s0.served.length ≤ s0.cap → ∀ s ∈ run s0 es, s.served.length ≤ s0.cap from
    h es (init cap) (by simp [init])
  intro es
  induction es with
  | nil => intro s0 _ s hs; simp [run] at hs
  | cons e rest ih =>
    intro s0 h0 s hs
    simp only [run, List.mem_cons] at hs
    obtain ⟨hb, hc⟩ := at_most_N s0 h0 e
    rcases hs with rfl | hs
    · omega
    · have := ih (step s0 e) (by omega) s hs
      omega

/-- a peer outside the whitelist at the head of the queue is closed and never enters `served`
    (zero requests processed, zero bytes sent), and the slot it briefly held is free again -/
theorem outsider_dropped (fuel : Nat) (s : St) (p : Pending) (rest : List Pending)
    (hq : s.queue = p :: rest) (ho : p.inside = false) (hfree : s.served.length < s.cap) :
    drain (fuel + 1) s = drain fuel { s with queue := rest, rejected := s.rejected ++ [p.id] } := by
  simp [drain, hq, ho, hfree]

/-- served connections only ever come from the queue heads that were inside the whitelist:
    one accept-loop iteration adds to `served` only an inside, alive peer -/
theorem served_only_insiders (s : St) (p : Pending) (rest : List Pending) (hq : s.queue = p :: rest)
    (hfree : s.served.length < s.cap) (hin : p.inside = true) (ha : p.alive = true) :
    drain 1 s = { s with queue := rest, served := s.served ++ [p.id], everServed := s.everServed ++ [p.id] } := by
  simp [drain, hq, hin, ha, hfree]

/-- An insider arriving while a slot is free and nobody is waiting is served at once. -/
theorem insider_served (s : St) (id : Nat) (hq : s.queue = []) (hfree : s.served.length < s.cap) :
    id ∈ (step s (.arrive id true)).served := by
  simp [step, hq, drain, hfree]

/-- A departing connection gives its slot back: it is no longer counted, whatever is queued. -/
theorem depart_frees_slot (s : St) (id : Nat) (hs : s.served.contains id = true) (hq : s.queue = []) :
    (step s (.depart id)).served = s.served.filter (· != id) := by
  simp only [step, hs, if_true, hq]
  simp [drain, Gen.server_connCloseDeferred]

theorem drain_accept (fuel : Nat) (s : St) (p : Pending) (rest : List Pending) (hq : s.queue = p :: rest)
    (hfree : s.served.length < s.cap) (hin : p.inside = true) (ha : p.alive = true) :
    drain (fuel + 1) s =
      drain fuel { s with queue := rest, served := s.served ++ [p.id], everServed := s.everServed ++ [p.id] } := by
  rw [drain]
  simp [hq, hin, ha, hfree]

theorem drain_keeps_served (x : Nat) : ∀ (fuel : Nat) (t : St), x ∈ t.served → x ∈ (drain fuel t).served := by
  intro fuel
  induction fuel with
  | zero => intro t h; exact h
  | succ n ih =>
    intro t h
    unfold drain
    split
    · split
      · exact h
      · split
        · exact ih _ h
        · split
          · exact ih _ h
          · exact ih _ (by simp [h])
    · exact h

/-- and a waiting insider takes the freed slot immediately (capacity is never lost) -/
theorem waiting_insider_takes_freed_slot (s : St) (id : Nat) (p : Pending) (rest : List Pending)
    (hs : s.served.contains id = true) (hq : s.queue = p :: rest) (hin : p.inside = true) (ha : p.alive = true)
    (hfull : (s.served.filter (· != id)).length < s.cap) :
    p.id ∈ (step s (.depart id)).served := by
  simp only [step, hs, if_true, hq, List.length_cons]
  rw [drain_accept _ _ p rest rfl hfull hin ha]
  exact drain_keeps_served _ _ _ (by simp)

end Ps3.Props.C15
