/-
  C16 — Idle connections are cut after the read timeout, active ones never.
  Timed model of the serveConn loop; real timers and TCP are observed by the differential.
-/
import Ps3.Model.Timeout
import Ps3.Proof.Proto
namespace Ps3.Props.C16
open Ps3 Ps3.Timeout Ps3.Proto

theorem decode_nil : decode [] = .incomplete := by
  unfold decode
  have : cmdSize = 16 := by decide
  simp [this]

/-- a chunk that is exactly one complete request is answered and leaves nothing buffered -/
theorem decodeT_nil : decodeT [] = .incomplete := by
  simp [decodeT, decode_nil]

theorem consume_one (bytes : Bytes) (r : Req) (n fuel : Nat) (h : decodeT bytes = .req r []) :
    consume (fuel + 2) bytes n = ([], n + 1) := by
  simp [consume, h, decodeT_nil]

/-- **An active connection is never cut**: if every request arrives complete and less than T after
    the previous one (the first less than T after connect), then — however many requests, however
    long the connection lives — all of them are answered, and the connection is cut only T after
    the last one. -/
theorem active_never_cut (T : Nat) (hT : T ≠ 0) :
    ∀ (cs : List Chunk) (t n : Nat),
      (∀ c ∈ cs, c.delay < T ∧ ∃ r, decodeT c.bytes = .req r []) →
      simulate T true cs t t [] n = ⟨n + cs.length, some (t + (cs.map (·.delay)).sum + T)⟩ := by
  intro cs
  induction cs with
  | nil => intro t n _; simp [simulate, hT]
  | cons c rest ih =>
    intro t n h
    obtain ⟨hd, r, hr⟩ := h c List.mem_cons_self
    have hrest : ∀ c' ∈ rest, c'.delay < T ∧ ∃ r, decodeT c'.bytes = .req r [] :=
      fun c' hc' => h c' (List.mem_cons_of_mem _ hc')
    have hT' : (T != 0) = true := by simpa using hT
    have hlt : ¬ (t + c.delay ≥ t + T) := by omega
    simp only [simulate, hT', Bool.true_and, hlt, decide_false, Bool.false_eq_true, if_false, List.nil_append,
      List.length_nil, Nat.zero_add]
    rw [show c.bytes.length + 1 = (c.bytes.length - 1) + 2 by
      have : 16 ≤ c.bytes.length := by
        rcases Nat.lt_or_ge c.bytes.length 16 with hl | hl
        · have := Props_short c.bytes hl; rw [this] at hr; cases hr
        · exact hl
      omega]
    rw [consume_one c.bytes r n _ hr]
    simp only [Nat.lt_add_one, decide_true, Bool.and_self, if_true]
    rw [ih (t + c.delay) (n + 1) hrest]
    simp only [List.length_cons, List.map_cons, List.sum_cons]
    have e1 : n + 1 + rest.length = n + (rest.length + 1) := by omega
    have e2 : t + c.delay + (rest.map (·.delay)).sum + T = t + (c.delay + (rest.map (·.delay)).sum) + T := by omega
    rw [e1, e2]
where
  Props_short (s : Bytes) (h : s.length < 16) : decodeT s = .incomplete := by
    have hd : decode s = .incomplete := by
      unfold decode
      have : cmdSize = 16 := by decide
      simp [this, h]
    simp [decodeT, hd]

/-- the server as written arms the deadline inside the request loop (F-shape fact regenerated from
    `serveConn` on every run: were the call moved out of the loop, this and the next theorem would fail) -/
theorem server_rearms (T : Nat) (cs : List Chunk) : run T cs = simulate T true cs 0 0 [] 0 := by
  simp [run, Gen.server_armInLoop]

/-- … so for the server itself: a client whose requests arrive complete and less than T apart gets every
    one answered and is cut only T after the last -/
theorem server_active_never_cut (T : Nat) (hT : T ≠ 0) (cs : List Chunk)
    (h : ∀ c ∈ cs, c.delay < T ∧ ∃ r, decodeT c.bytes = .req r []) :
    run T cs = ⟨cs.length, some ((cs.map (·.delay)).sum + T)⟩ := by
  rw [server_rearms, active_never_cut T hT cs 0 0 h]
  simp

/-- **An idle connection is cut at its deadline**: silent after connect … -/
theorem idle_after_connect (T : Nat) (hT : T ≠ 0) : run T [] = ⟨0, some T⟩ := by
  simp [run, simulate, hT]

/-- … or silent (or sending only an incomplete request, which does not re-arm the timer) after k
    answered requests: cut exactly T after the last loop top. -/
theorem idle_after_partial (T t loopTop n : Nat) (buf : Bytes) (hT : T ≠ 0) :
    simulate T true [] t loopTop buf n = ⟨n, some (loopTop + T)⟩ := by
  simp [simulate, hT]

/-- bytes that arrive after the deadline are never processed: the connection is already gone -/
theorem late_bytes_not_served (T t loopTop n : Nat) (buf : Bytes) (c : Chunk) (rest : List Chunk) (hT : T ≠ 0)
    (hlate : t + c.delay ≥ loopTop + T) :
    simulate T true (c :: rest) t loopTop buf n = ⟨n, some (loopTop + T)⟩ := by
  have hT' : (T != 0) = true := by simpa using hT
  simp [simulate, hT', hlate]

/-- no timeout configured: never cut -/
theorem no_timeout_never_cut (cs : List Chunk) (t lt n : Nat) (buf : Bytes) :
    (simulate 0 true cs t lt buf n).cutAt = none := by
  induction cs generalizing t lt n buf with
  | nil => simp [simulate]
  | cons c rest ih => simp only [simulate, bne_self_eq_false, Bool.false_and, Bool.false_eq_true, if_false]; exact ih _ _ _ _

/-- **The re-arming matters**: with the deadline armed only once per connection instead of at the
    top of every iteration, an active client (two STAT "/" requests 0.6 T apart, T = 1000) would be
    cut at T although it is not idle. -/
theorem rearm_needed :
    let stat : Bytes := [0x12, 0x30, 0, 1, 0, 0, 0, 0, 0, 0, 0, 0, 0, 0, 0, 0, 47]
    (simulate 1000 true [⟨600, stat⟩, ⟨600, stat⟩] 0 0 [] 0 = ⟨2, some 2200⟩) ∧
    (simulate 1000 false [⟨600, stat⟩, ⟨600, stat⟩] 0 0 [] 0 = ⟨1, some 1000⟩) := by
  decide

/-- **A client that stops reading is cut**: as soon as one write of a response stays blocked for T,
    the connection ends — like a silent client, it cannot hold the connection and its files. -/
theorem stalled_reader_cut (T : Nat) (hT : T ≠ 0) (before after : List Nat) (g : Nat) (hg : g ≥ T)
    (hb : ∀ x ∈ before, x < T) :
    writeOut T (before ++ g :: after) = (before.length, true) := by
  have hT' : (T != 0) = true := by simpa using hT
  induction before with
  | nil => simp [writeOut, hT', hg]
  | cons b bs ih =>
    have hb' : b < T := hb b (by simp)
    have : ¬ (b ≥ T) := by omega
    simp only [List.cons_append, writeOut, hT', Bool.true_and, decide_eq_true_eq, this, if_false, List.length_cons]
    rw [ih (fun x hx => hb x (by simp [hx]))]

/-- **A client that keeps draining is never cut, however long the response takes in total**: the
    deadline is per write, not per response (a response may take many multiples of T). -/
theorem draining_reader_never_cut (T : Nat) (gaps : List Nat) (h : ∀ x ∈ gaps, x < T) :
    writeOut T gaps = (gaps.length, false) := by
  induction gaps with
  | nil => rfl
  | cons b bs ih =>
    have hb' : b < T := h b (by simp)
    have : ¬ (b ≥ T) := by omega
    rw [writeOut, ih (fun x hx => h x (by simp [hx]))]
    simp [this]

/-- without a timeout no write is ever cut -/
theorem no_timeout_write_never_cut (gaps : List Nat) : writeOut 0 gaps = (gaps.length, false) := by
  induction gaps with
  | nil => rfl
  | cons b bs ih => simp [writeOut, ih]

/-- non-vacuity: 3 quick writes, then a stall of 2T; and 1000 slow-but-draining writes (total 900 T/ms) -/
example : writeOut 300 [0, 5, 0, 600, 0] = (3, true) ∧
    writeOut 300 (List.replicate 1000 270) = ((List.replicate 1000 270).length, false) := by
  constructor
  · decide
  · exact draining_reader_never_cut 300 _ (by intro x hx; rw [List.eq_of_mem_replicate hx]; omega)

end Ps3.Props.C16
