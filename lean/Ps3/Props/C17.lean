/-
  C17 — PSX CD sector reads return exactly the 2048 user bytes of each sector.
-/
import Ps3.Proof.Proto
namespace Ps3.Props.C17
open Ps3 Ps3.Conn Ps3.Proto Ps3.Spec.Proto

/-- Spec: the user data of `count` raw sectors of size `S` starting at byte `off` (the first sector's
    user data begins 24 bytes into the sector), stopping after the first sector that is cut short. -/
def cdData (rd : Nat → Nat → Bytes) (S : Nat) : Nat → Nat → Bytes
  | 0, _ => []
  | k + 1, off =>
    let d := rd off 2048
    if d.length < 2048 then d else d ++ cdData rd S k (off + S)

/-- whether some requested sector is cut short by the end of the image -/
def cdShort (rd : Nat → Nat → Bytes) (S : Nat) : Nat → Nat → Bool
  | 0, _ => false
  | k + 1, off => if (rd off 2048).length < 2048 then true else cdShort rd S k (off + S)

theorem readSize_is_2048 : Gen.handler_HandleReadCD2048Critical_readSize = 2048 := rfl
theorem prefix_is_24 : Gen.handler_psxPrefixSize = 24 := rfl

theorem go_eq (w : World) (st : State) (ro : RO)
    (rd : Nat → Nat → Bytes) (hrd : ∀ o n, roRead w ro o n = some (rd o n)) :
    ∀ (k off : Nat) (acc : Bytes), (∀ j < k, roSeekOk ro (off + j * st.cdSectorSize) = true) →
      step.go w st ro k off acc = (acc ++ cdData rd st.cdSectorSize k off, cdShort rd st.cdSectorSize k off) := by
  intro k
  induction k with
  | zero => intro off acc _; simp [step.go, cdData, cdShort]
  | succ k ih =>
    intro off acc hseek
    have h0 : roSeekOk ro off = true := by simpa using hseek 0 (by omega)
    have hrest : ∀ j < k, roSeekOk ro (off + st.cdSectorSize + j * st.cdSectorSize) = true := by
      intro j hj
      have := hseek (j + 1) (by omega)
      rw [show off + (j + 1) * st.cdSectorSize = off + st.cdSectorSize + j * st.cdSectorSize by
        rw [Nat.add_mul]; omega] at this
      exact this
    simp only [step.go, h0, hrd, readSize_is_2048, cdData, cdShort]
    by_cases h : (rd off 2048).length < 2048
    · simp [h]
    · simp [h, ih _ _ hrest, List.append_assoc]

/-- The sector read command for (start, count) returns exactly the user data of sectors
    start … start+count−1 in order — bytes [24 + k·S, +2048) of each — and nothing else; it ends
    the connection exactly when a sector is cut short by the end of the image, after the correct
    prefix. `rd` is what the open object returns for a positioned read (for a plain file: its
    stored bytes, C02; for a generated or decrypting view: that view's bytes). -/
theorem readcd_exact (cfg : Cfg) (w : World) (st : State) (ro : RO)
    (hro : st.ro = some ro) (hS : st.cdSectorSize ≠ 0)
    (rd : Nat → Nat → Bytes) (hrd : ∀ o n, roRead w ro o n = some (rd o n))
    (start count : Nat)
    (hseek : ∀ j < count, roSeekOk ro (24 + start * st.cdSectorSize + j * st.cdSectorSize) = true) :
    (step cfg w st (.readCD start count)).2.2 =
      ⟨cdData rd st.cdSectorSize count (24 + start * st.cdSectorSize),
       cdShort rd st.cdSectorSize count (24 + start * st.cdSectorSize)⟩ := by
  have hgo := go_eq w st ro rd hrd count (24 + start * st.cdSectorSize) [] hseek
  have hS' : (st.cdSectorSize == 0) = false := by simpa using hS
  simp only [step, hro, hS', Bool.false_eq_true, if_false, prefix_is_24, hgo, List.nil_append]

/-- for a plain file every sector number below 2^32 is seekable (the offset stays below what
    lseek accepts on the served filesystem, `osSeekMax`) -/
theorem plain_seekable (ino start j S : Nat) (hsum : start + j < 2 ^ 32)
    (hS : S ≤ 2448) : roSeekOk (.plain ino) (24 + start * S + j * S) = true := by
  have h1 : (start + j) * S ≤ 2 ^ 32 * 2448 := Nat.mul_le_mul (by omega) hS
  rw [Nat.add_mul] at h1
  have h2 : (2 : Nat) ^ 32 * 2448 = 10514079940608 := by decide
  rw [h2] at h1
  simp only [roSeekOk, osSeekMax]
  rw [if_neg (by omega)]
  exact decide_eq_true (by omega)

/-- When every requested sector lies inside the image the answer is the plain concatenation of the
    2048-byte user-data slices and the connection stays open. -/
theorem cdData_full (rd : Nat → Nat → Bytes) (S : Nat) (count off : Nat)
    (hfull : ∀ k < count, (rd (off + k * S) 2048).length = 2048) :
    cdData rd S count off = ((List.range count).map (fun k => rd (off + k * S) 2048)).flatten ∧
    cdShort rd S count off = false := by
  induction count generalizing off with
  | zero => simp [cdData, cdShort]
  | succ n ih =>
    have h0 : (rd off 2048).length = 2048 := by simpa using hfull 0 (by omega)
    have hrest : ∀ k < n, (rd (off + S + k * S) 2048).length = 2048 := by
      intro k hk
      have := hfull (k + 1) (by omega)
      rw [show off + (k + 1) * S = off + S + k * S by rw [Nat.add_mul]; omega] at this
      exact this
    obtain ⟨ih1, ih2⟩ := ih (off + S) hrest
    constructor
    · simp only [cdData, h0, Nat.lt_irrefl, if_false, ih1, List.range_succ_eq_map, List.map_cons,
        List.flatten_cons, Nat.zero_mul, Nat.add_zero, List.map_map]
      congr 2
      apply List.map_congr_left
      intro k _
      simp only [Function.comp]
      rw [show off + (k + 1) * S = off + S + k * S by rw [Nat.add_mul]; omega]
    · simp only [cdShort, h0, Nat.lt_irrefl, if_false, ih2]

/-- count 0 sends nothing and keeps the connection -/
theorem readcd_zero (rd : Nat → Nat → Bytes) (S off : Nat) : cdData rd S 0 off = [] ∧ cdShort rd S 0 off = false := by
  simp [cdData, cdShort]

/-- start sector and sector count reach the handler in the order the client sent them -/
theorem args_in_order (start count : Nat) (rest : Bytes) (hs : start < 2 ^ 32) (hc : count < 2 ^ 32) :
    decode (encReadCDReq Gen.proto_CmdReadCD2048Critical start count ++ rest) = .req (.readCD start count) rest :=
  Proof.Proto.decode_readCD start count rest hs hc

/-- the candidate sizes, signatures and window are the documented ones -/
theorem detection_table :
    Gen.handler_determineSectorSize_sectorSizes = [2048, 2328, 2336, 2340, 2352, 2368, 2448] ∧
    Gen.handler_determineSectorSize_magic1 = [1, 67, 68, 48, 48, 49] ∧
    Gen.handler_determineSectorSize_magic2 = [80, 76, 65, 89, 83, 84, 65, 84, 73, 79, 78, 32] ∧
    Gen.handler_determineSectorSize_systemAreaSectors = 16 ∧ detectMin = 2 * 1024 * 1024 ∧ detectMax = 848 * 1024 * 1024 := by
  decide

/-- the probe of one candidate: the 20 bytes at 24 + 16·S carry either signature -/
def probeHit (rd : Nat → Nat → Bytes) (s : Nat) : Bool := probeMatch (rd (24 + 16 * s) 20)

theorem go_detect (rd : Nat → Nat → Bytes) (hlen : ∀ s, (rd (24 + 16 * s) 20).length = 20) :
    ∀ (cands : List Nat), detectGo rd cands = cands.find? (probeHit rd) := by
  intro cands
  induction cands with
  | nil => rfl
  | cons s rest ih =>
    have e1 : Gen.handler_determineSectorSize_systemAreaSectors = 16 := rfl
    have e2 : probeLen = 20 := rfl
    simp only [detectGo, List.find?_cons, probeHit, prefix_is_24, e1, e2, hlen, bne_self_eq_false,
      Bool.false_eq_true, if_false, ih]
    split <;> simp_all

/-- Detection returns the first candidate size (in increasing order) whose sector 16 carries the
    ISO 9660 or the PLAYSTATION signature — for images large enough that every probe is inside. -/
theorem detect_first_hit (rd : Nat → Nat → Bytes) (hlen : ∀ s, (rd (24 + 16 * s) 20).length = 20) :
    detectSectorSizeStrict rd = Gen.handler_determineSectorSize_sectorSizes.find? (probeHit rd) := by
  exact go_detect rd hlen _

/-- … in particular a size whose signature is in place and that no smaller candidate's probe
    position imitates is recognised, for each of the seven sizes. -/
theorem detect_correct (rd : Nat → Nat → Bytes) (hlen : ∀ s, (rd (24 + 16 * s) 20).length = 20)
    (S : Nat) (hS : S ∈ Gen.handler_determineSectorSize_sectorSizes) (hhit : probeHit rd S = true)
    (hnone : ∀ s ∈ Gen.handler_determineSectorSize_sectorSizes, s < S → probeHit rd s = false) :
    detectSectorSizeStrict rd = some S := by
  rw [detect_first_hit rd hlen]
  have hsorted : Gen.handler_determineSectorSize_sectorSizes = [2048, 2328, 2336, 2340, 2352, 2368, 2448] := rfl
  rw [hsorted] at hS hnone ⊢
  simp only [List.mem_cons, List.mem_nil_iff, or_false] at hS
  rcases hS with rfl | rfl | rfl | rfl | rfl | rfl | rfl <;>
    simp_all [List.find?_cons]

end Ps3.Props.C17
