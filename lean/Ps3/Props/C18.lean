/-
  C18 — Re-opening an unchanged directory yields the same image layout.
-/
import Ps3.Model.Viso
namespace Ps3.Props.C18
open Ps3 Ps3.Viso

/-- Layout (scan order, every LBA, every size) is a function of the tree and the mode only:
    `layoutOf` takes neither a clock nor randomness. Two opens of the same unchanged tree — later,
    on another connection, concurrently — therefore agree on size, file extents, pad area and on the
    length of the metadata area … -/
theorem same_layout (w : World) (root : Path) (ps3 : Bool) (c1 c2 : Clock) (f1 f2 : Bytes) :
    (build w root ps3 c1 f1).map (fun i => (i.files, i.padAreaStart, i.padAreaSize, i.totalSize)) =
    (build w root ps3 c2 f2).map (fun i => (i.files, i.padAreaStart, i.padAreaSize, i.totalSize)) := by
  cases h : layoutOf w root ps3 <;> simp [build, h, imageOf]

/-- whether an image can be built at all does not depend on time or randomness either -/
theorem same_outcome (w : World) (root : Path) (ps3 : Bool) (c1 c2 : Clock) (f1 f2 : Bytes) :
    (build w root ps3 c1 f1).isSome = (build w root ps3 c2 f2).isSome := by
  simp [build]

theorem volTime_length (t h : Nat) : (volTime t h).length = 17 := by
  simp [volTime, digits]

/-- A volume descriptor depends on the clock only through its two 17-byte creation / modification
    fields: it is `pre ++ time ++ time ++ post` with `pre` and `post` independent of the clock. -/
theorem descriptor_clock_fields (typ : Nat) (joliet : Bool) (name : Bytes) (vs pt l m : Nat) (rr : DirRec) :
    ∃ pre post : Bytes, ∀ clk : Clock,
      volumeDescriptor typ joliet name vs pt l m rr clk =
        pre ++ (volTime clk.now clk.hundredths ++ (volTime clk.now clk.hundredths ++ post)) := by
  refine ⟨descHeader typ ++ descBodyPre joliet name vs pt l m rr,
    descBodyPost ++ List.replicate (sectorSize - 7 - ((descBodyPre joliet name vs pt l m rr).length + (17 + (17 + descBodyPost.length)))) 0, ?_⟩
  intro clk
  simp only [volumeDescriptor, padTo, List.append_assoc, List.length_append, volTime_length]

/-- The metadata area depends on the clock only through the two descriptors, and on the random
    filler only through the PS3 system area: every other part (terminator, path tables, directory
    records of both hierarchies) is a function of the layout alone. -/
theorem meta_structure (L : Layout) (ps3 : Bool) (clk : Clock) (filler : Bytes) :
    metaBytes L ps3 clk filler =
      sysArea L ps3 filler ++ (pvdOf L clk ++ (svdOf L clk ++ (terminatorDescriptor ++ (zeros sectorSize ++ tablesAndDirs L)))) := by
  show ((((sysArea L ps3 filler ++ pvdOf L clk) ++ svdOf L clk) ++ terminatorDescriptor) ++ zeros sectorSize) ++ tablesAndDirs L = _
  rw [List.append_assoc, List.append_assoc, List.append_assoc, List.append_assoc]

/-- without PS3 mode the system area does not depend on the filler at all; in PS3 mode only through
    its 0x1C0-byte field -/
theorem sysArea_plain (L : Layout) (f1 f2 : Bytes) : sysArea L false f1 = sysArea L false f2 := by
  simp [sysArea]

theorem sysArea_ps3_fields (L : Layout) :
    ∃ pre post : Bytes, ∀ filler : Bytes, filler.length = 0x1C0 →
      sysArea L true filler = pre ++ (filler ++ post) := by
  refine ⟨rangesSector L ++ infoHead L,
    List.replicate (sectorSize - ((infoHead L).length + 0x1C0)) 0 ++ zeros (14 * sectorSize), ?_⟩
  intro filler hf
  have ht : filler.take 0x1C0 = filler := List.take_of_length_le (by omega)
  have e : padTo (filler.take 0x1C0) 0x1C0 0 = filler := by simp [padTo, ht, hf]
  unfold sysArea
  simp only [if_true, e]
  simp only [padTo, List.length_append, hf, List.append_assoc]

/-- PS3 sector 0 declares exactly one plain region, sectors 0 … volume size − 1 (big-endian count 1,
    4 pad bytes, start 0, end). -/
theorem ranges_sector_content (L : Layout) :
    (rangesSector L).take 16 = beN 4 1 ++ zeros 4 ++ beN 4 0 ++ beN 4 (L.volSectors - 1) := by
  unfold rangesSector padTo
  rw [List.take_append_of_le_length (by simp)]
  exact List.take_of_length_le (by simp)

end Ps3.Props.C18
