/-
  C19 — Every setting works via flag, environment and INI file; flags win.
  The theorems are about `effective` (the repository's wiring under kong's rules, `KongSem`); that
  the real binary behaves so is observed by the black-box stream, for all six channels.
-/
import Ps3.Model.Config
namespace Ps3.Props.C19
open Ps3 Ps3.Config

/-- **A command-line flag always wins**: whatever the configuration files and (valid) environment
    say, the effective value is the flag's. -/
theorem flag_wins (as : List Assign) (s : String) (t : Tag) (ht : t ≠ .X)
    (hf : lookup as s .flag = some t) (henv : lookup as s .env ≠ some .X) :
    effective as s = .ok (.val t) := by
  unfold effective
  simp only [hf]
  have : (lookup as s .env == some .X) = false := by
    cases h : lookup as s .env with
    | none => rfl
    | some e => cases e <;> simp_all
  simp only [this, Bool.false_eq_true, if_false]

/-- A value given through the environment alone is the effective value. -/
theorem env_alone_effective (as : List Assign) (s : String) (t : Tag) (ht : t ≠ .X)
    (he : lookup as s .env = some t) (hf : lookup as s .flag = none) (hfiles : fromFiles as s = none) :
    effective as s = .ok (.val t) := by
  unfold effective
  have : (some t == some Tag.X) = false := by cases t <;> simp_all
  simp [he, hf, hfiles, this]

/-- A value given in a configuration file alone (any of the locations) is the effective value —
    also when the environment gives another one: files take precedence over the environment. -/
theorem file_effective (as : List Assign) (s : String) (t : Tag) (ht : t ≠ .X)
    (hfile : fromFiles as s = some t) (hf : lookup as s .flag = none) (henv : lookup as s .env ≠ some .X) :
    effective as s = .ok (.val t) := by
  unfold effective
  have : (lookup as s .env == some .X) = false := by
    cases h : lookup as s .env with
    | none => rfl
    | some e => cases e <;> simp_all
  simp only [this, Bool.false_eq_true, if_false, hf, hfile]

/-- among the files: the file named by --config beats ./config.ini and the user directory … -/
theorem cfgflag_file_first (as : List Assign) (s : String) (t : Tag)
    (h : lookup as s .cfgflag = some t) : fromFiles as s = some t := by
  simp [fromFiles, h]

/-- … the file named by PS3NETSRV_CONFIG_FILE does so too when no --config is given … -/
theorem cfgenv_file_first (as : List Assign) (s : String) (t : Tag)
    (hno : as.any (fun a => a.ch == Channel.cfgflag) = false)
    (h : lookup as s .cfgenv = some t) : fromFiles as s = some t := by
  have h0 : lookup as s .cfgflag = none := by
    unfold lookup
    cases hf : as.find? (fun a => a.setting == s && a.ch == Channel.cfgflag) with
    | none => rfl
    | some a =>
      have hp := List.find?_some hf
      have hm := List.mem_of_find?_eq_some hf
      have : as.any (fun a => a.ch == Channel.cfgflag) = true := by
        rw [List.any_eq_true]; exact ⟨a, hm, by simp_all⟩
      simp [this] at hno
  simp [fromFiles, h0, hno, h]

/-- … ./config.ini beats the user directory … -/
theorem cwdini_before_userini (as : List Assign) (s : String) (t : Tag)
    (h1 : lookup as s .cfgflag = none) (h2 : lookup as s .cfgenv = none)
    (h : lookup as s .cwdini = some t) : fromFiles as s = some t := by
  simp [fromFiles, h1, h2, h]

/-- … and the user directory is used when nothing else has the key. -/
theorem userini_last (as : List Assign) (s : String)
    (h1 : lookup as s .cfgflag = none) (h2 : lookup as s .cfgenv = none)
    (h3 : lookup as s .cwdini = none) : fromFiles as s = lookup as s .userini := by
  simp [fromFiles, h1, h2, h3]

/-- with nothing given, the default applies -/
theorem nothing_given_default (s : String) : effective [] s = .ok .dflt := by
  simp [effective, lookup, fromFiles]

/-- **Invalid values fail closed**: a malformed value in the channel that would win stops start-up
    instead of falling back to another channel or to the default … -/
theorem invalid_flag_stops (as : List Assign) (s : String) (hf : lookup as s .flag = some .X) :
    effective as s = .error () := by
  unfold effective
  split
  · rfl
  · simp [hf]

theorem invalid_file_stops (as : List Assign) (s : String) (hf : lookup as s .flag = none)
    (hfile : fromFiles as s = some .X) : effective as s = .error () := by
  unfold effective
  split
  · rfl
  · simp [hf, hfile]

/-- … and a malformed environment variable stops start-up even when a flag overrides it. -/
theorem invalid_env_stops (as : List Assign) (s : String) (he : lookup as s .env = some .X) :
    effective as s = .error () := by
  simp [effective, he]

/-- one failing setting is enough to stop start-up -/
theorem any_invalid_stops_startup (as : List Assign) (s : String) (hs : s ∈ settings)
    (he : effective as s = .error ()) : effectiveAll as = .error () := by
  unfold effectiveAll
  have : ∀ (l : List String), s ∈ l → (l.mapM (fun s => (effective as s).map (fun e => (s, e)))) = .error () := by
    intro l
    induction l with
    | nil => intro h; simp at h
    | cons x rest ih =>
      intro h
      simp only [List.mapM_cons]
      rcases List.mem_cons.mp h with rfl | h'
      · simp [he, Except.map, bind, Except.bind]
      · cases hx : effective as x with
        | error e => simp [Except.map, bind, Except.bind]
        | ok v =>
          have := ih h'
          simp only [Except.map, bind, Except.bind] at this ⊢
          rw [this]
  exact this settings hs

/-- non-vacuity: the README's example — whitelist in the file, overridden by a flag -/
example : effective [⟨"client-whitelist", .cwdini, .A⟩, ⟨"client-whitelist", .flag, .B⟩, ⟨"max-clients", .env, .A⟩] "client-whitelist"
    = .ok (.val .B) ∧
    effective [⟨"client-whitelist", .cwdini, .A⟩, ⟨"max-clients", .env, .A⟩] "max-clients" = .ok (.val .A) := by
  constructor <;> simp [effective, lookup, fromFiles]

end Ps3.Props.C19
