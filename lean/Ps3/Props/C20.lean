/-
  C20 — Offline tools: make-iso and decrypt outputs are exact and never clobber files.
-/
import Ps3.Model.Tools
import Ps3.Proof.Viso
import Ps3.Proof.Crypt
import Ps3.Props.C10
import Ps3.Proof.BuildWF
namespace Ps3.Props.C20
open Ps3 Ps3.Tools Ps3.Viso Ps3.Spec.Viso Ps3.Crypt Ps3.Proof.Slice

/-- A copy loop over a source that behaves like one fixed byte string `img` (reads are slices)
    writes exactly `img[off:]` clipped to what the chunks ask for — for every schedule of chunk sizes. -/
theorem copy_is_slice (img : Bytes) (off : Nat) (cs : List Nat) (h : off + cs.sum ≤ img.length) :
    copyChunks (slice img) off cs = slice img off cs.sum := by
  induction cs generalizing off with
  | nil => simp [copyChunks, slice_zero_len]
  | cons c cs ih =>
    simp only [copyChunks, List.sum_cons] at *
    have hl : (slice img off c).length = c := by rw [slice_length]; omega
    rw [hl, ih (off + c) (by omega), slice_add]

/-- make-iso writes exactly the image the server announces and serves: copying a well-formed image
    from offset 0 with any chunk sizes adding up to its size yields the canonical byte string. -/
theorem makeiso_eq_view (img : Image) (cf : Nat → Content) (h : WF img cf) (cs : List Nat)
    (hs : cs.sum = img.totalSize) :
    copyChunks (img.read cf) 0 cs = flat img cf := by
  have hrd : img.read cf = slice (flat img cf) := by
    funext off n; exact Proof.Viso.read_eq_slice img cf h off n
  have hlen := Proof.Viso.flat_length img cf h
  rw [hrd, copy_is_slice _ 0 cs (by omega), hs, ← hlen]
  exact slice_zero_all _ _ (Nat.le_refl _)

/-- Unconditionally: for every tree make-iso's output (any chunking of the copy) is the canonical
    byte string of the image the server would announce and serve for that tree. -/
theorem makeiso_built (w : World) (root : Path) (ps3 : Bool) (clk : Clock) (filler : Bytes) (img : Image)
    (h : build w root ps3 clk filler = some img) (cs : List Nat) (hs : cs.sum = img.totalSize) :
    copyChunks (img.read (Proof.BuildWF.cfOf w)) 0 cs = flat img (Proof.BuildWF.cfOf w) :=
  makeiso_eq_view img _ (Proof.BuildWF.build_wf w root ps3 clk filler img h) cs hs

/-- decrypt writes exactly the reference plaintext with the region table blanked: for a table of
    `h` header bytes the whole-file read is `h` zeros followed by the plaintext from `h` on. -/
theorem decrypt_eq_plain {D : Nat → Bytes → Bytes} {rd : Nat → Nat → Bytes} {size : Nat}
    (E : Proof.Crypt.Env D rd size) (gs : List Region) (h : Nat) (hh : h ≤ size) (hpos : 0 < h) :
    readDec D gs rd size h 0 size = zeros h ++ (Proof.Crypt.plainAll D gs rd size).drop h := by
  have hall := Proof.Crypt.plainAll_length E gs
  have h0 : readDec D gs rd size 0 0 size = Proof.Crypt.plainAll D gs rd size := by
    rw [Proof.Crypt.readDec_eq_slice E gs 0 size]
    exact slice_zero_all _ _ (by omega)
  rw [Props.C10.clear_header, h0, hall]
  simp only [hpos, if_true, Nat.sub_zero]
  congr 2
  omega

/-- After `decrypt 3k3y` the watermark area is zero, so the output is no longer recognised as a
    3k3y image: placed under a served root it is passed through without a second transformation. -/
theorem masked_output_not_3k3y (rd : Nat → Nat → Bytes)
    (hz : (rd maskBegin Gen.fs__3k3yMaskedDataSize).take 16 = zeros 16) : test3k3y rd = .no := by
  unfold test3k3y
  simp only [hz]
  split
  · rfl
  · have h1 : (zeros 16 == Gen.fs__3k3yEncWatermark.map UInt8.ofNat) = false := by decide
    have h2 : (zeros 16 == Gen.fs__3k3yDecWatermark.map UInt8.ofNat) = false := by decide
    simp [h1, h2]

/-- Neither tool ever opens an already existing output path: it is refused before any open
    (the window between the existence test and the open is the operating system's, not the model's). -/
theorem output_never_clobbers (path : Bytes) : outputDecision path true ≠ .create := by
  unfold outputDecision
  split
  · simp
  · simp

/-- "-" means standard output, whatever exists on disc; a new path is created. -/
theorem output_dash_is_stdout (e : Bool) : outputDecision [45] e = .stdout := by simp [outputDecision]
theorem output_new_is_created (path : Bytes) (h : path ≠ [45]) : outputDecision path false = .create := by
  simp [outputDecision, h]

end Ps3.Props.C20
