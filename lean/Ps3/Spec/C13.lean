/-
  Spec for C13's "I/O faults never produce wrong data": the judgement of what a client may observe
  when ONE filesystem fault is injected into a session whose fault-free observation is `base`.
  Imports Base + generated opcodes only.
-/
import Ps3.Base.Bytes
import Ps3.Gen.Facts
namespace Ps3.Spec.C13
open Ps3

inductive Tok where
  | resp (b : Bytes)        -- a complete response
  | closed (b : Bytes)      -- the connection was closed after these bytes
  | timeout (b : Bytes)     -- the client gave up waiting
deriving Repr, DecidableEq

def Tok.bytes : Tok → Bytes
  | .resp b | .closed b | .timeout b => b

def neg (w : Nat) : Bytes := List.replicate w 0xff

/-- the protocol's failure answer for an opcode, where it has one -/
def failureResp (op : Nat) : Option Bytes :=
  if op == Gen.proto_CmdOpenDir || op == Gen.proto_CmdCreateFile || op == Gen.proto_CmdWriteFile ||
     op == Gen.proto_CmdDeleteFile || op == Gen.proto_CmdMkdir || op == Gen.proto_CmdRmdir then some (neg 4)
  else if op == Gen.proto_CmdOpenFile then some (neg 8 ++ zeros 8)
  else if op == Gen.proto_CmdStatFile then some (neg 8 ++ zeros 25)
  else if op == Gen.proto_CmdGetDirSize then some (neg 8)
  else if op == Gen.proto_CmdReadDirEntry then some (neg 8 ++ zeros 3)
  else if op == Gen.proto_CmdReadDirEntryV2 then some (neg 8 ++ zeros 27)
  else if op == Gen.proto_CmdReadDir then some (zeros 8)
  else if op == Gen.proto_CmdReadFile then some (neg 4)
  else none

def records (b : Bytes) : List Bytes :=
  let body := b.drop 8
  (List.range (body.length / 529)).map (fun i => slice body (i * 529) 529)

/-- a listing under a fault may lack entries (a failing Stat skips the entry) but never invents or alters one -/
def subListing (got base : Bytes) : Bool :=
  got.length ≥ 8 && (got.length - 8) % 529 == 0 && fromBE (got.take 8) == (records got).length &&
  (records got).all (fun r => (records base).contains r)

/-- (size, is-directory, name) of an entry-by-entry answer in either format; none for the end marker / malformed -/
def entryKey (op : Nat) (b : Bytes) : Option (Nat × Nat × Bytes) :=
  if op == Gen.proto_CmdReadDirEntry then
    if b.length < 11 || b.take 8 == neg 8 then none
    else if fromBE (slice b 8 2) + 11 != b.length then none
    else some (fromBE (b.take 8), fromBE (slice b 10 1), b.drop 11)
  else if op == Gen.proto_CmdReadDirEntryV2 then
    if b.length < 35 || b.take 8 == neg 8 then none
    else if fromBE (slice b 32 2) + 35 != b.length then none
    else some (fromBE (b.take 8), fromBE (slice b 34 1), b.drop 35)
  else none

/-- an entry answered under a fault must be a true entry of the directory: one that the fault-free
    enumeration also reports (a failing Stat makes the enumeration skip an entry, never invent one) -/
def knownEntry (op : Nat) (b : Bytes) (ops : List Nat) (allBase : List Tok) : Bool :=
  match entryKey op b with
  | none => false
  | some k => (ops.zip allBase).any (fun (o, t) => entryKey o t.bytes == some k)

/-- a single deviating response is acceptable when it is the failure code, a correct prefix followed
    by disconnection, or still-correct (possibly incomplete, never altered) listing data. A directory
    size has no "incomplete but correct" form: a smaller total reported as success is wrong data. -/
def allowedDeviation (op : Nat) (base got : Tok) (ops : List Nat) (allBase : List Tok) : Bool :=
  match got with
  | .timeout _ => false
  | .closed b => b.isPrefixOf base.bytes
  | .resp b =>
    failureResp op == some b ||
    (op == Gen.proto_CmdReadDir && subListing b base.bytes) ||
    knownEntry op b ops allBase

inductive Verdict where
  | ok
  | bad (idx : Nat) (why : String)
deriving Repr, DecidableEq

/-- walk both observation lists up to the first deviation -/
def judgeFrom (shortRead : Bool) (allOps : List Nat) (allBase : List Tok) : Nat → List Nat → List Tok → List Tok → Verdict
  | _, _, _, [] => .ok          -- (early end is only legal after a `closed` token, checked below)
  | i, op :: ops, b :: bs, g :: gs =>
    if g == b then
      match g with
      | .resp _ => judgeFrom shortRead allOps allBase (i + 1) ops bs gs
      | _ => if gs.isEmpty then .ok else .bad i "tokens after the connection ended"
    else if shortRead then .bad i "a short read changed what the client sees"
    else if !allowedDeviation op b g allOps allBase then .bad i "neither the failure code, nor a correct prefix + close, nor still-correct data"
    else
      match g with
      | .closed _ => if gs.isEmpty then .ok else .bad i "tokens after the connection ended"
      | _ =>
        -- after one legitimate deviation the session state has diverged; one thing is still known:
        -- an OPEN_FILE answered with the failure code has opened nothing, so a read that follows
        -- it directly must not deliver data
        if op == Gen.proto_CmdOpenFile && failureResp op == some g.bytes then
          match ops, gs with
          | op2 :: _, g2 :: _ =>
            if op2 == Gen.proto_CmdReadFile then
              (if g2 == .resp (neg 4) then .ok else .bad (i + 1) "data served from a file whose OPEN_FILE was answered with the failure code")
            else if op2 == Gen.proto_CmdReadFileCritical || op2 == Gen.proto_CmdReadCD2048Critical then
              (if g2.bytes.isEmpty then .ok else .bad (i + 1) "data served from a file whose OPEN_FILE was answered with the failure code")
            else .ok
          | _, _ => .ok
        else .ok
  | i, _, _, _ => .bad i "more responses than requests"

/-- the whole judgement: handles released, server alive, responses acceptable, session complete -/
def judge (ops : List Nat) (shortRead : Bool) (base got : List Tok) (leak : Nat) (alive : Bool) (gotEnded : Bool) : Verdict :=
  if leak != 0 then .bad 0 "a handle was not released"
  else if !alive then .bad 0 "the server stopped serving new connections"
  else match judgeFrom shortRead ops base 0 ops base got with
    | .bad i w => .bad i w
    | .ok =>
      -- an observation shorter than the request list must end with a closed connection,
      -- or follow a legitimate deviation (then the harness stops comparing)
      if got.length < base.length ∧ !gotEnded ∧ (got.getLast?.map (fun t => match t with | .closed _ => true | _ => false)) != some true
      then .bad got.length "the session stopped without the connection being closed" else .ok

/-- … and however the session went, once the client has finished (half-closed its side) the server must
    end the connection: `endHung` = the client waited for that in vain ("however a connection ends … its
    goroutine ends") -/
def judgeEnd (endHung : Bool) (ops : List Nat) (shortRead : Bool) (base got : List Tok) (leak : Nat) (alive : Bool)
    (gotEnded : Bool) : Verdict :=
  if endHung then .bad got.length "the server did not end the connection after the client had finished"
  else judge ops shortRead base got leak alive gotEnded

end Ps3.Spec.C13
