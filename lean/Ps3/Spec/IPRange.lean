/-
  Spec for C14: what a range specification *denotes*, over naturals below 2^128
  (IPv4 embedded at ::ffff:a.b.c.d). Imports Base only.
-/
import Ps3.Base.Bytes
namespace Ps3.Spec.IPRange
open Ps3

/-- the 128-bit number of a 16-byte address -/
def addrNat (ip16 : Bytes) : Nat := fromBE ip16

/-- offset of the IPv4 space inside the 128-bit space -/
def v4Base : Nat := 0xffff * 2 ^ 32

/-- documented set of a single address -/
def single (a : Nat) (x : Nat) : Prop := x = a

/-- documented set of an inclusive range -/
def range (a b : Nat) (x : Nat) : Prop := a ≤ x ∧ x ≤ b

/-- documented set of a CIDR / netmask block with `h` host bits around address `a`:
    the aligned block of 2^h addresses, minus network and broadcast address unless h ≤ 1 -/
def block (a h : Nat) (x : Nat) : Prop :=
  let net := a / 2 ^ h * 2 ^ h
  let bcast := net + 2 ^ h - 1
  net ≤ x ∧ x ≤ bcast ∧ (2 ≤ h → x ≠ net ∧ x ≠ bcast)

end Ps3.Spec.IPRange
