/-
  Spec: how an ISO 9660 reader walks a directory extent (ECMA-119 6.8.1, 9.1) — independent of how the
  generator writes it. Used by the round-trip theorem decode ∘ encode = id (Proof/IsoDir.lean).
-/
import Ps3.Model.Viso
namespace Ps3.Spec.IsoDir
open Ps3 Ps3.Viso

/-- what a reader takes from one directory record: length byte, both-endian location and data length
    (the little-endian halves are read), 7-byte time, flags, identifier -/
def parseRec (b : Bytes) : Option DirRec :=
  match b with
  | [] => none
  | l :: _ =>
    let identLen := (b[32]?.map (·.toNat)).getD 0
    if l.toNat < 34 ∨ b.length < l.toNat ∨ l.toNat < 33 + identLen then none
    else some ⟨fromLE (slice b 2 4), fromLE (slice b 10 4), slice b 18 7, (b[25]?.map (·.toNat)).getD 0, slice b 33 identLen⟩

/-- walk a directory extent: a zero length byte means "nothing more in this sector" -/
def decodeRecsAux : Nat → Nat → Bytes → List DirRec
  | 0, _, _ => []
  | fuel + 1, pos, rest =>
    match rest with
    | [] => []
    | l :: _ =>
      if l.toNat = 0 then
        let skip := sectorSize - pos % sectorSize
        decodeRecsAux fuel (pos + skip) (rest.drop skip)
      else
        match parseRec rest with
        | none => []
        | some r => r :: decodeRecsAux fuel (pos + l.toNat) (rest.drop l.toNat)

def decodeRecs (b : Bytes) : List DirRec := decodeRecsAux (b.length + 2) 0 b

/-- the fields a record can carry without loss -/
structure RecOk (r : DirRec) : Prop where
  time : r.time.length = 7
  ident : r.ident.length ≤ 221
  loc : r.extLoc < 2 ^ 32
  len : r.extLen < 2 ^ 32
  flags : r.flags < 256

/-! ### path tables -/

/-- one path table record as a reader takes it (ECMA-119 9.4), `big` = type M table -/
def parsePt (b : Bytes) (big : Bool) : Option (PtEntry × Nat) :=
  match b with
  | [] => none
  | l :: _ =>
    let n := l.toNat
    let total := 8 + n + n % 2
    if n = 0 ∨ b.length < total then none
    else some (⟨if big then fromBE (slice b 2 4) else fromLE (slice b 2 4),
                if big then fromBE (slice b 6 2) else fromLE (slice b 6 2), slice b 8 n⟩, total)

/-- read a path table of `size` bytes (the size comes from the volume descriptor) -/
def decodePtAux : Nat → Bytes → Bool → List PtEntry
  | 0, _, _ => []
  | fuel + 1, b, big =>
    match parsePt b big with
    | none => []
    | some (e, n) => e :: decodePtAux fuel (b.drop n) big

def decodePt (b : Bytes) (size : Nat) (big : Bool) : List PtEntry := decodePtAux (size + 1) (b.take size) big

structure PtOk (e : PtEntry) : Prop where
  ident : 1 ≤ e.ident.length ∧ e.ident.length ≤ 255
  loc : e.loc < 2 ^ 32
  parent : e.parent < 2 ^ 16


end Ps3.Spec.IsoDir
