/-
  Spec: what an independent ISO 9660 reader finds in an image given only as a byte string — written
  from ECMA-119 (8.4.18 root directory record at byte 156 of a volume descriptor, 6.8 directory
  extents, 9.1.6 file flags: bit 1 = directory, bit 7 = "not the final extent of the file"), not from
  the generator. Used by the end-to-end theorems of C07 (Props/C07b.lean).
-/
import Ps3.Spec.IsoDir
namespace Ps3.Spec.IsoTree
open Ps3 Ps3.Viso Ps3.Spec.IsoDir

/-- the root directory record of the primary (sector 16) or supplementary (sector 17) descriptor -/
def rootRecord (b : Bytes) (joliet : Bool) : Option DirRec :=
  parseRec (slice b ((if joliet then 17 else 16) * sectorSize + 156) 34)

/-- the entries of the directory whose extent starts at sector `loc` and is `len` bytes long:
    every record after the first two ('.' and '..') -/
def entries (b : Bytes) (loc len : Nat) : List DirRec := (decodeRecs (slice b (loc * sectorSize) len)).drop 2

def isDirRec (r : DirRec) : Bool := r.flags / 2 % 2 == 1
def isMulti (r : DirRec) : Bool := r.flags / 128 % 2 == 1

/-- the bytes of one extent -/
def extentBytes (b : Bytes) (r : DirRec) : Bytes := slice b (r.extLoc * sectorSize) r.extLen

/-- **directories a reader reaches** from the root extent by following directory entries:
    the path of identifiers, and where the directory is -/
inductive ReadsDir (b : Bytes) (rootLoc rootLen : Nat) : List Bytes → Nat → Nat → Prop
  | root : ReadsDir b rootLoc rootLen [] rootLoc rootLen
  | child (ids : List Bytes) (loc len : Nat) (r : DirRec) :
      ReadsDir b rootLoc rootLen ids loc len → r ∈ entries b loc len → isDirRec r = true →
      ReadsDir b rootLoc rootLen (ids ++ [r.ident]) r.extLoc r.extLen

/-- **files of one directory as a reader assembles them**: records flagged multi-extent are continued
    by the next record; the file's bytes are its extents' bytes in order. `acc` = bytes collected so far
    for the file being assembled. -/
def assemble (b : Bytes) : List DirRec → Bytes → List (Bytes × Bytes)
  | [], _ => []
  | r :: rest, acc =>
    if isDirRec r then assemble b rest []
    else if isMulti r then assemble b rest (acc ++ extentBytes b r)
    else (r.ident, acc ++ extentBytes b r) :: assemble b rest []

/-- (identifier, content) of every file of the directory at (`loc`, `len`) -/
def filesOf (b : Bytes) (loc len : Nat) : List (Bytes × Bytes) := assemble b (entries b loc len) []

/-- identifiers of the sub-directories of the directory at (`loc`, `len`) -/
def subdirsOf (b : Bytes) (loc len : Nat) : List Bytes := ((entries b loc len).filter isDirRec).map (·.ident)

/-! ### the reader as a program (driver only): a canonical listing of one hierarchy

  Used to tie this reader to an independently written one: the harness's Go ISO 9660 reader prints the
  same listing for the image the real code generated; the two digests are compared on every explored tree. -/

/-- what `assemble` collects, with sizes in place of contents: (is a directory, identifier, total size) -/
def shape : List DirRec → Nat → List (Bool × Bytes × Nat)
  | [], _ => []
  | r :: rest, acc =>
    if isDirRec r then (true, r.ident, 0) :: shape rest 0
    else if isMulti r then shape rest (acc + r.extLen)
    else (false, r.ident, acc + r.extLen) :: shape rest 0

def entryLine (e : Bool × Bytes × Nat) : String :=
  if e.1 then "S" ++ toHex e.2.1 ++ "\n" else "F" ++ toHex e.2.1 ++ ":" ++ toString e.2.2 ++ "\n"

/-- depth-first, directories in record order -/
def listing (b : Bytes) : Nat → List Bytes → Nat → Nat → List String
  | 0, _, _, _ => ["FUEL\n"]
  | fuel + 1, ids, loc, len =>
    let es := entries b loc len
    ("D" ++ String.join (ids.map (fun i => "/" ++ toHex i)) ++ "\n" ++ String.join ((shape es 0).map entryLine)) ::
      ((es.filter isDirRec).map (fun r => listing b fuel (ids ++ [r.ident]) r.extLoc r.extLen)).flatten

/-- the listing of one hierarchy of an image, starting from its volume descriptor -/
def listingOf (b : Bytes) (joliet : Bool) : String :=
  match rootRecord b joliet with
  | none => "NOROOT"
  | some r => String.join (listing b 64 [] r.extLoc r.extLen)

end Ps3.Spec.IsoTree
