/-
  Spec of the wire grammar as the protocol documents it (fixed offsets, big-endian), written
  independently of the generated layouts. Imports Base only.
-/
import Ps3.Base.Bytes
namespace Ps3.Spec.Proto
open Ps3

/-- 16-byte command carrying a path: opcode, path length, 12 pad bytes; the path follows -/
def encPathReq (op : Nat) (p : Bytes) : Bytes := beN 2 op ++ (beN 2 p.length ++ (zeros 12 ++ p))

/-- read commands: opcode, 2 pad bytes, 32-bit count, 64-bit offset -/
def encReadReq (op limit off : Nat) : Bytes := beN 2 op ++ (zeros 2 ++ (beN 4 limit ++ beN 8 off))

/-- CD sector read: opcode, 2 pad bytes, 32-bit start sector, 32-bit sector count, 4 pad bytes -/
def encReadCDReq (op start count : Nat) : Bytes := beN 2 op ++ (zeros 2 ++ (beN 4 start ++ (beN 4 count ++ zeros 4)))

/-- write: opcode, 2 pad bytes, 32-bit payload length, 8 pad bytes; the payload follows -/
def encWriteReq (op : Nat) (payload : Bytes) : Bytes :=
  beN 2 op ++ (zeros 2 ++ (beN 4 payload.length ++ (zeros 8 ++ payload)))

/-- commands without arguments -/
def encBareReq (op : Nat) : Bytes := beN 2 op ++ zeros 14

end Ps3.Spec.Proto
