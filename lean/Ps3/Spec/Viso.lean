/-
  Spec for C09/C07: a generated image is ONE fixed byte string —
  metadata ++ every non-empty file's content padded with zeros to a sector ++ the zero pad area.
-/
import Ps3.Model.Viso
namespace Ps3.Spec.Viso
open Ps3 Ps3.Viso

def padded (f : FileExt) : Nat := sectors f.size * sectorSize

/-- the bytes a file occupies in the image: its content, then zeros up to the sector boundary -/
def fileBytes (cf : Nat → Content) (f : FileExt) : Bytes := (cf f.ino).read 0 f.size ++ zeros (padded f - f.size)

def flatFiles (cf : Nat → Content) (fs : List FileExt) : Bytes := (fs.map (fileBytes cf)).flatten

/-- the canonical image -/
def flat (img : Image) (cf : Nat → Content) : Bytes :=
  img.fsBuf ++ (flatFiles cf img.files ++ zeros img.padAreaSize)

/-- files laid out back to back starting at byte `start` -/
def Consec : Nat → List FileExt → Prop
  | _, [] => True
  | start, f :: rest => f.lba * sectorSize = start ∧ Consec (start + padded f) rest

/-- what `build` establishes about the layout -/
structure WF (img : Image) (cf : Nat → Content) : Prop where
  consec : Consec img.fsBuf.length img.files
  sizes : ∀ f ∈ img.files, (cf f.ino).size = f.size
  padStart : img.padAreaStart = img.fsBuf.length + (img.files.map padded).sum
  total : img.totalSize = img.padAreaStart + img.padAreaSize
  aligned : img.fsBuf.length % sectorSize = 0

end Ps3.Spec.Viso

namespace Ps3.Spec.Viso
open Ps3 Ps3.Viso

/-- executable check of `Consec` -/
def consecB : Nat → List FileExt → Bool
  | _, [] => true
  | start, f :: rest => f.lba * sectorSize == start && consecB (start + padded f) rest

theorem consecB_sound : ∀ (fs : List FileExt) (start : Nat), consecB start fs = true → Consec start fs := by
  intro fs
  induction fs with
  | nil => intro _ _; trivial
  | cons f rest ih =>
    intro start h
    simp only [consecB, Bool.and_eq_true, beq_iff_eq] at h
    exact ⟨h.1, ih _ h.2⟩

/-- executable check of the well-formedness the read theorem needs -/
def wfB (img : Image) (cf : Nat → Content) : Bool :=
  consecB img.fsBuf.length img.files &&
  img.files.all (fun f => (cf f.ino).size == f.size) &&
  img.padAreaStart == img.fsBuf.length + (img.files.map padded).sum &&
  img.totalSize == img.padAreaStart + img.padAreaSize &&
  img.fsBuf.length % sectorSize == 0

theorem wfB_sound (img : Image) (cf : Nat → Content) (h : wfB img cf = true) : WF img cf := by
  simp only [wfB, Bool.and_eq_true, beq_iff_eq, List.all_eq_true] at h
  obtain ⟨⟨⟨⟨h1, h2⟩, h3⟩, h4⟩, h5⟩ := h
  exact ⟨consecB_sound _ _ h1, h2, h3, h4, h5⟩

end Ps3.Spec.Viso
