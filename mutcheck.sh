#!/bin/bash
# dev helper: apply a patch to /repo's working tree, run the given checks, restore.
# usage: ./mutcheck.sh <patch> C01 C02 ...
patch=$1; shift
cd /repo && git diff --quiet || { echo "repo dirty"; exit 2; }
# a patch written against an older /repo: fall back to a 3-way merge on the recorded blob ids
git -C /repo apply "$patch" 2>/dev/null || git -C /repo apply --3way "$patch" >/dev/null 2>&1 || { git -C /repo checkout -q -- . ; git -C /repo reset -q --hard; echo "cannot apply"; exit 2; }
git -C /repo diff --name-only --diff-filter=U | grep -q . && { git -C /repo reset -q --hard; echo "cannot apply (conflict)"; exit 2; }
git -C /repo reset -q   # 3-way leaves the result staged
(cd /repo && GOFLAGS=-mod=mod GOPROXY=off GOSUMDB=off GOTOOLCHAIN=local go build ./... ) || echo "BUILD FAILS"
for p in "$@"; do (cd /verif && ./check $p | tail -2); done
git -C /repo checkout -- .
# the runs above rewrote evidence/ from a MODIFIED tree: put the committed (clean-tree) evidence back
git -C /verif checkout -- evidence
