#!/bin/bash
# dev helper: apply a patch to the repository's working tree, run the given checks, restore.
# usage: ./mutcheck.sh <patch (absolute path)> C01 C02 ...
# Works on /repo and this directory; in a `vp run --with-repo` snapshot it works on $VP_RUN_REPO / VERIF_REPO
# and on the snapshot's own checks (so it neither disturbs nor is disturbed by work in /verif and /repo).
patch=$1; shift
V=$(cd "$(dirname "$0")" && pwd)
R=${VERIF_REPO:-${VP_RUN_REPO:-/repo}}
export VERIF_REPO=$R
cd $R && git diff --quiet || { echo "repo dirty"; exit 2; }
# a patch written against an older tree: fall back to a 3-way merge on the recorded blob ids
git -C $R apply "$patch" 2>/dev/null || git -C $R apply --3way "$patch" >/dev/null 2>&1 || { git -C $R checkout -q -- . ; git -C $R reset -q --hard; echo "cannot apply"; exit 2; }
git -C $R diff --name-only --diff-filter=U | grep -q . && { git -C $R reset -q --hard; echo "cannot apply (conflict)"; exit 2; }
git -C $R reset -q   # 3-way leaves the result staged
(cd $R && GOFLAGS=-mod=mod GOPROXY=off GOSUMDB=off GOTOOLCHAIN=local go build ./... ) || echo "BUILD FAILS"
for p in "$@"; do (cd $V && ./check $p | tail -2); done
git -C $R checkout -- .
git -C $R clean -fdq -- cmd pkg internal
# the runs above rewrote evidence/ from a MODIFIED tree: put the committed (clean-tree) evidence back
git -C $V checkout -- evidence
