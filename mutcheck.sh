#!/bin/bash
# dev helper: apply a patch to /repo's working tree, run the given checks, restore.
# usage: ./mutcheck.sh <patch> C01 C02 ...
patch=$1; shift
cd /repo && git diff --quiet || { echo "repo dirty"; exit 2; }
git -C /repo apply "$patch" || { echo "cannot apply"; exit 2; }
(cd /repo && GOFLAGS=-mod=mod GOPROXY=off GOSUMDB=off GOTOOLCHAIN=local go build ./... ) || echo "BUILD FAILS"
for p in "$@"; do (cd /verif && ./check $p | tail -2); done
git -C /repo checkout -- .
# the runs above rewrote evidence/ from a MODIFIED tree: put the committed (clean-tree) evidence back
git -C /verif checkout -- evidence
