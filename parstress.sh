#!/bin/bash
# dev helper: all quick checks at once (as a harness running them in parallel would), several seeds; prints whatever is not OK
for s in "$@"; do
  mkdir -p /tmp/par; rm -f /tmp/par/*.log
  for p in $(python3 -c "import checkcfg; print(' '.join(sorted(checkcfg.PROPS)))"); do VERIF_SEED=$s ./check $p > /tmp/par/$p.log 2>&1 & done
  wait
  echo "seed $s not-ok: $(grep -L '^OK' /tmp/par/*.log | tr '\n' ' ')"
  tail -qn1 /tmp/par/*.log | grep -v "^OK"
done
