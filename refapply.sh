#!/bin/bash
# dev helper: apply harmless/<name>.diff to /repo, run every check (quick), restore. usage: ./refapply.sh <abs-or-rel diff> [Cnn...]
patch=$(realpath $1); shift
cd /repo && git diff --quiet || { echo "repo dirty"; exit 2; }
git -C /repo apply $patch || { echo "cannot apply"; exit 2; }
props=${@:-$(cd /verif && python3 -c "import checkcfg; print(' '.join(sorted(checkcfg.PROPS)))")}
for p in $props; do
  out=$(cd /verif && ./check $p 2>&1 | grep -E "^(VIOLATION|OK|KNOWN)")
  echo "$out" | grep -q "^OK" && ! echo "$out" | grep -q VIOLATION || echo "$p: $out"
done
git -C /repo checkout -- . ; git -C /repo clean -fdq -- cmd pkg internal
echo "refapply done"
# the runs above rewrote evidence/ from a MODIFIED tree: put the committed (clean-tree) evidence back
git -C /verif checkout -- evidence
