#!/bin/bash
# dev helper: apply a (supposedly behaviour-preserving) change from a scratch worktree to /repo, run EVERY check
# (quick tier), restore. Any VIOLATION line here is a false alarm to be analysed.
# usage: ./refcheck.sh <worktree> [Cnn ...]
wt=$1; shift
cd /repo && git diff --quiet || { echo "repo dirty"; exit 2; }
(cd $wt && git add -N $(git ls-files --others --exclude-standard | grep '\.go$' | grep -v _test.go) 2>/dev/null; git diff -- $(git diff --name-only | grep -v _test.go)) > /tmp/refcheck.patch
git -C /repo apply /tmp/refcheck.patch || { echo "cannot apply"; exit 2; }
(cd /repo && GOFLAGS=-mod=mod GOPROXY=off GOSUMDB=off GOTOOLCHAIN=local go build ./... ) || echo "BUILD FAILS"
props=${@:-$(cd /verif && python3 -c "import checkcfg; print(' '.join(sorted(checkcfg.PROPS)))")}
for p in $props; do
  out=$(cd /verif && ./check $p 2>&1 | grep -E "^(VIOLATION|OK|KNOWN)")
  echo "$out" | grep -q "^OK" && ! echo "$out" | grep -q VIOLATION || echo "$p: $out"
done
git -C /repo checkout -- . ; git -C /repo clean -fdq -- cmd pkg internal
echo "refcheck done: $(wc -l < /tmp/refcheck.patch) patch lines"
# the runs above rewrote evidence/ from a MODIFIED tree: put the committed (clean-tree) evidence back
git -C /verif checkout -- evidence
