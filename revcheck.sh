#!/bin/bash
# dev helper: temporarily reverts one fix commit of /repo in the working tree, runs the given checks, restores.
# usage: ./revcheck.sh <sha> C01 C02 ...
sha=$1; shift
cd /repo && git diff --quiet || { echo "repo dirty"; exit 2; }
git -C /repo show $sha | git -C /repo apply -R || { echo "cannot revert"; exit 2; }
echo "== reverted: $(git -C /repo log --format=%s -1 $sha)"
for p in "$@"; do (cd /verif && ./check $p | tail -3); done
git -C /repo checkout -- .
# the runs above rewrote evidence/ from a MODIFIED tree: put the committed (clean-tree) evidence back
git -C /verif checkout -- evidence
