#!/bin/bash
# dev helper: confirm a sub-agent's mutant in its scratch worktree and file it under /verif/seeded/<id>/
# usage: ./seedkeep.sh <worktree> <seed-id> <property> "<needs>" <checks...>
wt=$1; id=$2; prop=$3; needs=$4; shift 4
export GOFLAGS=-mod=mod GOPROXY=off GOSUMDB=off GOTOOLCHAIN=local
cd $wt || exit 2
demo=$(git status --porcelain | grep '_test\.go$' | awk '{print $2}' | head -1)
[ -z "$demo" ] && { echo "no demo test found"; exit 2; }
pkg=./$(dirname $demo)
go build ./... || { echo "does not build"; exit 2; }
go test -vet=off -count=1 ./pkg/iprange/ ./pkg/kongini/ ./pkg/fs/ -run 'TestSFO|TestParseIPRange|TestINIBasic' >/tmp/seed-suite.log 2>&1 && suite=pass || suite=FAIL
go test -vet=off -count=1 $pkg -run 'Mut' >/tmp/seed-with.log 2>&1 && with=pass || with=fail
# (no git stash: the stash is shared by all worktrees of a repository, sub-agents use it concurrently)
srcs=$(git diff --name-only | grep -v _test.go)
git diff -- $srcs > /tmp/seedkeep-$id.diff
git checkout -q -- $srcs
go test -vet=off -count=1 $pkg -run 'Mut' >/tmp/seed-without.log 2>&1 && without=pass || without=fail
git apply /tmp/seedkeep-$id.diff && rm -f /tmp/seedkeep-$id.diff
echo "suite=$suite demo-with-mutant=$with demo-without=$without"
[ "$suite" = pass ] && [ "$with" = fail ] && [ "$without" = pass ] || { echo "NOT CONFIRMED"; exit 1; }
d=/verif/seeded/$id; mkdir -p $d
git diff -- $(git diff --name-only | grep -v _test.go) > $d/patch.diff
cp $demo $d/demo_test.go.txt
[ -f MUTANT.md ] && cp MUTANT.md $d/NOTES.md
results=""
for c in "$@"; do
  out=$(cd /verif && ./mutcheck.sh $d/patch.diff $c | tail -1)
  results="$results\"$c\": \"$(echo $out | cut -c1-160 | sed 's/"/\\"/g')\", "
done
cat > $d/meta.json <<J
{"seed": "$id", "property": "$prop", "demo_test_dir": "$(dirname $demo)",
 "needs": "$needs",
 "confirmed": {"builds": true, "existing_suite": "$suite", "demo_with_mutant": "$with", "demo_without_mutant": "$without",
               "commands": ["go build ./...", "go test -vet=off -count=1 ./pkg/iprange/ ./pkg/kongini/ ./pkg/fs/ -run 'TestSFO|TestParseIPRange|TestINIBasic'", "go test -vet=off -count=1 $pkg -run Mut (with, then with the source change stashed)"]},
 "checks": {${results%, }}}
J
cat $d/meta.json
