#!/bin/bash
# dev helper: apply every seeded change in turn and run the check of its property (quick tier);
# every one must be reported as a violation. Writes seeded/RESULTS.txt.
# In a snapshot: vp run --with-repo --timeout 3h -- bash -c './setup.sh >/dev/null 2>&1; ./seedregress.sh'
V=$(cd "$(dirname "$0")" && pwd)
export VERIF_REPO=${VERIF_REPO:-${VP_RUN_REPO:-/repo}}
cd $V
: > seeded/RESULTS.txt
for d in seeded/*/; do
  id=$(basename $d); prop=${id%%-*}
  out=$(./mutcheck.sh $V/$d/patch.diff $prop 2>&1 | grep -E "^(VIOLATION|OK|KNOWN|cannot)" | grep -v "^KNOWN" | head -1)
  echo "$id: ${out:-NO-OUTPUT}" | cut -c1-200 | tee -a seeded/RESULTS.txt
done
git -C $VERIF_REPO status --short | head -3
