#!/bin/bash
# dev helper: apply every seeded change in turn and run the check of its property (quick tier);
# every one must be reported as a violation. Writes seeded/RESULTS.txt.
cd /verif
: > seeded/RESULTS.txt
for d in seeded/*/; do
  id=$(basename $d); prop=${id%%-*}
  out=$(./mutcheck.sh /verif/$d/patch.diff $prop 2>&1 | grep -E "^(VIOLATION|OK|KNOWN)" | head -1)
  echo "$id: ${out:-NO-OUTPUT}" | cut -c1-200 | tee -a seeded/RESULTS.txt
done
git -C /repo status --short | head -3
