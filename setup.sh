#!/bin/bash
# Builds the framework from files on disk only (offline): fact extractor, Lean project + driver, Go harness.
set -e
cd "$(dirname "$0")"
export GOFLAGS=-mod=mod GOPROXY=off GOSUMDB=off GOTOOLCHAIN=local
mkdir -p .build evidence replays
(cd extract && go build -o ../.build/extract .)
.build/extract ${VERIF_REPO:-/repo} .build/Facts.lean.new .build/facts.json
mkdir -p lean/Ps3/Gen
cmp -s .build/Facts.lean.new lean/Ps3/Gen/Facts.lean || cp .build/Facts.lean.new lean/Ps3/Gen/Facts.lean
(cd lean && lake build Ps3 Driver vmodel)
./buildharness.sh
echo setup-ok
