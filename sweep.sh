#!/bin/bash
# dev helper: run every registered check for several seeds on the current tree, print anything that is not OK
# usage: ./sweep.sh [tier] seed...
tier=${1:-quick}; shift
for s in "$@"; do
  for p in $(python3 -c "import checkcfg; print(' '.join(sorted(checkcfg.PROPS)))"); do
    if [ "$tier" = thorough ]; then out=$(VERIF_SEED=$s ./check $p --tier thorough 2>&1 | tail -4); else out=$(VERIF_SEED=$s ./check $p 2>&1 | tail -4); fi
    echo "$out" | grep -q "^OK property=$p" && ! echo "$out" | grep -q VIOLATION || echo "seed=$s $p: $out"
  done
  echo "seed $s done"
done
