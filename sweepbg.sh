#!/bin/bash
# dev helper, to be started with:  vp run --with-repo --timeout 6h -- ./sweepbg.sh thorough 1 2
# Runs in a snapshot of /verif (own .build, own lake build) against the snapshot of /repo in $VP_RUN_REPO,
# so it neither disturbs nor is disturbed by work in /verif and /repo.
export VERIF_REPO=${VP_RUN_REPO:-/repo}
./setup.sh >/dev/null 2>&1 || { echo "setup failed"; exit 2; }
./sweep.sh "$@"
